import OptunaVerif.Model.Best
/-!
# C12 — the IR that `verif/translators/tbest.py` emits from the "best trial" code, and its interpreters
(core Lean only; linked into the driver).

`Generated/BestMethods.lean` is DATA of the types below (`prog : Prog`), regenerated from the source on every run:

* `violation`, `feasible`      — `constraints is not None and any([x > 0.0 …])` (`Study.best_trial`) and
                                 `constraints is not None and all(x <= 0.0 …)` (`_get_feasible_trials`): quantifier, operator, literal;
* `updateCache`                — `InMemoryStorage._update_cache` as a decision tree (early returns, the two comparisons);
* `memGet`, `baseGet`, `rdbGet`— `get_best_trial` of `InMemoryStorage`, `BaseStorage`, `RDBStorage` as decision trees whose leaves raise,
                                 return the cached id, pick with Python `max` / `min` over a pool, or run one of the two SQL queries;
* `findMax`, `findMin`         — `TrialModel.find_{max,min}_value_trial_id`: state filter and the `ORDER BY` terms (a `case` table over
                                 `value_type` and / or the value column, ASC / DESC);
* `study…`                     — `Study.best_trial`: multi-objective guard, constraints key, violation test, the pool of the fallback
                                 (`get_trials(states=…)` or the per-thread cache), its tree; `best_value`, `best_params`;
* `normalize`, `dominates`     — `_normalize_value`, `_dominates` as decision trees;
* `pareto`, `bestTrials…`      — `_get_pareto_front_trials_by_trials` as a list of stages, `Study.best_trials`' constraint probe;
* `front`, `frontSorted`, `front2d`, `frontNd` — `_is_pareto_front`, `_is_pareto_front_for_unique_sorted`, `_is_pareto_front_2d` (expressions over
                                 named numpy primitives) and `_is_pareto_front_nd` (one `while len(x):` loop of such assignments);
* `cacheCalls`                 — where `InMemoryStorage` calls `_update_cache` (inside the lock? after `_set_trial`? guard).

numpy calls are NAMED PRIMITIVES with list semantics (`NE.eval`): they are part of the trusted base (DESIGN / MANIFEST):
`a.shape[0]`, `len`, `a[:, k]`, `a[:, k:]`, `a[i]`, `a[1:]`, `a[:-1]`, `np.minimum.accumulate`, `np.ones/zeros/empty(n, dtype=bool)`, `np.arange`,
`<` (element-wise, a row broadcast against a matrix), `np.any(axis=1)`, boolean-mask indexing, integer-array indexing, `x[1:] = e`, `x[i] = True`,
`x[idx] = e`, `np.unique(axis=0, return_inverse=True)` (= duplicate-free lexicographic sorting + positions), `.reshape(-1)`,
`np.lexsort(a.T[::-1])`, `np.diff(axis=0)` (with `inf - inf = nan`), `!= c`, `np.cumsum`, `- k`.
Values are the NaN-free ordered extended reals `EVal` of `Model/Best.lean` (no floats).
-/
namespace OptunaVerif.BestIR
open OptunaVerif OptunaVerif.Best
open OptunaVerif.Generated.Best (Cmp)

/-! ## results -/

/-- outcome of a getter: a trial number, a raised `ValueError` / `RuntimeError`, or an exception the code is not meant to raise
(`IndexError`, `TypeError`, a failed `assert`) -/
inductive GRes where
  | ok (i : Nat) | raise (e : Err) | crash
deriving DecidableEq, Repr, Inhabited

def GRes.ofOpt : Option Nat → GRes
  | some i => .ok i
  | none => .raise .valueError

/-- a generic decision tree (`if / elif / else` with early returns, after symbolic execution) -/
inductive DT (C α : Type) where
  | leaf (a : α)
  | ite (c : C) (t e : DT C α)
deriving Repr, Inhabited

def DT.eval {C α : Type} (ev : C → Option Bool) : DT C α → Option α
  | .leaf a => some a
  | .ite c t e =>
    match ev c with
    | some true => t.eval ev
    | some false => e.eval ev
    | none => none

/-! ## constraint predicates -/

inductive Quant where
  | any | all
deriving DecidableEq, Repr, Inhabited

/-- `[constraints is not None and] any|all(x <cmp> <rhs> for x in constraints)` -/
structure ConsPred where
  guardNotNone : Bool
  quant : Quant
  cmp : Cmp
  rhs : Rat
deriving DecidableEq, Repr, Inhabited

def ConsPred.evalList (p : ConsPred) (cs : List XVal) : Bool :=
  match p.quant with
  | .any => cs.any (fun x => cmpX p.cmp x (.fin p.rhs))
  | .all => cs.all (fun x => cmpX p.cmp x (.fin p.rhs))

/-- `none` = `TypeError` (iterating over `None`) -/
def ConsPred.eval (p : ConsPred) : Option (List XVal) → Option Bool
  | some cs => some (p.evalList cs)
  | Option.none => if p.guardNotNone then some false else Option.none

/-- `system_attrs.get(key)` of the model's trial: only the key `"constraints"` is modelled -/
def consGet (key : String) (t : BTrial) : Option (List XVal) :=
  if key = "constraints" then t.cons.get else Option.none

/-! ## `InMemoryStorage._update_cache` -/

inductive UV where
  | bestValue | newValue
deriving DecidableEq, Repr, Inhabited

inductive UCond where
  | stateNe (code : Nat)        -- `trial.state != TrialState.X`
  | stateEq (code : Nat)
  | bestIdIsNone                -- `best_trial_id is None`
  | nDirsGt (n : Nat)           -- `len(_directions) > n`
  | bestValueIsNone             -- `best_trial.value is None`
  | newValueIsNone              -- negation of `assert trial.value is not None`
  | dirEq (isMax : Bool)        -- `direction == StudyDirection.MAXIMIZE` / `MINIMIZE`, `direction = _directions[0]`
  | cmp (c : Cmp) (a b : UV)    -- `best_value < new_value`
  | not (c : UCond)
deriving DecidableEq, Repr, Inhabited

inductive UAct where
  | keep | set | assertFail
deriving DecidableEq, Repr, Inhabited

structure UCtx where
  state : TState
  best : Option Nat
  dirs : List Dir
  bestValue : Option EVal
  newValue : Option EVal

def UCtx.val (x : UCtx) : UV → Option EVal
  | .bestValue => x.bestValue
  | .newValue => x.newValue

def UCond.eval (x : UCtx) : UCond → Option Bool
  | .stateNe c => some (x.state.code != c)
  | .stateEq c => some (x.state.code == c)
  | .bestIdIsNone => some x.best.isNone
  | .nDirsGt n => some (decide (n < x.dirs.length))
  | .bestValueIsNone => some x.bestValue.isNone
  | .newValueIsNone => some x.newValue.isNone
  | .dirEq isMax => x.dirs.head?.map (fun d => d.isMax == isMax)      -- `_directions[0]`: IndexError on an empty list
  | .cmp c a b =>
    match x.val a, x.val b with
    | some u, some v => some (cmpE c u v)
    | _, _ => Option.none                                              -- comparing with `None`: TypeError
  | .not c => (c.eval x).map (fun b => !b)

/-- `_update_cache(trial_id, study_id)` as generated, on the model's `Mem` -/
def interpUpdateCache (tree : DT UCond UAct) (dirs : List Dir) (m : Mem) (i : Nat) : Mem :=
  match m.trials[i]? with
  | Option.none => m
  | some t =>
    let x : UCtx := { state := t.state, best := m.best, dirs := dirs,
                      bestValue := (m.best.bind (fun b => m.trials[b]?)).bind BTrial.value?, newValue := t.value? }
    match tree.eval (UCond.eval x) with
    | some .set => { m with best := some i }
    | _ => m

/-! ## getters: `get_best_trial` (three storages), the fallback of `Study.best_trial` -/

inductive GCond where
  | poolEmpty                   -- `len(all_trials) == 0`
  | nDirsGt (n : Nat)           -- `len(directions) > n`
  | dirEq (isMax : Bool)        -- `direction == StudyDirection.MAXIMIZE`
  | cachedIsNone                -- `best_trial_id is None`
  | not (c : GCond)
deriving DecidableEq, Repr, Inhabited

inductive Sel where
  | pyMax | pyMin               -- `max(pool, key=lambda t: t.value)` / `min(…)`
deriving DecidableEq, Repr, Inhabited

inductive GLeaf where
  | raise (e : Err)
  | pick (s : Sel)
  | cached                      -- `return self.get_trial(best_trial_id)`
  | sqlMax | sqlMin             -- `find_max_value_trial_id` / `find_min_value_trial_id`
deriving DecidableEq, Repr, Inhabited

/-- where the trials of a pool come from -/
inductive Src where
  | fresh                       -- `get_all_trials` / `get_trials`: the storage's current history
  | threadCache                 -- `_get_trials(use_cache=True)`: the per-thread snapshot, possibly stale
deriving DecidableEq, Repr, Inhabited

structure Pool where
  src : Src
  states : List Nat
  feasibleOnly : Bool           -- followed by `_get_feasible_trials`
deriving DecidableEq, Repr, Inhabited

structure GCtx where
  pool : List (Nat × EVal)
  dirs : List Dir
  cached : Option Nat
  sqlMax : GRes
  sqlMin : GRes

def GCond.eval (x : GCtx) : GCond → Option Bool
  | .poolEmpty => some x.pool.isEmpty
  | .nDirsGt n => some (decide (n < x.dirs.length))
  | .dirEq isMax => x.dirs.head?.map (fun d => d.isMax == isMax)
  | .cachedIsNone => some x.cached.isNone
  | .not c => (c.eval x).map (fun b => !b)

def Sel.useMax : Sel → Bool
  | .pyMax => true | .pyMin => false

def GLeaf.run (x : GCtx) : GLeaf → GRes
  | .raise e => .raise e
  | .pick s => GRes.ofOpt ((pyPick s.useMax (fun p => p.2) x.pool).map (fun p => p.1))   -- `max([])` raises ValueError
  | .cached => match x.cached with | some b => .ok b | Option.none => .crash
  | .sqlMax => x.sqlMax
  | .sqlMin => x.sqlMin

def runGetter (tree : DT GCond GLeaf) (x : GCtx) : GRes :=
  match tree.eval (GCond.eval x) with
  | some l => l.run x
  | Option.none => .crash

/-! ## the RDB queries -/

/-- an `ORDER BY` key: `case({"INF_NEG": a, "FINITE": b, "INF_POS": c}, value=value_type[, else_=value])` or the value column -/
inductive SqlKey where
  | caseType (infNeg finite infPos : Option Rat) (elseValue : Bool)
  | valueCol
deriving DecidableEq, Repr, Inhabited

def SqlKey.eval (row : Option Rat × VType) : SqlKey → Option Rat
  | .valueCol => row.1
  | .caseType n f p els =>
    let hit := match row.2 with
      | .infNeg => n | .finite => f | .infPos => p
    match hit with
    | some q => some q
    | Option.none => if els then row.1 else Option.none

structure OrderTerm where
  asc : Bool
  key : SqlKey
deriving DecidableEq, Repr, Inhabited

/-- `a` sorts strictly before `b` under the `ORDER BY` terms (first differing key decides; NULL is smallest) -/
def sqlBeforeGen : List OrderTerm → Option Rat × VType → Option Rat × VType → Bool
  | [], _, _ => false
  | t :: ts, a, b =>
    let ka := t.key.eval a
    let kb := t.key.eval b
    if ka == kb then sqlBeforeGen ts a b else (if t.asc then nullLt ka kb else nullLt kb ka)

structure Query where
  stateFilter : Option Nat      -- `.filter(cls.state == TrialState.X)`
  objectiveFilter : Bool        -- `.filter(TrialValueModel.objective == objective)`
  order : List OrderTerm
  limitOne : Bool
deriving DecidableEq, Repr, Inhabited

/-- the query on the model's rows: `LIMIT 1` after the `ORDER BY`; `ValueError` when there is no row -/
def Query.run (q : Query) (objective : Nat) (rows : List Row) : GRes :=
  if !q.objectiveFilter || !q.limitOne then .crash else
  let cands := rows.zipIdx.filterMap (fun x =>
    if (match q.stateFilter with | some c => x.1.state.code == c | Option.none => true) then
      (x.1.vals[objective]?).map (fun v => (x.2, v))
    else Option.none)
  GRes.ofOpt ((firstBest (fun y cur => sqlBeforeGen q.order y.2 cur.2) cands).map (fun x => x.1))

/-! ## `_normalize_value`, `_dominates` -/

inductive NCond where
  | valueIsNone
  | dirIs (isMax : Bool)        -- `direction is StudyDirection.MAXIMIZE`
  | not (c : NCond)
deriving DecidableEq, Repr, Inhabited

inductive NX where
  | value | inf | negInf
  | neg (x : NX)
deriving DecidableEq, Repr, Inhabited

def NCond.eval (v : Option EVal) (d : Dir) : NCond → Option Bool
  | .valueIsNone => some v.isNone
  | .dirIs isMax => some (d.isMax == isMax)
  | .not c => (c.eval v d).map (fun b => !b)

def NX.eval (v : Option EVal) : NX → Option EVal
  | .value => v
  | .inf => some .pinf
  | .negInf => some .ninf
  | .neg x => (x.eval v).map EVal.neg                                   -- `-None`: TypeError

/-- `_normalize_value(value, direction)` as generated; `none` = an exception -/
def interpNormalize (tree : DT NCond NX) (v : Option EVal) (d : Dir) : Option EVal :=
  (tree.eval (NCond.eval v d)).bind (fun x => x.eval v)

/-- `[_normalize_value(v, d) for v, d in zip(values, directions)]` -/
def interpNormRow (tree : DT NCond NX) : List Dir → List EVal → Option (List EVal)
  | d :: ds, v :: vs =>
    match interpNormalize tree (some v) d, interpNormRow tree ds vs with
    | some x, some r => some (x :: r)
    | _, _ => Option.none
  | _, _ => some []

inductive DCond where
  | stateNe (which : Nat) (code : Nat)     -- `trial<which>.state != TrialState.X`
  | valuesNone (which : Nat)               -- negation of `assert values<which> is not None`
  | lenNeValues                            -- `len(values0) != len(values1)`
  | lenNeDirs (which : Nat)                -- `len(values<which>) != len(directions)`
  | rowsEq                                 -- `normalized_values0 == normalized_values1`
  | not (c : DCond)
deriving DecidableEq, Repr, Inhabited

/-- the returned expression over the two normalised rows -/
inductive DX where
  | const (b : Bool)
  | zipAll (c : Cmp)            -- `all(v0 <c> v1 for v0, v1 in zip(n0, n1))`
  | zipAny (c : Cmp)
  | and (a b : DX) | or (a b : DX) | not (a : DX)
deriving DecidableEq, Repr, Inhabited

inductive DLeaf where
  | ret (x : DX)
  | raise (e : Err)
  | assertFail
deriving DecidableEq, Repr, Inhabited

inductive DRes where
  | ok (b : Bool) | raise (e : Err) | crash
deriving DecidableEq, Repr, Inhabited

def zipAllC (c : Cmp) : List EVal → List EVal → Bool
  | a :: as, b :: bs => cmpE c a b && zipAllC c as bs
  | _, _ => true
def zipAnyC (c : Cmp) : List EVal → List EVal → Bool
  | a :: as, b :: bs => cmpE c a b || zipAnyC c as bs
  | _, _ => false

def DX.eval (n0 n1 : List EVal) : DX → Bool
  | .const b => b
  | .zipAll c => zipAllC c n0 n1
  | .zipAny c => zipAnyC c n0 n1
  | .and a b => a.eval n0 n1 && b.eval n0 n1
  | .or a b => a.eval n0 n1 || b.eval n0 n1
  | .not a => !(a.eval n0 n1)

structure DCtx where
  t0 : BTrial
  t1 : BTrial
  dirs : List Dir
  n0 : Option (List EVal)
  n1 : Option (List EVal)

def DCtx.tr (x : DCtx) (k : Nat) : BTrial := if k = 0 then x.t0 else x.t1

def DCond.eval (x : DCtx) : DCond → Option Bool
  | .stateNe k c => some ((x.tr k).state.code != c)
  | .valuesNone k => some (x.tr k).values.isNone
  | .lenNeValues =>
    match x.t0.values, x.t1.values with
    | some a, some b => some (a.length != b.length)
    | _, _ => Option.none
  | .lenNeDirs k => (x.tr k).values.map (fun a => a.length != x.dirs.length)
  | .rowsEq =>
    match x.n0, x.n1 with
    | some a, some b => some (a == b)
    | _, _ => Option.none
  | .not c => (c.eval x).map (fun b => !b)

/-- `_dominates(trial0, trial1, directions)` as generated -/
def interpDominates (norm : DT NCond NX) (tree : DT DCond DLeaf) (dirs : List Dir) (t0 t1 : BTrial) : DRes :=
  let x : DCtx := { t0 := t0, t1 := t1, dirs := dirs,
                    n0 := t0.values.bind (interpNormRow norm dirs), n1 := t1.values.bind (interpNormRow norm dirs) }
  match tree.eval (DCond.eval x) with
  | some (.ret e) =>
    match x.n0, x.n1 with
    | some a, some b => .ok (e.eval a b)
    | _, _ => (match e with | .const b => .ok b | _ => .crash)
  | some (.raise e) => .raise e
  | some .assertFail => .crash
  | Option.none => .crash

/-! ## numpy: values, expressions, one interpreter -/

inductive NV where
  | mat (m : List (List EVal))
  | xmat (m : List (List XVal))
  | bmat (m : List (List Bool))
  | vec (v : List EVal)
  | mask (b : List Bool)
  | idx (i : List Nat)
  | nat (n : Nat)
  | bool (b : Bool)
  | err
deriving DecidableEq, Repr, Inhabited

inductive NE where
  | var (n : String)
  | nat (n : Nat)
  | bool (b : Bool)
  | letE (x : String) (e body : NE)
  | ifB (c a b : NE)
  | eqNat (a b : NE)
  | nrows (a : NE)                -- `a.shape[0]`, `len(a)`
  | ncols (a : NE)                -- `a.shape[1]`
  | col (k : Nat) (a : NE)        -- `a[:, k]`
  | dropCols (k : Nat) (a : NE)   -- `a[:, k:]`
  | at (i : NE) (a : NE)          -- `a[i]`
  | tail (a : NE) | init (a : NE) -- `a[1:]`, `a[:-1]`
  | cummin (a : NE)               -- `np.minimum.accumulate(a)`
  | ones (n : NE) | zeros (n : NE) | empty (n : NE)   -- bool arrays
  | arange (n : NE)
  | lt (a b : NE)                 -- `a < b` (vectors; matrix against one row)
  | anyAxis1 (a : NE)             -- `np.any(a, axis=1)`
  | maskSel (a m : NE)            -- `a[m]`, `m` a bool array
  | take (a i : NE)               -- `a[i]`, `i` an integer array
  | setTail (a e : NE)            -- `a[1:] = e`
  | setAt (a i : NE) (v : Bool)   -- `a[i] = True/False`
  | scatter (a i e : NE)          -- `a[i] = e`, `i` an integer array
  | uniqueRows (a : NE) | uniqueInv (a : NE)   -- `np.unique(a, axis=0, return_inverse=True)`
  | reshape1 (a : NE)             -- `.reshape(-1)`
  | lexsortRows (a : NE)          -- `np.lexsort(a.T[::-1])`
  | diffRows (a : NE)             -- `np.diff(a, axis=0)`
  | neScalar (a : NE) (q : Rat)   -- `a != q`
  | cumsum (a : NE)               -- `np.cumsum(mask)`
  | subNat (a : NE) (k : Nat)     -- `a - k`
  | notMask (a : NE)              -- `~a`
  | call (f : String) (args : List NE)
deriving Repr, Inhabited

def cumminFrom (m : EVal) : List EVal → List EVal
  | [] => []
  | y :: rest => emin m y :: cumminFrom (emin m y) rest

def cumminL : List EVal → List EVal
  | [] => []
  | x :: rest => x :: cumminFrom x rest

def ltRow (a b : List EVal) : List Bool := List.zipWith (fun x y => x.lt y) a b

def selMask {α : Type} : List α → List Bool → List α
  | a :: as, true :: ms => a :: selMask as ms
  | _ :: as, false :: ms => selMask as ms
  | _, _ => []

/-- float subtraction on the extended reals (`inf - inf = nan`) -/
def xsub : EVal → EVal → XVal
  | .fin a, .fin b => .fin (a - b)
  | .pinf, .pinf => .nan
  | .ninf, .ninf => .nan
  | .pinf, _ => .pinf
  | .ninf, _ => .ninf
  | _, .pinf => .ninf
  | _, .ninf => .pinf

def diffRowsL : List (List EVal) → List (List XVal)
  | a :: b :: rest => List.zipWith (fun y x => xsub y x) b a :: diffRowsL (b :: rest)
  | _ => []

def cumsumFrom (s : Nat) : List Bool → List Nat
  | [] => []
  | b :: rest => (s + (if b then 1 else 0)) :: cumsumFrom (s + (if b then 1 else 0)) rest

/-- stable insertion of an index by its row (lexicographic order) -/
def insertIdx (m : List (List EVal)) (i : Nat) : List Nat → List Nat
  | [] => [i]
  | j :: rest => if lexLt (m.getD i []) (m.getD j []) then i :: j :: rest else j :: insertIdx m i rest

/-- `np.lexsort(m.T[::-1])`: a stable permutation that sorts the rows lexicographically -/
def lexsortIdx (m : List (List EVal)) : List Nat := (List.range m.length).foldr (insertIdx m) []

def scatterL (base : List Bool) : List Nat → List Bool → Option (List Bool)
  | [], [] => some base
  | i :: is, v :: vs => if i < base.length then scatterL (base.set i v) is vs else Option.none
  | _, _ => Option.none

def lenOf : NV → Option Nat
  | .mat m => some m.length | .xmat m => some m.length | .bmat m => some m.length
  | .vec v => some v.length | .mask b => some b.length | .idx i => some i.length
  | _ => Option.none

def envGet (env : List (String × NV)) (n : String) : NV :=
  match env.find? (fun p => p.1 == n) with
  | some p => p.2
  | Option.none => .err

mutual
def NE.eval (call : String → List NV → NV) (env : List (String × NV)) : NE → NV
  | .var n => envGet env n
  | .nat n => .nat n
  | .bool b => .bool b
  | .letE x e body => body.eval call ((x, e.eval call env) :: env)
  | .ifB c a b =>
    match c.eval call env with
    | .bool true => a.eval call env
    | .bool false => b.eval call env
    | _ => .err
  | .eqNat a b =>
    match a.eval call env, b.eval call env with
    | .nat x, .nat y => .bool (x == y)
    | _, _ => .err
  | .nrows a => match lenOf (a.eval call env) with | some n => .nat n | Option.none => .err
  | .ncols a =>
    match a.eval call env with
    | .mat m => .nat ((m.head?.map List.length).getD 0)
    | _ => .err
  | .col k a =>
    match a.eval call env with
    | .mat m => .vec (m.map (fun r => r.getD k .pinf))
    | _ => .err
  | .dropCols k a =>
    match a.eval call env with
    | .mat m => .mat (m.map (fun r => r.drop k))
    | _ => .err
  | .at i a =>
    match i.eval call env, a.eval call env with
    | .nat k, .mat m => (match m[k]? with | some r => .vec r | Option.none => .err)
    | .nat k, .idx l => (match l[k]? with | some j => .nat j | Option.none => .err)
    | _, _ => .err
  | .tail a =>
    match a.eval call env with
    | .vec v => .vec v.tail
    | .mask b => .mask b.tail
    | _ => .err
  | .init a =>
    match a.eval call env with
    | .vec v => .vec v.dropLast
    | .mask b => .mask b.dropLast
    | _ => .err
  | .cummin a =>
    match a.eval call env with
    | .vec v => .vec (cumminL v)
    | _ => .err
  | .ones n => match n.eval call env with | .nat k => .mask (List.replicate k true) | _ => .err
  | .zeros n => match n.eval call env with | .nat k => .mask (List.replicate k false) | _ => .err
  | .empty n => match n.eval call env with | .nat k => .mask (List.replicate k false) | _ => .err
  | .arange n => match n.eval call env with | .nat k => .idx (List.range k) | _ => .err
  | .lt a b =>
    match a.eval call env, b.eval call env with
    | .vec x, .vec y => if x.length = y.length then .mask (ltRow x y) else .err
    | .mat m, .vec r => .bmat (m.map (fun q => ltRow q r))
    | _, _ => .err
  | .anyAxis1 a =>
    match a.eval call env with
    | .bmat m => .mask (m.map (fun r => r.any id))
    | _ => .err
  | .maskSel a m =>
    match a.eval call env, m.eval call env with
    | .mat x, .mask b => if x.length = b.length then .mat (selMask x b) else .err
    | .idx x, .mask b => if x.length = b.length then .idx (selMask x b) else .err
    | .vec x, .mask b => if x.length = b.length then .vec (selMask x b) else .err
    | .mask x, .mask b => if x.length = b.length then .mask (selMask x b) else .err
    | _, _ => .err
  | .take a i =>
    match a.eval call env, i.eval call env with
    | .mask b, .idx l => if l.all (fun j => decide (j < b.length)) then .mask (l.map (fun j => b.getD j false)) else .err
    | .mat m, .idx l => if l.all (fun j => decide (j < m.length)) then .mat (l.map (fun j => m.getD j [])) else .err
    | _, _ => .err
  | .setTail a e =>
    match a.eval call env, e.eval call env with
    | .mask (h :: t), .mask v => if t.length = v.length then .mask (h :: v) else .err
    | .mask [], .mask [] => .mask []
    | _, _ => .err
  | .setAt a i v =>
    match a.eval call env, i.eval call env with
    | .mask b, .nat k => if k < b.length then .mask (b.set k v) else .err
    | _, _ => .err
  | .scatter a i e =>
    match a.eval call env, i.eval call env, e.eval call env with
    | .mask b, .idx l, .mask v => (match scatterL b l v with | some r => .mask r | Option.none => .err)
    | _, _, _ => .err
  | .uniqueRows a =>
    match a.eval call env with
    | .mat m => .mat (uniqueLexsort m)
    | _ => .err
  | .uniqueInv a =>
    match a.eval call env with
    | .mat m => .idx (m.map (fun r => (uniqueLexsort m).idxOf r))
    | _ => .err
  | .reshape1 a =>
    match a.eval call env with
    | .idx l => .idx l
    | .vec v => .vec v
    | .mask b => .mask b
    | _ => .err
  | .lexsortRows a =>
    match a.eval call env with
    | .mat m => .idx (lexsortIdx m)
    | _ => .err
  | .diffRows a =>
    match a.eval call env with
    | .mat m => .xmat (diffRowsL m)
    | _ => .err
  | .neScalar a q =>
    match a.eval call env with
    | .xmat m => .bmat (m.map (fun r => r.map (fun x => cmpX .ne x (.fin q))))
    | _ => .err
  | .cumsum a =>
    match a.eval call env with
    | .mask b => .idx (cumsumFrom 0 b)
    | _ => .err
  | .subNat a k =>
    match a.eval call env with
    | .idx l => if l.all (fun j => decide (k ≤ j)) then .idx (l.map (fun j => j - k)) else .err
    | .nat n => if k ≤ n then .nat (n - k) else .err
    | _ => .err
  | .notMask a =>
    match a.eval call env with
    | .mask b => .mask (b.map (fun x => !x))
    | _ => .err
  | .call f args => call f (NE.evalList call env args)
def NE.evalList (call : String → List NV → NV) (env : List (String × NV)) : List NE → List NV
  | [] => []
  | a :: as => a.eval call env :: NE.evalList call env as
end

/-- a function without a loop: parameters and one expression (assignments are `letE`, early returns are `ifB`) -/
structure NFun where
  params : List String
  body : NE
deriving Repr, Inhabited

def NFun.run (f : NFun) (call : String → List NV → NV) (args : List NV) : NV :=
  if f.params.length = args.length then f.body.eval call (f.params.zip args) else .err

/-- a function with one `while len(<x>):` loop of assignments -/
structure NLoop where
  params : List String
  init : List (String × NE)
  condLen : String
  body : List (String × NE)
  result : NE
deriving Repr, Inhabited

def runAssigns (call : String → List NV → NV) : List (String × NE) → List (String × NV) → List (String × NV)
  | [], env => env
  | (x, e) :: rest, env => runAssigns call rest ((x, e.eval call env) :: env)

def loopFuel (call : String → List NV → NV) (l : NLoop) : Nat → List (String × NV) → Option (List (String × NV))
  | 0, _ => Option.none
  | fuel + 1, env =>
    match lenOf (envGet env l.condLen) with
    | some 0 => some env
    | some _ => loopFuel call l fuel (runAssigns call l.body env)
    | Option.none => Option.none

def NLoop.run (l : NLoop) (call : String → List NV → NV) (args : List NV) : NV :=
  if l.params.length = args.length then
    let env0 := runAssigns call l.init (l.params.zip args)
    match lenOf (envGet env0 l.condLen) with
    | some n =>
      (match loopFuel call l (n + 1) env0 with
       | some env => l.result.eval call env
       | Option.none => .err)
    | Option.none => .err
  else .err

/-! ## the Pareto pipeline -/

inductive PStage where
  | keepState (code : Nat)                -- `trials = [t for t in trials if t.state == TrialState.X]`
  | keepFeasibleIf                        -- `if consider_constraint: trials = _get_feasible_trials(trials)`
  | emptyReturnsEmpty                     -- `if len(trials) == 0: return []`
  | raiseIfValuesLen (c : Cmp) (e : Err)  -- `if any(len(t.values) <c> len(directions) for t in trials): raise`
  | lossRows                              -- `loss_values = np.asarray([[_normalize_value(v, d) for v, d in zip(t.values, directions)] for t in trials])`
  | frontMask (assumeUnique : Bool)       -- `on_front = _is_pareto_front(loss_values, assume_unique_lexsorted=…)`
  | retSelected                           -- `return [t for t, is_pareto in zip(trials, on_front) if is_pareto]`
deriving DecidableEq, Repr, Inhabited

/-- where `InMemoryStorage` calls `_update_cache` -/
structure CacheCall where
  method : String
  underLock : Bool              -- lexically inside `with self._lock:`
  afterSetTrial : Bool          -- the trial has been stored (`_set_trial` / appended) before the call
  guardFinished : Bool          -- under `if state.is_finished():` (set_trial_state_values) — `false` = unconditional
deriving DecidableEq, Repr, Inhabited

/-! ## everything the translator reads -/

structure Prog where
  -- constraints
  consKey : String
  violation : ConsPred
  feasKey : String
  feasible : ConsPred
  -- in-memory storage
  updateCache : DT UCond UAct
  memGet : DT GCond GLeaf
  cacheCalls : List CacheCall
  -- base class
  basePool : Pool
  baseGet : DT GCond GLeaf
  -- RDB
  rdbGet : DT GCond GLeaf
  rdbObjective : Nat
  findMax : Query
  findMin : Query
  -- Study
  studyMultiGuard : GCond
  studyMultiErr : Err
  studyPool : Pool
  studyFallback : DT GCond GLeaf
  bestValueAsserts : Bool       -- `assert best_value is not None`
  bestValueOfBestTrial : Bool   -- `self.best_trial.value`
  bestParamsOfBestTrial : Bool  -- `self.best_trial.params`
  -- multi-objective
  normalize : DT NCond NX
  dominates : DT DCond DLeaf
  pareto : List PStage
  bestTrialsKey : String        -- `_CONSTRAINTS_KEY in trial.system_attrs`
  bestTrialsQuant : Quant       -- `any(… for trial in trials)`
  front : NFun
  frontSorted : NFun
  front2d : NFun
  frontNd : NLoop
deriving Repr, Inhabited

/-! ## interpreters of the whole methods -/

def feasibleGen (P : Prog) (t : BTrial) : Bool :=
  (P.feasible.eval (consGet P.feasKey t)).getD false

/-- the pool of a getter: numbers and values of the trials in `states` (optionally feasible ones), in number order -/
def poolOf (P : Prog) (pl : Pool) (ts cache : List BTrial) : List (Nat × EVal) :=
  valuedIn pl.states (fun t => !pl.feasibleOnly || feasibleGen P t) (match pl.src with | .fresh => ts | .threadCache => cache)

/-- `BaseStorage.get_best_trial` as generated -/
def interpBaseBest (P : Prog) (dirs : List Dir) (ts : List BTrial) : GRes :=
  runGetter P.baseGet { pool := poolOf P P.basePool ts ts, dirs := dirs, cached := Option.none, sqlMax := .crash, sqlMin := .crash }

/-- `InMemoryStorage.get_best_trial` as generated -/
def interpMemBest (P : Prog) (dirs : List Dir) (cached : Option Nat) : GRes :=
  runGetter P.memGet { pool := [], dirs := dirs, cached := cached, sqlMax := .crash, sqlMin := .crash }

/-- `RDBStorage.get_best_trial` as generated, on the model's rows -/
def interpRdbBest (P : Prog) (dirs : List Dir) (rows : List Row) : GRes :=
  runGetter P.rdbGet { pool := [], dirs := dirs, cached := Option.none,
                       sqlMax := P.findMax.run P.rdbObjective rows, sqlMin := P.findMin.run P.rdbObjective rows }

/-- `Study.best_trial` as generated; `sb` = what `storage.get_best_trial` answered, `cache` = the per-thread snapshot -/
def interpStudyBest (P : Prog) (sb : GRes) (dirs : List Dir) (ts cache : List BTrial) : GRes :=
  match P.studyMultiGuard.eval { pool := [], dirs := dirs, cached := Option.none, sqlMax := .crash, sqlMin := .crash } with
  | some true => .raise P.studyMultiErr
  | Option.none => .crash
  | some false =>
    match sb with
    | .ok b =>
      (match ts[b]? with
       | Option.none => .raise .valueError
       | some t =>
         match P.violation.eval (consGet P.consKey t) with
         | some true =>
           runGetter P.studyFallback { pool := poolOf P P.studyPool ts cache, dirs := dirs, cached := Option.none, sqlMax := .crash, sqlMin := .crash }
         | some false => .ok b
         | Option.none => .crash)
    | r => r

/-- `Study.best_value` as generated: the value of the trial `best_trial` returns (`none` = an exception) -/
def interpBestValue (P : Prog) (sb : GRes) (dirs : List Dir) (ts cache : List BTrial) : Option EVal :=
  if !P.bestValueOfBestTrial then Option.none else
  match interpStudyBest P sb dirs ts cache with
  | .ok r => (ts[r]?).bind BTrial.value?
  | _ => Option.none

def callNone : String → List NV → NV := fun _ _ => .err

def callSorted (P : Prog) : String → List NV → NV := fun f args =>
  if f = "_is_pareto_front_2d" then P.front2d.run callNone args
  else if f = "_is_pareto_front_nd" then P.frontNd.run callNone args
  else .err

def callFront (P : Prog) : String → List NV → NV := fun f args =>
  if f = "_is_pareto_front_for_unique_sorted" then P.frontSorted.run (callSorted P) args else .err

/-- `_is_pareto_front(loss_values, assume_unique_lexsorted)` as generated -/
def interpFront (P : Prog) (rows : List (List EVal)) (assumeUnique : Bool) : NV :=
  P.front.run (callFront P) [.mat rows, .bool assumeUnique]

structure PState where
  trials : List (BTrial × Nat)
  loss : Option (List (List EVal))
  mask : Option (List Bool)

/-- one stage; `Sum.inl r` = the function returns / raises here (`none` = raises), `Sum.inr s` = continue -/
def PStage.step (P : Prog) (dirs : List Dir) (consider : Bool) (s : PState) : PStage → Option (List Nat) ⊕ PState
  | .keepState c => .inr { s with trials := s.trials.filter (fun x => x.1.state.code == c) }
  | .keepFeasibleIf => .inr (if consider then { s with trials := s.trials.filter (fun x => feasibleGen P x.1) } else s)
  | .emptyReturnsEmpty => if s.trials.isEmpty then .inl (some []) else .inr s
  | .raiseIfValuesLen c _ =>
    if s.trials.any (fun x => match c with
        | .ne => (x.1.values.getD []).length != dirs.length
        | .eq => (x.1.values.getD []).length == dirs.length
        | .lt => decide ((x.1.values.getD []).length < dirs.length)
        | .le => decide ((x.1.values.getD []).length ≤ dirs.length)
        | .gt => decide (dirs.length < (x.1.values.getD []).length)
        | .ge => decide (dirs.length ≤ (x.1.values.getD []).length)) then .inl Option.none else .inr s
  | .lossRows =>
    let rows := s.trials.map (fun x => interpNormRow P.normalize dirs (x.1.values.getD []))
    if rows.all Option.isSome then .inr { s with loss := some (rows.map (fun r => r.getD [])) } else .inl Option.none
  | .frontMask au =>
    match s.loss with
    | some rows =>
      (match interpFront P rows au with
       | .mask b => .inr { s with mask := some b }
       | _ => .inl Option.none)
    | Option.none => .inl Option.none
  | .retSelected =>
    match s.mask with
    | some b => .inl (some (((s.trials.zip b).filter (fun y => y.2)).map (fun y => y.1.2)))
    | Option.none => .inl Option.none

def runStages (P : Prog) (dirs : List Dir) (consider : Bool) : List PStage → PState → Option (List Nat)
  | [], _ => Option.none                                               -- falls off the end
  | st :: rest, s =>
    match st.step P dirs consider s with
    | .inl r => r
    | .inr s' => runStages P dirs consider rest s'

/-- `Study.best_trials` as generated: `none` = an exception, else the numbers of the returned trials, in order -/
def interpBestTrials (P : Prog) (dirs : List Dir) (ts : List BTrial) : Option (List Nat) :=
  let probe := fun (t : BTrial) => if P.bestTrialsKey = "constraints" then t.cons.hasKey else false
  let consider := match P.bestTrialsQuant with | .any => ts.any probe | .all => ts.all probe
  runStages P dirs consider P.pareto { trials := ts.zipIdx, loss := Option.none, mask := Option.none }


/-! ## histories with the generated `_update_cache` -/

/-- `Mem.step` (Model/Best.lean) with the bookkeeping function as a parameter: `create_new_trial` calls it after appending the
trial, `set_trial_state_values` after storing a finished state (that is what `Prog.cacheCalls` records of the source) -/
def stepWith (upd : List Dir → Mem → Nat → Mem) (dirs : List Dir) (m : Mem) : Ev → Mem
  | .create st vals c =>
    if !valuesOK dirs.length st vals then m else
    upd dirs { m with trials := m.trials ++ [{ state := st, values := vals, cons := c }] } m.trials.length
  | .setState i st vals =>
    match m.trials[i]? with
    | Option.none => m
    | some t =>
      if t.state.isFinished then m
      else if st == .running && t.state != .waiting then m
      else
        let newVals := vals.or t.values
        if !valuesOK dirs.length st newVals then m else
        let m' : Mem := { m with trials := updAt m.trials i (fun t => { t with state := st, values := newVals }) }
        if st.isFinished then upd dirs m' i else m'
  | .setCons i c =>
    match m.trials[i]? with
    | Option.none => m
    | some t =>
      if t.state.isFinished then m
      else { m with trials := updAt m.trials i (fun t => { t with cons := c }) }

/-- a history replayed with the generated `_update_cache` -/
def runGen (P : Prog) (dirs : List Dir) (evs : List Ev) : Mem :=
  evs.foldl (stepWith (interpUpdateCache P.updateCache) dirs) Mem.init

end OptunaVerif.BestIR
