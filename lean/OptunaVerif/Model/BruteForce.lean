/-
  Executable model of `optuna/samplers/_brute_force.py` (BruteForceSampler, `_TreeNode`,
  `_enumerate_candidates`) together with the part of `optuna/study/_optimize.py` that drives it
  (`_optimize_sequential`, `_run_trial`, the stop flag).  Core Lean only.

  Reading guide (Python name -> model name):
    _enumerate_candidates          Dist.enumerate
    distribution.single()          Dist.single
    _TreeNode                      Tree         (children dict = key list in insertion order + function)
    _TreeNode.expand               Tree.expand  (`none` = ValueError)
    set_leaf / set_running         Tree.setLeaf / Tree.setRunning
    add_path                       Tree.addPath
    count_unexpanded               Tree.count
    sample_child                   Tree.weights + pick   (RNG = an arbitrary proposal, see `pick`)
    _populate_tree                 populate
    sample_independent             sampleIndependent
    after_trial                    afterTrial
    objective function             Prog  (deterministic define-by-run program = finitely branching tree)
    func(trial)                    runObj
    _run_trial                     runTrial
    _optimize_sequential           optimizeLoop / optimize
    several optimize calls         session
-/
namespace OptunaVerif.BruteForce

/-- Parameter values in internal representation (ints, stepped floats and categorical indices are
all exact rationals here; IEEE rounding of `float(Decimal)` is outside the model). -/
abbrev Val := Rat

/-! ## candidate enumeration -/

/-- The three finite distributions the sampler accepts, as `_enumerate_candidates` reads them:
`int low high step`, `float low high step` (the three numbers are `Decimal(str(x))`), `cat n`. -/
inductive Dist where
  | int (low high step : Int)
  | float (low high step : Rat)
  | cat (n : Nat)
deriving DecidableEq, Repr

/-- `value = low; while value <= high: ret.append(value); value += step` (fuel only makes the
recursion structural; `Dist.enumerate` supplies enough). -/
def loopQ (high step : Rat) : Nat → Rat → List Rat
  | 0, _ => []
  | fuel + 1, value => if value ≤ high then value :: loopQ high step fuel (value + step) else []

/-- `_enumerate_candidates`.  Int: `range(low, high + 1, step)`; float: the Decimal loop;
categorical: `range(len(choices))`. -/
def Dist.enumerate : Dist → List Val
  | .int low high step => loopQ high step ((high - low).toNat + 1) low
  | .float low high step => loopQ high step (((high - low) / step).floor.toNat + 1) low
  | .cat n => (List.range n).map (fun k => ((k : Nat) : Rat))

/-- `distribution.single()` (for `IntDistribution(log=True)` the step is 1 and both forms agree). -/
def Dist.single : Dist → Bool
  | .int low high step => low == high || decide (high - low < step)
  | .float low high step => low == high || decide (high - low < step)
  | .cat n => n == 1

/-- `_get_single_value` in internal representation (`low`, resp. index 0 of the choices). -/
def Dist.singleValue : Dist → Val
  | .int low _ _ => low
  | .float low _ _ => low
  | .cat _ => 0

/-- What the constructors of the distribution classes guarantee (`low <= high`, `step > 0`, `high`
adjusted down to `low + k*step`, at least one choice). -/
def Dist.WF : Dist → Prop
  | .int low high step => low ≤ high ∧ 0 < step
  | .float low high step => low ≤ high ∧ 0 < step
  | .cat n => 0 < n

/-! ## define-by-run programs -/

/-- How `_run_trial` sees the end of one objective call.  `fail raises`: the objective raised an
exception; `raises = true` when it is not in `catch`, so `optimize` re-raises it after the trial
was told (this ends the current `optimize` call). -/
inductive Outcome where
  | complete | pruned | fail (raises : Bool)
deriving DecidableEq, Repr

def Outcome.raises : Outcome → Bool
  | .fail r => r
  | _ => false

/-- A deterministic define-by-run objective: either it ends (with an outcome that is a function of
the path), or it asks for parameter `name` with a distribution whose candidate list is `cands`
(`single` = `distribution.single()`: `Trial._suggest` then does not call the sampler) and continues
according to the value it got.  Only `child v` for `v ∈ cands` matters. -/
inductive Prog where
  | leaf (o : Outcome)
  | node (name : String) (single : Bool) (cands : List Val) (child : Val → Prog)

/-- One suggested parameter of a trial: name, candidate list of its distribution, value. -/
structure Step where
  name : String
  cands : List Val
  value : Val
deriving DecidableEq, Repr

/-- A stored trial as the sampler reads it: `distributions`/`params` in suggestion order and
`state.is_finished()` (otherwise RUNNING; WAITING trials are never handed to the sampler). -/
structure Trial where
  steps : List Step
  finished : Bool
deriving DecidableEq, Repr

/-! ## `_TreeNode` -/

/-- `unexp` : `children is None`;  `exp name keys child` : `children` is a dict with key list `keys`
(insertion order) — a leaf is `exp none []`.  `running` is `is_running`. -/
inductive Tree where
  | unexp (running : Bool)
  | exp (name : Option String) (keys : List Val) (child : Val → Tree) (running : Bool)

def sameKeys (a b : List Val) : Bool := a.all (fun x => b.contains x) && b.all (fun x => a.contains x)

namespace Tree

def isRunning : Tree → Bool
  | unexp r => r
  | exp _ _ _ r => r

/-- `expand`; `none` models the `ValueError` (param_name / search_space mismatch). -/
def expand (t : Tree) (name : Option String) (cands : List Val) : Option Tree :=
  match t with
  | unexp r => some (exp name cands (fun _ => unexp false) r)
  | exp n keys _ _ => if n == name && sameKeys keys cands then some t else none

def setRunning : Tree → Tree
  | unexp _ => unexp true
  | exp n k c _ => exp n k c true

def setLeaf (t : Tree) : Option Tree := t.expand none []

/-- `add_path` followed by `fin` on the node it returns (`set_leaf` / `set_running`); when the
value is not a key, `add_path` returns `None` and the trial is ignored (expansions made so far
stay).  `none` = ValueError. -/
def addPath (fin : Tree → Option Tree) : List Step → Tree → Option Tree
  | [], t => fin t
  | s :: rest, t =>
    match t.expand (some s.name) s.cands with
    | none => none
    | some (unexp r) => some (unexp r)
    | some (exp n keys ch r) =>
      if keys.contains s.value then
        match addPath fin rest (ch s.value) with
        | none => none
        | some c' => some (exp n keys (fun k => if k = s.value then c' else ch k) r)
      else some (exp n keys ch r)

/-- `count_unexpanded(exclude_running)`. -/
def count (excl : Bool) : Tree → Nat
  | unexp r => if excl && r then 0 else 1
  | exp _ keys ch _ => (keys.map (fun k => (ch k).count excl)).sum

def keys : Tree → List Val
  | unexp _ => []
  | exp _ ks _ _ => ks

/-- The weight vector of `sample_child` before normalisation: `count_unexpanded` per child, with
running children zeroed when some non-running child has positive weight. -/
def weights (excl : Bool) : Tree → List Nat
  | unexp _ => []
  | exp _ ks ch _ =>
    let prio := ks.any (fun k => !(ch k).isRunning && decide (0 < (ch k).count excl))
    ks.map (fun k => if prio && (ch k).isRunning then 0 else (ch k).count excl)

end Tree

/-- `rng.choice(keys, p=weights/weights.sum())` for an arbitrary RNG: the RNG is a `proposal`; it is
taken when it is a key of positive weight, otherwise the first key of positive weight is taken.
Every outcome the real RNG can produce is produced by some proposal. -/
def pick (keys : List Val) (ws : List Nat) (proposal : Val) : Val :=
  if (keys.zip ws).any (fun kw => kw.1 == proposal && decide (0 < kw.2)) then proposal
  else match (keys.zip ws).find? (fun kw => decide (0 < kw.2)) with
    | some kw => kw.1
    | none => proposal

/-- `rng.choice(candidates)` (the branch taken when nothing is unexpanded). -/
def pickAny (cands : List Val) (proposal : Val) : Val :=
  if cands.contains proposal then proposal else cands.headD proposal

def Tree.sampleChild (excl : Bool) (t : Tree) (proposal : Val) : Val :=
  pick t.keys (t.weights excl) proposal

/-! ## the sampler -/

/-- `all(p in trial.params and trial.params[p] == v for p, v in params.items())` -/
def dictMatch (params : List (String × Val)) (t : Trial) : Bool :=
  params.all (fun pv => (t.steps.find? (fun s => s.name == pv.1)).map (·.value) == some pv.2)

/-- the generator handed to `add_path`: the trial's parameters, minus those of the current prefix -/
def restSteps (params : List (String × Val)) (t : Trial) : List Step :=
  t.steps.filter (fun s => !(params.any (fun pv => pv.1 == s.name)))

def finOf (t : Trial) : Tree → Option Tree :=
  fun leaf => if t.finished then leaf.setLeaf else some leaf.setRunning

/-- `_populate_tree(tree, trials, params)`; `none` = ValueError. -/
def populate (tree : Tree) (trials : List Trial) (params : List (String × Val)) : Option Tree :=
  match trials with
  | [] => some tree
  | t :: rest =>
    if dictMatch params t then
      match tree.addPath (finOf t) (restSteps params t) with
      | none => none
      | some tree' => populate tree' rest params
    else populate tree rest params

def paramsOf (pre : List Step) : List (String × Val) := pre.map (fun s => (s.name, s.value))

/-- The tree `sample_independent` builds for parameter `name` of the running trial whose parameters
so far are `pre`; `others` are the trials of the study except the running one. -/
def buildTree (others : List Trial) (pre : List Step) (name : String) (cands : List Val) : Option Tree :=
  match (Tree.unexp false).expand (some name) cands with
  | none => none
  | some t0 => populate t0 others (paramsOf pre)

/-- `sample_independent` (internal representation); `avoid` = `avoid_premature_stop`. -/
def sampleIndependent (avoid : Bool) (others : List Trial) (pre : List Step) (name : String)
    (cands : List Val) (proposal : Val) : Option Val :=
  match buildTree others pre name cands with
  | none => none
  | some tree =>
    if tree.count (!avoid) = 0 then some (pickAny cands proposal)
    else some (tree.sampleChild (!avoid) proposal)

/-- `after_trial`: `trials` are all trials of the study with the current one already in its final
state; `some true` = `study.stop()` is called; `none` = ValueError. -/
def afterTrial (avoid : Bool) (trials : List Trial) : Option Bool :=
  match populate (Tree.unexp false) trials [] with
  | none => none
  | some tree => some (tree.count (!avoid) == 0)

/-! ## the objective call and the optimize loop -/

/-- An external interruption (KeyboardInterrupt) of one trial: `mid j` hits after `j` parameters
were suggested and before the next one is asked for; `atEnd` hits after the last suggest. -/
inductive Cut where
  | none | mid (j : Nat) | atEnd
deriving DecidableEq, Repr

inductive ObjRes where
  | done (steps : List Step) (o : Outcome)
  | interrupted (steps : List Step)
  | samplerError (steps : List Step)

def ObjRes.steps : ObjRes → List Step
  | .done s _ => s
  | .interrupted s => s
  | .samplerError s => s

/-- does an exception leave `_run_trial` (uncaught failure, KeyboardInterrupt, sampler ValueError) -/
def ObjRes.raised : ObjRes → Bool
  | .done _ o => o.raises
  | _ => true

def ObjRes.isError : ObjRes → Bool
  | .samplerError _ => true
  | _ => false

/-- `func(trial)`: walks the program; `ω c` is the RNG proposal for the `c`-th sampler call of the
whole run.  Returns the result and the new call counter. -/
def runObj (avoid : Bool) (ω : Nat → Val) (others : List Trial) :
    Prog → List Step → Nat → Cut → ObjRes × Nat
  | .leaf o, pre, c, cut =>
    match cut with
    | .atEnd => (.interrupted pre, c)
    | _ => (.done pre o, c)
  | .node name single cands child, pre, c, cut =>
    if cut = .mid pre.length then (.interrupted pre, c)
    else if single then
      let v := cands.headD 0
      runObj avoid ω others (child v) (pre ++ [⟨name, cands, v⟩]) c cut
    else
      match sampleIndependent avoid others pre name cands (ω c) with
      | none => (.samplerError pre, c)
      | some v => runObj avoid ω others (child v) (pre ++ [⟨name, cands, v⟩]) (c + 1) cut

structure Ctx where
  avoid : Bool
  ω : Nat → Val
  cuts : Nat → Cut

/-- The study: stored trials (by number), `_stop_flag`, RNG call counter, and whether the sampler
ever raised. -/
structure St where
  trials : List Trial := []
  stop : Bool := false
  calls : Nat := 0
  crashed : Bool := false

/-- `_run_trial`: ask, run the objective, tell (which runs `after_trial`).  The Boolean says
whether an exception leaves `optimize` (uncaught failure, KeyboardInterrupt, sampler error). -/
def runTrial (cx : Ctx) (p : Prog) (st : St) : St × Bool :=
  let r := runObj cx.avoid cx.ω st.trials p [] st.calls (cx.cuts st.trials.length)
  let trials := st.trials ++ [⟨r.1.steps, true⟩]
  match afterTrial cx.avoid trials with
  | none => ({ trials := trials, stop := st.stop, calls := r.2, crashed := true }, true)
  | some s =>
    ({ trials := trials, stop := st.stop || s, calls := r.2, crashed := st.crashed || r.1.isError },
      r.1.raised)

/-- the `while True` of `_optimize_sequential` with `n_trials = fuel` -/
def optimizeLoop (cx : Ctx) (p : Prog) : Nat → St → St
  | 0, st => st
  | k + 1, st =>
    if st.stop then st
    else
      let r := runTrial cx p st
      if r.2 then r.1 else optimizeLoop cx p k r.1

/-- `study.optimize(objective, n_trials=k)` (resets the stop flag first). -/
def optimize (cx : Ctx) (p : Prog) (k : Nat) (st : St) : St :=
  optimizeLoop cx p k { st with stop := false }

/-- A run split into several `optimize` calls with budgets `ks`; the user stops resuming once a
call has ended with the stop flag set. -/
def session (cx : Ctx) (p : Prog) (ks : List Nat) (st : St) : St :=
  ks.foldl (fun st k => if st.stop then st else optimize cx p k st) st

end OptunaVerif.BruteForce
