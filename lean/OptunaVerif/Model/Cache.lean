import OptunaVerif.Model.Storage
/-
  Implementation-shaped model of the two client-side trial caches

    * `_CachedStorage`   (optuna/storages/_cached_storage.py)  — per study `_StudyInfo`
        (`trials : dict number -> FrozenTrial`, `unfinished_trial_ids`, `last_finished_trial_id`,
        `name`, `directions`) plus the two global memo dicts trial id <-> (study id, number);
    * `GrpcClientCache`  (optuna/storages/_grpc/client.py)     — per study `GrpcClientCacheEntry`
        (same three fields), filled through the servicer's `GetTrials`
        (optuna/storages/_grpc/servicer.py), which filters on the Python side,

  layered on the storage contract model `Storage.Spec` (the backend).  The incremental fetch of
  `RDBStorage._get_trials(study, None, included_trial_ids, trial_id_greater_than)`
  (optuna/storages/_rdb/storage.py) is `rdbFilter`, the servicer's comprehension is `servicerFilter`.

  Every function below is one lock-protected section of the Python code (or one backend call), so
  any interleaving of threads and clients is a sequence of these functions.
-/
namespace OptunaVerif.Cache
open OptunaVerif OptunaVerif.Storage

/-! ## Python `dict` (insertion ordered, `insert` overwrites in place) and `set` of ints -/

section Dict
variable {κ α : Type} [DecidableEq κ]

def find : List (κ × α) → κ → Option α
  | [], _ => none
  | (k', v) :: t, k => if k' = k then some v else find t k

def insert : List (κ × α) → κ → α → List (κ × α)
  | [], k, v => [(k, v)]
  | (k', v') :: t, k, v => if k' = k then (k', v) :: t else (k', v') :: insert t k v

def erase (l : List (κ × α)) (k : κ) : List (κ × α) := l.filter (fun p => decide (p.1 ≠ k))

end Dict

/-- `set.add` -/
def uadd (u : List Nat) (i : Nat) : List Nat := if u.contains i then u else u ++ [i]
/-- `set.discard` / guarded `set.remove` -/
def uremove (u : List Nat) (i : Nat) : List Nat := u.filter (fun j => decide (j ≠ i))

/-! ## one study's cache entry -/

/-- `_StudyInfo` / `GrpcClientCacheEntry` (the latter never uses `name`, `directions`). -/
structure Entry where
  /-- `trials`: number ↦ (trial id, snapshot) -/
  trials : List (Nat × (Nat × TrialS))
  /-- `unfinished_trial_ids` -/
  unfinished : List Nat
  /-- `last_finished_trial_id` -/
  watermark : Int
  name : Option String
  directions : Option (List Nat)
deriving DecidableEq, Repr, Inhabited

def Entry.empty : Entry := { trials := [], unfinished := [], watermark := -1, name := none, directions := none }

/-- `study.trials[trial.number] = trial` -/
def Entry.addTrial (e : Entry) (p : Nat × TrialS) : Entry :=
  { e with trials := insert e.trials p.2.number p }

/-- the watermark / unfinished-set bookkeeping for one fetched trial -/
def Entry.noteState (e : Entry) (p : Nat × TrialS) : Entry :=
  if p.2.state.isFinished then
    { e with watermark := max e.watermark (p.1 : Int), unfinished := uremove e.unfinished p.1 }
  else
    { e with unfinished := uadd e.unfinished p.1 }

/-- `GrpcClientCache._add_trial_to_cache` -/
def Entry.absorb1 (e : Entry) (p : Nat × TrialS) : Entry := (e.addTrial p).noteState p

/-- the loop of `GrpcClientCache._read_trials_from_remote_storage` -/
def Entry.absorb (e : Entry) (l : List (Nat × TrialS)) : Entry := l.foldl Entry.absorb1 e

/-- `_CachedStorage._read_trials_from_remote_storage`: first `_add_trials_to_cache` for the whole
batch, then the bookkeeping loop. -/
def Entry.absorb2 (e : Entry) (l : List (Nat × TrialS)) : Entry :=
  l.foldl Entry.noteState (l.foldl Entry.addTrial e)

/-! ### sorting by number (Python's `sorted` is stable; so is this insertion sort) -/

def orderedInsert (p : Nat × TrialS) : List (Nat × TrialS) → List (Nat × TrialS)
  | [] => [p]
  | q :: r => if p.2.number ≤ q.2.number then p :: q :: r else q :: orderedInsert p r

def sortByNumber : List (Nat × TrialS) → List (Nat × TrialS)
  | [] => []
  | p :: r => orderedInsert p (sortByNumber r)

/-- The locked tail of `get_all_trials`: filter the dict by state, sort the values by number. -/
def Entry.readAll (e : Entry) (states : Option (List TState)) : List (Nat × TrialS) :=
  sortByNumber ((e.trials.map (·.2)).filter (fun p => stateIn states p.2.state))

/-! ## the incremental fetch -/

/-- `t._trial_id > trial_id_greater_than or t._trial_id in included_trial_ids` (servicer.GetTrials) -/
def servicerFilter (inc : List Nat) (w : Int) (l : List (Nat × TrialS)) : List (Nat × TrialS) :=
  l.filter (fun p => decide ((p.1 : Int) > w) || inc.contains p.1)

/-- `RDBStorage._get_trials`: the included ids are first cut down to those `<= trial_id_greater_than`,
then one of three queries is issued. -/
def rdbFilter (inc : List Nat) (w : Int) (l : List (Nat × TrialS)) : List (Nat × TrialS) :=
  let inc' := inc.filter (fun (i : Nat) => decide ((i : Int) ≤ w))
  if inc'.length > 0 ∧ w > -1 then
    l.filter (fun p => inc'.contains p.1 || decide ((p.1 : Int) > w))
  else if w > -1 then
    l.filter (fun p => decide ((p.1 : Int) > w))
  else l

/-- `backend._get_trials(study_id, None, included, greater_than)` on the contract model. -/
def fetchRdb (s : Spec) (sid : Nat) (inc : List Nat) (w : Int) : Except Err (List (Nat × TrialS)) :=
  match s.study? sid with
  | none => .error .keyError
  | some _ => .ok (rdbFilter inc w (s.trialsOf sid))

/-! ## `_CachedStorage` -/

structure Client where
  /-- `_studies` -/
  studies : List (Nat × Entry)
  /-- `_trial_id_to_study_id_and_number` -/
  id2sn : List (Nat × (Nat × Nat))
  /-- `_study_id_and_number_to_trial_id` -/
  sn2id : List ((Nat × Nat) × Nat)
deriving DecidableEq, Repr, Inhabited

def Client.init : Client := { studies := [], id2sn := [], sn2id := [] }

def entryD (m : List (Nat × Entry)) (sid : Nat) : Entry := (find m sid).getD Entry.empty

/-- `if study_id not in self._studies: self._studies[study_id] = _StudyInfo()`, then update it -/
def upsert (m : List (Nat × Entry)) (sid : Nat) (f : Entry → Entry) : List (Nat × Entry) :=
  insert m sid (f (entryD m sid))

/-- one iteration of `_add_trials_to_cache` -/
def Client.addOne (sid : Nat) (c : Client) (p : Nat × TrialS) : Client :=
  { studies := upsert c.studies sid (fun e => e.addTrial p),
    id2sn := insert c.id2sn p.1 (sid, p.2.number),
    sn2id := insert c.sn2id (sid, p.2.number) p.1 }

/-- `_read_trials_from_remote_storage` (one critical section).  An empty answer returns early in
the Python code; folding an empty list is the same. -/
def Client.sync (s : Spec) (c : Client) (sid : Nat) : Client × Option Err :=
  let c0 : Client := { c with studies := upsert c.studies sid id }
  let e := entryD c0.studies sid
  match fetchRdb s sid e.unfinished e.watermark with
  | .error err => (c0, some err)
  | .ok l =>
    let c1 := l.foldl (Client.addOne sid) c0
    ({ c1 with studies := upsert c1.studies sid (fun e => l.foldl Entry.noteState e) }, none)

/-- the locked part of `create_new_trial`, given the `FrozenTrial` that `_create_new_trial` returned -/
def Client.noteCreated (c : Client) (sid : Nat) (p : Nat × TrialS) : Client :=
  let c1 := { c with studies := upsert c.studies sid id }.addOne sid p
  if p.2.state.isFinished then c1
  else { c1 with studies := upsert c1.studies sid (fun e => { e with unfinished := uadd e.unfinished p.1 }) }

/-- The pre-repair `create_new_trial` (finding F6): a finished template advanced the watermark.
Kept only for the regression witness in Props/C08. -/
def Client.noteCreatedF6 (c : Client) (sid : Nat) (p : Nat × TrialS) : Client :=
  let c1 := { c with studies := upsert c.studies sid id }.addOne sid p
  if p.2.state.isFinished then
    { c1 with studies := upsert c1.studies sid (fun e => { e with watermark := max e.watermark (p.1 : Int) }) }
  else { c1 with studies := upsert c1.studies sid (fun e => { e with unfinished := uadd e.unfinished p.1 }) }

/-- the locked part of `delete_study` -/
def Client.dropStudy (c : Client) (sid : Nat) : Client :=
  match find c.studies sid with
  | none => c
  | some e =>
    let c' := e.trials.foldl (fun (c : Client) kv =>
      let id2sn := match find c.sn2id (sid, kv.1) with
        | some tid => erase c.id2sn tid
        | none => c.id2sn
      { c with id2sn := id2sn, sn2id := erase c.sn2id (sid, kv.1) }) c
    { c' with studies := erase c'.studies sid }

inductive Served where
  /-- not answered from the cache: ask the backend -/
  | miss
  /-- answered from the cache -/
  | hit (id : Nat) (t : TrialS)
  /-- a dict subscript inside `_get_cached_trial` raises `KeyError` -/
  | crash
deriving DecidableEq, Repr

/-- `_get_cached_trial` -/
def Client.serveTrial (c : Client) (tid : Nat) : Served :=
  match find c.id2sn tid with
  | none => .miss
  | some (sid, n) =>
    match find c.studies sid with
    | none => .crash
    | some e =>
      if e.unfinished.contains tid then .miss
      else match find e.trials n with
        | some p => .hit p.1 p.2
        | none => .crash

def trialParamOut (t : TrialS) (name : String) : Out :=
  match t.params.get? name with
  | some p => .str p.internal
  | none => .err .keyError

/-- One public method of `_CachedStorage` called by a single thread: the backend call(s) it makes and
its critical sections, in program order.  Returns the new backend, the new cache, the answer. -/
def callCached (s : Spec) (c : Client) (op : Op) : Spec × Client × Out :=
  match op with
  | .createStudy name dirs =>
    match step s op with
    | (s', .newId sid) =>
      (s', { c with studies := insert c.studies sid { Entry.empty with name := some name, directions := some dirs } },
        .newId sid)
    | (s', out) => (s', c, out)
  | .deleteStudy sid =>
    let r := step s op
    (r.1, c.dropStudy sid, r.2)
  | .getStudyNameFromId sid =>
    match (find c.studies sid).bind (·.name) with
    | some nm => (s, c, .str nm)
    | none =>
      match step s op with
      | (s', .str nm) => (s', { c with studies := upsert c.studies sid (fun e => { e with name := some nm }) }, .str nm)
      | (s', out) => (s', c, out)
  | .getStudyDirections sid =>
    match (find c.studies sid).bind (·.directions) with
    | some d => (s, c, .nats d)
    | none =>
      match step s op with
      | (s', .nats d) => (s', { c with studies := upsert c.studies sid (fun e => { e with directions := some d }) }, .nats d)
      | (s', out) => (s', c, out)
  | .createTrial sid _ _ =>
    match step s op with
    | (s', .newId tid) =>
      match s'.trials[tid]? with
      | some t => (s', c.noteCreated sid (tid, t), .newId tid)
      | none => (s', c, .newId tid)
    | (s', out) => (s', c, out)
  | .getTrialIdFromNumber sid n =>
    match find c.sn2id (sid, n) with
    | some tid => (s, c, .nat tid)
    | none => let r := step s op; (r.1, c, r.2)
  | .getTrial tid =>
    match c.serveTrial tid with
    | .hit id t => (s, c, .trial id t)
    | .crash => (s, c, .err .keyError)
    | .miss => let r := step s op; (r.1, c, r.2)
  | .getTrialNumberFromId tid =>      -- BaseStorage: `self.get_trial(trial_id).number`
    match c.serveTrial tid with
    | .hit _ t => (s, c, .nat t.number)
    | .crash => (s, c, .err .keyError)
    | .miss => let r := step s op; (r.1, c, r.2)
  | .getTrialParam tid name =>        -- BaseStorage: via `self.get_trial(trial_id)`
    match c.serveTrial tid with
    | .hit _ t => (s, c, trialParamOut t name)
    | .crash => (s, c, .err .keyError)
    | .miss => let r := step s op; (r.1, c, r.2)
  | .getAllTrials sid states =>
    match c.sync s sid with
    | (c', some e) => (s, c', .err e)
    | (c', none) => (s, c', .trials ((entryD c'.studies sid).readAll states))
  | .getNTrials sid states =>         -- BaseStorage: `len(self.get_all_trials(...))`
    match c.sync s sid with
    | (c', some e) => (s, c', .err e)
    | (c', none) => (s, c', .nat ((entryD c'.studies sid).readAll states).length)
  | _ => let r := step s op; (r.1, c, r.2)

/-! ## `GrpcStorageProxy` + `GrpcClientCache`, and the servicer it talks to -/

/-- `GrpcClientCache.studies` -/
structure Proxy where
  studies : List (Nat × Entry)
deriving DecidableEq, Repr, Inhabited

def Proxy.init : Proxy := { studies := [] }

/-- A servicer forwards every call to its `_backend`: the storage itself (`none`) or a
`_CachedStorage` around it (`get_storage(url)`, as the docstring of `run_grpc_proxy_server` advises). -/
def callServer (s : Spec) (sc : Option Client) (op : Op) : Spec × Option Client × Out :=
  match sc with
  | none => let r := step s op; (r.1, none, r.2)
  | some c => let r := callCached s c op; (r.1, some r.2.1, r.2.2)

/-- `GrpcClientCache.get_all_trials` (one critical section): `GetTrials` = the backend's
`get_all_trials(study_id, deepcopy=False)` filtered on the Python side; `NOT_FOUND` drops the entry. -/
def Proxy.getAll (s : Spec) (sc : Option Client) (p : Proxy) (sid : Nat) (states : Option (List TState)) :
    Spec × Option Client × Proxy × Except Err (List (Nat × TrialS)) :=
  let e := entryD p.studies sid
  match callServer s sc (.getAllTrials sid none) with
  | (s', sc', .trials l) =>
    let e' := e.absorb (servicerFilter e.unfinished e.watermark l)
    (s', sc', { studies := insert p.studies sid e' }, .ok (e'.readAll states))
  | (s', sc', .err err) => (s', sc', { studies := erase p.studies sid }, .error err)
  | (s', sc', _) => (s', sc', { studies := insert p.studies sid e }, .error .runtimeError)

/-- One public method of `GrpcStorageProxy`.  (`get_best_trial`, which `BaseStorage` derives from
`get_all_trials`, is not modelled; the harness never issues it through a proxy.) -/
def callProxy (s : Spec) (sc : Option Client) (p : Proxy) (op : Op) : Spec × Option Client × Proxy × Out :=
  match op with
  | .getAllTrials sid states =>
    match p.getAll s sc sid states with
    | (s', sc', p', .ok l) => (s', sc', p', .trials l)
    | (s', sc', p', .error e) => (s', sc', p', .err e)
  | .getNTrials sid states =>
    match p.getAll s sc sid states with
    | (s', sc', p', .ok l) => (s', sc', p', .nat l.length)
    | (s', sc', p', .error e) => (s', sc', p', .err e)
  | .deleteStudy sid =>
    match callServer s sc op with
    | (s', sc', .unit) => (s', sc', { studies := erase p.studies sid }, .unit)
    | (s', sc', out) => (s', sc', p, out)
  | _ => let r := callServer s sc op; (r.1, r.2.1, p, r.2.2)

/-! ## any number of clients on one backend -/

inductive Node where
  /-- a plain `RDBStorage(url)` / the storage object itself -/
  | raw
  /-- a `_CachedStorage` on the backend -/
  | cached (c : Client)
  /-- a `GrpcStorageProxy`; `server = some j`: the servicer's backend is the cached node `j`,
      `none`: the storage itself -/
  | proxy (server : Option Nat) (p : Proxy)
deriving Repr, Inhabited

structure Sys where
  backend : Spec
  nodes : List Node
deriving Repr, Inhabited

def setNode (l : List Node) (i : Nat) (n : Node) : List Node := updAt l i (fun _ => n)

/-- node `i` executes one storage call -/
def Sys.call (y : Sys) (i : Nat) (op : Op) : Sys × Out :=
  match y.nodes[i]? with
  | none | some .raw => let r := step y.backend op; ({ y with backend := r.1 }, r.2)
  | some (.cached c) =>
    let r := callCached y.backend c op
    ({ backend := r.1, nodes := setNode y.nodes i (.cached r.2.1) }, r.2.2)
  | some (.proxy srv p) =>
    match srv.bind (fun j => match y.nodes[j]? with | some (.cached c) => some (j, c) | _ => none) with
    | some (j, c) =>
      match callProxy y.backend (some c) p op with
      | (s', some c', p', out) =>
        ({ backend := s', nodes := setNode (setNode y.nodes j (.cached c')) i (.proxy srv p') }, out)
      | (s', none, p', out) => ({ backend := s', nodes := setNode y.nodes i (.proxy srv p') }, out)
    | none =>
      let r := callProxy y.backend none p op
      ({ backend := r.1, nodes := setNode y.nodes i (.proxy srv r.2.2.1) }, r.2.2.2)

def Sys.run (y : Sys) (calls : List (Nat × Op)) : Sys := calls.foldl (fun y c => (y.call c.1 c.2).1) y

end OptunaVerif.Cache
