import OptunaVerif.Model.Cache
/-
  A small statement language for the method bodies of the two client-side trial caches and its
  interpreter over the state of the hand model `Model/Cache.lean`:

      optuna/storages/_cached_storage.py   every method of `_CachedStorage` (cached getters, the memo dicts,
                                           `create_new_trial`, `_read_trials_from_remote_storage`, `_add_trials_to_cache`,
                                           `_get_cached_trial`, `delete_study`, the pass-throughs)
      optuna/storages/_rdb/storage.py      `RDBStorage._get_trials` (which of the three queries; the fallback)
      optuna/storages/_grpc/client.py      `GrpcClientCache.*`, `GrpcStorageProxy.get_all_trials / get_trial / delete_study`
      optuna/storages/_grpc/servicer.py    `OptunaStorageProxyService.GetTrials`

  `verif/translators/tcache.py` reads the Python source with `ast` on every run and emits every one of those
  bodies as DATA of the type `Stmt` below into `Generated/CacheMethods.lean`; `Props/C08Gen.lean` proves, for
  all backend states, cache states and arguments, `interp (generated body) = hand model`
  (`Cache.callCached`, `Cache.rdbFilter` / `fetchRdb`, `Cache.servicerFilter`, `Cache.Proxy.getAll`,
  `Cache.callProxy`) and restates the C08 theorems for the interpreter.

  CONTROL FLOW is given meaning once (`exec`): sequencing, if/elif/else, raise, bare raise, return,
  continue/break, try/except with the classes named, `for` over a list evaluated once, `with <lock>:` (`locked`,
  transparent: a critical section is atomic in the hand model as well), calls of a helper method of the same
  class (`call`: the callee's generated body is inlined, runs on its own locals, its `return` value is kept).

  The PRIMITIVES (`Prim`, `Act`, `RetExpr`, `Iter`, `Bind`) each stand for ONE whitelisted source shape (written
  next to the constructor); their denotation on the representation of `Model/Cache.lean` — Python dicts as
  association lists with `Cache.find / insert / erase`, `set`s with `uadd / uremove`, the `study = self._studies[…]`
  alias as "the entry of that study id", a fresh `_StudyInfo()` as a local `Entry` until it is stored, a
  `FrozenTrial` as `(id, TrialS)`, one backend call as `Storage.step` / `fetch`, one RPC as the server's
  answer — is *meaning given here* (modelled, not derived from the source).

  `unrep` marks "a local is unbound / a primitive is used outside its whitelisted context / the Python object
  is in a state this representation cannot express"; the `interp*` functions answer `none` then, and since the
  equality theorems say `interp … = some (hand model …)` they fail.
-/
namespace OptunaVerif.CacheIR
open OptunaVerif OptunaVerif.Storage OptunaVerif.Cache

/-! ### syntax -/

inductive Cls where
  | baseException | exception | keyError | lookupError | valueError | runtimeError | rpcError | operationalError
deriving DecidableEq, Repr, Inhabited

inductive Prim where
  | studyIdInStudies          -- `study_id in self._studies` / `study_id in self.studies`
  | nameIsNone                -- `name is None`
  | directionsIsNone          -- `directions is None`
  | frozenFinished            -- `frozen_trial.state.is_finished()`
  | keyInSn2id                -- `key in self._study_id_and_number_to_trial_id` / `(study_id, trial_number) in self._study_id_and_number_to_trial_id`
  | tidInId2sn                -- `trial_id in self._trial_id_to_study_id_and_number`
  | tidInUnfinished           -- `trial_id in study.unfinished_trial_ids`
  | trialIsNone               -- `trial is None`
  | statesIsNone              -- `states is None`
  | deepcopy                  -- `deepcopy`
  | trialsTruthy              -- `trials` as a condition (a non-empty list)
  | resTrialsTruthy           -- `res.trials` as a condition
  | trialFinished             -- `trial.state.is_finished()`
  | trialStateIs (s : TState) -- `trial.state == TrialState.S`
  | trialInUnfinished         -- `trial._trial_id in study.unfinished_trial_ids`
  | rpcNotFound               -- `e.code() == grpc.StatusCode.NOT_FOUND`
  | includedNonEmpty          -- `len(included_trial_ids) > 0`
  | greaterThanSet            -- `trial_id_greater_than > -1`
  | trialsLenZero             -- `len(trials) == 0`
  | lastIdLeGreaterThan       -- `trials[-1]._trial_id <= trial_id_greater_than`
deriving DecidableEq, Repr, Inhabited

inductive Cond where
  | tt | ff
  | not (c : Cond)
  | and (a b : Cond)
  | or (a b : Cond)
  | prim (p : Prim)
deriving DecidableEq, Repr, Inhabited

/-- backend methods a `_CachedStorage` method forwards to with its own arguments -/
inductive BackendM where
  | createNewStudy | deleteStudy | setStudyUserAttr | setStudySystemAttr | getStudyIdFromName | getStudyNameFromId
  | getStudyDirections | getStudyUserAttrs | getStudySystemAttrs | getAllStudies | createNewTrial | setTrialParam
  | getTrialIdFromStudyIdTrialNumber | getBestTrial | setTrialStateValues | setTrialIntermediateValue
  | setTrialUserAttr | setTrialSystemAttr | getTrial
  | other (name : String)     -- heartbeat plumbing etc.: not part of the storage contract
deriving DecidableEq, Repr, Inhabited

inductive Act where
  -- _CachedStorage
  | backend (m : BackendM)        -- `[x =] [return] self._backend.<m>(<the method's own arguments>)`
  | studyIdFromResult             -- `study_id = self._backend.create_new_study(...)`  (binds the answer)
  | newStudyInfo                  -- `study = _StudyInfo()`
  | freshSetName                  -- `study.name = study_name`
  | freshSetDirs                  -- `study.directions = list(directions)`
  | storeFresh                    -- `self._studies[study_id] = study`
  | initStudyInfo                 -- `self._studies[study_id] = _StudyInfo()` / `self.studies[study_id] = GrpcClientCacheEntry()`
  | aliasStudy                    -- `study = self._studies[study_id]` / `study = self.studies[study_id]`
  | loadCachedName                -- `name = self._studies[study_id].name`
  | loadCachedDirs                -- `directions = self._studies[study_id].directions`
  | nameFromResult                -- `name = self._backend.get_study_name_from_id(study_id)`
  | dirsFromResult                -- `directions = self._backend.get_study_directions(study_id)`
  | storeName                     -- `self._studies[study_id].name = name`
  | storeDirs                     -- `self._studies[study_id].directions = directions`
  | lookupIdOpt                   -- `trial_id = self._study_id_and_number_to_trial_id.get((study_id, trial_number))`
  | delId2sn                      -- `del self._trial_id_to_study_id_and_number[trial_id]`
  | delSn2id                      -- `del self._study_id_and_number_to_trial_id[(study_id, trial_number)]`
  | delStudy                      -- `del self._studies[study_id]`
  | frozenFromResult              -- `frozen_trial = self._backend._create_new_trial(study_id, template_trial)`
  | tidFromFrozen                 -- `trial_id = frozen_trial._trial_id`
  | unfinishedAddTid              -- `study.unfinished_trial_ids.add(trial_id)`
  | watermarkMaxTid               -- `study.last_finished_trial_id = max(study.last_finished_trial_id, trial_id)`
  | makeKey                       -- `key = (study_id, trial_number)`
  | unpackId2sn                   -- `study_id, number = self._trial_id_to_study_id_and_number[trial_id]`
  | selectByStates                -- `trials = {number: t for number, t in study.trials.items() if t.state in states}`
  | selectAll                     -- `trials = study.trials`
  | sortByNumber                  -- `trials = list(sorted(trials.values(), key=lambda t: t.number))`
  | listByStates                  -- `trials = [t for t in study.trials.values() if t.state in states]`
  | listAll                       -- `trials = list(study.trials.values())`
  | backendGetTrials (statesNone : Bool)  -- `trials = self._backend._get_trials(study_id, states=None|states, included_trial_ids=study.unfinished_trial_ids, trial_id_greater_than=study.last_finished_trial_id)`
  | setId2sn                      -- `self._trial_id_to_study_id_and_number[trial._trial_id] = (study_id, trial.number)`
  | setSn2id                      -- `self._study_id_and_number_to_trial_id[(study_id, trial.number)] = trial._trial_id`
  | setEntryTrial                 -- `study.trials[trial.number] = trial`
  | unfinishedAddTrial            -- `study.unfinished_trial_ids.add(trial._trial_id)`
  | watermarkMaxTrial             -- `study.last_finished_trial_id = max(study.last_finished_trial_id, trial._trial_id)`
  | unfinishedRemoveTrial         -- `study.unfinished_trial_ids.remove(trial._trial_id)`
  | unfinishedDiscardTrial        -- `study.unfinished_trial_ids.discard(trial._trial_id)`
  -- GrpcClientCache / GrpcStorageProxy
  | popStudy                      -- `self.studies.pop(study_id, None)`
  | makeGetTrialsRequest          -- `req = api_pb2.GetTrialsRequest(study_id=study_id, included_trial_ids=study.unfinished_trial_ids, trial_id_greater_than=study.last_finished_trial_id)`
  | rpcGetTrials                  -- `res = self.grpc_client.GetTrials(req)`
  | decodeTrial                   -- `trial = grpc_servicer._from_proto_trial(trial_proto)`
  | cacheGetAllTrials             -- `trials = self._cache.get_all_trials(study_id, states)`
  | cacheDeleteStudy              -- `self._cache.delete_study_cache(study_id)`
  | makeRequest                   -- `request = api_pb2.<X>Request(<the method's own arguments>)`
  | rpc                           -- `[response =] self._stub.<X>(request)`
  -- RDBStorage._get_trials
  | cutIncluded                   -- `included_trial_ids = set(trial_id for trial_id in included_trial_ids if trial_id <= trial_id_greater_than)`
  | ensureStudyExists             -- `models.StudyModel.find_or_raise_by_id(study_id, session)`
  | baseQuery                     -- `query = session.query(models.TrialModel).options(…)….filter(models.TrialModel.study_id == study_id)`
  | filterStates                  -- `query = query.filter(models.TrialModel.state.in_(states))`
  | queryInOrGreater              -- `_query = query.filter(sqlalchemy.or_(models.TrialModel.trial_id.in_(included_trial_ids), models.TrialModel.trial_id > trial_id_greater_than))`
  | queryGreater                  -- `_query = query.filter(models.TrialModel.trial_id > trial_id_greater_than)`
  | queryAll                      -- `_query = query`
  | runQuery                      -- `trial_models = _query.order_by(models.TrialModel.trial_id).all()`
  | runBaseQuery                  -- `trial_models = query.order_by(models.TrialModel.trial_id).all()`
  | pyFilter                      -- `trial_models = [t for t in trial_models if t.trial_id in included_trial_ids or t.trial_id > trial_id_greater_than]`
  | buildTrials                   -- `trials = [self._build_frozen_trial_from_trial_model(trial) for trial in trial_models]`
  | logWarning                    -- `_logger.warning(<message>)`
  -- servicer GetTrials
  | readRequest                   -- `study_id = request.study_id; included_trial_ids = set(request.included_trial_ids); trial_id_greater_than = request.trial_id_greater_than`
  | backendGetAllTrials           -- `trials = self._backend.get_all_trials(study_id, deepcopy=False)`
  | abortNotFound                 -- `context.abort(code=grpc.StatusCode.NOT_FOUND, details=str(e))`
  | filterTrials                  -- `filtered_trials = [_to_proto_trial(t) for t in trials if t._trial_id > trial_id_greater_than or t._trial_id in included_trial_ids]`
deriving DecidableEq, Repr, Inhabited

inductive RaiseExpr where
  | keyError                      -- `raise KeyError [from e]`
deriving DecidableEq, Repr, Inhabited

inductive RetExpr where
  | none                          -- `return` / `return None`
  | studyId                       -- `return study_id`
  | trialId                       -- `return trial_id`
  | name                          -- `return name`
  | directions                    -- `return directions`
  | sn2idAtKey                    -- `return self._study_id_and_number_to_trial_id[key]`
  | backendResult                 -- `return self._backend.<m>(…)` (the answer of the backend call emitted just before)
  | trial                         -- `return trial`
  | entryTrialAtNumber            -- `study.trials[number]`
  | trials                        -- `return trials` / `return copy.deepcopy(trials) if deepcopy else trials`
  | rpcTrial                      -- `return grpc_servicer._from_proto_trial(response.trial)`
  | reply                         -- `return api_pb2.GetTrialsReply(trials=filtered_trials)`
  | emptyReply                    -- `return api_pb2.GetTrialsReply(trials=[])`
deriving DecidableEq, Repr, Inhabited

inductive Iter where
  | cachedNumbers                 -- `for trial_number in self._studies[study_id].trials:`
  | trials                        -- `for trial in trials:`
  | resTrials                     -- `for trial_proto in res.trials:`
deriving DecidableEq, Repr, Inhabited

/-- how a helper's parameters are bound at a call site -/
inductive Bind where
  | studyIdFrozen                 -- `self._add_trials_to_cache(study_id, [frozen_trial])`
  | studyIdTrials                 -- `self._add_trials_to_cache(study_id, trials)`
  | studyId                       -- `self._read_trials_from_remote_storage(study_id)`
  | studyIdStates                 -- `self._read_trials_from_remote_storage(study_id, states)`
  | trialId                       -- `self._get_cached_trial(trial_id)`
  | studyIdTrial                  -- `self._add_trial_to_cache(study_id, trial)`
deriving DecidableEq, Repr, Inhabited

/-- where the value a helper returns goes -/
inductive Target where
  | drop                          -- an expression statement
  | trial                         -- `trial = self._get_cached_trial(trial_id)`
deriving DecidableEq, Repr, Inhabited

inductive Stmt where
  | skip
  | seq (a b : Stmt)
  | ite (c : Cond) (t e : Stmt)
  | raise (x : RaiseExpr)
  | reraise
  | ret (r : RetExpr)
  | brk | cont
  | tryExcept (body handlers orelse : Stmt)
  | onExc (cls : List Cls) (h rest : Stmt)
  | forIn (it : Iter) (body : Stmt)
  | locked (body : Stmt)          -- `with self._lock:` / `with self.lock:`
  | scoped (body : Stmt)          -- `with _create_scoped_session(self.scoped_session) as session:`
  | call (b : Bind) (into : Target) (callee : Stmt)
  | act (a : Act)
deriving DecidableEq, Repr, Inhabited

def block : List Stmt → Stmt
  | [] => .skip
  | [s] => s
  | s :: rest => .seq s (block rest)

def Stmt.hd : Stmt → Stmt
  | .seq a _ => a
  | s => s
def Stmt.tl : Stmt → Stmt
  | .seq _ b => b
  | _ => .skip

/-! ### generic control flow -/

inductive Flow (ε : Type) where
  | next | brk | cont | ret
  | raised (e : ε)
deriving DecidableEq, Repr, Inhabited

structure Machine (σ ε ι : Type) where
  prim : Prim → Option ε → σ → σ × Except ε Bool
  act : Act → Option ε → σ → σ × Option ε
  mkExc : RaiseExpr → σ → ε
  mro : ε → List Cls
  items : Iter → σ → σ × Except ε (List ι)
  bind : Iter → ι → σ → σ
  /-- evaluate the returned expression into the state's return slot -/
  onRet : RetExpr → σ → σ × Option ε
  /-- bind the callee's parameters (on fresh locals) -/
  enter : Bind → σ → σ × Option ε
  /-- back in the caller: its locals as they were (first argument), the heap and the returned value as the callee
  left them (second argument) -/
  leave : Target → σ → σ → σ
  unrep : ε

variable {σ ε ι : Type}

def evalCond (M : Machine σ ε ι) : Cond → Option ε → σ → σ × Except ε Bool
  | .tt, _, s => (s, .ok true)
  | .ff, _, s => (s, .ok false)
  | .not c, cur, s =>
    match evalCond M c cur s with
    | (s', .ok b) => (s', .ok (!b))
    | r => r
  | .and a b, cur, s =>
    match evalCond M a cur s with
    | (s', .ok true) => evalCond M b cur s'
    | r => r
  | .or a b, cur, s =>
    match evalCond M a cur s with
    | (s', .ok false) => evalCond M b cur s'
    | r => r
  | .prim p, cur, s => M.prim p cur s

def forLoop (f : σ → σ × Flow ε) (bind : ι → σ → σ) : List ι → σ → σ × Flow ε
  | [], s => (s, .next)
  | x :: xs, s =>
    match f (bind x s) with
    | (s', .next) => forLoop f bind xs s'
    | (s', .cont) => forLoop f bind xs s'
    | (s', .brk) => (s', .next)
    | r => r

def catches (mro : ε → List Cls) (cls : List Cls) (e : ε) : Bool := cls.any (fun c => (mro e).contains c)

def exec (M : Machine σ ε ι) : Stmt → Option ε → σ → σ × Flow ε
  | .skip, _, s => (s, .next)
  | .seq a b, cur, s =>
    match exec M a cur s with
    | (s', .next) => exec M b cur s'
    | r => r
  | .ite c t e, cur, s =>
    match evalCond M c cur s with
    | (s', .error x) => (s', .raised x)
    | (s', .ok true) => exec M t cur s'
    | (s', .ok false) => exec M e cur s'
  | .raise x, _, s => (s, .raised (M.mkExc x s))
  | .reraise, cur, s =>
    match cur with
    | some e => (s, .raised e)
    | none => (s, .raised M.unrep)
  | .ret r, _, s =>
    match M.onRet r s with
    | (s', none) => (s', .ret)
    | (s', some e) => (s', .raised e)
  | .brk, _, s => (s, .brk)
  | .cont, _, s => (s, .cont)
  | .tryExcept body handlers orelse, cur, s =>
    match exec M body cur s with
    | (s', .raised e) => exec M handlers (some e) s'
    | (s', .next) => exec M orelse cur s'
    | r => r
  | .onExc cls h rest, cur, s =>
    match cur with
    | none => (s, .raised M.unrep)
    | some e => if catches M.mro cls e then exec M h cur s else exec M rest cur s
  | .forIn it body, cur, s =>
    match M.items it s with
    | (s', .error e) => (s', .raised e)
    | (s', .ok xs) => forLoop (exec M body cur) (M.bind it) xs s'
  | .locked body, cur, s => exec M body cur s
  | .scoped body, cur, s => exec M body cur s
  | .call b into callee, _, s =>
    match M.enter b s with
    | (s1, some e) => (s1, .raised e)
    | (s1, none) =>
      match exec M callee none s1 with
      | (s2, .raised e) => (M.leave .drop s s2, .raised e)
      | (s2, .ret) => (M.leave into s s2, .next)
      | (s2, .next) => (M.leave into s s2, .next)     -- fell off the end: `None`
      | (s2, _) => (s2, .raised M.unrep)
  | .act a, cur, s =>
    match M.act a cur s with
    | (s', none) => (s', .next)
    | (s', some e) => (s', .raised e)

/-! ### exceptions -/

inductive CExn where
  | err (e : Err)          -- an exception of the storage contract (KeyError, …), also a dict's own KeyError
  | rpc (e : Err)          -- a `grpc.RpcError` carrying the status the servicer chose for that contract error
  | operational            -- `sqlalchemy.exc.OperationalError` (too many SQL variables)
  | unrep
deriving DecidableEq, Repr, Inhabited

def errMro : Err → List Cls
  | .keyError => [.keyError, .lookupError, .exception, .baseException]
  | .duplicated => [.exception, .baseException]
  | .updateFinished => [.runtimeError, .exception, .baseException]
  | .valueError => [.valueError, .exception, .baseException]
  | .runtimeError => [.runtimeError, .exception, .baseException]

def CExn.mro : CExn → List Cls
  | .err e => errMro e
  | .rpc _ => [.rpcError, .exception, .baseException]
  | .operational => [.operationalError, .exception, .baseException]
  | .unrep => []

/-! ### `_CachedStorage` -/

/-- local `study` -/
inductive Ref where
  | unbound
  | fresh (e : Entry)        -- a `_StudyInfo()` not stored yet
  | stored (sid : Nat)       -- alias of `self._studies[sid]`
deriving DecidableEq, Repr, Inhabited

structure Locals where
  sid : Option Nat := none                       -- `study_id`
  num : Option Nat := none                       -- `trial_number` / `number`
  tid : Option Nat := none                       -- `trial_id` (`none` also stands for Python's None)
  key : Option (Nat × Nat) := none               -- `key`
  study : Ref := .unbound
  frozen : Option (Nat × TrialS) := none         -- `frozen_trial`
  trials : Option (List (Nat × TrialS)) := none  -- `trials` as a list of FrozenTrial
  dict : Option (List (Nat × (Nat × TrialS))) := none   -- `trials` while it is a dict number -> FrozenTrial
  trial : Option (Option (Nat × TrialS)) := none -- `trial` (bound to None or to a FrozenTrial)
  name : Option (Option String) := none
  dirs : Option (Option (List Nat)) := none
  states : Option (List TState) := none          -- parameter `states` (`none` = None)
  result : Option Out := none                    -- the answer of the backend call made last
deriving Repr, Inhabited

structure CSt where
  s : Spec
  c : Client
  l : Locals := {}
  retv : Option Out := none
deriving Repr, Inhabited

/-- the public call being executed supplies the arguments -/
def opSid : Op → Option Nat
  | .deleteStudy sid | .setStudyUserAttr sid _ _ | .setStudySystemAttr sid _ _ | .createTrial sid _ _
  | .getStudyNameFromId sid | .getStudyDirections sid | .getStudyUserAttrs sid | .getStudySystemAttrs sid
  | .getTrialIdFromNumber sid _ | .getAllTrials sid _ | .getNTrials sid _ | .getBestTrial sid => some sid
  | _ => none

def opTid : Op → Option Nat
  | .setTrialParam tid _ _ _ | .setTrialStateValues tid _ _ | .setTrialInter tid _ _ | .setTrialUserAttr tid _ _
  | .setTrialSystemAttr tid _ _ | .getTrialNumberFromId tid | .getTrialParam tid _ | .getTrial tid => some tid
  | _ => none

def opNum : Op → Option Nat
  | .getTrialIdFromNumber _ n => some n
  | _ => none

def opStates : Op → Option (List TState)
  | .getAllTrials _ st | .getNTrials _ st => st
  | _ => none

/-- does the backend method named in the source correspond to the contract operation being executed -/
def backendMatches : BackendM → Op → Bool
  | .createNewStudy, .createStudy .. => true
  | .deleteStudy, .deleteStudy .. => true
  | .setStudyUserAttr, .setStudyUserAttr .. => true
  | .setStudySystemAttr, .setStudySystemAttr .. => true
  | .getStudyIdFromName, .getStudyIdFromName .. => true
  | .getStudyNameFromId, .getStudyNameFromId .. => true
  | .getStudyDirections, .getStudyDirections .. => true
  | .getStudyUserAttrs, .getStudyUserAttrs .. => true
  | .getStudySystemAttrs, .getStudySystemAttrs .. => true
  | .getAllStudies, .getAllStudies => true
  | .createNewTrial, .createTrial .. => true
  | .setTrialParam, .setTrialParam .. => true
  | .getTrialIdFromStudyIdTrialNumber, .getTrialIdFromNumber .. => true
  | .getBestTrial, .getBestTrial .. => true
  | .setTrialStateValues, .setTrialStateValues .. => true
  | .setTrialIntermediateValue, .setTrialInter .. => true
  | .setTrialUserAttr, .setTrialUserAttr .. => true
  | .setTrialSystemAttr, .setTrialSystemAttr .. => true
  | .getTrial, .getTrial .. => true
  -- BaseStorage derives these two from `get_trial`
  | .getTrial, .getTrialNumberFromId .. => true
  | .getTrial, .getTrialParam .. => true
  | _, _ => false

def setL (x : CSt) (f : Locals → Locals) : CSt := { x with l := f x.l }
def setStudies (x : CSt) (m : List (Nat × Entry)) : CSt := { x with c := { x.c with studies := m } }

def ok (x : CSt) : CSt × Option CExn := (x, none)
def bad (x : CSt) : CSt × Option CExn := (x, some .unrep)
def keyErr (x : CSt) : CSt × Option CExn := (x, some (.err .keyError))

/-- update the entry the local `study` aliases (it must be stored) -/
def updAlias (x : CSt) (f : Entry → Entry) : CSt × Option CExn :=
  match x.l.study with
  | .stored sid =>
    match find x.c.studies sid with
    | some _ => ok (setStudies x (upsert x.c.studies sid f))
    | none => bad x
  | _ => bad x

def aliasEntry (x : CSt) : Option Entry :=
  match x.l.study with
  | .stored sid => find x.c.studies sid
  | _ => none

/-- `fetch`: the denotation of `self._backend._get_trials(study_id, states, included, greater_than)` -/
abbrev Fetch := Spec → Nat → Option (List TState) → List Nat → Int → Option (Except Err (List (Nat × TrialS)))

def cachedM (op : Op) (fetch : Fetch) : Machine CSt CExn (Nat ⊕ (Nat × TrialS)) where
  prim p _ x := match p with
    | .studyIdInStudies => match x.l.sid with
      | some sid => (x, .ok (find x.c.studies sid).isSome)
      | none => (x, .error .unrep)
    | .nameIsNone => match x.l.name with
      | some n => (x, .ok n.isNone)
      | none => (x, .error .unrep)
    | .directionsIsNone => match x.l.dirs with
      | some d => (x, .ok d.isNone)
      | none => (x, .error .unrep)
    | .frozenFinished => match x.l.frozen with
      | some p => (x, .ok p.2.state.isFinished)
      | none => (x, .error .unrep)
    | .keyInSn2id =>
      match (match x.l.key with | some k => some k | none => match x.l.sid, x.l.num with | some a, some b => some (a, b) | _, _ => none) with
      | some k => (x, .ok (find x.c.sn2id k).isSome)
      | none => (x, .error .unrep)
    | .tidInId2sn => match x.l.tid with
      | some tid => (x, .ok (find x.c.id2sn tid).isSome)
      | none => (x, .ok false)       -- `None in dict`
    | .tidInUnfinished => match x.l.tid, aliasEntry x with
      | some tid, some e => (x, .ok (e.unfinished.contains tid))
      | _, _ => (x, .error .unrep)
    | .trialIsNone => match x.l.trial with
      | some t => (x, .ok t.isNone)
      | none => (x, .error .unrep)
    | .statesIsNone => (x, .ok x.l.states.isNone)
    | .deepcopy => (x, .ok true)     -- either arm of `copy.deepcopy(trials) if deepcopy else trials` is the same list here
    | .trialsTruthy => match x.l.trials with
      | some l => (x, .ok (!l.isEmpty))
      | none => (x, .error .unrep)
    | .trialFinished => match x.l.trial with
      | some (some p) => (x, .ok p.2.state.isFinished)
      | _ => (x, .error .unrep)
    | .trialStateIs st => match x.l.trial with
      | some (some p) => (x, .ok (decide (p.2.state = st)))
      | _ => (x, .error .unrep)
    | .trialInUnfinished => match x.l.trial, aliasEntry x with
      | some (some p), some e => (x, .ok (e.unfinished.contains p.1))
      | _, _ => (x, .error .unrep)
    | _ => (x, .error .unrep)
  act a _ x := match a with
    | .backend m =>
      if backendMatches m op then
        let r := step x.s op
        match r.2 with
        | .err e => ({ x with s := r.1 }, some (.err e))
        | out => ok (setL { x with s := r.1 } (fun l => { l with result := some out }))
      else match m with
        | .other _ => ok x          -- heartbeat plumbing: forwarded, no contract state involved
        | _ => bad x
    | .studyIdFromResult => match x.l.result with
      | some (.newId sid) => ok (setL x (fun l => { l with sid := some sid }))
      | _ => bad x
    | .newStudyInfo => ok (setL x (fun l => { l with study := .fresh Entry.empty }))
    | .freshSetName => match x.l.study, op with
      | .fresh e, .createStudy name _ => ok (setL x (fun l => { l with study := .fresh { e with name := some name } }))
      | _, _ => bad x
    | .freshSetDirs => match x.l.study, op with
      | .fresh e, .createStudy _ dirs => ok (setL x (fun l => { l with study := .fresh { e with directions := some dirs } }))
      | _, _ => bad x
    | .storeFresh => match x.l.study, x.l.sid with
      | .fresh e, some sid => ok (setL (setStudies x (insert x.c.studies sid e)) (fun l => { l with study := .stored sid }))
      | _, _ => bad x
    | .initStudyInfo => match x.l.sid with
      | some sid => ok (setStudies x (insert x.c.studies sid Entry.empty))
      | none => bad x
    | .aliasStudy => match x.l.sid with
      | some sid => match find x.c.studies sid with
        | some _ => ok (setL x (fun l => { l with study := .stored sid }))
        | none => keyErr x
      | none => bad x
    | .loadCachedName => match x.l.sid with
      | some sid => match find x.c.studies sid with
        | some e => ok (setL x (fun l => { l with name := some e.name }))
        | none => keyErr x
      | none => bad x
    | .loadCachedDirs => match x.l.sid with
      | some sid => match find x.c.studies sid with
        | some e => ok (setL x (fun l => { l with dirs := some e.directions }))
        | none => keyErr x
      | none => bad x
    | .nameFromResult => match x.l.result with
      | some (.str nm) => ok (setL x (fun l => { l with name := some (some nm) }))
      | _ => bad x
    | .dirsFromResult => match x.l.result with
      | some (.nats d) => ok (setL x (fun l => { l with dirs := some (some d) }))
      | _ => bad x
    | .storeName => match x.l.sid, x.l.name with
      | some sid, some nm => match find x.c.studies sid with
        | some e => ok (setStudies x (insert x.c.studies sid { e with name := nm }))
        | none => keyErr x
      | _, _ => bad x
    | .storeDirs => match x.l.sid, x.l.dirs with
      | some sid, some d => match find x.c.studies sid with
        | some e => ok (setStudies x (insert x.c.studies sid { e with directions := d }))
        | none => keyErr x
      | _, _ => bad x
    | .lookupIdOpt => match x.l.sid, x.l.num with
      | some sid, some n => ok (setL x (fun l => { l with tid := find x.c.sn2id (sid, n) }))
      | _, _ => bad x
    | .delId2sn => match x.l.tid with
      | some tid => match find x.c.id2sn tid with
        | some _ => ok { x with c := { x.c with id2sn := erase x.c.id2sn tid } }
        | none => keyErr x
      | none => bad x
    | .delSn2id => match x.l.sid, x.l.num with
      | some sid, some n => match find x.c.sn2id (sid, n) with
        | some _ => ok { x with c := { x.c with sn2id := erase x.c.sn2id (sid, n) } }
        | none => keyErr x
      | _, _ => bad x
    | .delStudy => match x.l.sid with
      | some sid => match find x.c.studies sid with
        | some _ => ok (setStudies x (erase x.c.studies sid))
        | none => keyErr x
      | none => bad x
    | .frozenFromResult => match x.l.result with
      | some (.newId tid) => match x.s.trials[tid]? with
        | some t => ok (setL x (fun l => { l with frozen := some (tid, t) }))
        | none => bad x
      | _ => bad x
    | .tidFromFrozen => match x.l.frozen with
      | some p => ok (setL x (fun l => { l with tid := some p.1 }))
      | none => bad x
    | .unfinishedAddTid => match x.l.tid with
      | some tid => updAlias x (fun e => { e with unfinished := uadd e.unfinished tid })
      | none => bad x
    | .watermarkMaxTid => match x.l.tid with
      | some tid => updAlias x (fun e => { e with watermark := max e.watermark (tid : Int) })
      | none => bad x
    | .makeKey => match x.l.sid, x.l.num with
      | some sid, some n => ok (setL x (fun l => { l with key := some (sid, n) }))
      | _, _ => bad x
    | .unpackId2sn => match x.l.tid with
      | some tid => match find x.c.id2sn tid with
        | some (sid, n) => ok (setL x (fun l => { l with sid := some sid, num := some n }))
        | none => keyErr x
      | none => bad x
    | .selectByStates => match aliasEntry x, x.l.states with
      | some e, some sts => ok (setL x (fun l => { l with dict := some (e.trials.filter (fun kv => sts.contains kv.2.2.state)) }))
      | _, _ => bad x
    | .selectAll => match aliasEntry x with
      | some e => ok (setL x (fun l => { l with dict := some e.trials }))
      | none => bad x
    | .sortByNumber => match x.l.dict with
      | some d => ok (setL x (fun l => { l with trials := some (Cache.sortByNumber (d.map (·.2))), dict := none }))
      | none => bad x
    | .listByStates => match aliasEntry x, x.l.states with
      | some e, some sts => ok (setL x (fun l => { l with trials := some ((e.trials.map (·.2)).filter (fun p => sts.contains p.2.state)) }))
      | _, _ => bad x
    | .listAll => match aliasEntry x with
      | some e => ok (setL x (fun l => { l with trials := some (e.trials.map (·.2)) }))
      | none => bad x
    | .backendGetTrials statesNone => match x.l.sid, aliasEntry x with
      | some sid, some e =>
        match fetch x.s sid (if statesNone then none else x.l.states) e.unfinished e.watermark with
        | some (.ok l) => ok (setL x (fun lo => { lo with trials := some l }))
        | some (.error err) => (x, some (.err err))
        | none => bad x
      | _, _ => bad x
    | .setId2sn => match x.l.sid, x.l.trial with
      | some sid, some (some p) => ok { x with c := { x.c with id2sn := insert x.c.id2sn p.1 (sid, p.2.number) } }
      | _, _ => bad x
    | .setSn2id => match x.l.sid, x.l.trial with
      | some sid, some (some p) => ok { x with c := { x.c with sn2id := insert x.c.sn2id (sid, p.2.number) p.1 } }
      | _, _ => bad x
    | .setEntryTrial => match x.l.trial with
      | some (some p) => updAlias x (fun e => e.addTrial p)
      | _ => bad x
    | .unfinishedAddTrial => match x.l.trial with
      | some (some p) => updAlias x (fun e => { e with unfinished := uadd e.unfinished p.1 })
      | _ => bad x
    | .watermarkMaxTrial => match x.l.trial with
      | some (some p) => updAlias x (fun e => { e with watermark := max e.watermark (p.1 : Int) })
      | _ => bad x
    | .unfinishedRemoveTrial => match x.l.trial, aliasEntry x with
      | some (some p), some e =>
        if e.unfinished.contains p.1 then updAlias x (fun e => { e with unfinished := uremove e.unfinished p.1 })
        else keyErr x                   -- `set.remove` of a missing element
      | _, _ => bad x
    | .unfinishedDiscardTrial => match x.l.trial with
      | some (some p) => updAlias x (fun e => { e with unfinished := uremove e.unfinished p.1 })
      | _ => bad x
    | _ => bad x
  mkExc r _ := match r with
    | .keyError => .err .keyError
  mro := CExn.mro
  items it x := match it with
    | .cachedNumbers => match x.l.sid with
      | some sid => match find x.c.studies sid with
        | some e => (x, .ok (e.trials.map (fun kv => Sum.inl kv.1)))
        | none => (x, .error (.err .keyError))
      | none => (x, .error .unrep)
    | .trials => match x.l.trials with
      | some l => (x, .ok (l.map Sum.inr))
      | none => (x, .error .unrep)
    | _ => (x, .error .unrep)
  bind it v x := match it, v with
    | .cachedNumbers, .inl n => setL x (fun l => { l with num := some n })
    | .trials, .inr p => setL x (fun l => { l with trial := some (some p) })
    | _, _ => x
  onRet r x := match r with
    | .none => ok { x with retv := some .unit }
    | .studyId => match x.l.sid with
      | some sid => ok { x with retv := some (.newId sid) }
      | none => bad x
    | .trialId => match x.l.tid with
      | some tid => ok { x with retv := some (.newId tid) }
      | none => bad x
    | .name => match x.l.name with
      | some (some nm) => ok { x with retv := some (.str nm) }
      | _ => bad x
    | .directions => match x.l.dirs with
      | some (some d) => ok { x with retv := some (.nats d) }
      | _ => bad x
    | .sn2idAtKey => match x.l.key with
      | some k => match find x.c.sn2id k with
        | some tid => ok { x with retv := some (.nat tid) }
        | none => keyErr x
      | none => bad x
    | .backendResult => match x.l.result with
      | some out => ok { x with retv := some out }
      | none => bad x
    | .trial => match x.l.trial with
      | some (some p) => ok { x with retv := some (.trial p.1 p.2) }
      | some none => ok { x with retv := some .unit }
      | none => bad x
    | .entryTrialAtNumber => match aliasEntry x, x.l.num with
      | some e, some n => match find e.trials n with
        | some p => ok { x with retv := some (.trial p.1 p.2) }
        | none => keyErr x
      | _, _ => bad x
    | .trials => match x.l.trials with
      | some l => ok { x with retv := some (.trials l) }
      | none => bad x
    | _ => bad x
  enter b x := match b with
    | .studyIdFrozen => match x.l.sid, x.l.frozen with
      | some sid, some p => ok { x with l := { sid := some sid, trials := some [p] }, retv := none }
      | _, _ => bad x
    | .studyIdTrials => match x.l.sid, x.l.trials with
      | some sid, some l => ok { x with l := { sid := some sid, trials := some l }, retv := none }
      | _, _ => bad x
    | .studyId => match x.l.sid with
      | some sid => ok { x with l := { sid := some sid }, retv := none }
      | none => bad x
    | .studyIdStates => match x.l.sid with
      | some sid => ok { x with l := { sid := some sid, states := x.l.states }, retv := none }
      | none => bad x
    | .trialId => match x.l.tid with
      | some tid => ok { x with l := { tid := some tid }, retv := none }
      | none => bad x
    | _ => bad x
  leave into x0 x2 := match into with
    | .drop => { x2 with l := x0.l, retv := x0.retv }
    | .trial =>
      { x2 with l := { x0.l with trial := match x2.retv with
                                          | some (.trial id t) => some (some (id, t))
                                          | some .unit => some none
                                          | _ => none },
                retv := x0.retv }
  unrep := .unrep

def finishCached : CSt × Flow CExn → Option (Spec × Client × Out)
  | (x, .ret) => match x.retv with
    | some out => some (x.s, x.c, out)
    | none => none
  | (x, .next) => some (x.s, x.c, .unit)
  | (x, .raised (.err e)) => some (x.s, x.c, .err e)
  | _ => none

def initLocals (op : Op) : Locals :=
  { sid := opSid op, tid := opTid op, num := opNum op, states := opStates op }

/-- one public method of `_CachedStorage` (its generated body) executing the call `op` -/
def interpCached (body : Stmt) (fetch : Fetch) (s : Spec) (c : Client) (op : Op) : Option (Spec × Client × Out) :=
  finishCached (exec (cachedM op fetch) body none { s := s, c := c, l := initLocals op })

/-! ### `RDBStorage._get_trials` -/

structure RdbSt where
  /-- the rows of the study, ordered by trial id (`none` until the study is known to exist) -/
  rows : List (Nat × TrialS)
  inc : List Nat                        -- `included_trial_ids`
  w : Int                               -- `trial_id_greater_than`
  states : Option (List TState)
  query : Option (List (Nat × TrialS) → List (Nat × TrialS)) := none     -- `query`
  query2 : Option (List (Nat × TrialS) → List (Nat × TrialS)) := none    -- `_query`
  usesIn : Bool := false                -- `_query` has an `IN (…)` clause
  models : Option (List (Nat × TrialS)) := none    -- `trial_models`
  trials : Option (List (Nat × TrialS)) := none
  retv : Option (List (Nat × TrialS)) := none

/-- `exists`: the study row exists; `tooMany`: the database refuses a statement with that many bound variables -/
def rdbM (exists_ tooMany : Bool) : Machine RdbSt CExn Unit where
  prim p _ x := match p with
    | .statesIsNone => (x, .ok x.states.isNone)
    | .includedNonEmpty => (x, .ok (decide (x.inc.length > 0)))
    | .greaterThanSet => (x, .ok (decide (x.w > -1)))
    | _ => (x, .error .unrep)
  act a _ x := match a with
    | .cutIncluded => ({ x with inc := x.inc.filter (fun (i : Nat) => decide ((i : Int) ≤ x.w)) }, none)
    | .ensureStudyExists => if exists_ then (x, none) else (x, some (.err .keyError))
    | .baseQuery => ({ x with query := some id }, none)
    | .filterStates => match x.query, x.states with
      | some q, some sts => ({ x with query := some (fun l => (q l).filter (fun p => sts.contains p.2.state)) }, none)
      | _, _ => (x, some .unrep)
    | .queryInOrGreater => match x.query with
      | some q => ({ x with query2 := some (fun l => (q l).filter (fun p => x.inc.contains p.1 || decide ((p.1 : Int) > x.w))),
                            usesIn := true }, none)
      | none => (x, some .unrep)
    | .queryGreater => match x.query with
      | some q => ({ x with query2 := some (fun l => (q l).filter (fun p => decide ((p.1 : Int) > x.w))), usesIn := false }, none)
      | none => (x, some .unrep)
    | .queryAll => match x.query with
      | some q => ({ x with query2 := some q, usesIn := false }, none)
      | none => (x, some .unrep)
    | .runQuery => match x.query2 with
      | some q => if x.usesIn && tooMany then (x, some .operational) else ({ x with models := some (q x.rows) }, none)
      | none => (x, some .unrep)
    | .runBaseQuery => match x.query with
      | some q => ({ x with models := some (q x.rows) }, none)
      | none => (x, some .unrep)
    | .pyFilter => match x.models with
      | some m => ({ x with models := some (m.filter (fun p => x.inc.contains p.1 || decide ((p.1 : Int) > x.w))) }, none)
      | none => (x, some .unrep)
    | .buildTrials => match x.models with
      | some m => ({ x with trials := some m }, none)
      | none => (x, some .unrep)
    | .logWarning => (x, none)
    | _ => (x, some .unrep)
  mkExc _ _ := .unrep
  mro := CExn.mro
  items _ x := (x, .error .unrep)
  bind _ _ x := x
  onRet r x := match r with
    | .trials => match x.trials with
      | some l => ({ x with retv := some l }, none)
      | none => (x, some .unrep)
    | _ => (x, some .unrep)
  enter _ x := (x, some .unrep)
  leave _ _ x := x
  unrep := .unrep

/-- `RDBStorage._get_trials(study_id, states, included_trial_ids, trial_id_greater_than)` on the rows of the study -/
def interpRdb (body : Stmt) (exists_ tooMany : Bool) (rows : List (Nat × TrialS)) (states : Option (List TState))
    (inc : List Nat) (w : Int) : Option (Except Err (List (Nat × TrialS))) :=
  match exec (rdbM exists_ tooMany) body none { rows := rows, inc := inc, w := w, states := states } with
  | (x, .ret) => x.retv.map .ok
  | (_, .raised (.err e)) => some (.error e)
  | _ => none

/-- the generated `_get_trials` as the backend's fetch on the contract model (whatever the SQL variable limit) -/
def rdbFetch (body : Stmt) (tooMany : Bool) : Fetch := fun s sid states inc w =>
  interpRdb body (s.study? sid).isSome tooMany (s.trialsOf sid) states inc w

/-! ### the servicer's `GetTrials` -/

structure SrvSt where
  inc : List Nat
  w : Int
  /-- the answer of `self._backend.get_all_trials(study_id, deepcopy=False)` -/
  answer : Out
  trials : Option (List (Nat × TrialS)) := none
  filtered : Option (List (Nat × TrialS)) := none
  retv : Option (List (Nat × TrialS)) := none

def srvM : Machine SrvSt CExn Unit where
  prim p _ x := match p with
    | .trialsLenZero => match x.trials with
      | some l => (x, .ok l.isEmpty)
      | none => (x, .error .unrep)
    | .lastIdLeGreaterThan => match x.trials with
      | some l => match l.getLast? with
        | some p => (x, .ok (decide ((p.1 : Int) ≤ x.w)))
        | none => (x, .error .unrep)       -- IndexError
      | none => (x, .error .unrep)
    | _ => (x, .error .unrep)
  act a cur x := match a with
    | .readRequest => (x, none)
    | .backendGetAllTrials => match x.answer with
      | .trials l => ({ x with trials := some l }, none)
      | .err e => (x, some (.err e))
      | _ => (x, some .unrep)
    | .abortNotFound => match cur with
      | some (.err e) => (x, some (.rpc e))        -- `context.abort` raises; the client sees the status
      | _ => (x, some .unrep)
    | .filterTrials => match x.trials with
      | some l => ({ x with filtered := some (l.filter (fun p => decide ((p.1 : Int) > x.w) || x.inc.contains p.1)) }, none)
      | none => (x, some .unrep)
    | _ => (x, some .unrep)
  mkExc _ _ := .unrep
  mro := CExn.mro
  items _ x := (x, .error .unrep)
  bind _ _ x := x
  onRet r x := match r with
    | .reply => match x.filtered with
      | some l => ({ x with retv := some l }, none)
      | none => (x, some .unrep)
    | .emptyReply => ({ x with retv := some [] }, none)
    | _ => (x, some .unrep)
  enter _ x := (x, some .unrep)
  leave _ _ x := x
  unrep := .unrep

/-- `GetTrials(request)` given what the servicer's backend answers to `get_all_trials`: the reply's trials, or
the status (as the contract error it stands for) -/
def interpGetTrials (body : Stmt) (answer : Out) (inc : List Nat) (w : Int) : Option (Except Err (List (Nat × TrialS))) :=
  match exec srvM body none { inc := inc, w := w, answer := answer } with
  | (x, .ret) => x.retv.map .ok
  | (_, .raised (.rpc e)) => some (.error e)
  | _ => none

/-! ### `GrpcClientCache` and the three proxy methods -/

structure PSt where
  p : Proxy
  sid : Nat
  states : Option (List TState)
  study : Option Nat := none                     -- alias of `self.studies[sid]`
  req : Option (List Nat × Int) := none          -- the request's included ids / watermark
  res : Option (List (Nat × TrialS)) := none     -- `res.trials`
  trial : Option (Nat × TrialS) := none
  dict : Option (List (Nat × (Nat × TrialS))) := none
  trials : Option (List (Nat × TrialS)) := none
  result : Option Out := none
  retv : Option Out := none

/-- `rpcD inc w`: the servicer's answer to `GetTrials` (`none` = unrepresentable); `callD`: the answer to the plain RPC
of the proxy method being executed; `cacheD`: `self._cache.get_all_trials(study_id, states)` resp.
`delete_study_cache` as (new cache, answer) -/
structure PParams where
  rpcD : List Nat → Int → Option (Except Err (List (Nat × TrialS)))
  callD : Out
  cacheGetAll : Proxy → Option (Proxy × Except Err (List (Nat × TrialS)))
  cacheDelete : Proxy → Option Proxy

def pEntry (x : PSt) : Option Entry :=
  match x.study with
  | some sid => find x.p.studies sid
  | none => none

def pUpd (x : PSt) (f : Entry → Entry) : PSt × Option CExn :=
  match x.study with
  | some sid => match find x.p.studies sid with
    | some e => ({ x with p := { studies := insert x.p.studies sid (f e) } }, none)
    | none => (x, some .unrep)
  | none => (x, some .unrep)

def proxyM (P : PParams) : Machine PSt CExn (Nat × TrialS) where
  prim p cur x := match p with
    | .studyIdInStudies => (x, .ok (find x.p.studies x.sid).isSome)
    | .statesIsNone => (x, .ok x.states.isNone)
    | .deepcopy => (x, .ok true)
    | .resTrialsTruthy => match x.res with
      | some l => (x, .ok (!l.isEmpty))
      | none => (x, .error .unrep)
    | .trialFinished => match x.trial with
      | some p => (x, .ok p.2.state.isFinished)
      | none => (x, .error .unrep)
    | .trialStateIs st => match x.trial with
      | some p => (x, .ok (decide (p.2.state = st)))
      | none => (x, .error .unrep)
    | .trialInUnfinished => match x.trial, pEntry x with
      | some p, some e => (x, .ok (e.unfinished.contains p.1))
      | _, _ => (x, .error .unrep)
    | .rpcNotFound => match cur with
      | some (.rpc e) => (x, .ok (decide (e = .keyError)))     -- the servicer answers NOT_FOUND exactly for KeyError
      | _ => (x, .error .unrep)
    | _ => (x, .error .unrep)
  act a _ x := match a with
    | .popStudy => ({ x with p := { studies := erase x.p.studies x.sid } }, none)
    | .initStudyInfo => ({ x with p := { studies := insert x.p.studies x.sid Entry.empty } }, none)
    | .aliasStudy => match find x.p.studies x.sid with
      | some _ => ({ x with study := some x.sid }, none)
      | none => (x, some (.err .keyError))
    | .makeGetTrialsRequest => match pEntry x with
      | some e => ({ x with req := some (e.unfinished, e.watermark) }, none)
      | none => (x, some .unrep)
    | .rpcGetTrials => match x.req with
      | some (inc, w) => match P.rpcD inc w with
        | some (.ok l) => ({ x with res := some l }, none)
        | some (.error e) => (x, some (.rpc e))
        | none => (x, some .unrep)
      | none => (x, some .unrep)
    | .decodeTrial => (x, none)          -- the loop variable already holds the decoded trial
    | .setEntryTrial => match x.trial with
      | some p => pUpd x (fun e => e.addTrial p)
      | none => (x, some .unrep)
    | .unfinishedAddTrial => match x.trial with
      | some p => pUpd x (fun e => { e with unfinished := uadd e.unfinished p.1 })
      | none => (x, some .unrep)
    | .watermarkMaxTrial => match x.trial with
      | some p => pUpd x (fun e => { e with watermark := max e.watermark (p.1 : Int) })
      | none => (x, some .unrep)
    | .unfinishedDiscardTrial => match x.trial with
      | some p => pUpd x (fun e => { e with unfinished := uremove e.unfinished p.1 })
      | none => (x, some .unrep)
    | .unfinishedRemoveTrial => match x.trial, pEntry x with
      | some p, some e =>
        if e.unfinished.contains p.1 then pUpd x (fun e => { e with unfinished := uremove e.unfinished p.1 })
        else (x, some (.err .keyError))
      | _, _ => (x, some .unrep)
    | .selectByStates => match pEntry x, x.states with
      | some e, some sts => ({ x with dict := some (e.trials.filter (fun kv => sts.contains kv.2.2.state)) }, none)
      | _, _ => (x, some .unrep)
    | .selectAll => match pEntry x with
      | some e => ({ x with dict := some e.trials }, none)
      | none => (x, some .unrep)
    | .sortByNumber => match x.dict with
      | some d => ({ x with trials := some (Cache.sortByNumber (d.map (·.2))), dict := none }, none)
      | none => (x, some .unrep)
    | .cacheGetAllTrials => match P.cacheGetAll x.p with
      | some (p', .ok l) => ({ x with p := p', trials := some l }, none)
      | some (p', .error e) => ({ x with p := p' }, some (.err e))
      | none => (x, some .unrep)
    | .cacheDeleteStudy => match P.cacheDelete x.p with
      | some p' => ({ x with p := p' }, none)
      | none => (x, some .unrep)
    | .makeRequest => (x, none)
    | .rpc => match P.callD with
      | .err e => (x, some (.rpc e))
      | out => ({ x with result := some out }, none)
    | _ => (x, some .unrep)
  mkExc r _ := match r with
    | .keyError => .err .keyError
  mro := CExn.mro
  items it x := match it with
    | .resTrials => match x.res with
      | some l => (x, .ok l)
      | none => (x, .error .unrep)
    | _ => (x, .error .unrep)
  bind _ p x := { x with trial := some p }
  onRet r x := match r with
    | .none => ({ x with retv := some .unit }, none)
    | .trials => match x.trials with
      | some l => ({ x with retv := some (.trials l) }, none)
      | none => (x, some .unrep)
    | .rpcTrial => match x.result with
      | some out => ({ x with retv := some out }, none)
      | none => (x, some .unrep)
    | _ => (x, some .unrep)
  enter b x := match b with
    | .studyId => ({ x with study := none, trial := none, retv := none }, none)
    | .studyIdTrial => match x.trial with
      | some p => ({ x with study := none, trial := some p, retv := none }, none)
      | none => (x, some .unrep)
    | _ => (x, some .unrep)
  leave _ x0 x2 := { x2 with study := x0.study, trial := x0.trial, dict := x0.dict, trials := x0.trials, retv := x0.retv }
  unrep := .unrep

/-- a method of `GrpcClientCache` / `GrpcStorageProxy`: the new client cache and the answer; a `grpc.RpcError` that is
not translated leaves as the contract error it carries -/
def interpProxy (body : Stmt) (P : PParams) (p : Proxy) (sid : Nat) (states : Option (List TState)) : Option (Proxy × Out) :=
  match exec (proxyM P) body none { p := p, sid := sid, states := states } with
  | (x, .ret) => x.retv.map (fun o => (x.p, o))
  | (x, .next) => some (x.p, .unit)
  | (x, .raised (.err e)) => some (x.p, .err e)
  | (x, .raised (.rpc e)) => some (x.p, .err e)
  | _ => none

/-! ### the generated methods, composed -/

structure Program where
  /-- `_CachedStorage`: python method name ↦ body -/
  cached : List (String × Stmt)
  rdbGetTrials : Stmt
  servicerGetTrials : Stmt
  cacheGetAllTrials : Stmt
  cacheDeleteStudyCache : Stmt
  proxyGetAllTrials : Stmt
  proxyGetTrial : Stmt
  proxyDeleteStudy : Stmt
deriving Repr, Inhabited

def lookup (k : String) : List (String × Stmt) → Option Stmt
  | [] => none
  | (k', v) :: t => if k' == k then some v else lookup k t

/-- the `_CachedStorage` method a contract operation is issued through -/
def methodOf : Op → String
  | .createStudy .. => "create_new_study"
  | .deleteStudy .. => "delete_study"
  | .setStudyUserAttr .. => "set_study_user_attr"
  | .setStudySystemAttr .. => "set_study_system_attr"
  | .createTrial .. => "create_new_trial"
  | .setTrialParam .. => "set_trial_param"
  | .setTrialStateValues .. => "set_trial_state_values"
  | .setTrialInter .. => "set_trial_intermediate_value"
  | .setTrialUserAttr .. => "set_trial_user_attr"
  | .setTrialSystemAttr .. => "set_trial_system_attr"
  | .getStudyIdFromName .. => "get_study_id_from_name"
  | .getStudyNameFromId .. => "get_study_name_from_id"
  | .getStudyDirections .. => "get_study_directions"
  | .getStudyUserAttrs .. => "get_study_user_attrs"
  | .getStudySystemAttrs .. => "get_study_system_attrs"
  | .getAllStudies => "get_all_studies"
  | .getTrialIdFromNumber .. => "get_trial_id_from_study_id_trial_number"
  | .getTrialNumberFromId .. => "get_trial"      -- BaseStorage: `self.get_trial(trial_id).number`
  | .getTrialParam .. => "get_trial"             -- BaseStorage: via `self.get_trial(trial_id)`
  | .getTrial .. => "get_trial"
  | .getAllTrials .. => "get_all_trials"
  | .getNTrials .. => "get_all_trials"           -- BaseStorage: `len(self.get_all_trials(…))`
  | .getBestTrial .. => "get_best_trial"

/-- what `BaseStorage` makes of the answer of `get_trial` / `get_all_trials` for the three derived getters -/
def derive (op : Op) (out : Out) : Out :=
  match op, out with
  | .getTrialNumberFromId _, .trial _ t => .nat t.number
  | .getTrialParam _ name, .trial _ t => trialParamOut t name
  | .getNTrials .., .trials l => .nat l.length
  | _, o => o

/-- one public call through a `_CachedStorage` whose backend's `_get_trials` is the generated one -/
def Program.callCached (G : Program) (tooMany : Bool) (s : Spec) (c : Client) (op : Op) : Option (Spec × Client × Out) :=
  match lookup (methodOf op) G.cached with
  | none => none
  | some body =>
    match interpCached body (rdbFetch G.rdbGetTrials tooMany) s c op with
    | some (s', c', out) => some (s', c', derive op out)
    | none => none

/-- the servicer (its backend the storage itself or a `_CachedStorage`, both as generated) -/
def Program.callServer (G : Program) (tooMany : Bool) (s : Spec) (sc : Option Client) (op : Op) :
    Option (Spec × Option Client × Out) :=
  match sc with
  | none => let r := step s op; some (r.1, none, r.2)
  | some c =>
    match G.callCached tooMany s c op with
    | some r => some (r.1, some r.2.1, r.2.2)
    | none => none

def noCache : PParams :=
  { rpcD := fun _ _ => none, callD := .unit, cacheGetAll := fun _ => none, cacheDelete := fun _ => none }

def asList : Out → Except Err (List (Nat × TrialS))
  | .trials l => .ok l
  | .err e => .error e
  | _ => .error .runtimeError

/-- `GrpcClientCache.get_all_trials(study_id, states)`, the servicer's backend answering `answer` to
`get_all_trials(study_id, deepcopy=False)` and the servicer's `GetTrials` being the generated one -/
def Program.cacheGetAll (G : Program) (answer : Out) (p : Proxy) (sid : Nat) (states : Option (List TState)) :
    Option (Proxy × Except Err (List (Nat × TrialS))) :=
  (interpProxy G.cacheGetAllTrials { noCache with rpcD := interpGetTrials G.servicerGetTrials answer } p sid states).map
    (fun r => (r.1, asList r.2))

/-- `GrpcClientCache.delete_study_cache(study_id)` -/
def Program.cacheDelete (G : Program) (p : Proxy) (sid : Nat) : Option Proxy :=
  (interpProxy G.cacheDeleteStudyCache noCache p sid none).map (·.1)

/-- one public method of `GrpcStorageProxy`: the three translated ones over the generated client cache, servicer
`GetTrials` and server-side `_CachedStorage`; every other method is a plain RPC (tied by T-grpc, C01) -/
def Program.callProxy (G : Program) (tooMany : Bool) (s : Spec) (sc : Option Client) (p : Proxy) (op : Op) :
    Option (Spec × Option Client × Proxy × Out) :=
  let viaGetAll (sid : Nat) (states : Option (List TState)) : Option (Spec × Option Client × Proxy × Out) :=
    match G.callServer tooMany s sc (.getAllTrials sid none) with
    | none => none
    | some (s', sc', answer) =>
      match interpProxy G.proxyGetAllTrials
          { noCache with cacheGetAll := fun p => G.cacheGetAll answer p sid states } p sid states with
      | some (p', out) => some (s', sc', p', derive op out)
      | none => none
  match op with
  | .getAllTrials sid states => viaGetAll sid states
  | .getNTrials sid states => viaGetAll sid states
  | .deleteStudy sid =>
    match G.callServer tooMany s sc op with
    | none => none
    | some (s', sc', out) =>
      match interpProxy G.proxyDeleteStudy { noCache with callD := out, cacheDelete := fun p => G.cacheDelete p sid } p sid none with
      | some (p', out') => some (s', sc', p', out')
      | none => none
  | .getTrial _ =>
    match G.callServer tooMany s sc op with
    | none => none
    | some (s', sc', out) =>
      match interpProxy G.proxyGetTrial { noCache with callD := out } p 0 none with
      | some (p', out') => some (s', sc', p', out')
      | none => none
  | _ =>
    match G.callServer tooMany s sc op with
    | none => none
    | some (s', sc', out) => some (s', sc', p, out)

/-- node `i` of a system of clients executes one storage call — every cached / proxied client running the generated
methods (cf. `Cache.Sys.call`) -/
def Program.sysCall (G : Program) (tooMany : Bool) (y : Sys) (i : Nat) (op : Op) : Option (Sys × Out) :=
  match y.nodes[i]? with
  | none | some .raw => let r := step y.backend op; some ({ y with backend := r.1 }, r.2)
  | some (.cached c) =>
    match G.callCached tooMany y.backend c op with
    | some r => some ({ backend := r.1, nodes := setNode y.nodes i (.cached r.2.1) }, r.2.2)
    | none => none
  | some (.proxy srv p) =>
    match srv.bind (fun j => match y.nodes[j]? with | some (.cached c) => some (j, c) | _ => none) with
    | some (j, c) =>
      match G.callProxy tooMany y.backend (some c) p op with
      | some (s', some c', p', out) =>
        some ({ backend := s', nodes := setNode (setNode y.nodes j (.cached c')) i (.proxy srv p') }, out)
      | some (s', none, p', out) => some ({ backend := s', nodes := setNode y.nodes i (.proxy srv p') }, out)
      | none => none
    | none =>
      match G.callProxy tooMany y.backend none p op with
      | some r => some ({ backend := r.1, nodes := setNode y.nodes i (.proxy srv r.2.2.1) }, r.2.2.2)
      | none => none

def Program.sysRun (G : Program) (tooMany : Bool) : Sys → List (Nat × Op) → Option Sys
  | y, [] => some y
  | y, c :: rest =>
    match G.sysCall tooMany y c.1 c.2 with
    | some r => G.sysRun tooMany r.1 rest
    | none => none

end OptunaVerif.CacheIR
