import OptunaVerif.Model.Basic
/-
  A small-step model of threads that touch a shared state only inside one critical section of
  one lock (C03).  A call is a finite sequence of micro-steps on (shared state, thread-local
  state): this is what a Python method body under `with self._lock:` is, executed line by line,
  and a preemption may occur between any two micro-steps.  The lock is implicit: a thread may
  start a call only when no thread is inside one.
-/
namespace OptunaVerif.Conc

structure Call (σ L ρ : Type) where
  n : Nat
  micro : Nat → σ × L → σ × L
  init : L
  result : L → ρ

variable {σ L ρ : Type}

/-- shared and local state after the first `k` micro-steps of the call, started on `s` -/
def Call.iter (c : Call σ L ρ) : Nat → σ → σ × L
  | 0, s => (s, c.init)
  | k + 1, s => c.micro k (c.iter k s)

/-- the call executed atomically -/
def Call.run (c : Call σ L ρ) (s : σ) : σ × ρ := ((c.iter c.n s).1, c.result (c.iter c.n s).2)

structure Thread (σ L ρ : Type) where
  todo : List (Call σ L ρ)
  /-- `some (k, l)`: inside the critical section of `todo.head`, `k` micro-steps done, local state `l` -/
  cs : Option (Nat × L)

structure Sys (σ L ρ : Type) where
  shared : σ
  threads : List (Thread σ L ρ)
  /-- completed calls (thread, result) in completion order -/
  hist : List (Nat × ρ)

def lockFree (sys : Sys σ L ρ) : Bool := sys.threads.all (fun th => th.cs.isNone)

def initSys (s0 : σ) (progs : List (List (Call σ L ρ))) : Sys σ L ρ :=
  { shared := s0, threads := progs.map (fun p => { todo := p, cs := none }), hist := [] }

/-- thread `t` is given the processor for one step (a pick that cannot move is a stutter) -/
def step (sys : Sys σ L ρ) (t : Nat) : Sys σ L ρ :=
  match sys.threads[t]? with
  | none => sys
  | some th =>
    match th.cs, th.todo with
    | none, [] => sys
    | none, c :: _ =>
      if lockFree sys then
        { sys with threads := updAt sys.threads t (fun th => { th with cs := some (0, c.init) }) }
      else sys
    | some _, [] => sys
    | some (k, l), c :: rest =>
      if k < c.n then
        { sys with shared := (c.micro k (sys.shared, l)).1,
                   threads := updAt sys.threads t (fun th => { th with cs := some (k + 1, (c.micro k (sys.shared, l)).2) }) }
      else
        { sys with threads := updAt sys.threads t (fun _ => { todo := rest, cs := none }),
                   hist := sys.hist ++ [(t, c.result l)] }

def exec (sys : Sys σ L ρ) (sched : List Nat) : Sys σ L ρ := sched.foldl step sys

/-- Sequential specification: run the calls one at a time, atomically, in the given order, checking
the recorded results; returns the final shared state and what is left of every program. -/
def seqRun [DecidableEq ρ] : List (List (Call σ L ρ)) → List (Nat × ρ) → σ → Option (σ × List (List (Call σ L ρ)))
  | progs, [], s => some (s, progs)
  | progs, (t, r) :: rest, s =>
    match progs[t]? with
    | some (c :: cs) =>
      if (c.run s).2 = r then seqRun (updAt progs t (fun _ => cs)) rest (c.run s).1 else none
    | _ => none

end OptunaVerif.Conc
