import OptunaVerif.Model.Nsga2
/-
  C13 — every direction-dependent decision site of optuna's pruners, samplers and `best_trial`,
  as a small executable function with an explicit direction parameter (core Lean only).

  Numbers are exact rationals; `none : V` is NaN.  ±∞ is modelled only where the code itself
  manufactures it (`Ext`, pruned-trial score and crowding distance).  Each definition names the
  Python it mirrors; the tie is `verif/props/c13.py` (site-level correspondence through the
  `direction` sub-driver, the T-sites inventory, and paired maximise/minimise runs).
-/
namespace OptunaVerif.Direction

/-- `optuna.study.StudyDirection` (NOT_SET never reaches the sites below). -/
inductive Dir where
  | minimize | maximize
deriving DecidableEq, Repr, Inhabited

def Dir.flip : Dir → Dir
  | .minimize => .maximize
  | .maximize => .minimize

/-- A float as the sites see it: a finite rational or NaN (`none`). -/
abbrev V := Option Rat

def negV : V → V
  | none => none
  | some q => some (-q)

def negL (l : List Rat) : List Rat := l.map (fun x => -x)
def negVL (l : List V) : List V := l.map negV

/-- A rational or +∞ (`float("inf")` manufactured by the code). -/
inductive Ext where
  | fin (q : Rat) | pinf
deriving DecidableEq, Repr, Inhabited

def Ext.le : Ext → Ext → Bool
  | _, .pinf => true
  | .pinf, .fin _ => false
  | .fin a, .fin b => decide (a ≤ b)

def Ext.add : Ext → Ext → Ext
  | .fin a, .fin b => .fin (a + b)
  | _, _ => .pinf

/-! ## min / max, NaN-ignoring reductions (`np.nanmin`, `np.nanmax`) -/

def rmin (a b : Rat) : Rat := if a ≤ b then a else b
def rmax (a b : Rat) : Rat := if a ≤ b then b else a

def minL : List Rat → Option Rat
  | [] => none
  | x :: t => match minL t with
    | none => some x
    | some m => some (rmin x m)

def maxL : List Rat → Option Rat
  | [] => none
  | x :: t => match maxL t with
    | none => some x
    | some m => some (rmax x m)

/-- drop the NaNs -/
def finite : List V → List Rat
  | [] => []
  | none :: t => finite t
  | some q :: t => q :: finite t

/-- `np.nanmin` (all-NaN gives NaN) -/
def nanmin (l : List V) : V := minL (finite l)
/-- `np.nanmax` -/
def nanmax (l : List V) : V := maxL (finite l)

/-- `_percentile._get_best_intermediate_result_over_steps(trial, direction)` -/
def bestIntermediate (d : Dir) (vs : List V) : V :=
  match d with
  | .maximize => nanmax vs
  | .minimize => nanmin vs

/-! ## stable sorting (Python `sorted` / `list.sort`) -/

def insertBy {α : Type} (le : α → α → Bool) (x : α) : List α → List α
  | [] => [x]
  | y :: t => if le x y then x :: y :: t else y :: insertBy le x t

/-- Stable insertion sort: among `le`-equivalent elements the original order is kept. -/
def sortBy {α : Type} (le : α → α → Bool) : List α → List α
  | [] => []
  | x :: t => insertBy le x (sortBy le t)

def leR (a b : Rat) : Bool := decide (a ≤ b)

def sortR (l : List Rat) : List Rat := sortBy leR l

/-! ## percentile with linear interpolation (`np.nanpercentile`, default method) -/

/-- numpy's `linear` method on an ascending list `s` (non-empty), `0 ≤ q ≤ 100`:
virtual index `h = q/100·(n-1)`, neighbours `⌊h⌋`, `⌊h⌋+1` (clipped), `lerp` with `γ = h-⌊h⌋`. -/
def percLin (s : List Rat) (q : Rat) : Rat :=
  let n := s.length
  let h := q / 100 * ((n : Rat) - 1)
  let k := h.floor.toNat
  let g := h - (k : Rat)
  let a := s.getD k 0
  let b := s.getD (min (k + 1) (n - 1)) 0
  a + (b - a) * g

/-- `np.nanpercentile(values, q)`; NaN when nothing finite is left. -/
def nanpercentile (l : List V) (q : Rat) : V :=
  match finite l with
  | [] => none
  | x :: t => some (percLin (sortR (x :: t)) q)

/-- `_percentile._get_percentile_intermediate_result_over_trials`: `vals` are the values the
completed trials reported at the step (NaNs included in the count). -/
def percentileOverTrials (d : Dir) (vals : List V) (q : Rat) (nMin : Nat) : V :=
  if vals.length < nMin then none
  else
    match d with
    | .maximize => negV (nanpercentile (negVL vals) q)   -- `-np.nanpercentile(-values, percentile)` (repair of F41)
    | .minimize => nanpercentile vals q

/-- The value-dependent tail of `PercentilePruner.prune` (after the start-up / warm-up / interval
guards, which do not look at values): `cur` = this trial's reports, `others` = what the completed
trials reported at this step. -/
def percentilePrune (d : Dir) (q : Rat) (nMin : Nat) (cur others : List V) : Bool :=
  match bestIntermediate d cur with
  | none => true
  | some b =>
    match percentileOverTrials d others q nMin with
    | none => false
    | some p =>
      match d with
      | .maximize => decide (b < p)
      | .minimize => decide (b > p)

/-! ## successive halving: rung promotion (`_is_trial_promotable_to_next_rung`) -/

def promotableIdx (n rf : Nat) : Nat := if n / rf = 0 then 0 else n / rf - 1

def promotable (d : Dir) (value : Rat) (competing : List Rat) (rf : Nat) : Bool :=
  let n := competing.length
  let idx := promotableIdx n rf
  let s := sortR competing
  match d with
  | .maximize => decide (s.getD (n - 1 - idx) 0 ≤ value)
  | .minimize => decide (value ≤ s.getD idx 0)

/-! ## patient pruner (`PatientPruner.prune`, the `maybe_prune` comparison) -/

def patientMaybePrune (d : Dir) (before after : List V) (delta : Rat) : Bool :=
  match d with
  | .minimize =>
    match nanmin before, nanmin after with
    | some b, some a => decide (b + delta < a)
    | _, _ => false
  | .maximize =>
    match nanmax before, nanmax after with
    | some b, some a => decide (a < b - delta)
    | _, _ => false

/-! ## threshold pruner (no direction in the code: mirrored bounds are the caller's job) -/

/-- `ThresholdPruner.prune` after the step guards; `none` bound = infinite. -/
def thresholdPrune (lower upper : Option Rat) (v : V) : Bool :=
  match v with
  | none => true
  | some x =>
    (match lower with | some l => decide (x < l) | none => false) ||
    (match upper with | some u => decide (u < x) | none => false)

/-! ## Wilcoxon pruner -/

inductive Alt where
  | less | greater
deriving DecidableEq, Repr

def wilcoxonAlt : Dir → Alt
  | .maximize => .less
  | .minimize => .greater

def absR (x : Rat) : Rat := if 0 ≤ x then x else -x

def countP (p : Rat → Bool) : List Rat → Nat
  | [] => 0
  | x :: t => (if p x then 1 else 0) + countP p t

/-- mid-rank of `|x|` among the `|d_i|` (scipy `rankdata(abs(d))`, average method) -/
def midrank (d : List Rat) (x : Rat) : Rat :=
  (countP (fun y => decide (absR y < absR x)) d : Rat) +
    ((countP (fun y => decide (absR y = absR x)) d : Rat) + 1) / 2

def sumBy (f : Rat → Rat) : List Rat → Rat
  | [] => 0
  | x :: t => f x + sumBy f t

/-- signed-rank sum of the positive differences, zeros split half/half (`zero_method="zsplit"`) -/
def rPlus (d : List Rat) : Rat :=
  sumBy (fun x => if 0 < x then midrank d x else if x = 0 then midrank d x / 2 else 0) d

def rMinus (d : List Rat) : Rat :=
  sumBy (fun x => if x < 0 then midrank d x else if x = 0 then midrank d x / 2 else 0) d

def lookupStep (s : Int) : List (Int × Rat) → Option Rat
  | [] => none
  | (s', v) :: t => if s' = s then some v else lookupStep s t

/-- `step_values[idx1] - best_step_values[idx2]` over the common steps -/
def diffs (cur best : List (Int × Rat)) : List Rat :=
  cur.filterMap (fun p => (lookupStep p.1 best).map (fun b => p.2 - b))

def sumL (l : List Rat) : Rat := sumBy (fun x => x) l
def mean (l : List Rat) : Rat := sumL l / (l.length : Rat)

def avgIsBest (d : Dir) (best cur : List Rat) : Bool :=
  match d with
  | .maximize => decide (mean best ≤ mean cur)
  | .minimize => decide (mean cur ≤ mean best)

/-- `WilcoxonPruner.prune` after the finiteness / best-trial / start-up guards.  `pv alt r⁺ r⁻ n`
is the p-value scipy derives from the signed-rank sums (a parameter: its symmetry
`pv less r⁺ r⁻ = pv greater r⁻ r⁺` is a hypothesis of the theorem, sampled by the tie). -/
def wilcoxonPrune (pv : Alt → Rat → Rat → Nat → Rat) (d : Dir) (pThr : Rat)
    (cur best : List (Int × Rat)) : Bool :=
  let df := diffs cur best
  let p := pv (wilcoxonAlt d) (rPlus df) (rMinus df) df.length
  if decide (p < pThr) && avgIsBest d (best.map (·.2)) (cur.map (·.2)) then false
  else decide (p < pThr)

/-! ## TPE: single-objective split and pruned-trial score -/

/-- a finished trial as the split sees it -/
abbrev TV := Nat × Rat

def negT (ts : List TV) : List TV := ts.map (fun p => (p.1, -p.2))

/-- `_split_complete_trials_single_objective`: `sorted(trials, key=value)` resp.
`sorted(..., reverse=True)` (stable both ways), first `n_below` are `below`. -/
def splitCompleteSingle (d : Dir) (ts : List TV) (nBelow : Nat) : List TV × List TV :=
  let n := min nBelow ts.length
  let sorted := match d with
    | .minimize => sortBy (fun (a b : TV) => leR a.2 b.2) ts
    | .maximize => sortBy (fun (a b : TV) => leR b.2 a.2) ts
  (sorted.take n, sorted.drop n)

/-- entry of `intermediate_values` with the largest step (`max(items())`; steps are unique keys) -/
def lastEntry : List (Int × V) → Option (Int × V)
  | [] => none
  | p :: t => match lastEntry t with
    | none => some p
    | some m => if m.1 < p.1 then some p else some m

def negIV (iv : List (Int × V)) : List (Int × V) := iv.map (fun p => (p.1, negV p.2))

/-- `_get_pruned_trial_score(trial, study)` -/
def prunedScore (d : Dir) (iv : List (Int × V)) : Int × Ext :=
  match lastEntry iv with
  | none => (1, .fin 0)
  | some (step, none) => (-step, .pinf)
  | some (step, some v) =>
    match d with
    | .minimize => (-step, .fin v)
    | .maximize => (-step, .fin (-v))

def scoreLe (a b : Int × Ext) : Bool := decide (a.1 < b.1) || (decide (a.1 = b.1) && Ext.le a.2 b.2)

/-- `_split_pruned_trials`: a pruned trial is `(number, intermediate_values)` -/
def splitPruned (d : Dir) (ts : List (Nat × List (Int × V))) (nBelow : Nat) :
    List Nat × List Nat :=
  let n := min nBelow ts.length
  let sorted := sortBy (fun a b => scoreLe (prunedScore d a.2) (prunedScore d b.2)) ts
  ((sorted.take n).map (·.1), (sorted.drop n).map (·.1))

/-- `below_trials.sort(key=lambda trial: trial.number)` -/
def sortNat (l : List Nat) : List Nat := sortBy (fun a b => decide (a ≤ b)) l

/-- `_split_trials` of a single-objective study (no constraints, no RUNNING trials): complete trials
first, the remaining quota `max(0, n_below - len(below_complete))` from the pruned ones, both
halves re-ordered by trial number. -/
def splitTrialsSingle (d : Dir) (complete : List TV) (pruned : List (Nat × List (Int × V)))
    (nBelow : Nat) : List Nat × List Nat :=
  let c := splitCompleteSingle d complete nBelow
  let p := splitPruned d pruned (nBelow - c.1.length)
  (sortNat (c.1.map (·.1) ++ p.1), sortNat (c.2.map (·.1) ++ p.2))

/-! ## loss normalisation (`_normalize_value`, `lvals *= ±1`) and what is built on it -/

/-- `_multi_objective._normalize_value` (value not None) -/
def normalize (d : Dir) (v : Rat) : Rat :=
  match d with
  | .maximize => -v
  | .minimize => v

def sign : Dir → Rat
  | .maximize => -1
  | .minimize => 1

/-- one row of `lvals *= np.array([-1.0 if d == MAXIMIZE else 1.0 for d in directions])` -/
def lossRow : List Dir → List Rat → List Rat
  | d :: ds, v :: vs => sign d * v :: lossRow ds vs
  | _, _ => []

def lossMatrix (dirs : List Dir) (rows : List (List Rat)) : List (List Rat) := rows.map (lossRow dirs)

def flipDirs : List Bool → List Dir → List Dir
  | m :: ms, d :: ds => (if m then d.flip else d) :: flipDirs ms ds
  | _, _ => []

def flipVals : List Bool → List Rat → List Rat
  | m :: ms, v :: vs => (if m then -v else v) :: flipVals ms vs
  | _, _ => []

def normRow : List Dir → List Rat → List Rat
  | d :: ds, v :: vs => normalize d v :: normRow ds vs
  | _, _ => []

def allLe : List Rat → List Rat → Bool
  | a :: as, b :: bs => decide (a ≤ b) && allLe as bs
  | _, _ => true

/-- `_multi_objective._dominates` for two COMPLETE trials -/
def dominates (dirs : List Dir) (v0 v1 : List Rat) : Bool :=
  let a := normRow dirs v0
  let b := normRow dirs v1
  if a = b then false else allLe a b

/-! ## GP sampler sign -/

/-- `_sign * trial.value` with `_sign = -1.0 if direction == MINIMIZE else 1.0` -/
def gpScore (d : Dir) (v : Rat) : Rat :=
  (match d with | .minimize => -1 | .maximize => 1) * v

/-! ## best trial: in-memory cache update and the feasible fallback of `Study.best_trial` -/

/-- `InMemoryStorage._update_cache` for a COMPLETE trial; also Python `max(…, key=value)` /
`min(…, key=value)` (first extremal element wins) used by the constraint fallback. -/
def updateBest (d : Dir) (best : Option TV) (new : TV) : Option TV :=
  match best with
  | none => some new
  | some b =>
    match d with
    | .maximize => if b.2 < new.2 then some new else some b
    | .minimize => if new.2 < b.2 then some new else some b

def bestTrial (d : Dir) (ts : List TV) : Option TV := ts.foldl (updateBest d) none

/-! ## NSGA-II crowding-distance sort.  The crowding code reads the RAW `trial.values` (no direction).  The model is the
one of `Model/Nsga2.lean` (`_calc_crowding_distance` + `_crowding_distance_sort`, tied bit for bit to the code by
`verif/props/c15_nsga.py`), at its exact instance; here only the interface of the C13 site: individuals with rational
objective values and the number of objectives.  Since the repair of finding F-C13-1 the final sort is by
`(-distance, number)`: symmetric (`C13.crowding_order_symmetric`); the former `sort(key=distance); reverse()` is kept
as `crowdingSortOld` for the negation `C13.crowding_old_order_not_symmetric`. -/

structure Ind where
  number : Nat
  values : List Rat
deriving DecidableEq, Repr

/-- the individual as the NSGA-II model sees it: exactly `nObj` objective values (`values[i]` for `i < nObj`) -/
def Ind.toN (nObj : Nat) (x : Ind) : Nsga2.Ind XVal :=
  { number := x.number, values := (List.range nObj).map (fun i => XVal.fin (x.values.getD i 0)) }

/-- `_crowding_distance_sort` (after the repair): distance descending, ties by ascending trial number. -/
def crowdingSort (pop : List Ind) (nObj : Nat) : List (Nsga2.Ind XVal) :=
  Nsga2.crowdingSort Nsga2.xnum (pop.map (Ind.toN nObj))

/-- `_crowding_distance_sort` before the repair: stable sort by distance, then `reverse()`. -/
def crowdingSortOld (pop : List Ind) (nObj : Nat) : List (Nsga2.Ind XVal) :=
  Nsga2.crowdingSortOld Nsga2.xnum (pop.map (Ind.toN nObj))

def flipInd (mask : List Bool) (x : Ind) : Ind := { x with values := flipVals mask x.values }

/-! ## NSGA-III: the matrix handed to the niching step.  `__call__` multiplies the (inf-filtered) objective matrix by
the direction signs (`-1` for a maximised objective) and `_normalize_objective_values` subtracts the per-column
minimum (`objective_matrix -= np.min(objective_matrix, axis=0)`): `C13.nsga3_shift_symmetric`.  (Before the repair of
finding F-C13-2 the signs were missing: `nsga3ShiftRaw`, kept for the negation `C13.nsga3_raw_shift_not_symmetric`.) -/

def colMin (rows : List (List Rat)) (j : Nat) : Rat :=
  match minL (rows.map (fun r => r.getD j 0)) with
  | some m => m
  | none => 0

/-- the ideal-point shift alone (what the code did on raw values before the repair) -/
def nsga3ShiftRaw (rows : List (List Rat)) : List (List Rat) :=
  rows.map (fun r => (r.zipIdx).map (fun p => p.1 - colMin rows p.2))

/-- signs first (`* np.array([-1.0 if d == MAXIMIZE else 1.0 for d in study.directions])`), then the shift -/
def nsga3Shift (dirs : List Dir) (rows : List (List Rat)) : List (List Rat) :=
  nsga3ShiftRaw (lossMatrix dirs rows)

end OptunaVerif.Direction
