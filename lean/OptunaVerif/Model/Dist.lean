import OptunaVerif.Generated.DistInt
/-!
# Model of `optuna/distributions.py` and `optuna/_transform.py` over ℚ (core `Rat`)

Executable, core Lean only.  Floats are modelled by exact rationals; everything that the code does
with `Decimal(str(x))` (high adjustment, `single`) or with binary floats (`_contains`, transform) is
the same rational formula here — which rationals are fed in (the decimal or the binary value of a
float) is the harness's business and is stated there.

* `Tok`     — a categorical choice / JSON scalar / external parameter value
* `Dist`    — the eight distribution classes (`FloatDistribution` + 3 deprecated, `IntDistribution` + 2
              deprecated, `CategoricalDistribution`) with their attributes
* `mkFlt / mkInt / mkCat` — the constructors (`__init__`: validation + high adjustment)
* `contains / single / toInternal / toExternal / compat / convertOld`
* `print / parse` — `distribution_to_json / json_to_distribution` on the *dict structure*
* `boundsOf / tcols / ucols / transform / untransform` — `_SearchSpaceTransform`, with the log/exp pair
  and the half-open clamp `nextafter(high, high-1)` as parameters (`Env`).
-/
namespace OptunaVerif.Dist
open OptunaVerif.Generated

/-! ## numbers -/

/-- Python `round` / `np.round`: round half to even. -/
def roundHE (q : Rat) : Int :=
  let f := q.floor
  let r := q - (f : Rat)
  if r < 1/2 then f
  else if 1/2 < r then f + 1
  else if f % 2 = 0 then f else f + 1

/-- Python `int(x)` on a float: truncation toward zero. -/
def truncI (q : Rat) : Int := if 0 ≤ q then q.floor else -((-q).floor)

/-- `np.clip(x, lo, hi)` = `min(max(x, lo), hi)`. -/
def clip (x lo hi : Rat) : Rat := min (max x lo) hi

def clipI (x lo hi : Int) : Int := min (max x lo) hi

/-- `a % b` for `Decimal`s / floats with `0 ≤ a`, `0 < b`: `a - floor(a/b)·b`. -/
def ratMod (a b : Rat) : Rat := a - ((a / b).floor : Rat) * b

/-! ## tokens: categorical choices, JSON scalars, external parameter values -/

inductive Tok where
  | none | bool (b : Bool) | int (i : Int) | flt (q : Rat) | nan | pinf | ninf | str (s : String)
deriving DecidableEq, Repr, Inhabited

/-- numeric value of a token under Python's numeric tower (`True == 1 == 1.0`). -/
def Tok.num? : Tok → Option Rat
  | .bool b => some (if b then 1 else 0)
  | .int i => some (i : Rat)
  | .flt q => some q
  | _ => Option.none

/-- Python `==` between two choices. -/
def Tok.pyEq : Tok → Tok → Bool
  | .none, .none => true
  | .str a, .str b => a == b
  | .pinf, .pinf => true
  | .ninf, .ninf => true
  | .nan, _ => false
  | _, .nan => false
  | a, b =>
    match a.num?, b.num? with
    | some x, some y => x == y
    | _, _ => false

/-- `_categorical_choice_equal`: `==` or both NaN. -/
def Tok.catEq (a b : Tok) : Bool :=
  a.pyEq b || (a == .nan && b == .nan)

/-- first index whose element satisfies `p` (`tuple.index` / the fallback loop). -/
def firstIdx {α : Type} (p : α → Bool) : List α → Option Nat
  | [] => Option.none
  | a :: t => if p a then some 0 else (firstIdx p t).map (· + 1)

/-! ## distributions -/

inductive FCls where | float | uniform | logUniform | discreteUniform
deriving DecidableEq, Repr, Inhabited

inductive ICls where | int | intUniform | intLogUniform
deriving DecidableEq, Repr, Inhabited

inductive Dist where
  | flt (c : FCls) (low high : Rat) (log : Bool) (step : Option Rat)
  | int (c : ICls) (low high : Int) (log : Bool) (step : Int)
  | cat (choices : List Tok)
deriving DecidableEq, Repr, Inhabited

inductive Err where | valueError | typeError | keyError
deriving DecidableEq, Repr, Inhabited

abbrev R := Except Err

/-- `_adjust_discrete_uniform_high` on exact decimals. -/
def adjustDiscreteHigh (low high step : Rat) : Rat :=
  let r := high - low
  if ratMod r step ≠ 0 then ((r / step).floor : Rat) * step + low else high

/-- `FloatDistribution.__init__` (the class tag is carried along; see `mkF` for the subclasses). -/
def mkFlt (c : FCls) (low high : Rat) (log : Bool) (step : Option Rat) : R Dist :=
  if log && step.isSome then .error .valueError
  else if high < low then .error .valueError
  else if log && low ≤ 0 then .error .valueError
  else match step with
    | some s => if s ≤ 0 then .error .valueError
                else .ok (.flt c low (adjustDiscreteHigh low high s) log (some s))
    | Option.none => .ok (.flt c low high log Option.none)

/-- `IntDistribution.__init__`; the high adjustment is the definition GENERATED from the source. -/
def mkInt (c : ICls) (low high : Int) (log : Bool) (step : Int) : R Dist :=
  if log && step != 1 then .error .valueError
  else if high < low then .error .valueError
  else if log && low < 1 then .error .valueError
  else if step ≤ 0 then .error .valueError
  else .ok (.int c low (DistInt.adjustIntUniformHigh low high step) log step)

/-- `CategoricalDistribution.__init__`. -/
def mkCat (choices : List Tok) : R Dist :=
  if choices.isEmpty then .error .valueError else .ok (.cat choices)

/-- the deprecated subclasses' `__init__` signatures -/
def mkUniform (low high : Rat) : R Dist := mkFlt .uniform low high false Option.none
def mkLogUniform (low high : Rat) : R Dist := mkFlt .logUniform low high true Option.none
def mkDiscreteUniform (low high q : Rat) : R Dist := mkFlt .discreteUniform low high false (some q)
def mkIntUniform (low high step : Int) : R Dist := mkInt .intUniform low high false step
def mkIntLogUniform (low high step : Int) : R Dist := mkInt .intLogUniform low high true step

/-- `single()` -/
def Dist.single : Dist → Bool
  | .flt _ low high _ Option.none => low == high
  | .flt _ low high _ (some s) => low == high || decide (high - low < s)
  | .int _ low high log step => DistInt.intSingle low high log step
  | .cat cs => cs.length == 1

/-- `_contains(value)` on an internal-representation value. -/
def Dist.contains : Dist → Rat → Bool
  | .flt _ low high _ Option.none, v => decide (low ≤ v) && decide (v ≤ high)
  | .flt _ low high _ (some s), v =>
    let k := (v - low) / s
    decide (low ≤ v) && decide (v ≤ high) && decide (Rat.abs (k - (roundHE k : Rat)) < 1 / 100000000)
  | .int _ low high _ step, v =>
    decide ((low : Rat) ≤ v) && decide (v ≤ (high : Rat)) && decide (ratMod (v - (low : Rat)) (step : Rat) = 0)
  | .cat cs, v => decide (0 ≤ truncI v) && decide (truncI v < (cs.length : Int))

/-- `CategoricalDistribution.to_internal_repr` (object identity of NaN choices is not modelled). -/
def catIndex (cs : List Tok) (v : Tok) : R Nat :=
  match firstIdx (fun c => v.catEq c) cs with
  | some i => .ok i
  | Option.none => .error .valueError

/-- `to_internal_repr(value)` -/
def Dist.toInternal : Dist → Tok → R Rat
  | .flt _ _ _ log _, v =>
    match v.num? with
    | some q => if log && q ≤ 0 then .error .valueError else .ok q
    | Option.none => .error .valueError
  | .int _ _ _ log _, v =>
    match v.num? with
    | some q => if log && q ≤ 0 then .error .valueError else .ok q
    | Option.none => .error .valueError
  | .cat cs, v => (catIndex cs v).map (fun (i : Nat) => (i : Rat))

/-- `to_external_repr(internal)` (only meaningful for contained values; Python's negative indexing of
`choices` is not modelled: an out-of-range index is `none`). -/
def Dist.toExternal : Dist → Rat → Option Tok
  | .flt _ _ _ _ _, v => some (.flt v)
  | .int _ _ _ _ _, v => some (.int (truncI v))
  | .cat cs, v => if 0 ≤ truncI v then cs[(truncI v).toNat]? else Option.none

/-- Python `==` on distributions (`__eq__`): same class, same `__dict__`; categorical choices up to
`_categorical_choice_equal`. -/
def listCatEq : List Tok → List Tok → Bool
  | [], [] => true
  | a :: t, b :: u => a.catEq b && listCatEq t u
  | _, _ => false

def Dist.pyEq : Dist → Dist → Bool
  | .cat a, .cat b => listCatEq a b
  | a, b => a == b

def Dist.sameClass : Dist → Dist → Bool
  | .flt c _ _ _ _, .flt c' _ _ _ _ => c == c'
  | .int c _ _ _ _, .int c' _ _ _ _ => c == c'
  | .cat _, .cat _ => true
  | _, _ => false

def Dist.log? : Dist → Option Bool
  | .flt _ _ _ l _ => some l
  | .int _ _ _ l _ => some l
  | .cat _ => Option.none

/-- `check_distribution_compatibility(old, new)`: `true` = no exception. -/
def compat (o n : Dist) : Bool :=
  o.sameClass n && (o.log? == n.log?) &&
    (match o, n with
     | .cat a, .cat b => listCatEq a b
     | _, _ => true)

/-- `_convert_old_distribution_to_new_distribution` -/
def convertOld : Dist → Dist
  | .flt _ low high log step => .flt .float low high log step
  | .int _ low high log step => .int .int low high log step
  | .cat cs => .cat cs

/-! ## the JSON attribute form (dict structure, not text) -/

/-- an attribute value: a scalar or a list of scalars -/
inductive JV1 where
  | atom (a : Tok) | arr (l : List Tok)
deriving DecidableEq, Repr, Inhabited

abbrev JObj := List (String × JV1)

/-- a top-level value: an attribute value or an attribute dict -/
inductive JV where
  | v (x : JV1) | obj (o : JObj)
deriving DecidableEq, Repr, Inhabited

abbrev JDoc := List (String × JV)

def jget {α : Type} (o : List (String × α)) (k : String) : Option α :=
  match o with
  | [] => Option.none
  | (k', v) :: t => if k' = k then some v else jget t k

def FCls.name : FCls → String
  | .float => "FloatDistribution" | .uniform => "UniformDistribution"
  | .logUniform => "LogUniformDistribution" | .discreteUniform => "DiscreteUniformDistribution"

def ICls.name : ICls → String
  | .int => "IntDistribution" | .intUniform => "IntUniformDistribution"
  | .intLogUniform => "IntLogUniformDistribution"

def optStep : Option Rat → Tok
  | some s => .flt s
  | Option.none => .none

/-- `_asdict()` per class (key order = insertion order of `__dict__` in `__init__`). -/
def Dist.asdict : Dist → JObj
  | .flt .float low high log step =>
    [("step", .atom (optStep step)), ("low", .atom (.flt low)), ("high", .atom (.flt high)), ("log", .atom (.bool log))]
  | .flt .uniform low high _ _ => [("low", .atom (.flt low)), ("high", .atom (.flt high))]
  | .flt .logUniform low high _ _ => [("low", .atom (.flt low)), ("high", .atom (.flt high))]
  | .flt .discreteUniform low high _ step =>
    [("low", .atom (.flt low)), ("high", .atom (.flt high)), ("q", .atom (optStep step))]
  | .int .int low high log step =>
    [("log", .atom (.bool log)), ("step", .atom (.int step)), ("low", .atom (.int low)), ("high", .atom (.int high))]
  | .int _ low high _ step =>
    [("step", .atom (.int step)), ("low", .atom (.int low)), ("high", .atom (.int high))]
  | .cat cs => [("choices", .arr cs)]

def Dist.clsName : Dist → String
  | .flt c _ _ _ _ => c.name
  | .int c _ _ _ _ => c.name
  | .cat _ => "CategoricalDistribution"

/-- `distribution_to_json` (before `json.dumps`). -/
def print (d : Dist) : JDoc :=
  [("name", .v (.atom (.str d.clsName))), ("attributes", .obj d.asdict)]

/-- a JSON number used where a float is expected (`float(x)`) -/
def asNum (k : String) (o : JObj) : R Rat :=
  match jget o k with
  | some (.atom t) => match t.num? with
    | some q => .ok q
    | Option.none => .error .typeError
  | some (.arr _) => .error .typeError
  | Option.none => .error .typeError   -- missing required argument

/-- a JSON number used where an int is expected (`int(x)`) -/
def asInt (k : String) (o : JObj) : R Int :=
  match jget o k with
  | some (.atom t) => match t.num? with
    | some q => .ok (truncI q)
    | Option.none => .error .typeError
  | some (.arr _) => .error .typeError
  | Option.none => .error .typeError

def asBoolD (k : String) (o : JObj) (dflt : Bool) : R Bool :=
  match jget o k with
  | some (.atom (.bool b)) => .ok b
  | some _ => .error .typeError
  | Option.none => .ok dflt

/-- optional float (`None`/absent = `None`) -/
def asOptNum (k : String) (o : JObj) : R (Option Rat) :=
  match jget o k with
  | some (.atom .none) => .ok Option.none
  | some (.atom t) => match t.num? with
    | some q => .ok (some q)
    | Option.none => .error .typeError
  | some (.arr _) => .error .typeError
  | Option.none => .ok Option.none

def asIntD (k : String) (o : JObj) (dflt : Int) : R Int :=
  match jget o k with
  | Option.none => .ok dflt
  | some _ => asInt k o

/-- `cls(**attributes)`: unknown keyword arguments are a `TypeError`. -/
def keysWithin (o : JObj) (allowed : List String) : Bool := o.all (fun p => allowed.contains p.1)

def fromAttrs (name : String) (o : JObj) : R Dist :=
  if name = "FloatDistribution" then
    if !keysWithin o ["low", "high", "log", "step"] then .error .typeError else do
      mkFlt .float (← asNum "low" o) (← asNum "high" o) (← asBoolD "log" o false) (← asOptNum "step" o)
  else if name = "UniformDistribution" then
    if !keysWithin o ["low", "high"] then .error .typeError else do
      mkUniform (← asNum "low" o) (← asNum "high" o)
  else if name = "LogUniformDistribution" then
    if !keysWithin o ["low", "high"] then .error .typeError else do
      mkLogUniform (← asNum "low" o) (← asNum "high" o)
  else if name = "DiscreteUniformDistribution" then
    if !keysWithin o ["low", "high", "q"] then .error .typeError else do
      mkDiscreteUniform (← asNum "low" o) (← asNum "high" o) (← asNum "q" o)
  else if name = "IntDistribution" then
    if !keysWithin o ["low", "high", "log", "step"] then .error .typeError else do
      mkInt .int (← asInt "low" o) (← asInt "high" o) (← asBoolD "log" o false) (← asIntD "step" o 1)
  else if name = "IntUniformDistribution" then
    if !keysWithin o ["low", "high", "step"] then .error .typeError else do
      mkIntUniform (← asInt "low" o) (← asInt "high" o) (← asIntD "step" o 1)
  else if name = "IntLogUniformDistribution" then
    if !keysWithin o ["low", "high", "step"] then .error .typeError else do
      mkIntLogUniform (← asInt "low" o) (← asInt "high" o) (← asIntD "step" o 1)
  else if name = "CategoricalDistribution" then
    if !keysWithin o ["choices"] then .error .typeError else
      match jget o "choices" with
      | some (.arr cs) => mkCat cs
      | _ => .error .typeError
  else .error .valueError

/-- the abbreviated form `{"type": "float"|"int"|"categorical", ...}` -/
def fromAbbrev (ty : String) (doc : JDoc) : R Dist :=
  let o : JObj := doc.filterMap (fun p => match p.2 with | .v x => some (p.1, x) | .obj _ => Option.none)
  if ty = "categorical" then
    match jget o "choices" with
    | some (.arr cs) => mkCat cs
    | some _ => .error .typeError
    | Option.none => .error .keyError
  else if ty = "float" then
    if (jget o "low").isNone || (jget o "high").isNone then .error .keyError else do
      mkFlt .float (← asNum "low" o) (← asNum "high" o) (← asBoolD "log" o false) (← asOptNum "step" o)
  else if ty = "int" then
    if (jget o "low").isNone || (jget o "high").isNone then .error .keyError else do
      let step ← match jget o "step" with
        | Option.none => pure 1
        | some (.atom .none) => pure 1
        | some _ => asInt "step" o
      mkInt .int (← asInt "low" o) (← asInt "high" o) (← asBoolD "log" o false) step
  else .error .valueError

/-- `json_to_distribution` (after `json.loads`). -/
def parse (doc : JDoc) : R Dist :=
  match jget doc "name" with
  | some (.v (.atom (.str name))) =>
    match jget doc "attributes" with
    | some (.obj o) => fromAttrs name o
    | some _ => .error .typeError
    | Option.none => .error .keyError
  | some _ => .error .valueError
  | Option.none =>
    match jget doc "type" with
    | some (.v (.atom (.str ty))) => fromAbbrev ty doc
    | some _ => .error .valueError
    | Option.none => .error .keyError

/-- the abbreviated document of a (base-class) distribution, as a user would write it -/
def abbrevDoc : Dist → JDoc
  | .flt _ low high log step =>
    [("type", .v (.atom (.str "float"))), ("low", .v (.atom (.flt low))), ("high", .v (.atom (.flt high))),
     ("log", .v (.atom (.bool log))), ("step", .v (.atom (optStep step)))]
  | .int _ low high log step =>
    [("type", .v (.atom (.str "int"))), ("low", .v (.atom (.int low))), ("high", .v (.atom (.int high))),
     ("log", .v (.atom (.bool log))), ("step", .v (.atom (.int step)))]
  | .cat cs => [("type", .v (.atom (.str "categorical"))), ("choices", .v (.arr cs))]

/-! ## the search-space transform -/

/-- What the rational model cannot compute: the log/exp pair and `nextafter(high, high - 1)`.
Theorems take the needed facts about them as hypotheses (`EnvOK` in Props/C11). -/
structure Env where
  lg : Rat → Rat
  ex : Rat → Rat
  below : Rat → Rat

structure TCfg where
  tlog : Bool
  tstep : Bool
  t01 : Bool
deriving DecidableEq, Repr, Inhabited

def Dist.isLog : Dist → Bool
  | .flt _ _ _ l _ => l
  | .int _ _ _ l _ => l
  | .cat _ => false

/-- `_transform_numerical_param` -/
def tnum (E : Env) (c : TCfg) (d : Dist) (v : Rat) : Rat :=
  if d.isLog && c.tlog then E.lg v else v

def Dist.width : Dist → Nat
  | .cat cs => cs.length
  | _ => 1

/-- rows of `_transform_search_space(...)[0]` that belong to one distribution -/
def boundsOf (E : Env) (c : TCfg) (d : Dist) : List (Rat × Rat) :=
  match d with
  | .cat cs => cs.map (fun _ => ((0 : Rat), (1 : Rat)))
  | .flt _ low high _ (some s) =>
    let h : Rat := if c.tstep then s / 2 else 0
    [(tnum E c d low - h, tnum E c d high + h)]
  | .flt _ low high _ Option.none => [(tnum E c d low, tnum E c d high)]
  | .int _ low high log step =>
    let h : Rat := if c.tstep then (step : Rat) / 2 else 0
    if log then [(tnum E c d ((low : Rat) - h), tnum E c d ((high : Rat) + h))]
    else [(tnum E c d (low : Rat) - h, tnum E c d (high : Rat) + h)]

def oneHot (n i : Nat) : List Rat := (List.range n).map (fun j => if j = i then 1 else 0)

/-- the untransformed columns of one parameter in `transform` -/
def encode (E : Env) (c : TCfg) (d : Dist) (v : Tok) : R (List Rat) :=
  match d with
  | .cat cs => (catIndex cs v).map (fun i => oneHot cs.length i)
  | _ =>
    match v.num? with
    | some q => .ok [tnum E c d q]
    | Option.none => .error .typeError

def scale01 (b : Rat × Rat) (x : Rat) : Rat := if b.1 = b.2 then 1 / 2 else (x - b.1) / (b.2 - b.1)
def unscale01 (b : Rat × Rat) (x : Rat) : Rat := b.1 + x * (b.2 - b.1)

/-- columns of one parameter as `transform` returns them -/
def tcols (E : Env) (c : TCfg) (d : Dist) (v : Tok) : R (List Rat) :=
  (encode E c d v).map (fun raw => if c.t01 then List.zipWith scale01 (boundsOf E c d) raw else raw)

/-- index of the first maximum (`np.argmax`) -/
def argmaxAux : List Rat → Nat → Rat → Nat → Nat
  | [], _, _, best => best
  | x :: t, i, m, best => if m < x then argmaxAux t (i + 1) x i else argmaxAux t (i + 1) m best

def argmax : List Rat → Nat
  | [] => 0
  | x :: t => argmaxAux t 1 x 0

/-- `_untransform_numerical_param` / the categorical arm of `untransform`, on raw (unscaled) columns -/
def decode (E : Env) (c : TCfg) (d : Dist) (cols : List Rat) : Option Tok :=
  match d, cols with
  | .cat cs, cols => cs[argmax cols]?
  | .flt cl low high true step, [x] =>
    let p := if c.tlog then E.ex x else x
    if (Dist.flt cl low high true step).single then some (.flt p) else some (.flt (min p (E.below high)))
  | .flt _ low high false (some s), [x] =>
    some (.flt (clip ((roundHE ((x - low) / s) : Rat) * s + low) low high))
  | .flt cl low high false Option.none, [x] =>
    if (Dist.flt cl low high false Option.none).single then some (.flt x) else some (.flt (min x (E.below high)))
  | .int _ low high true _, [x] =>
    if c.tlog then some (.int (truncI (clip (roundHE (E.ex x) : Rat) (low : Rat) (high : Rat))))
    else some (.int (truncI x))
  | .int _ low high false step, [x] =>
    some (.int (truncI (clip ((roundHE ((x - (low : Rat)) / (step : Rat)) : Rat) * (step : Rat) + (low : Rat)) (low : Rat) (high : Rat))))
  | _, _ => Option.none

/-- one parameter of `untransform`: undo the 0-1 scaling of its columns, then decode -/
def ucols (E : Env) (c : TCfg) (d : Dist) (cols : List Rat) : Option Tok :=
  decode E c d (if c.t01 then List.zipWith unscale01 (boundsOf E c d) cols else cols)

/-- `_SearchSpaceTransform.bounds` (raw) -/
def bounds (E : Env) (c : TCfg) (space : List Dist) : List (Rat × Rat) :=
  if c.t01 then (space.flatMap (boundsOf E c)).map (fun _ => ((0 : Rat), (1 : Rat)))
  else space.flatMap (boundsOf E c)

/-- `transform(params)`; the configuration is positional (same order as the search space). -/
def transform (E : Env) (c : TCfg) : List Dist → List Tok → R (List Rat)
  | [], [] => .ok []
  | d :: ds, v :: vs => do
    let a ← tcols E c d v
    let b ← transform E c ds vs
    pure (a ++ b)
  | _, _ => .error .keyError

/-- `untransform(x)` -/
def untransform (E : Env) (c : TCfg) : List Dist → List Rat → Option (List Tok)
  | [], [] => some []
  | [], _ :: _ => Option.none
  | d :: ds, xs =>
    if xs.length < d.width then Option.none else do
      let v ← ucols E c d (xs.take d.width)
      let rest ← untransform E c ds (xs.drop d.width)
      pure (v :: rest)

end OptunaVerif.Dist
