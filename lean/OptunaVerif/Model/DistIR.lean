import OptunaVerif.Model.Basic
import OptunaVerif.Model.Dist
/-
  A small statement / expression language for the bodies of `optuna/distributions.py`:

      FloatDistribution / IntDistribution / CategoricalDistribution   __init__, single, _contains, to_internal_repr,
                                                                      to_external_repr, _asdict (BaseDistribution's)
      Uniform / LogUniform / DiscreteUniform / IntUniform / IntLogUniform   __init__ (the `super().__init__` forwards), _asdict
      module functions   _adjust_discrete_uniform_high, _adjust_int_uniform_high, check_distribution_compatibility,
                         _get_single_value, _convert_old_distribution_to_new_distribution, _is_distribution_log,
                         distribution_to_json, json_to_distribution

  and its interpreter.  `verif/translators/tdist.py` reads the Python source with `ast` on every run and emits each body
  as DATA of the type `Stmt` below into `Generated/DistMethods.lean`; `Props/C11DistGen.lean` proves, for all inputs,
  `interp (generated body) = hand model` (`Model/Dist.lean`).

  VALUES.  A distribution object is its class and its `__dict__` in insertion order (`Val.inst c d`, `d : JObj` of
  `Model/Dist.lean`) — so `__init__` is an ordinary body that assigns attributes, and `_asdict` / `distribution_to_json`
  see the key order `__init__` produces.  Numbers are exact: an `int` is `Tok.int`, a `float` is `Tok.flt q`, NaN / ±inf are
  tokens, a `decimal.Decimal` is `Val.dec q`.  MODELLED, NOT VERIFIED (the meaning given here to the leaves):
    * `decimal.Decimal(str(x))` = the rational the harness feeds in for the float `x` (its shortest decimal), `float(d)` of a
      Decimal = the same rational; float arithmetic is exact; `Decimal % / //` are used with a non-negative dividend and a
      positive divisor (after the validation of `__init__`), where they are `ratMod` / `floor`;
    * `float(x)` (`floatOf`): numbers / bools go through, `None` -> TypeError, a str -> ValueError (numeric strings are
      outside the representation); `int(x)` truncates; `round` is round-half-even; `np.isnan`;
    * `tuple.index(x)` = first element `==` x (object identity of a NaN choice is not modelled), ValueError otherwise;
      `t[i]` for `0 <= i < len t`, IndexError above, negative `i` not represented;
    * `json.loads / json.dumps` = identity on the dict structure; `cls(**attributes)` (`constructKw`) binds the keywords to
      the parameters of the GENERATED `__init__` of the class (unknown keyword / missing argument -> TypeError), then runs it;
    * `warnings.warn` = an entry in the warning log (classified by the constant part of the message);
    * the unsupported-choice-type test of `CategoricalDistribution.__init__` is false on every representable choice.
  `unrep` = outside the representation; no hand model produces it, so an equality `interp … = hand …` fails on it.
-/
namespace OptunaVerif.DistIR
open OptunaVerif OptunaVerif.Dist

/-! ### syntax -/

/-- the eight classes -/
inductive Cls where
  | flt (c : FCls) | int (c : ICls) | cat
deriving DecidableEq, Repr, Inhabited

def Cls.name : Cls → String
  | .flt c => c.name
  | .int c => c.name
  | .cat => "CategoricalDistribution"

/-- `DISTRIBUTION_CLASSES`, in the order of the source (emitted by the translator, pinned in Props) -/
def allClasses : List Cls :=
  [.int .int, .int .intLogUniform, .int .intUniform, .flt .float, .flt .uniform, .flt .logUniform, .flt .discreteUniform, .cat]

def Cls.isFloat : Cls → Bool | .flt _ => true | _ => false
def Cls.isInt : Cls → Bool | .int _ => true | _ => false

/-- `isinstance(x, C)`: subclass aware -/
def Cls.isSub (c : Cls) (base : Cls) : Bool :=
  c == base || (match c, base with
    | .flt _, .flt .float => true
    | .int _, .int .int => true
    | _, _ => false)

inductive Warn where
  | highAdjusted          -- "... but the range is not divisible by `step`. It will be replaced by ..."
  | unsupportedChoice     -- "Choices for a categorical distribution should be a tuple of None, bool, int, float and str ..."
  | converted             -- "... is deprecated and internally converted to ..."  (FutureWarning)
  | other
deriving DecidableEq, Repr, Inhabited

/-- module functions and methods a body may call -/
inductive Fn where
  | adjustDiscreteHigh | adjustIntHigh | choiceEqual
  | single | contains | toInternal | toExternal | asdict          -- methods: first argument = the receiver
  | checkCompat | getSingleValue | convertOld | isLog
deriving DecidableEq, Repr, Inhabited

inductive Iter where
  | plain (x : String)               -- `for x in <e>:`  over a tuple or over DISTRIBUTION_CLASSES
  | enum (i x : String)              -- `for i, x in enumerate(<e>):`
deriving DecidableEq, Repr, Inhabited

inductive Expr where
  | var (x : String)
  | none_ | true_ | false_
  | intLit (i : Int) | fltLit (q : Rat) | strLit (s : String)
  | decLit (q : Rat)                        -- `decimal.Decimal("0")`
  | self_                                   -- `self`
  | attr (e : Expr) (a : String)            -- `<e>.<a>`   (an attribute of an instance; `q` = `step` of DiscreteUniform)
  | dictOf (e : Expr)                       -- `<e>.__dict__`
  | classOf (e : Expr)                      -- `<e>.__class__` / `type(<e>)`
  | className (e : Expr)                    -- `<e>.__name__`
  | clsRef (c : Cls)                        -- a class by name
  | allClasses                              -- `DISTRIBUTION_CLASSES`
  | isinstance (e : Expr) (cs : List Cls)   -- `isinstance(e, C)` / `isinstance(e, (C1, C2))`
  | not (e : Expr) | and (a b : Expr) | or (a b : Expr)
  | eq (a b : Expr) | ne (a b : Expr) | le (a b : Expr) | lt (a b : Expr)
  | is_ (a b : Expr)                        -- `a is b` (None, classes)
  | isIn (a b : Expr)                       -- `a in b`  (dict key / tuple of str literals)
  | add (a b : Expr) | sub (a b : Expr) | mul (a b : Expr) | div (a b : Expr) | floordiv (a b : Expr) | mod (a b : Expr)
  | abs (e : Expr) | round (e : Expr)
  | floatOf (e : Expr) | intOf (e : Expr) | isnan (e : Expr) | len (e : Expr) | tupleOf (e : Expr)
  | decimalOfStr (e : Expr)                 -- `decimal.Decimal(str(e))`
  | strTuple (l : List String)              -- `("float", "int")`
  | index (e k : Expr)                      -- `e[k]`
  | getD (e k d : Expr)                     -- `e.get(k, d)` / `e.get(k)`
  | tupleIndex (t x : Expr)                 -- `t.index(x)`
  | deepcopy (e : Expr)                     -- `copy.deepcopy(e)`
  | jsonLoads (e : Expr) | jsonDumps (e : Expr)
  | dictLit2 (k1 : String) (v1 : Expr) (k2 : String) (v2 : Expr)   -- `{"name": …, "attributes": …}`
  | construct (c : Cls) (low high log step : Expr)   -- `FloatDistribution(low=…, high=…, log=…, step=…)` (omitted = default)
  | constructCat (choices : Expr)           -- `CategoricalDistribution(choices)`
  | constructKw (cls attrs : Expr)          -- `cls(**attrs)`
  | unsupportedChoice (e : Expr)            -- `e is not None and not isinstance(e, (bool, int, float, str))`
  | call1 (f : Fn) (a : Expr) | call2 (f : Fn) (a b : Expr) | call3 (f : Fn) (a b c : Expr)
deriving Repr, Inhabited

inductive Stmt where
  | skip
  | seq (a b : Stmt)
  | assign (x : String) (e : Expr)
  | setAttr (a : String) (e : Expr)                    -- `self.<a> = e`
  | setItem (d : String) (k : Expr) (e : Expr)         -- `<d>[k] = e`   (`d` a local holding a dict)
  | setItem2 (d : String) (k1 k2 : Expr) (e : Expr)    -- `<d>[k1][k2] = e`
  | pop (x : Option String) (d : String) (k : String)  -- `[x =] <d>.pop("k")`
  | ite (c : Expr) (t e : Stmt)
  | assert (c : Expr)
  | ret (e : Expr)
  | raise (x : Err)
  | eval (e : Expr)
  | warn (w : Warn)
  | forIn (it : Iter) (e : Expr) (body : Stmt)
  | tryExcept (body : Stmt) (cls : List Err) (handler : Stmt)
  | superInit (low high log step : Expr)               -- `super().__init__(low=…, high=…, log=…, step=…)` (omitted = default)
deriving Repr, Inhabited

def block : List Stmt → Stmt
  | [] => .skip
  | [s] => s
  | s :: rest => .seq s (block rest)

/-! ### values -/

inductive Val where
  | tok (t : Tok)
  | dec (q : Rat)
  | tup (l : List Tok)
  | strs (l : List String)
  | inst (c : Cls) (d : JObj)
  | dict (d : JObj)
  | doc (d : JDoc)
  | cls (c : Cls)
  | classes
deriving DecidableEq, Repr, Inhabited

inductive Exn where
  | err (e : Err)
  | indexError | assertion | unrep
deriving DecidableEq, Repr, Inhabited

structure MSt where
  locals : AList Val := []
  self : Option (Cls × JObj) := none
  warns : List Warn := []
deriving DecidableEq, Repr, Inhabited

inductive Flow where
  | next | ret (v : Val) | raised (e : Exn)
deriving DecidableEq, Repr, Inhabited

abbrev Res (α : Type) := MSt × Except Exn α
abbrev CallD := Fn → List Val → MSt → Res Val
/-- `C(low, high, log, step)` / `C(choices)`: run the class's `__init__` -/
abbrev InitD := Cls → List (String × Val) → MSt → Res Val

def bind1 {α β : Type} (r : Res α) (k : α → MSt → Res β) : Res β :=
  match r with
  | (s, .ok a) => k a s
  | (s, .error e) => (s, .error e)

@[simp] theorem bind1_ok {α β : Type} (s : MSt) (a : α) (k : α → MSt → Res β) : bind1 (s, .ok a) k = k a s := rfl
@[simp] theorem bind1_error {α β : Type} (s : MSt) (e : Exn) (k : α → MSt → Res β) :
    bind1 (s, (.error e : Except Exn α)) k = (s, .error e) := rfl

def boolV (b : Bool) : Val := .tok (.bool b)

/-! ### meaning of the leaves -/

def Tok.truthy : Tok → Bool
  | .none => false | .bool b => b | .int i => i != 0 | .flt q => q != 0
  | .nan => true | .pinf => true | .ninf => true | .str s => s != ""

def truthy : Val → Except Exn Bool
  | .tok t => .ok (Tok.truthy t)
  | .dec q => .ok (q != 0)
  | .tup l => .ok (!l.isEmpty)
  | _ => .error .unrep

/-- a number as a rational: `some (q, isDecimal)` -/
def numOf : Val → Option Rat
  | .tok t => t.num?
  | .dec q => some q
  | _ => none

/-- ordering `a <= b` / `a < b` (NaN compares false; a non-number is a TypeError; ±inf not represented) -/
def cmpV (strict : Bool) (a b : Val) : Except Exn Bool :=
  match a, b with
  | .tok .nan, _ => .ok false
  | _, .tok .nan => .ok false
  | .tok .pinf, _ => .error .unrep | .tok .ninf, _ => .error .unrep
  | _, .tok .pinf => .error .unrep | _, .tok .ninf => .error .unrep
  | _, _ =>
    match numOf a, numOf b with
    | some x, some y => .ok (if strict then decide (x < y) else decide (x ≤ y))
    | _, _ => match a, b with
      | .tok _, .tok _ => .error (.err .typeError)
      | _, _ => .error .unrep

/-- `==` -/
def eqV : Val → Val → Except Exn Bool
  | .tok a, .tok b => .ok (a.pyEq b)
  | .dec a, .dec b => .ok (a == b)
  | .dec a, .tok b => .ok (match b.num? with | some y => a == y | none => false)
  | .tok a, .dec b => .ok (match a.num? with | some x => x == b | none => false)
  | .cls a, .cls b => .ok (a == b)
  | .inst c d, .inst c' d' =>
    -- `BaseDistribution.__eq__` / `CategoricalDistribution.__eq__` (pinned texts): same class, same `__dict__`
    match c, c' with
    | .cat, .cat => (match jget d "choices", jget d' "choices" with
      | some (.arr a), some (.arr b) => .ok (listCatEq a b)
      | _, _ => .error .unrep)
    | _, _ => .ok (c == c' && d == d')
  | .tup a, .tup b => .ok (a.length == b.length && (List.zipWith Tok.pyEq a b).all id)
  | _, _ => .error .unrep

def isV : Val → Val → Except Exn Bool
  | .tok .none, .tok .none => .ok true
  | .tok _, .tok .none => .ok false
  | .tok .none, .tok _ => .ok false
  | .dec _, .tok .none => .ok false
  | .tup _, .tok .none => .ok false
  | .cls a, .cls b => .ok (a == b)
  | _, _ => .error .unrep

inductive Op where | add | sub | mul | div | floordiv | mod
deriving DecidableEq, Repr, Inhabited

/-- arithmetic: int ∘ int stays int (Python `//`, `%` = fdiv / fmod), Decimal ∘ Decimal stays Decimal, anything with a
float is a float; exact -/
def arith (op : Op) (a b : Val) : Except Exn Val :=
  match a, b with
  | .tok (.int x), .tok (.int y) =>
    match op with
    | .add => .ok (.tok (.int (x + y))) | .sub => .ok (.tok (.int (x - y))) | .mul => .ok (.tok (.int (x * y)))
    | .floordiv => if y = 0 then .error .unrep else .ok (.tok (.int (Int.fdiv x y)))
    | .mod => if y = 0 then .error .unrep else .ok (.tok (.int (Int.fmod x y)))
    | .div => if y = 0 then .error .unrep else .ok (.tok (.flt ((x : Rat) / (y : Rat))))
  | .dec x, .dec y =>
    match op with
    | .add => .ok (.dec (x + y)) | .sub => .ok (.dec (x - y)) | .mul => .ok (.dec (x * y))
    | .div => if y = 0 then .error .unrep else .ok (.dec (x / y))
    | .floordiv => if y ≤ 0 || x < 0 then .error .unrep else .ok (.dec ((x / y).floor : Rat))
    | .mod => if y ≤ 0 || x < 0 then .error .unrep else .ok (.dec (ratMod x y))
  | _, _ =>
    match a, b with
    | .tok ta, .tok tb =>
      match ta.num?, tb.num? with
      | some x, some y =>
        match op with
        | .add => .ok (.tok (.flt (x + y))) | .sub => .ok (.tok (.flt (x - y))) | .mul => .ok (.tok (.flt (x * y)))
        | .div => if y = 0 then .error .unrep else .ok (.tok (.flt (x / y)))
        | .floordiv => if y ≤ 0 then .error .unrep else .ok (.tok (.flt ((x / y).floor : Rat)))
        | .mod => if y ≤ 0 then .error .unrep else .ok (.tok (.flt (ratMod x y)))
      | _, _ => .error .unrep
    | _, _ => .error .unrep

def absV : Val → Except Exn Val
  | .tok (.int i) => .ok (.tok (.int (if i < 0 then -i else i)))
  | .tok (.flt q) => .ok (.tok (.flt (Rat.abs q)))
  | .dec q => .ok (.dec (Rat.abs q))
  | _ => .error .unrep

/-- `round(x)` with one argument: an int -/
def roundV : Val → Except Exn Val
  | .tok (.int i) => .ok (.tok (.int i))
  | .tok (.flt q) => .ok (.tok (.int (roundHE q)))
  | _ => .error .unrep

/-- `float(x)` -/
def floatOfV : Val → Except Exn Val
  | .tok (.bool b) => .ok (.tok (.flt (if b then 1 else 0)))
  | .tok (.int i) => .ok (.tok (.flt (i : Rat)))
  | .tok (.flt q) => .ok (.tok (.flt q))
  | .tok .nan => .ok (.tok .nan) | .tok .pinf => .ok (.tok .pinf) | .tok .ninf => .ok (.tok .ninf)
  | .tok .none => .error (.err .typeError)
  | .tok (.str _) => .error (.err .valueError)
  | .dec q => .ok (.tok (.flt q))
  | _ => .error .unrep

/-- `int(x)` -/
def intOfV : Val → Except Exn Val
  | .tok (.bool b) => .ok (.tok (.int (if b then 1 else 0)))
  | .tok (.int i) => .ok (.tok (.int i))
  | .tok (.flt q) => .ok (.tok (.int (truncI q)))
  | .tok .nan => .error (.err .valueError)
  | .tok .none => .error (.err .typeError)
  | .tok (.str _) => .error (.err .valueError)
  | _ => .error .unrep

def isnanV : Val → Except Exn Val
  | .tok .nan => .ok (boolV true)
  | .tok (.flt _) => .ok (boolV false) | .tok (.int _) => .ok (boolV false) | .tok (.bool _) => .ok (boolV false)
  | .tok .pinf => .ok (boolV false) | .tok .ninf => .ok (boolV false)
  | _ => .error .unrep

def lenV : Val → Except Exn Val
  | .tup l => .ok (.tok (.int l.length))
  | _ => .error .unrep

def jv1V : JV1 → Val
  | .atom t => .tok t
  | .arr l => .tup l

def valJV1 : Val → Option JV1
  | .tok t => some (.atom t)
  | .tup l => some (.arr l)
  | _ => none

def jvV : JV → Val
  | .v x => jv1V x
  | .obj o => .dict o

def indexV (e k : Val) : Except Exn Val :=
  match e, k with
  | .tup l, .tok (.int i) =>
    if i < 0 then .error .unrep
    else match l[i.toNat]? with
      | some t => .ok (.tok t)
      | none => .error .indexError
  | .dict d, .tok (.str key) => match jget d key with
    | some x => .ok (jv1V x)
    | none => .error (.err .keyError)
  | .doc d, .tok (.str key) => match jget d key with
    | some x => .ok (jvV x)
    | none => .error (.err .keyError)
  | _, _ => .error .unrep

def getDV (e k dflt : Val) : Except Exn Val :=
  match e, k with
  | .dict d, .tok (.str key) => .ok (match jget d key with | some x => jv1V x | none => dflt)
  | .doc d, .tok (.str key) => .ok (match jget d key with | some x => jvV x | none => dflt)
  | _, _ => .error .unrep

def isInV (a b : Val) : Except Exn Bool :=
  match a, b with
  | .tok (.str key), .dict d => .ok (jget d key).isSome
  | .tok (.str key), .doc d => .ok (jget d key).isSome
  | .tok (.str key), .strs l => .ok (l.contains key)
  | .tok _, .strs _ => .ok false
  | _, _ => .error .unrep

/-- `t.index(x)` -/
def tupleIndexV (t x : Val) : Except Exn Val :=
  match t, x with
  | .tup l, .tok v => match firstIdx (fun c => v.pyEq c) l with
    | some i => .ok (.tok (.int i))
    | none => .error (.err .valueError)
  | _, _ => .error .unrep

/-- `x.<a>` on an instance (`q` is DiscreteUniformDistribution's alias of `step`) -/
def attrV (v : Val) (a : String) : Except Exn Val :=
  match v with
  | .inst c d =>
    let key := if a = "q" && c == .flt .discreteUniform then "step" else a
    match jget d key with
    | some x => .ok (jv1V x)
    | none => .error .unrep
  | _ => .error .unrep

def getLocal (s : MSt) (x : String) : Except Exn Val :=
  match s.locals.get? x with
  | some v => .ok v
  | none => .error .unrep

def setLocal (s : MSt) (x : String) (v : Val) : MSt := { s with locals := s.locals.set x v }

/-- keyword defaults of the constructors (emitted by the translator; pinned in Props) -/
def ctorArgs (low high log step : Val) : List (String × Val) := [("low", low), ("high", high), ("log", log), ("step", step)]

/-! ### the interpreter -/

def eval (callD : CallD) (initD : InitD) : Expr → MSt → Res Val
  | .var x, s => (s, getLocal s x)
  | .none_, s => (s, .ok (.tok .none))
  | .true_, s => (s, .ok (boolV true))
  | .false_, s => (s, .ok (boolV false))
  | .intLit i, s => (s, .ok (.tok (.int i)))
  | .fltLit q, s => (s, .ok (.tok (.flt q)))
  | .strLit x, s => (s, .ok (.tok (.str x)))
  | .decLit q, s => (s, .ok (.dec q))
  | .self_, s => (s, match s.self with | some (c, d) => .ok (.inst c d) | none => .error .unrep)
  | .attr e a, s => bind1 (eval callD initD e s) fun v s1 => (s1, attrV v a)
  | .dictOf e, s => bind1 (eval callD initD e s) fun v s1 =>
      (s1, match v with | .inst _ d => .ok (.dict d) | _ => .error .unrep)
  | .classOf e, s => bind1 (eval callD initD e s) fun v s1 =>
      (s1, match v with | .inst c _ => .ok (.cls c) | _ => .error .unrep)
  | .className e, s => bind1 (eval callD initD e s) fun v s1 =>
      (s1, match v with | .cls c => .ok (.tok (.str c.name)) | _ => .error .unrep)
  | .clsRef c, s => (s, .ok (.cls c))
  | .allClasses, s => (s, .ok .classes)
  | .isinstance e cs, s => bind1 (eval callD initD e s) fun v s1 =>
      (s1, match v with | .inst c _ => .ok (boolV (cs.any (fun b => c.isSub b))) | _ => .error .unrep)
  | .not e, s => bind1 (eval callD initD e s) fun a s1 => (s1, (truthy a).map (fun x => boolV (!x)))
  | .and a b, s => bind1 (eval callD initD a s) fun x s1 =>
      match truthy x with
      | .error e => (s1, .error e)
      | .ok false => (s1, .ok x)
      | .ok true => eval callD initD b s1
  | .or a b, s => bind1 (eval callD initD a s) fun x s1 =>
      match truthy x with
      | .error e => (s1, .error e)
      | .ok true => (s1, .ok x)
      | .ok false => eval callD initD b s1
  | .eq a b, s => bind1 (eval callD initD a s) fun x s1 => bind1 (eval callD initD b s1) fun y s2 => (s2, (eqV x y).map boolV)
  | .ne a b, s => bind1 (eval callD initD a s) fun x s1 => bind1 (eval callD initD b s1) fun y s2 =>
      (s2, (eqV x y).map (fun r => boolV (!r)))
  | .le a b, s => bind1 (eval callD initD a s) fun x s1 => bind1 (eval callD initD b s1) fun y s2 => (s2, (cmpV false x y).map boolV)
  | .lt a b, s => bind1 (eval callD initD a s) fun x s1 => bind1 (eval callD initD b s1) fun y s2 => (s2, (cmpV true x y).map boolV)
  | .is_ a b, s => bind1 (eval callD initD a s) fun x s1 => bind1 (eval callD initD b s1) fun y s2 => (s2, (isV x y).map boolV)
  | .isIn a b, s => bind1 (eval callD initD a s) fun x s1 => bind1 (eval callD initD b s1) fun y s2 => (s2, (isInV x y).map boolV)
  | .add a b, s => bind1 (eval callD initD a s) fun x s1 => bind1 (eval callD initD b s1) fun y s2 => (s2, arith .add x y)
  | .sub a b, s => bind1 (eval callD initD a s) fun x s1 => bind1 (eval callD initD b s1) fun y s2 => (s2, arith .sub x y)
  | .mul a b, s => bind1 (eval callD initD a s) fun x s1 => bind1 (eval callD initD b s1) fun y s2 => (s2, arith .mul x y)
  | .div a b, s => bind1 (eval callD initD a s) fun x s1 => bind1 (eval callD initD b s1) fun y s2 => (s2, arith .div x y)
  | .floordiv a b, s => bind1 (eval callD initD a s) fun x s1 => bind1 (eval callD initD b s1) fun y s2 => (s2, arith .floordiv x y)
  | .mod a b, s => bind1 (eval callD initD a s) fun x s1 => bind1 (eval callD initD b s1) fun y s2 => (s2, arith .mod x y)
  | .abs e, s => bind1 (eval callD initD e s) fun v s1 => (s1, absV v)
  | .round e, s => bind1 (eval callD initD e s) fun v s1 => (s1, roundV v)
  | .floatOf e, s => bind1 (eval callD initD e s) fun v s1 => (s1, floatOfV v)
  | .intOf e, s => bind1 (eval callD initD e s) fun v s1 => (s1, intOfV v)
  | .isnan e, s => bind1 (eval callD initD e s) fun v s1 => (s1, isnanV v)
  | .len e, s => bind1 (eval callD initD e s) fun v s1 => (s1, lenV v)
  | .tupleOf e, s => bind1 (eval callD initD e s) fun v s1 =>
      (s1, match v with | .tup l => .ok (.tup l) | _ => .error .unrep)
  | .decimalOfStr e, s => bind1 (eval callD initD e s) fun v s1 =>
      (s1, match v with
        | .tok (.flt q) => .ok (.dec q)
        | .tok (.int i) => .ok (.dec (i : Rat))
        | _ => .error .unrep)
  | .strTuple l, s => (s, .ok (.strs l))
  | .index e k, s => bind1 (eval callD initD e s) fun a s1 => bind1 (eval callD initD k s1) fun b s2 => (s2, indexV a b)
  | .getD e k d, s => bind1 (eval callD initD e s) fun a s1 => bind1 (eval callD initD k s1) fun b s2 =>
      bind1 (eval callD initD d s2) fun c s3 => (s3, getDV a b c)
  | .tupleIndex t x, s => bind1 (eval callD initD t s) fun a s1 => bind1 (eval callD initD x s1) fun b s2 => (s2, tupleIndexV a b)
  | .deepcopy e, s => eval callD initD e s
  | .jsonLoads e, s => eval callD initD e s
  | .jsonDumps e, s => eval callD initD e s
  | .dictLit2 k1 v1 k2 v2, s => bind1 (eval callD initD v1 s) fun a s1 => bind1 (eval callD initD v2 s1) fun b s2 =>
      (s2, match a, b with
        | .tok t, .dict o => .ok (.doc [(k1, .v (.atom t)), (k2, .obj o)])
        | _, _ => .error .unrep)
  | .construct c low high log step, s =>
      bind1 (eval callD initD low s) fun a s1 => bind1 (eval callD initD high s1) fun b s2 =>
      bind1 (eval callD initD log s2) fun l s3 => bind1 (eval callD initD step s3) fun st s4 =>
        initD c (ctorArgs a b l st) s4
  | .constructCat ch, s => bind1 (eval callD initD ch s) fun a s1 => initD .cat [("choices", a)] s1
  | .constructKw c attrs, s => bind1 (eval callD initD c s) fun cv s1 => bind1 (eval callD initD attrs s1) fun av s2 =>
      match cv, av with
      | .cls cc, .dict o => initD cc (o.map (fun p => (p.1, jv1V p.2))) s2
      | _, _ => (s2, .error .unrep)
  | .unsupportedChoice e, s => bind1 (eval callD initD e s) fun v s1 =>
      (s1, match v with | .tok _ => .ok (boolV false) | _ => .error .unrep)
  | .call1 f a, s => bind1 (eval callD initD a s) fun x s1 => callD f [x] s1
  | .call2 f a b, s => bind1 (eval callD initD a s) fun x s1 => bind1 (eval callD initD b s1) fun y s2 => callD f [x, y] s2
  | .call3 f a b c, s => bind1 (eval callD initD a s) fun x s1 => bind1 (eval callD initD b s1) fun y s2 =>
      bind1 (eval callD initD c s2) fun z s3 => callD f [x, y, z] s3

def evalCond (callD : CallD) (initD : InitD) (c : Expr) (s : MSt) : Res Bool :=
  bind1 (eval callD initD c s) fun v s1 => (s1, truthy v)

/-- items of a loop: the bindings of each iteration -/
def iterItems (it : Iter) (v : Val) : Except Exn (List (List (String × Val))) :=
  match it, v with
  | .plain x, .tup l => .ok (l.map (fun t => [(x, .tok t)]))
  | .plain x, .classes => .ok (allClasses.map (fun c => [(x, .cls c)]))
  | .enum i x, .tup l => .ok ((List.range l.length).zip l |>.map (fun p => [(i, .tok (.int p.1)), (x, .tok p.2)]))
  | _, _ => .error .unrep

def bindAll (s : MSt) (b : List (String × Val)) : MSt := b.foldl (fun acc p => setLocal acc p.1 p.2) s

def forLoop (f : MSt → MSt × Flow) : List (List (String × Val)) → MSt → MSt × Flow
  | [], s => (s, .next)
  | b :: rest, s =>
    match f (bindAll s b) with
    | (s', .next) => forLoop f rest s'
    | r => r

def errOf : Exn → Option Err
  | .err e => some e
  | _ => none

/-- `super().__init__(…)`: the parent's generated body, on the same `self` -/
abbrev SuperD := Cls → List (String × Val) → MSt → MSt × Flow

def exec (callD : CallD) (initD : InitD) (superD : SuperD) : Stmt → MSt → MSt × Flow
  | .skip, s => (s, .next)
  | .seq a b, s =>
    match exec callD initD superD a s with
    | (s', .next) => exec callD initD superD b s'
    | r => r
  | .assign x e, s =>
    match eval callD initD e s with
    | (s', .ok v) => (setLocal s' x v, .next)
    | (s', .error ex) => (s', .raised ex)
  | .setAttr a e, s =>
    match eval callD initD e s with
    | (s', .ok v) =>
      match s'.self, valJV1 v with
      | some (c, d), some x => ({ s' with self := some (c, AList.set d a x) }, .next)
      | _, _ => (s', .raised .unrep)
    | (s', .error ex) => (s', .raised ex)
  | .setItem d k e, s =>
    match (bind1 (eval callD initD k s) fun a s1 => bind1 (eval callD initD e s1) fun b s2 => (s2, .ok (a, b)) : Res (Val × Val)) with
    | (s', .error ex) => (s', .raised ex)
    | (s', .ok (a, b)) =>
      match s'.locals.get? d, a, valJV1 b with
      | some (.dict o), .tok (.str key), some x => (setLocal s' d (.dict (AList.set o key x)), .next)
      | _, _, _ => (s', .raised .unrep)
  | .setItem2 d k1 k2 e, s =>
    match (bind1 (eval callD initD k1 s) fun a s1 => bind1 (eval callD initD k2 s1) fun b s2 =>
           bind1 (eval callD initD e s2) fun c s3 => (s3, .ok (a, b, c)) : Res (Val × Val × Val)) with
    | (s', .error ex) => (s', .raised ex)
    | (s', .ok (a, b, c)) =>
      match s'.locals.get? d, a, b, valJV1 c with
      | some (.doc o), .tok (.str key1), .tok (.str key2), some x =>
        match jget o key1 with
        | some (.obj inner) => (setLocal s' d (.doc (AList.set o key1 (.obj (AList.set inner key2 x)))), .next)
        | _ => (s', .raised .unrep)
      | _, _, _, _ => (s', .raised .unrep)
  | .pop x d k, s =>
    match s.locals.get? d with
    | some (.dict o) =>
      match jget o k with
      | some v =>
        let s1 := setLocal s d (.dict (o.filter (fun p => p.1 != k)))
        (match x with | some y => setLocal s1 y (jv1V v) | none => s1, .next)
      | none => (s, .raised (.err .keyError))
    | _ => (s, .raised .unrep)
  | .ite c t e, s =>
    match evalCond callD initD c s with
    | (s', .error ex) => (s', .raised ex)
    | (s', .ok true) => exec callD initD superD t s'
    | (s', .ok false) => exec callD initD superD e s'
  | .assert c, s =>
    match evalCond callD initD c s with
    | (s', .error ex) => (s', .raised ex)
    | (s', .ok true) => (s', .next)
    | (s', .ok false) => (s', .raised .assertion)
  | .ret e, s =>
    match eval callD initD e s with
    | (s', .ok v) => (s', .ret v)
    | (s', .error ex) => (s', .raised ex)
  | .raise x, s => (s, .raised (.err x))
  | .eval e, s =>
    match eval callD initD e s with
    | (s', .ok _) => (s', .next)
    | (s', .error ex) => (s', .raised ex)
  | .warn w, s => ({ s with warns := s.warns ++ [w] }, .next)
  | .forIn it e body, s =>
    match eval callD initD e s with
    | (s', .error ex) => (s', .raised ex)
    | (s', .ok v) =>
      match iterItems it v with
      | .error ex => (s', .raised ex)
      | .ok items => forLoop (exec callD initD superD body) items s'
  | .tryExcept body cls handler, s =>
    match exec callD initD superD body s with
    | (s', .raised ex) =>
      match errOf ex with
      | some e => if cls.contains e then exec callD initD superD handler s' else (s', .raised ex)
      | none => (s', .raised ex)
    | r => r
  | .superInit low high log step, s =>
    match (bind1 (eval callD initD low s) fun a s1 => bind1 (eval callD initD high s1) fun b s2 =>
           bind1 (eval callD initD log s2) fun l s3 => bind1 (eval callD initD step s3) fun st s4 =>
             (s4, .ok (ctorArgs a b l st)) : Res (List (String × Val))) with
    | (s', .error ex) => (s', .raised ex)
    | (s', .ok args) =>
      match s'.self with
      | some (c, _) => superD c args s'
      | none => (s', .raised .unrep)

/-! ### the generated functions, composed -/

structure Program where
  adjustDiscreteHigh : Stmt
  adjustIntHigh : Stmt
  floatInit : Stmt
  intInit : Stmt
  catInit : Stmt
  uniformInit : Stmt
  logUniformInit : Stmt
  discreteUniformInit : Stmt
  intUniformInit : Stmt
  intLogUniformInit : Stmt
  floatSingle : Stmt
  intSingle : Stmt
  catSingle : Stmt
  floatContains : Stmt
  intContains : Stmt
  catContains : Stmt
  floatToInternal : Stmt
  intToInternal : Stmt
  catToInternal : Stmt
  baseToExternal : Stmt
  intToExternal : Stmt
  catToExternal : Stmt
  baseAsdict : Stmt
  uniformAsdict : Stmt
  logUniformAsdict : Stmt
  discreteUniformAsdict : Stmt
  intUniformAsdict : Stmt
  intLogUniformAsdict : Stmt
  checkCompat : Stmt
  getSingleValue : Stmt
  convertOld : Stmt
  isLog : Stmt
  distributionToJson : Stmt
  jsonToDistribution : Stmt
deriving Repr, Inhabited

def noCall : CallD := fun _ _ s => (s, .error .unrep)
def noInit : InitD := fun _ _ s => (s, .error .unrep)
def noSuper : SuperD := fun _ _ s => (s, .raised .unrep)

/-- a call of a module function / method: fresh locals, `self` = the receiver for methods -/
def runFn (callD : CallD) (initD : InitD) (body : Stmt) (params : List String) (self : Option (Cls × JObj))
    (args : List Val) (s : MSt) : Res Val :=
  if params.length ≠ args.length then (s, .error .unrep)
  else
    match exec callD initD noSuper body { locals := params.zip args, self := self, warns := s.warns } with
    | (s', .next) => ({ s with warns := s'.warns }, .ok (.tok .none))
    | (s', .ret v) => ({ s with warns := s'.warns }, .ok v)
    | (s', .raised e) => ({ s with warns := s'.warns }, .error e)

/-- the helpers without callees -/
def Program.call0 (G : Program) : CallD
  | .adjustDiscreteHigh, a, s => runFn noCall noInit G.adjustDiscreteHigh ["low", "high", "step"] none a s
  | .adjustIntHigh, a, s => runFn noCall noInit G.adjustIntHigh ["low", "high", "step"] none a s
  | .choiceEqual, [.tok a, .tok b], s => (s, .ok (boolV (a.catEq b)))   -- `_categorical_choice_equal` (pinned text)
  | _, _, s => (s, .error .unrep)

/-- keyword binding of `C(**kwargs)` / `C(a, b, …)` against the parameter list of the class's `__init__` -/
def bindKw (params : List (String × Option Val)) (args : List (String × Val)) : Except Exn (List (String × Val)) :=
  if args.any (fun p => !(params.any (fun q => q.1 == p.1))) then .error (.err .typeError)
  else
    params.foldr (fun p acc =>
      match acc with
      | .error e => .error e
      | .ok l =>
        match args.find? (fun a => a.1 == p.1), p.2 with
        | some a, _ => .ok ((p.1, a.2) :: l)
        | none, some d => .ok ((p.1, d) :: l)
        | none, none => .error (.err .typeError)) (.ok [])

/-- parameter lists (with defaults) of the eight `__init__`s — emitted by the translator as `signatures`, pinned in Props -/
def initParams : Cls → List (String × Option Val)
  | .flt .float => [("low", none), ("high", none), ("log", some (boolV false)), ("step", some (.tok .none))]
  | .flt .uniform => [("low", none), ("high", none)]
  | .flt .logUniform => [("low", none), ("high", none)]
  | .flt .discreteUniform => [("low", none), ("high", none), ("q", none)]
  | .int .int => [("low", none), ("high", none), ("log", some (boolV false)), ("step", some (.tok (.int 1)))]
  | .int .intUniform => [("low", none), ("high", none), ("step", some (.tok (.int 1)))]
  | .int .intLogUniform => [("low", none), ("high", none), ("step", some (.tok (.int 1)))]
  | .cat => [("choices", none)]

def Program.initBody (G : Program) : Cls → Stmt
  | .flt .float => G.floatInit
  | .flt .uniform => G.uniformInit
  | .flt .logUniform => G.logUniformInit
  | .flt .discreteUniform => G.discreteUniformInit
  | .int .int => G.intInit
  | .int .intUniform => G.intUniformInit
  | .int .intLogUniform => G.intLogUniformInit
  | .cat => G.catInit

/-- the base class whose `__init__` a `super().__init__` of `c` reaches -/
def Cls.base : Cls → Cls
  | .flt _ => .flt .float
  | .int _ => .int .int
  | .cat => .cat

/-- run an `__init__` body of class `body_of` on `self` (class `c`), parameters bound -/
def Program.runInitBody (G : Program) (superD : SuperD) (bodyOf : Cls) (args : List (String × Val)) (s : MSt) : MSt × Flow :=
  match bindKw (initParams bodyOf) args with
  | .error e => (s, .raised e)
  | .ok bound => exec (G.call0) noInit superD (G.initBody bodyOf) { s with locals := bound }

/-- `super().__init__(…)` from a deprecated subclass: the base class's body on the same `self` -/
def Program.superD (G : Program) : SuperD := fun c args s =>
  match G.runInitBody noSuper c.base args s with
  | (s', fl) => ({ s' with locals := s.locals }, fl)

/-- `C(…)`: a fresh object of class `c`, its `__init__` run, the object returned -/
def Program.initD (G : Program) : InitD := fun c args s =>
  match G.runInitBody G.superD c args { locals := [], self := some (c, []), warns := s.warns } with
  | (s', .next) => ({ s with warns := s'.warns }, match s'.self with | some (c', d) => .ok (.inst c' d) | none => .error .unrep)
  | (s', .ret _) => ({ s with warns := s'.warns }, match s'.self with | some (c', d) => .ok (.inst c' d) | none => .error .unrep)
  | (s', .raised e) => ({ s with warns := s'.warns }, .error e)

def selfOf : List Val → Option (Cls × JObj)
  | .inst c d :: _ => some (c, d)
  | _ => none

/-- method dispatch: the body of the receiver's class (inherited where the subclass has none) -/
def Program.call1 (G : Program) : CallD
  | .single, a, s => match selfOf a with
    | some (c, d) => runFn G.call0 noInit (match c with | .flt _ => G.floatSingle | .int _ => G.intSingle | .cat => G.catSingle)
        [] (some (c, d)) a.tail s
    | none => (s, .error .unrep)
  | .contains, a, s => match selfOf a with
    | some (c, d) => runFn G.call0 noInit (match c with | .flt _ => G.floatContains | .int _ => G.intContains | .cat => G.catContains)
        ["param_value_in_internal_repr"] (some (c, d)) a.tail s
    | none => (s, .error .unrep)
  | .toInternal, a, s => match selfOf a with
    | some (c, d) => runFn G.call0 noInit (match c with | .flt _ => G.floatToInternal | .int _ => G.intToInternal | .cat => G.catToInternal)
        ["param_value_in_external_repr"] (some (c, d)) a.tail s
    | none => (s, .error .unrep)
  | .toExternal, a, s => match selfOf a with
    | some (c, d) => runFn G.call0 noInit (match c with | .flt _ => G.baseToExternal | .int _ => G.intToExternal | .cat => G.catToExternal)
        ["param_value_in_internal_repr"] (some (c, d)) a.tail s
    | none => (s, .error .unrep)
  | .asdict, a, s => match selfOf a with
    | some (c, d) => runFn G.call0 noInit (match c with
        | .flt .uniform => G.uniformAsdict | .flt .logUniform => G.logUniformAsdict | .flt .discreteUniform => G.discreteUniformAsdict
        | .int .intUniform => G.intUniformAsdict | .int .intLogUniform => G.intLogUniformAsdict
        | _ => G.baseAsdict) [] (some (c, d)) a.tail s
    | none => (s, .error .unrep)
  | f, a, s => G.call0 f a s

/-- the module functions (they call methods and constructors) -/
def Program.call2 (G : Program) : CallD
  | .checkCompat, a, s => runFn G.call1 G.initD G.checkCompat ["dist_old", "dist_new"] none a s
  | .getSingleValue, a, s => runFn G.call1 G.initD G.getSingleValue ["distribution"] none a s
  | .convertOld, a, s => runFn G.call1 G.initD G.convertOld ["distribution", "suppress_warning"] none a s
  | .isLog, a, s => runFn G.call1 G.initD G.isLog ["distribution"] none a s
  | f, a, s => G.call1 f a s

/-! ### Dist <-> object -/

def optStepJ : Option Rat → JV1
  | some q => .atom (.flt q)
  | none => .atom .none

/-- `__dict__` of a distribution object in the insertion order of `__init__` -/
def instDict : Dist → JObj
  | .flt _ low high log step => [("step", optStepJ step), ("low", .atom (.flt low)), ("high", .atom (.flt high)), ("log", .atom (.bool log))]
  | .int _ low high log step => [("log", .atom (.bool log)), ("step", .atom (.int step)), ("low", .atom (.int low)), ("high", .atom (.int high))]
  | .cat cs => [("choices", .arr cs)]

def clsOf : Dist → Cls
  | .flt c _ _ _ _ => .flt c
  | .int c _ _ _ _ => .int c
  | .cat _ => .cat

def instV (d : Dist) : Val := .inst (clsOf d) (instDict d)

/-- read a distribution back from an object (only the shapes `__init__` produces) -/
def ofInst : Val → Option Dist
  | .inst (.flt c) [("step", .atom st), ("low", .atom (.flt low)), ("high", .atom (.flt high)), ("log", .atom (.bool log))] =>
    (match st with
     | .none => some (.flt c low high log none)
     | .flt q => some (.flt c low high log (some q))
     | _ => none)
  | .inst (.int c) [("log", .atom (.bool log)), ("step", .atom (.int step)), ("low", .atom (.int low)), ("high", .atom (.int high))] =>
    some (.int c low high log step)
  | .inst .cat [("choices", .arr cs)] => some (.cat cs)
  | _ => none

/-! ### entry points -/

structure Out (α : Type) where
  warns : List Warn
  res : Except Exn α
deriving Repr

instance {α : Type} [DecidableEq α] : DecidableEq (Out α) := fun a b =>
  match a, b with
  | ⟨w1, r1⟩, ⟨w2, r2⟩ =>
    if h : w1 = w2 then
      (match r1, r2 with
       | .ok x, .ok y => if h2 : x = y then isTrue (by rw [h, h2]) else isFalse (by intro h'; cases h'; exact h2 rfl)
       | .error x, .error y => if h2 : x = y then isTrue (by rw [h, h2]) else isFalse (by intro h'; cases h'; exact h2 rfl)
       | .ok _, .error _ => isFalse (by intro h'; cases h')
       | .error _, .ok _ => isFalse (by intro h'; cases h'))
    else isFalse (by intro h'; cases h'; exact h rfl)

def outOf {α : Type} (f : Val → Option α) (r : Res Val) : Out α :=
  ⟨r.1.warns, match r.2 with
    | .ok v => (match f v with | some a => .ok a | none => .error .unrep)
    | .error e => .error e⟩

def asTok : Val → Option Tok | .tok t => some t | _ => none
def asBool : Val → Option Bool | .tok (.bool b) => some b | _ => none
def asRat : Val → Option Rat | .tok (.flt q) => some q | .tok (.int i) => some (i : Rat) | _ => none
def asDict : Val → Option JObj | .dict d => some d | _ => none
def asDoc : Val → Option JDoc | .doc d => some d | _ => none
def asUnit : Val → Option Unit | _ => some ()

def fltV (q : Rat) : Val := .tok (.flt q)
def optFltV : Option Rat → Val | some q => .tok (.flt q) | none => .tok .none

/-- `FloatDistribution(low, high, log=log, step=step)` -/
def interpMkFloat (G : Program) (c : FCls) (args : List (String × Val)) : Out Dist :=
  outOf ofInst (G.initD (.flt c) args {})
def interpMkInt (G : Program) (c : ICls) (args : List (String × Val)) : Out Dist :=
  outOf ofInst (G.initD (.int c) args {})
def interpMkCat (G : Program) (choices : List Tok) : Out Dist :=
  outOf ofInst (G.initD .cat [("choices", .tup choices)] {})

def interpCall {α : Type} (G : Program) (f : Fn) (args : List Val) (g : Val → Option α) : Out α :=
  outOf g (G.call2 f args {})

/-- `json_to_distribution(json.dumps(doc))` -/
def interpParse (G : Program) (doc : JDoc) : Out Dist :=
  outOf ofInst (runFn G.call2 G.initD G.jsonToDistribution ["json_str"] none [.doc doc] {})

/-- `json.loads(distribution_to_json(d))` -/
def interpPrint (G : Program) (d : Dist) : Out JDoc :=
  outOf asDoc (runFn G.call2 G.initD G.distributionToJson ["dist"] none [instV d] {})

end OptunaVerif.DistIR
