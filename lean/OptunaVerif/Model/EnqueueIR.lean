import OptunaVerif.Model.Queue
import OptunaVerif.Model.QueueIR
/-!
# C04 — the IR that `verif/translators/tenqueue.py` emits from `Study.enqueue_trial`, `_should_skip_enqueue`,
`add_trial`, `add_trials`, the queue part of `Study.ask` (optuna/study/study.py) and `Trial.__init__`
(optuna/trial/_trial.py), and its interpreters (core Lean only; linked into the driver).

`Generated/EnqueueMethods.lean` is DATA of the types below, regenerated from the source on every run.  The pop loop
itself (`_pop_waiting_trial_id`) is T-tell's statement (`Generated/TellMethods.popWaitingTrialId`, run by
`Model/QueueIR.lean`); `Trial._suggest` is T-suggest's (`Generated/SuggestMethods`).  Here: what goes INTO the queue and
how the fixed parameters come out of the storage again.

Only whitelisted shapes are representable (the whitelist is a little wider than today's code so that plausible edits
still translate and then fail a NAMED equality of `Props/C04EnqueueGen.lean`); everything else is "untranslatable".
-/
namespace OptunaVerif.EnqueueIR
open OptunaVerif OptunaVerif.Storage OptunaVerif.Queue
open OptunaVerif.Dist (Tok)

/-! ## `_should_skip_enqueue` -/

/-- boolean expressions over the NEW value `param_value` and the EXISTING one `existing_param` -/
inductive BX where
  | instNewOfTypeOld                   -- `isinstance(param_value, type(existing_param))`
  | instOldOfTypeNew                   -- `isinstance(existing_param, type(param_value))`
  | isRealNew | isRealOld              -- `isinstance(·, Real)`
  | isnanNew | isnanOld                -- `np.isnan(float(·))`
  | isclose (rtol atol : Rat) (newFirst : Bool)   -- `np.isclose(float(a), float(b), rtol=…, atol=…)`, `a` = new iff `newFirst`
  | eqNewOld                           -- `param_value == existing_param`
  | or (a b : BX) | and (a b : BX) | not (a : BX)
  | ite (c a b : BX)                   -- `a if c else b`
  | lit (b : Bool)
deriving DecidableEq, Repr, Inhabited

def BX.eval (v e : Tok) : BX → Bool
  | .instNewOfTypeOld => isInstOfTypeOf v e
  | .instOldOfTypeNew => isInstOfTypeOf e v
  | .isRealNew => isReal v
  | .isRealOld => isReal e
  | .isnanNew => isNaNTok v
  | .isnanOld => isNaNTok e
  | .isclose rtol atol newFirst => if newFirst then iscloseTok rtol atol v e else iscloseTok rtol atol e v
  | .eqNewOld => v.pyEq e
  | .or a b => a.eval v e || b.eval v e
  | .and a b => a.eval v e && b.eval v e
  | .not a => !(a.eval v e)
  | .ite c a b => if c.eval v e then a.eval v e else b.eval v e
  | .lit b => b

/-- what an existing trial is compared through -/
inductive ParamsOf where
  | sysAttrOrParams (key : String)     -- `trial.system_attrs.get(key, trial.params)`
  | sysAttrOrEmpty (key : String)      -- `trial.system_attrs.get(key, {})`
  | params                             -- `trial.params`
deriving DecidableEq, Repr, Inhabited

def ParamsOf.eval (v : TrialView) : ParamsOf → AList Tok
  | .sysAttrOrParams k => (v.sys.get? k).getD v.params
  | .sysAttrOrEmpty k => (v.sys.get? k).getD []
  | .params => v.params

inductive Comb where
  | all | any
deriving DecidableEq, Repr, Inhabited

/-- `_should_skip_enqueue`: `for trial in get_trials(): tp = <paramsOf>; if tp.keys() != params.keys(): continue;
for name, value in params.items(): if <falseIf>: append(False); continue; append(bool(<repeated>));
if <comb>(repeated_params): return True` … `return False` -/
structure SkipIR where
  paramsOf : ParamsOf
  keysMustMatch : Bool
  falseIf : BX
  repeated : BX
  comb : Comb
deriving DecidableEq, Repr, Inhabited

def SkipIR.eval (ir : SkipIR) (views : List TrialView) (params : AList Tok) : Bool :=
  views.any (fun v =>
    let tp := ir.paramsOf.eval v
    (!ir.keysMustMatch || keysEq tp params) &&
      (let entries := params.map (fun p => match tp.get? p.1 with
          | some e => if ir.falseIf.eval p.2 e then false else ir.repeated.eval p.2 e
          | none => false)     -- `trial_params[param_name]` would raise KeyError; unreachable when the key sets are equal
       match ir.comb with
       | .all => entries.all id
       | .any => entries.any id))

/-! ## `enqueue_trial` -/

/-- the guard in front of `return` -/
inductive SkipGuard where
  | flagAndShould      -- `skip_if_exists and self._should_skip_enqueue(params)`
  | should             -- `self._should_skip_enqueue(params)`
  | flag               -- `skip_if_exists`
  | never
deriving DecidableEq, Repr, Inhabited

/-- the keyword arguments of `create_trial(...)` in `enqueue_trial` -/
structure EnqIR where
  typeCheck : Bool              -- `if not isinstance(params, dict): raise TypeError(...)`
  skipGuard : SkipGuard
  state : TState                -- `state=TrialState.X`
  sysKey : Option String        -- `system_attrs={"<key>": params}`; `none` = no system attrs passed
  userAttrs : Bool              -- `user_attrs=user_attrs` passed
  viaAddTrial : Bool            -- handed to `self.add_trial(...)` (else directly to `create_new_trial`)
deriving DecidableEq, Repr, Inhabited

/-! ## `add_trial` -/

/-- the template handed to `create_new_trial` -/
inductive TmplX where
  | trial                               -- `template_trial=trial`
  | without (fields : List String)      -- a copy of `trial` built without the listed fields
  | none_                               -- no template
deriving DecidableEq, Repr, Inhabited

def TmplX.eval (t : Template) : TmplX → Option Template
  | .trial => some t
  | .none_ => none
  | .without fs => some
      { t with userAttrs := if fs.contains "user_attrs" then [] else t.userAttrs,
               systemAttrs := if fs.contains "system_attrs" then [] else t.systemAttrs,
               params := if fs.contains "params" then [] else t.params,
               inter := if fs.contains "intermediate_values" then [] else t.inter,
               values := if fs.contains "values" then none else t.values }

structure AddIR where
  validate : Bool               -- `trial._validate()`
  valuesCheck : Bool            -- `if trial.values is not None and len(self.directions) != len(trial.values): raise ValueError`
  tmpl : TmplX
deriving DecidableEq, Repr, Inhabited

def AddIR.eval (ir : AddIR) (s : Spec) (sid : Nat) (tmpl : Template) (valid implRaised : Bool) : Spec × Out :=
  if ir.validate && !valid then (s, .err .valueError)
  else
    let create := Storage.step s (.createTrial sid (ir.tmpl.eval tmpl) implRaised)
    if ir.valuesCheck then
      match tmpl.values with
      | some vs =>
        match s.study? sid with
        | none => (s, .err .keyError)
        | some st => if st.directions.length ≠ vs.length then (s, .err .valueError) else create
      | none => create
    else create

def EnqIR.template (ir : EnqIR) (payload : String) (userAttrs : AList String) : Template :=
  { state := ir.state, values := none, params := [], userAttrs := if ir.userAttrs then userAttrs else [],
    systemAttrs := match ir.sysKey with | some k => [(k, payload)] | none => [],
    inter := [], hasStart := ir.state != .waiting, hasComplete := ir.state.isFinished }

/-- `enqueue_trial` as generated (`none` = TypeError) -/
def EnqIR.eval (ir : EnqIR) (skip : SkipIR) (add : AddIR) (enc : AList Tok → String) (s : Spec) (sid : Nat) (isDict : Bool)
    (params : AList Tok) (userAttrs : AList String) (skipIfExists : Bool) (views : List TrialView)
    (valid implRaised : Bool) : Option (Spec × Out) :=
  if ir.typeCheck && !isDict then none
  else
    let g := match ir.skipGuard with
      | .flagAndShould => skipIfExists && skip.eval views params
      | .should => skip.eval views params
      | .flag => skipIfExists
      | .never => false
    if g then some (s, .unit)
    else
      let t := ir.template (enc params) userAttrs
      if ir.viaAddTrial then some (add.eval s sid t valid implRaised)
      else some (Storage.step s (.createTrial sid (some t) implRaised))

/-! ## the queue part of `ask` -/

inductive AskStmt where
  | warnHeartbeat              -- the heartbeat warning
  | normFixed                  -- `fixed_distributions = fixed_distributions or {}` + conversion of old distributions
  | clearCache                 -- `self._thread_local.cached_all_trials = None`
  | pop                        -- `trial_id = self._pop_waiting_trial_id()`
  | createIfNone               -- `if trial_id is None: trial_id = self._storage.create_new_trial(self._study_id)`
  | create                     -- `trial_id = self._storage.create_new_trial(self._study_id)` (unconditional)
  | construct                  -- `trial = optuna.Trial(self, trial_id)`
  | forceRelative              -- `trial.relative_params` evaluated (relative sampling forced)
  | suggestFixed               -- `for name, param in fixed_distributions.items(): trial._suggest(name, param)`
  | ret                        -- `return trial`
deriving DecidableEq, Repr, Inhabited

/-- what one call of `ask` did, in order -/
inductive AskEv where
  | popped (tid : Option Nat)          -- the queue was consulted (result of the pop)
  | created (tid : Nat)                -- a fresh trial was created
  | constructed (tid : Nat)            -- `Trial(self, tid)`
  | relativeSampled                    -- relative sampling ran
  | suggestedFixed                     -- the `fixed_distributions` were suggested
  | returned (tid : Nat)
deriving DecidableEq, Repr, Inhabited

structure AskSt where
  spec : Spec
  tid : Option Nat := none
  evs : List AskEv := []
deriving Repr, Inhabited

/-- one statement of `ask`; `popped` = what `_pop_waiting_trial_id` answers when it is called (the generated pop loop run to
its end by `Model/QueueIR.lean`) -/
def AskStmt.step (sid : Nat) (popped : Option Nat) (st : AskSt) : AskStmt → AskSt
  | .warnHeartbeat | .normFixed | .clearCache => st
  | .pop => { st with tid := popped, evs := st.evs ++ [.popped popped] }
  | .createIfNone =>
    match st.tid with
    | some _ => st
    | none =>
      match Storage.step st.spec (.createTrial sid none false) with
      | (s', .newId n) => { spec := s', tid := some n, evs := st.evs ++ [.created n] }
      | (s', _) => { st with spec := s' }
  | .create =>
    match Storage.step st.spec (.createTrial sid none false) with
    | (s', .newId n) => { spec := s', tid := some n, evs := st.evs ++ [.created n] }
    | (s', _) => { st with spec := s' }
  | .construct => match st.tid with
    | some t => { st with evs := st.evs ++ [.constructed t] }
    | none => st
  | .forceRelative => { st with evs := st.evs ++ [.relativeSampled] }
  | .suggestFixed => { st with evs := st.evs ++ [.suggestedFixed] }
  | .ret => match st.tid with
    | some t => { st with evs := st.evs ++ [.returned t] }
    | none => st

def runAsk (prog : List AskStmt) (sid : Nat) (popped : Option Nat) (s : Spec) : AskSt :=
  prog.foldl (AskStmt.step sid popped) { spec := s }

/-- `ask` wraps the construction and the fixed suggests in `try: … except (Exception, KeyboardInterrupt): fail the trial; raise` -/
structure AskIR where
  body : List AskStmt
  failsTrialOnException : Bool
deriving DecidableEq, Repr, Inhabited

/-! ## `Trial.__init__` -/

/-- `self._fixed_params = self._cached_frozen_trial.system_attrs.get(<key>, {})`, the cached trial being
`copy.deepcopy(self.storage.get_trial(self._trial_id))` -/
structure InitIR where
  fromStorageGetTrial : Bool
  deepcopy : Bool
  key : String
  defaultEmpty : Bool
deriving DecidableEq, Repr, Inhabited

def InitIR.eval (ir : InitIR) (dec : String → Option (AList Tok)) (t : TrialS) : Option (AList Tok) :=
  if !ir.fromStorageGetTrial then none
  else
    match t.systemAttrs.get? ir.key with
    | some payload => dec payload
    | none => if ir.defaultEmpty then some [] else none

/-- `add_trials`: `for trial in trials: self.add_trial(trial)` -/
structure AddManyIR where
  eachViaAddTrial : Bool
deriving DecidableEq, Repr, Inhabited

end OptunaVerif.EnqueueIR
