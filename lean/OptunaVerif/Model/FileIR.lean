import OptunaVerif.Model.JournalFile
import OptunaVerif.Model.JournalAppend
import OptunaVerif.Model.FileLock
/-
  `optuna/storages/journal/_file.py` as data, and what that data means.

  `verif/translators/tfile.py` reads the source with `ast` on every run and emits into
  `Generated/JournalFileMethods.lean`
    * `JournalFileBackend.read_logs`: the statements before the line loop (`PStmt`) and the loop body
      (`RStmt`) — each constructor stands for ONE whitelisted source shape, listed next to it;
    * `JournalFileBackend.append_logs` (+ `get_lock_file`): the flattened step sequence `AStep`;
    * `JournalFileSymlinkLock` / `JournalFileOpenLock`: `acquire` and `release` as `LStmt` trees.
  `Props/C07FileGen.lean` proves, for all inputs, that the interpreters below applied to the generated
  data are the hand models `JournalFile.readLogs`, `JournalAppend` (repair / append as acts) and
  `FileLock.stepW`, and restates the property theorems for the interpreters.

  Meaning given here (modelled, not derived from the source): what the system calls do (exclusive
  create, rename, unlink, truncate, positional write through an `rb+` handle vs. append through an
  `ab` handle, a buffered write reaching the file at `flush`/`close`), Python's line iteration
  (`Model/JournalFile.lean`), `json.loads` succeeding = `Line.valid`.
-/
namespace OptunaVerif.FileIR
open OptunaVerif OptunaVerif.JournalFile

/-! ## 1. `read_logs` -/

/-- statements between `with open(self._file_path, "rb") as f:` and the `for` loop -/
inductive PStmt where
  | logsEmpty            -- `logs = []`                                   (before the `with`)
  | statSize             -- `remaining_log_size = os.stat(self._file_path).st_size`
  | startZero            -- `log_number_start = 0`
  | ifFromCached (body : List PStmt)   -- `if log_number_from in self._log_number_offset:`
  | seekCached           -- `f.seek(self._log_number_offset[log_number_from])`
  | startFrom            -- `log_number_start = log_number_from`
  | subCached            -- `remaining_log_size -= self._log_number_offset[log_number_from]`
  | pendingNone          -- `last_decode_error = None`
deriving Repr, Inhabited

inductive RCond where
  | remainingNeg         -- `remaining_log_size < 0`
  | pendingSet           -- `last_decode_error is not None`
  | nextNotCached        -- `log_number + 1 not in self._log_number_offset`
  | notTerminated        -- `not line.endswith(b"\n")`
  | beforeFrom           -- `log_number < log_number_from`
deriving DecidableEq, Repr, Inhabited

/-- statements of the body of `for log_number, line in enumerate(f, start=log_number_start):` -/
inductive RStmt where
  | bindLen              -- `byte_len = len(line)`
  | decRemaining         -- `remaining_log_size -= byte_len`
  | setNext              -- `self._log_number_offset[log_number + 1] = self._log_number_offset[log_number] + byte_len`
  | delNext              -- `del self._log_number_offset[log_number + 1]`
  | setPending           -- `last_decode_error = ValueError("Invalid log format.")` / `last_decode_error = err`
  | break_ | continue_
  | raisePending         -- `raise last_decode_error`
  | ite (c : RCond) (t : List RStmt)    -- `if c:` (no `else` in the whitelisted shapes)
  | tryDecode (onErr : List RStmt)      -- `try: logs.append(json.loads(line))` / `except json.JSONDecodeError as err: onErr`
deriving Repr, Inhabited

structure ReadProg where
  pre : List PStmt
  body : List RStmt
  /-- the method ends with `return logs` inside the `with` block -/
  returnsLogs : Bool
deriving Repr, Inhabited

/-- what one loop iteration works on -/
structure RIter where
  remaining : Int
  pending : Bool
  cache : Cache
  acc : List Nat
  byteLen : Option Nat
deriving Repr, Inhabited

inductive ROut where
  | next (s : RIter)       -- fell off the end of the statement
  | cont (s : RIter)       -- `continue`
  | brk (s : RIter)
  | raised (s : RIter)
  | keyError (s : RIter)   -- `self._log_number_offset[log_number]` missing
  | stuck                  -- `byte_len` used before it is bound
deriving Repr, Inhabited

def evalRCond (from_ n : Nat) (ln : Line) (s : RIter) : RCond → Bool
  | .remainingNeg => decide (s.remaining < 0)
  | .pendingSet => s.pending
  | .nextNotCached => !(s.cache.get? (n + 1)).isSome
  | .notTerminated => !ln.terminated
  | .beforeFrom => decide (n < from_)

mutual
def execR (from_ n : Nat) (ln : Line) : RStmt → RIter → ROut
  | .bindLen, s => .next { s with byteLen := some ln.len }
  | .decRemaining, s => match s.byteLen with
    | some l => .next { s with remaining := s.remaining - l }
    | none => .stuck
  | .setNext, s => match s.byteLen, s.cache.get? n with
    | some l, some o => .next { s with cache := s.cache.set (n + 1) (o + l) }
    | some _, none => .keyError s
    | none, _ => .stuck
  | .delNext, s => .next { s with cache := s.cache.del (n + 1) }
  | .setPending, s => .next { s with pending := true }
  | .break_, s => .brk s
  | .continue_, s => .cont s
  | .raisePending, s => .raised s
  | .ite c t, s => if evalRCond from_ n ln s c then execRs from_ n ln t s else .next s
  | .tryDecode onErr, s => if ln.valid then .next { s with acc := n :: s.acc } else execRs from_ n ln onErr s
def execRs (from_ n : Nat) (ln : Line) : List RStmt → RIter → ROut
  | [], s => .next s
  | st :: rest, s =>
    match execR from_ n ln st s with
    | .next s' => execRs from_ n ln rest s'
    | o => o
end

/-- one iteration of the loop body -/
inductive IterRes where
  | goOn (s : RIter)
  | stop (r : Res)
deriving Repr, Inhabited

def iterate (body : List RStmt) (from_ n : Nat) (ln : Line) (s : RIter) : IterRes :=
  match execRs from_ n ln body { s with byteLen := none } with
  | .next s' => .goOn s'
  | .cont s' => .goOn s'
  | .brk s' => .stop (.ok s'.acc.reverse s'.cache)      -- `break`, then `return logs`
  | .raised s' => .stop (.raised s'.cache)
  | .keyError s' => .stop (.keyError s'.cache)
  | .stuck => .stop (.keyError s.cache)

/-- the `for` loop over the lines from the seek position on -/
def interpLoop (body : List RStmt) (from_ : Nat) : List Line → Nat → RIter → Res
  | [], _, s => .ok s.acc.reverse s.cache
  | ln :: rest, n, s =>
    match iterate body from_ n ln s with
    | .goOn s' => interpLoop body from_ rest (n + 1) s'
    | .stop r => r

structure PState where
  seek : Nat
  start : Nat
  remaining : Int
deriving Repr, Inhabited

def execP (size : Nat) (cache : Cache) (from_ : Nat) : List PStmt → PState → PState
  | [], s => s
  | .logsEmpty :: rest, s => execP size cache from_ rest s
  | .statSize :: rest, s => execP size cache from_ rest { s with remaining := size }
  | .startZero :: rest, s => execP size cache from_ rest { s with start := 0 }
  | .ifFromCached body :: rest, s =>
    -- (the body is a flat list of the three assignments; nested `if`s are not whitelisted)
    let s' := match cache.get? from_ with
      | some off => body.foldl (fun (a : PState) st => match st with
          | .seekCached => { a with seek := off }
          | .startFrom => { a with start := from_ }
          | .subCached => { a with remaining := a.remaining - off }
          | _ => a) s
      | none => s
    execP size cache from_ rest s'
  | .seekCached :: rest, s => execP size cache from_ rest s     -- only meaningful inside `ifFromCached`
  | .startFrom :: rest, s => execP size cache from_ rest s
  | .subCached :: rest, s => execP size cache from_ rest s
  | .pendingNone :: rest, s => execP size cache from_ rest s

/-- `read_logs(log_number_from)` as written in the source -/
def interpRead (p : ReadProg) (size : Nat) (cache : Cache) (from_ : Nat) (linesFrom : Nat → List Line) : Res :=
  let s := execP size cache from_ p.pre { seek := 0, start := 0, remaining := 0 }
  if p.returnsLogs then
    interpLoop p.body from_ (linesFrom s.seek) s.start
      { remaining := s.remaining, pending := false, cache := cache, acc := [], byteLen := none }
  else .keyError cache

/-! ## 2. `append_logs` -/

open OptunaVerif.JournalAppend in
/-- the flattened body of `append_logs` (nested `with` blocks become open/close pairs) -/
inductive AStep where
  | lockEnter          -- `with get_lock_file(self._lock):`   (`get_lock_file` = acquire; try: yield; finally: release)
  | buildBuffer        -- `what_to_write = "\n".join([json.dumps(log, separators=(",", ":")) for log in logs]) + "\n"`
  | openRW             -- `with open(self._file_path, "rb+") as f:`
  | seekEnd            -- `size = f.seek(0, os.SEEK_END)`
  | posFromSize        -- `pos = size`
  | scanBack           -- `while pos > 0:` `f.seek(pos - 1)` `if f.read(1) == b"\n": break` `pos -= 1`
  | truncateIfShort    -- `if pos != size: f.truncate(pos)`
  | seekPos            -- `f.seek(pos)`
  | closeRW
  | openAppend         -- `with open(self._file_path, "ab") as f:`
  | writeBuffer        -- `f.write(what_to_write.encode("utf-8"))`   (through the handle of the innermost open block)
  | flush              -- `f.flush()`
  | fsync              -- `os.fsync(f.fileno())`
  | closeAppend
  | lockExit
deriving DecidableEq, Repr, Inhabited

/-- what reaches the file / the lock, in order -/
inductive Eff where
  | lock | unlock
  | truncateTo (n : Nat)
  | append (data : List Nat)              -- O_APPEND: lands at the end of the file as it is then
  | writeAt (pos : Nat) (data : List Nat) -- positional write through an `rb+` handle
  | sync (clean : Bool)                   -- `fsync`; clean = nothing was still sitting in a user-space buffer
deriving DecidableEq, Repr, Inhabited

inductive Mode where
  | rw | ap
deriving DecidableEq, Repr, Inhabited

structure Handle where
  mode : Mode
  pos : Nat
  pending : List Nat
deriving DecidableEq, Repr, Inhabited

structure AState where
  file : List Nat
  locked : Bool
  buffer : Option (List Nat)
  h : Option Handle
  size : Option Nat
  pos : Option Nat
  effs : List Eff          -- newest first
  ok : Bool                -- false: a step was executed without what it needs (no handle, no buffer …)
deriving DecidableEq, Repr, Inhabited

/-- the backward scan for the last newline: `while pos > 0: seek(pos-1); if read(1) == nl: break; pos -= 1` -/
def scanBackFrom (f : List Nat) : Nat → Nat
  | 0 => 0
  | pos + 1 => if f[pos]? = some nl then pos + 1 else scanBackFrom f pos

/-- positional write: overwrite from `pos`, zero-filling a gap -/
def writeAt (f : List Nat) (pos : Nat) (data : List Nat) : List Nat :=
  (f ++ List.replicate (pos - f.length) 0).take pos ++ data ++ f.drop (pos + data.length)

def deliver (s : AState) (h : Handle) : AState × Handle :=
  if h.pending.isEmpty then (s, h)
  else match h.mode with
    | .ap => ({ s with file := s.file ++ h.pending, effs := .append h.pending :: s.effs }, { h with pending := [] })
    | .rw => ({ s with file := writeAt s.file h.pos h.pending, effs := .writeAt h.pos h.pending :: s.effs },
              { h with pos := h.pos + h.pending.length, pending := [] })

def bad (s : AState) : AState := { s with ok := false }

/-- one step of `append_logs(record)`; `record` = the JSON text of the joined records, no newline inside -/
def aStep (record : List Nat) (s : AState) : AStep → AState
  | .lockEnter => if s.locked then bad s else { s with locked := true, effs := .lock :: s.effs }
  | .buildBuffer => { s with buffer := some (record ++ [nl]) }
  | .openRW => if s.h.isSome then bad s else { s with h := some { mode := .rw, pos := 0, pending := [] } }
  | .seekEnd => match s.h with
    | some h => { s with h := some { h with pos := s.file.length }, size := some s.file.length }
    | none => bad s
  | .posFromSize => match s.size with
    | some n => { s with pos := some n }
    | none => bad s
  | .scanBack => match s.h, s.pos with
    | some h, some p =>
      let p' := scanBackFrom s.file p
      -- the handle is left behind the last byte read (or where it was when nothing was read)
      { s with pos := some p', h := some { h with pos := if p = 0 then h.pos else if p' = 0 then 1 else p' } }
    | _, _ => bad s
  | .truncateIfShort => match s.h, s.pos, s.size with
    | some _, some p, some n =>
      if p ≠ n then { s with file := s.file.take p, effs := .truncateTo p :: s.effs } else s
    | _, _, _ => bad s
  | .seekPos => match s.h, s.pos with
    | some h, some p => { s with h := some { h with pos := p } }
    | _, _ => bad s
  | .closeRW => match s.h with
    | some h => if h.mode = .rw then { (deliver s h).1 with h := none } else bad s
    | none => bad s
  | .openAppend => if s.h.isSome then bad s else { s with h := some { mode := .ap, pos := 0, pending := [] } }
  | .writeBuffer => match s.h, s.buffer with
    | some h, some b => { s with h := some { h with pending := h.pending ++ b } }
    | _, _ => bad s
  | .flush => match s.h with
    | some h => let r := deliver s h; { r.1 with h := some r.2 }
    | none => bad s
  | .fsync => match s.h with
    | some h => { s with effs := .sync h.pending.isEmpty :: s.effs }
    | none => bad s
  | .closeAppend => match s.h with
    | some h => if h.mode = .ap then { (deliver s h).1 with h := none } else bad s
    | none => bad s
  | .lockExit => if s.locked then { s with locked := false, effs := .unlock :: s.effs } else bad s

def aInit (f : List Nat) : AState :=
  { file := f, locked := false, buffer := none, h := none, size := none, pos := none, effs := [], ok := true }

def aRun (record : List Nat) (steps : List AStep) (s : AState) : AState := steps.foldl (aStep record) s

/-- the effects of the hand model's appender (`Model/JournalAppend.lean`: acquire; repair; the bytes of
`record ++ [nl]` appended at the end; release) on the file `f`, oldest first -/
def modelEffects (f record : List Nat) : List Eff :=
  [.lock] ++ (if JournalAppend.tail f = [] then [] else [.truncateTo (JournalAppend.repair f).length]) ++
  [.append (record ++ [nl]), .sync true, .unlock]

/-- the acts of the hand model a step stands for, given what it did -/
def actsOfStep (w : Nat) (record : List Nat) (before after : AState) : AStep → List JournalAppend.Act
  | .lockEnter => [.acquire w record]
  | .truncateIfShort => [.repair w]
  | .lockExit => [.release w]
  | _ => List.replicate (after.file.length - before.file.length) (.writeByte w)

/-- the hand-model acts of the first `k` steps (a death after step `k` leaves exactly this history) -/
def actsOfRun (w : Nat) (record : List Nat) : List AStep → AState → List JournalAppend.Act
  | [], _ => []
  | st :: rest, s => actsOfStep w record s (aStep record s st) st ++ actsOfRun w record rest (aStep record s st)

/-! ## 3. the lock classes -/

open OptunaVerif.FileLock

inductive OsCall where
  | symlink        -- `os.symlink(self._lock_target_file, self._lock_file)`
  | openExcl       -- `os.open(self._lock_file, os.O_CREAT | os.O_EXCL | os.O_WRONLY)`
  | close          -- `os.close(<the descriptor just opened>)`
  | lstat | stat   -- `os.lstat(self._lock_file).st_mtime` / `os.stat(self._lock_file).st_mtime`
  | rename         -- `os.rename(self._lock_file, lock_rename_file)`
  | unlink         -- `os.unlink(lock_rename_file)`
deriving DecidableEq, Repr, Inhabited

inductive LStmt where
  | initTimer        -- `sleep_secs = 0.001` `last_update_monotonic_time = time.monotonic()` `mtime = None`
  | whileTrue (body : List LStmt)
  /-- `try: <calls>; return True` / `except OSError as err: if err.errno == errno.EEXIST: <onExists>` `raise err`
      / `except BaseException: self.release(); raise` -/
  | tryCreate (calls : List OsCall) (onExists : List LStmt)
  | ifGrace (body : List LStmt)      -- `if self.grace_period is not None:`
  | trySample (c : OsCall)           -- `try: current_mtime = os.<c>(self._lock_file).st_mtime` / `except OSError: continue`
  | ifChanged (body : List LStmt)    -- `if current_mtime != mtime:` `mtime = current_mtime` <body>
  | readTimer                        -- `last_update_monotonic_time = time.monotonic()`
  | ifExpired (body : List LStmt)    -- `if time.monotonic() - last_update_monotonic_time > self.grace_period:` [`warnings.warn(..)`] <body>
  | tryRelease (after : List LStmt)  -- `try: self.release()` <after> / `except RuntimeError: continue`
  | resetSleep                       -- `sleep_secs = 0.001`
  | sleep                            -- `time.sleep(sleep_secs)`
  | growSleep                        -- `sleep_secs = min(sleep_secs * 2, 1)`
  | continue_
  | uniqueName                       -- `lock_rename_file = self._lock_file + str(uuid.uuid4()) + RENAME_FILE_SUFFIX`
  /-- `try: <calls>` / `except OSError: raise RuntimeError("Error: did not possess lock")` / `except BaseException: os.unlink(..); raise` -/
  | tryOs (calls : List OsCall)
deriving Repr, Inhabited

structure LockProg where
  acquire : List LStmt
  release : List LStmt
deriving Repr, Inhabited

/-- control items of one worker: statements still to run, and frames of calls in progress -/
inductive Item where
  | stmt (s : LStmt)
  | creating (rest : List OsCall)            -- inside `tryCreate`, the first call has succeeded
  | releasing (named : Bool) (calls : List OsCall) (own : Bool)
      -- inside `release()`; own = called through `get_lock_file` (else: the takeover inside `acquire`)
  | endAcquire                                -- `return True` of acquire lands here: the critical section follows
  | crit                                      -- `yield` of `get_lock_file` (the holder's work)
  | callRelease                               -- `finally: lock_obj.release()`
  | round                                     -- start over: `lock_obj.acquire()`
deriving Repr, Inhabited

abbrev Ctl := List Item

/-- a worker of the interpreter: the control replaces the program counter -/
structure GWorker where
  ctl : Ctl
  dead : Bool
  mtime : Option Nat
  last : Nat
  nren : Nat
  failed : Nat
  /-- `current_mtime` of the sample just taken (consumed by `ifChanged`) -/
  cur : Option Nat
deriving Repr, Inhabited

/-- which call a (normalised) control performs next, in the vocabulary of `Model/FileLock.lean` -/
def pcOfCtl : Ctl → Option PC
  | .stmt .initTimer :: _ => some .idle
  | .stmt (.tryCreate _ _) :: _ => some .create
  | .creating _ :: _ => some .closing
  | .stmt (.trySample _) :: _ => some .stat
  | .stmt .readTimer :: .stmt (.ifExpired _) :: _ => some .resetTimer
  | .stmt .readTimer :: _ => some .tkRestart
  | .stmt (.ifExpired _) :: _ => some .check
  | .releasing _ (.rename :: _) false :: _ => some .tkRename
  | .releasing _ (.unlink :: _) false :: _ => some .tkUnlink
  | .releasing _ (.rename :: _) true :: _ => some .relRename
  | .releasing _ (.unlink :: _) true :: _ => some .relUnlink
  | .stmt .sleep :: _ => some .sleep
  | .crit :: _ => some .crit
  | _ => none

/-- a worker of the interpreter seen as a worker of the hand model -/
def GWorker.toWorker (g : GWorker) : Worker :=
  { pc := (pcOfCtl g.ctl).getD .idle, dead := g.dead, mtime := g.mtime, last := g.last, nren := g.nren, failed := g.failed }

/-- drop the rest of the loop iteration: `continue` -/
def toLoopHead : Ctl → Ctl
  | [] => []
  | .stmt (.whileTrue b) :: k => .stmt (.whileTrue b) :: k
  | _ :: k => toLoopHead k

/-- the statements of `release()` as a frame -/
def releaseFrame (p : LockProg) (own : Bool) : Ctl :=
  match p.release with
  | [.uniqueName, .tryOs calls] => [.releasing true calls own]
  | [.tryOs calls] => [.releasing false calls own]
  | _ => []

/-- run the statements that perform no call until a call is at the head (`fuel` bounds the unrolling) -/
def normalise (p : LockProg) (cfg : Cfg) : Nat → GWorker → GWorker
  | 0, wk => wk
  | fuel + 1, wk =>
    match wk.ctl with
    | .round :: k => normalise p cfg fuel { wk with ctl := p.acquire.map .stmt ++ [.endAcquire, .crit, .callRelease, .round] ++ k }
    | .endAcquire :: k => normalise p cfg fuel { wk with ctl := k }
    | .callRelease :: k => normalise p cfg fuel { wk with ctl := releaseFrame p true ++ k }
    | .stmt (.whileTrue b) :: k => normalise p cfg fuel { wk with ctl := b.map .stmt ++ .stmt (.whileTrue b) :: k }
    | .stmt (.ifGrace b) :: k =>
      normalise p cfg fuel { wk with ctl := if cfg.grace.isSome then b.map .stmt ++ k else k }
    | .stmt (.ifChanged b) :: k =>
      if wk.mtime = wk.cur then normalise p cfg fuel { wk with ctl := k, cur := none }
      else normalise p cfg fuel { wk with ctl := b.map .stmt ++ k, mtime := wk.cur, cur := none }
    | .stmt (.tryRelease after) :: k =>
      normalise p cfg fuel { wk with ctl := releaseFrame p false ++ after.map .stmt ++ k }
    | .stmt .resetSleep :: k => normalise p cfg fuel { wk with ctl := k }
    | .stmt .growSleep :: k => normalise p cfg fuel { wk with ctl := k }
    | .stmt .continue_ :: k => normalise p cfg fuel { wk with ctl := toLoopHead k }
    | .stmt .uniqueName :: k => normalise p cfg fuel { wk with ctl := k }
    | _ => wk

def fuelN : Nat := 24

/-- what `os.<c>(lock).st_mtime` is for a lock file with creation stamp `s`: `os.stat` follows a symbolic
link, i.e. reads some other file's mtime (the journal's; not the lock's stamp — rendered as 0) -/
def sampled (kind : Kind) (c : OsCall) (s : Nat) : Nat :=
  match kind, c with
  | .symlink, .stat => 0
  | _, _ => s

def createdBy (kind : Kind) : OsCall → Bool
  | .symlink => kind == .symlink
  | .openExcl => kind == .openExcl
  | _ => false

/-- perform the call at the head of the control (the control is normalised: its head is a call) -/
def performCall (_p : LockProg) (cfg : Cfg) (sh : Shared) (w : Nat) (wk : GWorker) : Shared × GWorker × Label :=
  match wk.ctl with
  | .stmt .initTimer :: k => (sh, { wk with ctl := k, mtime := none, last := sh.now }, .monotonic sh.now)
  | .stmt (.tryCreate (c :: rest) onExists) :: k =>
    if createdBy cfg.kind c then
      match sh.lock with
      | none => ({ sh with lock := some (w, sh.now) },
                 { wk with ctl := (if rest.isEmpty then toEnd k else .creating rest :: k) }, .createOk)
      | some _ => (sh, { wk with ctl := onExists.map .stmt ++ k }, .createExists)
    else (sh, { wk with ctl := [] }, .noop)
  | .creating (.close :: rest) :: k =>
    (sh, { wk with ctl := (if rest.isEmpty then toEnd k else .creating rest :: k) }, .closed)
  | .stmt (.trySample c) :: k =>
    if c = .lstat ∨ c = .stat then
      match sh.lock with
      | none => (sh, { wk with ctl := toLoopHead k }, .statGone)
      | some (_, s) => (sh, { wk with ctl := k, cur := some (sampled cfg.kind c s) }, .statOk (sampled cfg.kind c s))
    else (sh, { wk with ctl := [] }, .noop)
  | .stmt .readTimer :: k => (sh, { wk with ctl := k, last := sh.now }, .monotonic sh.now)
  | .stmt (.ifExpired b) :: k =>
    match cfg.grace with
    | some g => (sh, { wk with ctl := if sh.now > wk.last + g then b.map .stmt ++ k else k }, .monotonic sh.now)
    | none => (sh, { wk with ctl := k }, .monotonic sh.now)
  | .releasing named (.rename :: rest) own :: k =>
    if named then
      match sh.lock with
      | some (o, _) =>
        ({ sh with lock := none, tmps := { by_ := w, serial := wk.nren + 1, owner := o } :: sh.tmps },
         { wk with ctl := (if rest.isEmpty then k else .releasing named rest own :: k), nren := wk.nren + 1 }, .renameOk o)
      | none =>
        (sh, { wk with ctl := (if own then toRound k else toLoopHead k), nren := wk.nren + 1,
                       failed := if own then wk.failed + 1 else wk.failed }, .renameGone)
    else (sh, { wk with ctl := [] }, .noop)
  | .releasing named (.unlink :: rest) own :: k =>
    if sh.tmps.any (isMine w wk.nren) then
      ({ sh with tmps := sh.tmps.filter (fun t => !isMine w wk.nren t) },
       { wk with ctl := (if rest.isEmpty then k else .releasing named rest own :: k) }, .unlinkOk)
    else
      (sh, { wk with ctl := (if own then toRound k else toLoopHead k),
                     failed := if own then wk.failed + 1 else wk.failed }, .unlinkGone)
  | .stmt .sleep :: k => (sh, { wk with ctl := k }, .slept)
  | .crit :: k => (sh, { wk with ctl := k }, .touched)
  | _ => (sh, { wk with ctl := [] }, .noop)
where
  /-- `return True`: leave `acquire` -/
  toEnd : Ctl → Ctl
    | [] => []
    | .endAcquire :: k => .endAcquire :: k
    | _ :: k => toEnd k
  /-- the holder's `release()` raised: the round is over -/
  toRound : Ctl → Ctl
    | [] => []
    | .round :: k => .round :: k
    | _ :: k => toRound k

/-- one event of a live worker: normalise, perform the call, normalise again (so that the stored control
always has a call at its head) -/
def gstepW (p : LockProg) (cfg : Cfg) (sh : Shared) (w : Nat) (wk : GWorker) : Shared × GWorker × Label :=
  let r := performCall p cfg sh w (normalise p cfg fuelN wk)
  (r.1, normalise p cfg fuelN r.2.1, r.2.2)

structure GSt where
  sh : Shared
  ws : List GWorker
deriving Repr

def GSt.toSt (g : GSt) : St := { sh := g.sh, ws := g.ws.map GWorker.toWorker }

def gFresh (p : LockProg) (cfg : Cfg) : GWorker :=
  normalise p cfg fuelN { ctl := [.round], dead := false, mtime := none, last := 0, nren := 0, failed := 0, cur := none }

def gInit (p : LockProg) (cfg : Cfg) (n : Nat) : GSt :=
  { sh := { lock := none, now := 0, tmps := [] }, ws := List.replicate n (gFresh p cfg) }

def gstep (p : LockProg) (cfg : Cfg) (st : GSt) : Ev → GSt × Label
  | .tick => ({ st with sh := { st.sh with now := st.sh.now + 1 } }, .ticked)
  | .crash w =>
    match st.ws[w]? with
    | some wk =>
      if wk.dead then (st, .noop)
      else ({ st with ws := updAt st.ws w (fun x => { x with dead := true }) }, .crashed)
    | none => (st, .noop)
  | .step w =>
    match st.ws[w]? with
    | some wk =>
      if wk.dead then (st, .noop)
      else
        let r := gstepW p cfg st.sh w wk
        ({ sh := r.1, ws := updAt st.ws w (fun _ => r.2.1) }, r.2.2)
    | none => (st, .noop)

def grun (p : LockProg) (cfg : Cfg) (st : GSt) : List Ev → GSt
  | [] => st
  | e :: es => grun p cfg (gstep p cfg st e).1 es

def gtrace (p : LockProg) (cfg : Cfg) (st : GSt) : List Ev → List Label
  | [] => []
  | e :: es => (gstep p cfg st e).2 :: gtrace p cfg (gstep p cfg st e).1 es

/-- the hypothesis of mutual exclusion (`FileLock.safeSched`) on the interpreter's own run -/
def gsafeSched (p : LockProg) (cfg : Cfg) (st : GSt) : List Ev → Bool
  | [] => true
  | e :: es => !liveTakeoverAt st.toSt e && gsafeSched p cfg (gstep p cfg st e).1 es

/-- the timing discipline (`FileLock.punctualSched`) on the interpreter's own run -/
def gpunctualSched (p : LockProg) (cfg : Cfg) (g : Nat) (st : GSt) : List Ev → Bool
  | [] => true
  | e :: es => punctualAt g st.toSt e && gpunctualSched p cfg g (gstep p cfg st e).1 es

end OptunaVerif.FileIR
