import OptunaVerif.Model.Basic
/-
  Small-step model of the two lock classes of `optuna/storages/journal/_file.py`
  (`JournalFileSymlinkLock`, `JournalFileOpenLock`): every system call and every clock read the
  Python performs is one atomic step of one worker; an arbitrary interleaving is a list of events
  (`step w` | `tick` | `crash w`).

      def acquire(self):                                          pc of the worker *before* the call
          sleep_secs = 0.001
          last_update_monotonic_time = time.monotonic()           idle        (mtime := None)
          mtime = None
          while True:
              try:
                  os.symlink(target, lock)              |         create
                  os.close(os.open(lock, O_CREAT|O_EXCL|O_WRONLY))  create ; closing
                  return True                                     (-> crit)
              except OSError as err:
                  if err.errno == errno.EEXIST:
                      if self.grace_period is not None:           (None: -> sleep)
                          try:
                              current_mtime = os.stat(lock).st_mtime      stat
                          except OSError:
                              continue                            (-> create, no sleep)
                          if current_mtime != mtime:
                              mtime = current_mtime
                              last_update_monotonic_time = time.monotonic()   resetTimer
                          if time.monotonic() - last_update... > self.grace_period:   check
                              try:
                                  self.release()                  tkRename ; tkUnlink
                                  sleep_secs = 0.001
                                  last_update_monotonic_time = time.monotonic()   tkRestart  (repo d602c3c)
                              except RuntimeError:
                                  continue                        (-> create, no sleep)
                      time.sleep(sleep_secs)                      sleep
                      continue
                  raise err

      def release(self):
          lock_rename_file = lock + str(uuid.uuid4()) + ".rename"
          try:
              os.rename(lock, lock_rename_file)                   relRename   (tkRename inside acquire)
              os.unlink(lock_rename_file)                         relUnlink   (tkUnlink inside acquire)
          except OSError:
              raise RuntimeError("Error: did not possess lock")

  Between `acquire()` returning and `release()` the holder does its work (`crit`: one step, the
  append of `append_logs`; it does not touch the lock path).

  The two classes differ only in the calls: one `symlink` / `os.open(O_EXCL)` followed by `os.close`
  to create; `os.lstat` / `os.stat` to sample the mtime.  Since repo fb3aa05 both sample the mtime of
  the lock file itself = its creation stamp (nobody writes to it; `lstat` does not follow the link —
  before that commit the symlink lock watched the journal's mtime).
  Time stamps are readings of the one virtual clock (`Shared.now`): two files created without a
  `tick` in between carry equal stamps (timestamp granularity).  `uuid4` names are modelled as
  (worker, per-worker serial number): unique by construction (trusted: uuid4 does not collide).
  Not modelled: asynchronous exceptions (`except BaseException: self.release(); raise`), the value of
  `sleep_secs` (sleeping is a step; how long it lasts is the scheduler's choice of `tick`s).
-/
namespace OptunaVerif.FileLock

inductive Kind where
  | symlink | openExcl
deriving DecidableEq, Repr

structure Cfg where
  kind : Kind
  /-- `grace_period` (`None`: a stale lock is never broken) -/
  grace : Option Nat
deriving DecidableEq, Repr

/-- where a worker is = which call it performs next -/
inductive PC where
  | idle        -- outside acquire/release; next: `time.monotonic()` at the entry of `acquire`
  | create      -- next: `os.symlink` / `os.open(O_CREAT|O_EXCL)`
  | closing     -- open lock only: the lock file is created; next: `os.close`
  | stat        -- next: `os.stat(lock)`
  | resetTimer  -- the sampled mtime changed; next: `last := time.monotonic()`
  | check       -- next: `time.monotonic() - last > grace`
  | tkRename    -- stale-lock takeover; next: `os.rename(lock, unique)`
  | tkUnlink    -- next: `os.unlink(unique)`
  | tkRestart   -- the stale lock is gone; next: `last := time.monotonic()` (the taker restarts its timer)
  | sleep       -- next: `time.sleep`
  | crit        -- `acquire` returned: critical section; next: the write to the journal
  | relRename   -- `release()` called by the holder; next: `os.rename(lock, unique)`
  | relUnlink   -- next: `os.unlink(unique)`
deriving DecidableEq, Repr

structure Worker where
  pc : PC
  dead : Bool
  /-- local `mtime` of `acquire` -/
  mtime : Option Nat
  /-- local `last_update_monotonic_time` -/
  last : Nat
  /-- renames attempted so far (names the next unique file) -/
  nren : Nat
  /-- how many `release()` calls of the holder raised `RuntimeError` -/
  failed : Nat
deriving DecidableEq, Repr

/-- a lock file renamed away and not yet unlinked -/
structure Tmp where
  by_ : Nat       -- who renamed it
  serial : Nat    -- that worker's serial number of the rename
  owner : Nat     -- who had created the lock file
deriving DecidableEq, Repr

structure Shared where
  /-- the lock path: absent, or present with (creator, creation stamp) -/
  lock : Option (Nat × Nat)
  /-- the clock -/
  now : Nat
  tmps : List Tmp
deriving DecidableEq, Repr

structure St where
  sh : Shared
  ws : List Worker
deriving DecidableEq, Repr

inductive Ev where
  | step (w : Nat)
  | tick
  | crash (w : Nat)
deriving DecidableEq, Repr

/-- what the step did, as the harness sees it: the call and its outcome -/
inductive Label where
  | noop                      -- event of a dead / unknown worker
  | ticked
  | crashed
  | monotonic (t : Nat)
  | createOk | createExists
  | closed
  | statOk (m : Nat) | statGone
  | renameOk (owner : Nat) | renameGone
  | unlinkOk | unlinkGone
  | slept
  | touched
deriving DecidableEq, Repr

/-- the worker has created the lock file that it has not yet renamed away itself -/
def holding : PC → Bool
  | .closing | .crit | .relRename => true
  | _ => false

/-- between `acquire()` returning and the rename of its own `release()` -/
def inCrit : PC → Bool
  | .crit | .relRename => true
  | _ => false

def isMine (w n : Nat) (t : Tmp) : Bool := t.by_ == w && t.serial == n

def doRename (sh : Shared) (w : Nat) (wk : Worker) (okPc : PC) (failWk : Worker) : Shared × Worker × Label :=
  match sh.lock with
  | some (o, _) =>
    ({ sh with lock := none, tmps := { by_ := w, serial := wk.nren + 1, owner := o } :: sh.tmps },
     { wk with pc := okPc, nren := wk.nren + 1 }, .renameOk o)
  | none => (sh, { failWk with nren := wk.nren + 1 }, .renameGone)

def doUnlink (sh : Shared) (w : Nat) (wk : Worker) (okPc : PC) (failWk : Worker) : Shared × Worker × Label :=
  if sh.tmps.any (isMine w wk.nren) then
    ({ sh with tmps := sh.tmps.filter (fun t => !isMine w wk.nren t) }, { wk with pc := okPc }, .unlinkOk)
  else (sh, failWk, .unlinkGone)

/-- one call of live worker `w` (record `wk`) on the shared state -/
def stepW (cfg : Cfg) (sh : Shared) (w : Nat) (wk : Worker) : Shared × Worker × Label :=
  match wk.pc with
  | .idle => (sh, { wk with pc := .create, mtime := none, last := sh.now }, .monotonic sh.now)
  | .create =>
    match sh.lock with
    | none =>
      ({ sh with lock := some (w, sh.now) },
       { wk with pc := match cfg.kind with | .symlink => .crit | .openExcl => .closing }, .createOk)
    | some _ => (sh, { wk with pc := if cfg.grace.isSome then .stat else .sleep }, .createExists)
  | .closing => (sh, { wk with pc := .crit }, .closed)
  | .stat =>
    match sh.lock with
    | none => (sh, { wk with pc := .create }, .statGone)
    | some (_, s) =>
      if wk.mtime = some s then (sh, { wk with pc := .check }, .statOk s)
      else (sh, { wk with pc := .resetTimer, mtime := some s }, .statOk s)
  | .resetTimer => (sh, { wk with pc := .check, last := sh.now }, .monotonic sh.now)
  | .check =>
    match cfg.grace with
    | some g => (sh, { wk with pc := if sh.now > wk.last + g then .tkRename else .sleep }, .monotonic sh.now)
    | none => (sh, { wk with pc := .sleep }, .monotonic sh.now)   -- unreachable (`check_unreachable_of_no_grace`)
  | .tkRename => doRename sh w wk .tkUnlink { wk with pc := .create }
  | .tkUnlink => doUnlink sh w wk .tkRestart { wk with pc := .create }
  | .tkRestart => (sh, { wk with pc := .sleep, last := sh.now }, .monotonic sh.now)
  | .sleep => (sh, { wk with pc := .create }, .slept)
  | .crit => (sh, { wk with pc := .relRename }, .touched)
  | .relRename => doRename sh w wk .relUnlink { wk with pc := .idle, failed := wk.failed + 1 }
  | .relUnlink => doUnlink sh w wk .idle { wk with pc := .idle, failed := wk.failed + 1 }

def step (cfg : Cfg) (st : St) : Ev → St × Label
  | .tick => ({ st with sh := { st.sh with now := st.sh.now + 1 } }, .ticked)
  | .crash w =>
    match st.ws[w]? with
    | some wk =>
      if wk.dead then (st, .noop)
      else ({ st with ws := updAt st.ws w (fun x => { x with dead := true }) }, .crashed)
    | none => (st, .noop)
  | .step w =>
    match st.ws[w]? with
    | some wk =>
      if wk.dead then (st, .noop)
      else
        let r := stepW cfg st.sh w wk
        ({ sh := r.1, ws := updAt st.ws w (fun _ => r.2.1) }, r.2.2)
    | none => (st, .noop)

def run (cfg : Cfg) (st : St) : List Ev → St
  | [] => st
  | e :: es => run cfg (step cfg st e).1 es

def freshWorker : Worker := { pc := .idle, dead := false, mtime := none, last := 0, nren := 0, failed := 0 }

def init (n : Nat) : St :=
  { sh := { lock := none, now := 0, tmps := [] }, ws := List.replicate n freshWorker }

def isLive (st : St) (w : Nat) : Bool :=
  match st.ws[w]? with
  | some wk => !wk.dead
  | none => false

def pcOf (st : St) (w : Nat) : Option PC := (st.ws[w]?).map (·.pc)

/-- live worker `w` is at a pc satisfying `p` -/
def liveAt (st : St) (p : PC → Bool) (w : Nat) : Bool :=
  match st.ws[w]? with
  | some wk => !wk.dead && p wk.pc
  | none => false

/-- the live workers inside their critical section -/
def liveHolders (st : St) : List Nat := (List.range st.ws.length).filter (liveAt st inCrit)

/-- the event is a stale-lock takeover (`rename` inside `acquire`) that removes the lock file of a
creator who is alive -/
def liveTakeoverAt (st : St) : Ev → Bool
  | .step w =>
    liveAt st (· == .tkRename) w &&
      (match st.sh.lock with
       | some (o, _) => isLive st o
       | none => false)
  | _ => false

/-- **the hypothesis of mutual exclusion**: no takeover happens while the holder is alive -/
def safeSched (cfg : Cfg) (st : St) : List Ev → Bool
  | [] => true
  | e :: es => !liveTakeoverAt st e && safeSched cfg (step cfg st e).1 es

/-! ### A timing discipline (see `Lemmas/FileLockTimed.lean`: it implies `safeSched` for the open lock) -/

/-- between the `stat` of a waiter and the `rename` of its takeover -/
def inWindow : PC → Bool
  | .resetTimer | .check | .tkRename => true
  | _ => false

/-- the event respects the timing discipline in state `st` -/
def punctualAt (g : Nat) (st : St) : Ev → Bool
  | .tick =>
    (match st.sh.lock with
     | some (o, s) => !isLive st o || decide (st.sh.now + 1 ≤ s + g)
     | none => true) &&
    (List.range st.ws.length).all (fun v => !liveAt st inWindow v)
  | .crash _ => true
  | .step a =>
    !(liveAt st (· == .tkRename) a && st.sh.lock.isSome &&
      (List.range st.ws.length).any (fun v => v != a && liveAt st inWindow v))

def punctualSched (cfg : Cfg) (g : Nat) (st : St) : List Ev → Bool
  | [] => true
  | e :: es => punctualAt g st e && punctualSched cfg g (step cfg st e).1 es

/-! ### Named schedules (served by the driver to the harness, which replays them on the real code;
the theorems about them are in `Props/C07Lock.lean`) -/

def stepsOf (w k : Nat) : List Ev := List.replicate k (.step w)
def ticks (k : Nat) : List Ev := List.replicate k .tick

structure Scenario where
  cfg : Cfg
  n : Nat
  evs : List Ev

/-- F13, open lock: holder 0 dies in its critical section; waiters 1 and 2 both pass the grace check;
1 takes the stale lock over and enters; 2's pending `rename` then removes the lock 1 has just created. -/
def f13Open : Scenario :=
  { cfg := { kind := .openExcl, grace := some 2 }, n := 3,
    evs := stepsOf 0 3 ++ [.crash 0] ++ stepsOf 1 6 ++ stepsOf 2 6 ++ ticks 3 ++ stepsOf 1 3 ++ stepsOf 2 3 ++
           stepsOf 1 6 ++ stepsOf 2 6 }

/-- F13, symlink lock (same race) -/
def f13Symlink : Scenario :=
  { cfg := { kind := .symlink, grace := some 2 }, n := 3,
    evs := stepsOf 0 2 ++ [.crash 0] ++ stepsOf 1 6 ++ stepsOf 2 6 ++ ticks 3 ++ stepsOf 1 3 ++ stepsOf 2 3 ++
           stepsOf 1 5 ++ stepsOf 2 5 }

/-- two holders before repo fb3aa05 (the symlink lock watched the journal's mtime), harmless now: waiters 1
and 2 have both watched the dead holder's lock for longer than the grace period; 1 takes it over
*completely* and enters; 2 then polls, sees a new lock stamp, restarts its timer and keeps polling. -/
def f13SymlinkSequential : Scenario :=
  { cfg := { kind := .symlink, grace := some 2 }, n := 3,
    evs := stepsOf 0 2 ++ [.crash 0] ++ stepsOf 1 6 ++ stepsOf 2 6 ++ ticks 3 ++ stepsOf 1 8 ++ stepsOf 2 8 }

/-- the schedule that gave two holders before repo commit d602c3c (ONE waiter past the grace period,
symlink lock): waiter 1 breaks the dead holder's lock; newcomer 2 creates the lock while 1 sleeps; 1 has
restarted its timer after the takeover (and, since fb3aa05, sees a new lock stamp), so it goes on polling. -/
def symlinkAfterTakeover : Scenario :=
  { cfg := { kind := .symlink, grace := some 2 }, n := 3,
    evs := stepsOf 0 2 ++ [.crash 0] ++ stepsOf 1 6 ++ ticks 3 ++ stepsOf 1 6 ++ stepsOf 2 2 ++ stepsOf 1 5 }

/-- two holders before repo fb3aa05, harmless now (symlink lock, no crash, every holder punctual): 0 releases
and 2 acquires between two polls of waiter 1, which has seen the lock held at each of its polls; the lock
file it finds carries a new stamp, so it restarts its timer. -/
def symlinkHandover : Scenario :=
  { cfg := { kind := .symlink, grace := some 2 }, n := 3,
    evs := stepsOf 0 3 ++ stepsOf 1 5 ++ ticks 1 ++ stepsOf 0 2 ++ stepsOf 2 2 ++ ticks 2 ++ stepsOf 1 9 }

/-- no crash at all: waiter 1 is suspended for longer than the grace period between reading the clock
and comparing it; the lock it had looked at is long released, and its `rename` removes the fresh lock of
live holder 0. -/
def stalledWaiter : Scenario :=
  { cfg := { kind := .openExcl, grace := some 2 }, n := 2,
    evs := stepsOf 0 3 ++ stepsOf 1 4 ++ stepsOf 0 3 ++ ticks 3 ++ stepsOf 1 1 ++ stepsOf 0 3 ++ stepsOf 1 6 }

/-- the same on the symlink lock -/
def stalledWaiterSymlink : Scenario :=
  { cfg := { kind := .symlink, grace := some 2 }, n := 2,
    evs := stepsOf 0 2 ++ stepsOf 1 4 ++ stepsOf 0 3 ++ ticks 3 ++ stepsOf 1 1 ++ stepsOf 0 2 ++ stepsOf 1 5 }

/-- the intended use of the grace period: the holder dies, a single waiter takes the lock over -/
def soloTakeoverOpen : Scenario :=
  { cfg := { kind := .openExcl, grace := some 2 }, n := 2,
    evs := stepsOf 0 3 ++ [.crash 0] ++ stepsOf 1 6 ++ ticks 3 ++ stepsOf 1 9 }

def soloTakeoverSymlink : Scenario :=
  { cfg := { kind := .symlink, grace := some 2 }, n := 2,
    evs := stepsOf 0 2 ++ [.crash 0] ++ stepsOf 1 6 ++ ticks 3 ++ stepsOf 1 8 }

def Scenario.final (s : Scenario) : St := run s.cfg (init s.n) s.evs
def Scenario.safe (s : Scenario) : Bool := safeSched s.cfg (init s.n) s.evs

end OptunaVerif.FileLock
