import OptunaVerif.Model.Basic
/-
  The parent-population cache of the GA samplers (optuna/samplers/_ga/_base.py,
  `BaseGASampler.get_parent_population`), and the variant that NSGA-III uses
  (optuna/samplers/_nsgaiii/_sampler.py, `_collect_parent_population`).

      cached = study_system_attrs.get(prefix + str(generation))
      if cached is not None:
          trials = study._get_trials(deepcopy=False)          -- all trials, ordered by number
          return [trials[trial_id] for trial_id in cached]    -- READ: cached values used as list indices
      else:
          parents = self.select_parent(study, generation)
          set_study_system_attr(..., [t._trial_id for t in parents])   -- WRITE: storage trial ids
          return parents

  Only two facts about a trial matter here: its storage id and its number.  Core Lean only.
-/
namespace OptunaVerif.GACache
open OptunaVerif

/-- What the cache sees of a `FrozenTrial`. -/
structure T where
  id : Nat        -- `_trial_id`, assigned by the storage
  number : Nat    -- position in the study
deriving DecidableEq, Repr, Inhabited

/-- WRITE as the code does it today: the `_trial_id`s of the selected parents. -/
def writeIds (parents : List T) : List Nat := parents.map (·.id)

/-- WRITE as NSGA-III does it: the trial *numbers*. -/
def writeNumbers (parents : List T) : List Nat := parents.map (·.number)

/-- READ: the cached values are used as indices into the list of all trials of the study
(`none` = Python's `IndexError`). -/
def read (trials : List T) : List Nat → Option (List T)
  | [] => some []
  | i :: rest =>
    match trials[i]?, read trials rest with
    | some t, some r => some (t :: r)
    | _, _ => none

/-- `get_parent_population` on a cache miss followed by a cache hit: what the second call returns,
given the write discipline. -/
def roundTrip (write : List T → List Nat) (trials parents : List T) : Option (List T) :=
  read trials (write parents)

/-- The list `study._get_trials()` of a study whose `n` trials got the ids `off, off+1, …`
(`off` = number of trials created in the storage before, +1 on backends whose ids start at 1). -/
def contiguous (off : Nat) : Nat → List T
  | 0 => []
  | n + 1 => contiguous off n ++ [⟨off + n, n⟩]

/-! ## the methods of `BaseGASampler` around the cache (`get_trial_generation`, `get_population`,
`get_parent_population`) and NSGA-II's `select_parent` / `sample_relative` bookkeeping

A trial is (`_trial_id`, `number`, the sampler's generation system attribute, `state`); the study's trial list is
ordered by number; the study system attributes are a map cache key ↦ list of ints, the key of generation `g`
being `prefix + str(g)` (injective in `g`, modelled as `g`).  The elite selection strategy is a parameter.
(`Props/C09Gen.lean` proves the methods generated from the source equal to these.) -/

structure GT where
  id : Nat
  number : Nat
  gen : Option Nat        -- `system_attrs.get(<generation key>)`
  state : TState
deriving DecidableEq, Repr, Inhabited

def GT.toT (t : GT) : T := ⟨t.id, t.number⟩

/-- the generation attribute as the scan of `get_trial_generation` reads it (`.get(key, -1)`) -/
def GT.genOr (t : GT) : Int :=
  match t.gen with
  | some g => (g : Int)
  | none => -1

/-- the loop `for t in reversed(trials)` of `get_trial_generation` on the already reversed list: the running
`(max_generation, max_generation_count)` -/
def scanGen : List GT → Int × Nat → Int × Nat
  | [], acc => acc
  | t :: rest, (mx, cnt) =>
    if t.genOr < mx then scanGen rest (mx, cnt)
    else if t.genOr > mx then scanGen rest (t.genOr, 1)
    else scanGen rest (mx, cnt + 1)

/-- `study._get_trials(deepcopy=False, states=[COMPLETE], …)` -/
def completeOf (trials : List GT) : List GT := trials.filter (fun t => t.state == .complete)

/-- `get_trial_generation(study, trial)`: the generation, and the system-attr write
`(trial id written to, value)` when the attribute was not set yet (`popSize` = `self._population_size`, asserted
to be set). -/
def trialGeneration (popSize : Nat) (trials : List GT) (cur : GT) : Int × Option (Nat × Int) :=
  match cur.gen with
  | some g => ((g : Int), none)
  | none =>
    let r := scanGen (completeOf trials).reverse (0, 0)
    let g := if r.2 < popSize then r.1 else r.1 + 1
    (g, some (cur.id, g))

/-- `get_population(study, generation)` -/
def population (trials : List GT) (g : Nat) : List GT :=
  trials.filter (fun t => t.state == .complete && t.gen == some g)

/-- the study system attributes as the cache sees them: generation ↦ cached list -/
abbrev Store := List (Nat × List Nat)

def Store.get? (s : Store) (g : Nat) : Option (List Nat) :=
  match s with
  | [] => none
  | (k, v) :: rest => if k = g then some v else Store.get? rest g

def Store.set (s : Store) (g : Nat) (v : List Nat) : Store :=
  match s with
  | [] => [(g, v)]
  | (k, w) :: rest => if k = g then (g, v) :: rest else (k, w) :: Store.set rest g v

/-- READ on full trials: the cached values as indices into the trial list -/
def readG (trials : List GT) : List Nat → Option (List GT)
  | [] => some []
  | i :: rest =>
    match trials[i]?, readG trials rest with
    | some t, some r => some (t :: r)
    | _, _ => none

/-- `get_parent_population(study, generation)`; `select g st` is `self.select_parent(study, g)` run on the store
`st` (it may fill the caches of earlier generations); `none` = `IndexError` -/
def parentPopulation (select : Nat → Store → List GT × Store) (trials : List GT) (st : Store) (g : Nat) :
    Option (List GT) × Store :=
  if g = 0 then (some [], st)
  else
    match st.get? g with
    | some ids => (readG trials ids, st)
    | none =>
      let r := select g st
      (some r.1, r.2.set g (r.1.map (·.id)))

/-- NSGA-II: `get_parent_population` with `select_parent(study, g) = elite(get_population(g-1) +
get_parent_population(g-1))`, by recursion on the generation; an `IndexError` below propagates -/
def nsga2Parents (elite : List GT → List GT) (trials : List GT) : Nat → Store → Option (List GT) × Store
  | 0, st => (some [], st)
  | g + 1, st =>
    match st.get? (g + 1) with
    | some ids => (readG trials ids, st)
    | none =>
      match nsga2Parents elite trials g st with
      | (none, st') => (none, st')
      | (some pp, st') =>
        let sel := elite (population trials g ++ pp)
        (some sel, st'.set (g + 1) (sel.map (·.id)))

/-- `NSGAIISampler.sample_relative` as far as it is bookkeeping: the generation of the trial (written when new),
and the parents handed to the child-generation strategy (`some []` = "return {}") -/
def nsga2SampleRelative (elite : List GT → List GT) (popSize : Nat) (trials : List GT) (st : Store) (cur : GT) :
    Option (Nat × Int) × Option (List GT) × Store :=
  let tg := trialGeneration popSize trials cur
  let r := nsga2Parents elite trials tg.1.toNat st
  (tg.2, r.1, r.2)

/-- forget the storage ids (what a storage-independent function may depend on) -/
def eraseIds (trials : List GT) : List GT := trials.map (fun t => { t with id := 0 })

end OptunaVerif.GACache
