/-
  The parent-population cache of the GA samplers (optuna/samplers/_ga/_base.py,
  `BaseGASampler.get_parent_population`), and the variant that NSGA-III uses
  (optuna/samplers/_nsgaiii/_sampler.py, `_collect_parent_population`).

      cached = study_system_attrs.get(prefix + str(generation))
      if cached is not None:
          trials = study._get_trials(deepcopy=False)          -- all trials, ordered by number
          return [trials[trial_id] for trial_id in cached]    -- READ: cached values used as list indices
      else:
          parents = self.select_parent(study, generation)
          set_study_system_attr(..., [t._trial_id for t in parents])   -- WRITE: storage trial ids
          return parents

  Only two facts about a trial matter here: its storage id and its number.  Core Lean only.
-/
namespace OptunaVerif.GACache

/-- What the cache sees of a `FrozenTrial`. -/
structure T where
  id : Nat        -- `_trial_id`, assigned by the storage
  number : Nat    -- position in the study
deriving DecidableEq, Repr, Inhabited

/-- WRITE as the code does it today: the `_trial_id`s of the selected parents. -/
def writeIds (parents : List T) : List Nat := parents.map (·.id)

/-- WRITE as NSGA-III does it: the trial *numbers*. -/
def writeNumbers (parents : List T) : List Nat := parents.map (·.number)

/-- READ: the cached values are used as indices into the list of all trials of the study
(`none` = Python's `IndexError`). -/
def read (trials : List T) : List Nat → Option (List T)
  | [] => some []
  | i :: rest =>
    match trials[i]?, read trials rest with
    | some t, some r => some (t :: r)
    | _, _ => none

/-- `get_parent_population` on a cache miss followed by a cache hit: what the second call returns,
given the write discipline. -/
def roundTrip (write : List T → List Nat) (trials parents : List T) : Option (List T) :=
  read trials (write parents)

/-- The list `study._get_trials()` of a study whose `n` trials got the ids `off, off+1, …`
(`off` = number of trials created in the storage before, +1 on backends whose ids start at 1). -/
def contiguous (off : Nat) : Nat → List T
  | 0 => []
  | n + 1 => contiguous off n ++ [⟨off + n, n⟩]

end OptunaVerif.GACache
