import OptunaVerif.Model.GACache
/-
  A small statement language for the generation / parent-cache methods of the GA samplers and its interpreter over
  the data of `Model/GACache.lean`:
    optuna/samplers/_ga/_base.py       `BaseGASampler.get_trial_generation`, `get_population`, `get_parent_population`
    optuna/samplers/nsgaii/_sampler.py `NSGAIISampler.select_parent`, `sample_relative` (bookkeeping)
    optuna/samplers/_nsgaiii/_sampler.py  the cache discipline of `_collect_parent_population` and the generation write of
                                          `sample_relative` (site level: `Nsga3IR`)
  `verif/translators/tga.py` regenerates `Generated/GaMethods.lean` from the source on every run; `Props/C09Gen.lean`
  proves `interp generated = hand model` for all inputs and restates the cache theorems of `Props/C09.lean`.

  Meaning given here (modelled, not derived): each primitive stands for ONE whitelisted source shape (quoted next to its
  constructor).  A trial is (`_trial_id`, `number`, generation attribute, state); `study._get_trials(deepcopy=False[,
  states=…])` is the study's trial list ordered by number (filtered by state); the study system attributes are the map
  generation ↦ list of ints under the key `prefix + str(generation)` (a key without the generation is ONE entry shared by all
  generations); `set_trial_system_attr(id, generation key, v)` is recorded as a write `(id, v)`; the elite-selection strategy
  and the child-generation strategy are parameters; a callee enters as a function instantiated with the interpreter of its
  generated body.
-/
namespace OptunaVerif.GaIR
open OptunaVerif OptunaVerif.GACache

/-! ## the generic statement language (with `break` / `continue`) -/

inductive Err where
  | valueError | keyError | typeError | indexError | assertion
  /-- a local is unbound / the method was untranslatable / a value of the wrong kind is returned -/
  | unrepresentable
deriving DecidableEq, Repr, Inhabited

inductive Flow (V : Type) where
  | next
  | cont                    -- `continue`
  | brk                     -- `break`
  | ret (v : V)
  | raised (e : Err)
deriving Repr

inductive Stmt (C A L R : Type) where
  | skip
  | seq (a b : Stmt C A L R)
  | ite (c : C) (t e : Stmt C A L R)
  | assert (c : C)
  | act (a : A)
  | loop (l : L) (body : Stmt C A L R)
  | ret (r : R)
  | raise (e : Err)
  | cont
  | brk
deriving Repr, Inhabited

def block {C A L R : Type} : List (Stmt C A L R) → Stmt C A L R
  | [] => .skip
  | [s] => s
  | s :: rest => .seq s (block rest)

structure Sem (C A L R E V : Type) where
  cond : E → C → Except Err Bool
  act : E → A → Except Err E
  /-- the iterations of a loop, fixed at loop entry: how each one binds the loop variable -/
  iter : E → L → Except Err (List (E → E))
  retv : E → R → Except Err V

/-- `for`: `continue` goes on with the next item, `break` leaves the loop normally -/
def loopAux {E V : Type} (f : E → E × Flow V) : List (E → E) → E → E × Flow V
  | [], env => (env, .next)
  | b :: rest, env =>
    match f (b env) with
    | (env', .next) => loopAux f rest env'
    | (env', .cont) => loopAux f rest env'
    | (env', .brk) => (env', .next)
    | res => res

def andThen {E V : Type} (r : E × Flow V) (k : E → E × Flow V) : E × Flow V :=
  match r with
  | (env', .next) => k env'
  | res => res

/-- THE interpreter -/
def exec {C A L R E V : Type} (sem : Sem C A L R E V) : Stmt C A L R → E → E × Flow V
  | .skip, env => (env, .next)
  | .seq a b, env => andThen (exec sem a env) (fun e => exec sem b e)
  | .ite c t e, env =>
    match sem.cond env c with
    | .error x => (env, .raised x)
    | .ok true => exec sem t env
    | .ok false => exec sem e env
  | .assert c, env =>
    match sem.cond env c with
    | .error x => (env, .raised x)
    | .ok true => (env, .next)
    | .ok false => (env, .raised .assertion)
  | .act a, env =>
    match sem.act env a with
    | .error x => (env, .raised x)
    | .ok env' => (env', .next)
  | .loop l body, env =>
    match sem.iter env l with
    | .error x => (env, .raised x)
    | .ok bs => loopAux (fun e => exec sem body e) bs env
  | .ret r, env =>
    match sem.retv env r with
    | .error x => (env, .raised x)
    | .ok v => (env, .ret v)
  | .raise x, env => (env, .raised x)
  | .cont, env => (env, .cont)
  | .brk, env => (env, .brk)

/-! ## the vocabulary -/

inductive IExp where
  | lit (i : Int)
  | generation                 -- the local `generation`
  | maxGen                     -- `max_generation`
  | maxCount                   -- `max_generation_count`
  | popSize                    -- `self._population_size`
  | genArg                     -- the parameter `generation`
  | trialId                    -- `trial._trial_id`
  | trialNumber                -- `trial.number`
  | add (a b : IExp)
  | sub (a b : IExp)
  | floordiv (a b : IExp)
deriving DecidableEq, Repr, Inhabited

inductive Cmp where
  | lt | le | gt | ge | eq | ne
deriving DecidableEq, Repr, Inhabited

def Cmp.eval : Cmp → Int → Int → Bool
  | .lt, a, b => decide (a < b)
  | .le, a, b => decide (a ≤ b)
  | .gt, a, b => decide (a > b)
  | .ge, a, b => decide (a ≥ b)
  | .eq, a, b => decide (a = b)
  | .ne, a, b => decide (a ≠ b)

inductive GCond where
  | not (c : GCond)
  | and (a b : GCond)
  | or (a b : GCond)
  | cmp (op : Cmp) (a b : IExp)
  | genIsNone                  -- `generation is None`
  | cachedIsNone               -- `cached_parent_population_ids is None`
  | popSizeIsNone              -- `self._population_size is None`
  | parentsEmpty               -- `len(parent_population) == 0`
deriving DecidableEq, Repr, Inhabited

/-- the study-system-attr key of the cache -/
inductive KeyKind where
  | prefixPlusGen              -- `self._get_parent_cache_key_prefix() + str(generation)`
  | prefixOnly                 -- `self._get_parent_cache_key_prefix()`
deriving DecidableEq, Repr, Inhabited

inductive WriteKind where
  | ids                        -- `[trial._trial_id for trial in parent_population]`
  | numbers                    -- `[trial.number for trial in parent_population]`
deriving DecidableEq, Repr, Inhabited

inductive ReadKind where
  | byIndex                    -- `[trials[trial_id] for trial_id in cached_parent_population_ids]`
  | byIdLookup                 -- `[next(t for t in trials if t._trial_id == trial_id) for trial_id in cached_parent_population_ids]`
  | byNumberLookup             -- `[next(t for t in trials if t.number == trial_id) for trial_id in cached_parent_population_ids]`
deriving DecidableEq, Repr, Inhabited

inductive GAct where
  | genFromTrialAttr           -- `generation = trial.system_attrs.get(self._get_generation_key(), None)`
  | genFromLoopAttr (dflt : Int)   -- `generation = t.system_attrs.get(self._get_generation_key(), <dflt>)`
  /-- `trials = study._get_trials(deepcopy=False, states=[…], use_cache=True)` (`none`: `study._get_trials(deepcopy=False)`) -/
  | getTrials (states : Option (List TState))
  | initMax (g c : Int)        -- `max_generation, max_generation_count = <g>, <c>`
  | setMaxGen (e : IExp)       -- `max_generation = <e>`
  | setMaxCount (e : IExp)     -- `max_generation_count = <e>` / `max_generation_count += 1`
  | setGen (e : IExp)          -- `generation = <e>`
  | writeTrialAttr (id : IExp) -- `study._storage.set_trial_system_attr(<id>, self._get_generation_key(), generation)`
  | loadStudyAttrs             -- `study_system_attrs = study._storage.get_study_system_attrs(study._study_id)`
  | lookupCache (k : KeyKind)  -- `cached_parent_population_ids = study_system_attrs.get(<k>, None)`
  | callSelectParent           -- `parent_population = self.select_parent(study, generation)`
  | writeCache (k : KeyKind) (w : WriteKind)   -- `study._storage.set_study_system_attr(study._study_id, <k>, <w>)`
  | callTrialGeneration        -- `generation = self.get_trial_generation(study, trial)`
  | callParentPopulation       -- `parent_population = self.get_parent_population(study, generation)`
deriving DecidableEq, Repr, Inhabited

inductive GLoop where
  | trialsReversed             -- `for t in reversed(trials):`
  | trialsInOrder              -- `for t in trials:`
deriving DecidableEq, Repr, Inhabited

inductive GRet where
  | none
  | generation                 -- `return generation`
  | emptyList                  -- `return []`
  | readCache (r : ReadKind)   -- `return <r>`
  | parentPopulation           -- `return parent_population`
  /-- `return [trial for trial in study._get_trials(deepcopy=False[, states=…, use_cache=True]) if
  trial.system_attrs.get(self._get_generation_key(), None) == generation]` -/
  | populationOf (states : Option (List TState))
  | emptyDict                  -- `return {}`
  | childGeneration            -- `return self._child_generation_strategy(study, search_space, parent_population)`
deriving DecidableEq, Repr, Inhabited

abbrev GStmt := Stmt GCond GAct GLoop GRet

structure GIn where
  trials : List GT             -- the study's trials, ordered by number
  cur : GT                     -- the argument `trial`
  genArg : Nat                 -- the argument `generation`
  popSize : Option Nat         -- `self._population_size`

structure GEnv where
  inp : GIn
  store : Store                -- the study system attributes (storage)
  writes : List (Nat × Int)    -- trial system-attr writes `(trial id, generation)`
  gen : Option (Option Int)    -- local `generation` (outer none = unbound)
  trialsL : Option (List GT)
  maxGen : Option Int
  maxCount : Option Int
  t : Option GT
  attrs : Option Store         -- `study_system_attrs` (a snapshot)
  cached : Option (Option (List Nat))
  parents : Option (List GT)

def GEnv.ofIn (inp : GIn) (st : Store) : GEnv :=
  { inp := inp, store := st, writes := [], gen := none, trialsL := none, maxGen := none, maxCount := none, t := none,
    attrs := none, cached := none, parents := none }

structure GCalls where
  select : Nat → Store → Except Err (List GT × Store)
  trialGen : Store → Except Err (Int × List (Nat × Int))
  parentPop : Nat → Store → Except Err (List GT × Store)

def noCalls : GCalls :=
  { select := fun _ _ => .error .unrepresentable, trialGen := fun _ => .error .unrepresentable,
    parentPop := fun _ _ => .error .unrepresentable }

inductive GVal where
  | none | int (i : Int) | trials (l : List GT) | emptyDict | child (parents : List GT)

def evalIExp (env : GEnv) : IExp → Except Err Int
  | .lit i => .ok i
  | .generation => match env.gen with
    | some (some g) => .ok g
    | some none => .error .typeError
    | none => .error .unrepresentable
  | .maxGen => match env.maxGen with
    | some g => .ok g
    | none => .error .unrepresentable
  | .maxCount => match env.maxCount with
    | some g => .ok g
    | none => .error .unrepresentable
  | .popSize => match env.inp.popSize with
    | some n => .ok (n : Int)
    | none => .error .typeError
  | .genArg => .ok (env.inp.genArg : Int)
  | .trialId => .ok (env.inp.cur.id : Int)
  | .trialNumber => .ok (env.inp.cur.number : Int)
  | .add a b => match evalIExp env a, evalIExp env b with
    | .ok x, .ok y => .ok (x + y)
    | .error e, _ => .error e
    | _, .error e => .error e
  | .sub a b => match evalIExp env a, evalIExp env b with
    | .ok x, .ok y => .ok (x - y)
    | .error e, _ => .error e
    | _, .error e => .error e
  | .floordiv a b => match evalIExp env a, evalIExp env b with
    | .ok x, .ok y => if y = 0 then .error .valueError else .ok (x / y)
    | .error e, _ => .error e
    | _, .error e => .error e

def evalGCond (env : GEnv) : GCond → Except Err Bool
  | .not c => match evalGCond env c with
    | .ok b => .ok (!b)
    | .error x => .error x
  | .and a b => match evalGCond env a with
    | .ok true => evalGCond env b
    | .ok false => .ok false
    | .error x => .error x
  | .or a b => match evalGCond env a with
    | .ok true => .ok true
    | .ok false => evalGCond env b
    | .error x => .error x
  | .cmp op a b => match evalIExp env a, evalIExp env b with
    | .ok x, .ok y => .ok (op.eval x y)
    | .error e, _ => .error e
    | _, .error e => .error e
  | .genIsNone => match env.gen with
    | some g => .ok g.isNone
    | none => .error .unrepresentable
  | .cachedIsNone => match env.cached with
    | some c => .ok c.isNone
    | none => .error .unrepresentable
  | .popSizeIsNone => .ok env.inp.popSize.isNone
  | .parentsEmpty => match env.parents with
    | some p => .ok p.isEmpty
    | none => .error .unrepresentable

/-- the storage key of generation `g` (a key without the generation is one shared entry, modelled as key 0) -/
def keyOf (k : KeyKind) (g : Nat) : Nat :=
  match k with
  | .prefixPlusGen => g
  | .prefixOnly => 0

def filterStates (states : Option (List TState)) (trials : List GT) : List GT :=
  match states with
  | none => trials
  | some l => trials.filter (fun t => l.contains t.state)

def lookupBy (f : GT → Nat) (trials : List GT) : List Nat → Except Err (List GT)
  | [] => .ok []
  | i :: rest =>
    match trials.find? (fun t => f t == i), lookupBy f trials rest with
    | some t, .ok r => .ok (t :: r)
    | none, _ => .error .indexError
    | _, .error e => .error e

/-- `t.system_attrs.get(<generation key>, d)` -/
def genOrD (d : Int) (t : GT) : Int :=
  match t.gen with
  | some n => (n : Int)
  | none => d

/-- `trial.system_attrs.get(<generation key>, None)` -/
def genAttr (t : GT) : Option Int :=
  match t.gen with
  | some n => some (n : Int)
  | none => none

def doGAct (calls : GCalls) (env : GEnv) : GAct → Except Err GEnv
  | .genFromTrialAttr => .ok { env with gen := some (genAttr env.inp.cur) }
  | .genFromLoopAttr d => match env.t with
    | some t => .ok { env with gen := some (some (genOrD d t)) }
    | none => .error .unrepresentable
  | .getTrials states => .ok { env with trialsL := some (filterStates states env.inp.trials) }
  | .initMax g c => .ok { env with maxGen := some g, maxCount := some c }
  | .setMaxGen e => match evalIExp env e with
    | .ok v => .ok { env with maxGen := some v }
    | .error x => .error x
  | .setMaxCount e => match evalIExp env e with
    | .ok v => .ok { env with maxCount := some v }
    | .error x => .error x
  | .setGen e => match evalIExp env e with
    | .ok v => .ok { env with gen := some (some v) }
    | .error x => .error x
  | .writeTrialAttr id => match evalIExp env id, env.gen with
    | .ok i, some (some g) => .ok { env with writes := env.writes ++ [(i.toNat, g)] }
    | .ok _, some none => .error .typeError
    | .ok _, none => .error .unrepresentable
    | .error x, _ => .error x
  | .loadStudyAttrs => .ok { env with attrs := some env.store }
  | .lookupCache k => match env.attrs with
    | some a => .ok { env with cached := some (a.get? (keyOf k env.inp.genArg)) }
    | none => .error .unrepresentable
  | .callSelectParent => match calls.select env.inp.genArg env.store with
    | .ok (ps, st) => .ok { env with parents := some ps, store := st }
    | .error x => .error x
  | .writeCache k w => match env.parents with
    | some ps =>
      let stored : List Nat := match w with
        | .ids => ps.map (·.id)
        | .numbers => ps.map (·.number)
      .ok { env with store := env.store.set (keyOf k env.inp.genArg) stored }
    | none => .error .unrepresentable
  | .callTrialGeneration => match calls.trialGen env.store with
    | .ok (g, ws) => .ok { env with gen := some (some g), writes := env.writes ++ ws }
    | .error x => .error x
  | .callParentPopulation => match env.gen with
    | some (some g) => match calls.parentPop g.toNat env.store with
      | .ok (ps, st) => .ok { env with parents := some ps, store := st }
      | .error x => .error x
    | _ => .error .unrepresentable

def iterG (env : GEnv) : GLoop → Except Err (List (GEnv → GEnv))
  | .trialsReversed => match env.trialsL with
    | some l => .ok (l.reverse.map (fun t => fun e => { e with t := some t }))
    | none => .error .unrepresentable
  | .trialsInOrder => match env.trialsL with
    | some l => .ok (l.map (fun t => fun e => { e with t := some t }))
    | none => .error .unrepresentable

def retG (env : GEnv) : GRet → Except Err GVal
  | .none => .ok .none
  | .generation => match env.gen with
    | some (some g) => .ok (.int g)
    | some none => .ok .none
    | none => .error .unrepresentable
  | .emptyList => .ok (.trials [])
  | .readCache r => match env.cached, env.trialsL with
    | some (some ids), some trials =>
      match r with
      | .byIndex => (match readG trials ids with
        | some l => .ok (.trials l)
        | none => .error .indexError)
      | .byIdLookup => (match lookupBy (·.id) trials ids with
        | .ok l => .ok (.trials l)
        | .error e => .error e)
      | .byNumberLookup => (match lookupBy (·.number) trials ids with
        | .ok l => .ok (.trials l)
        | .error e => .error e)
    | _, _ => .error .unrepresentable
  | .parentPopulation => match env.parents with
    | some p => .ok (.trials p)
    | none => .error .unrepresentable
  | .populationOf states =>
    .ok (.trials ((filterStates states env.inp.trials).filter (fun t => t.gen == some env.inp.genArg)))
  | .emptyDict => .ok .emptyDict
  | .childGeneration => match env.parents with
    | some p => .ok (.child p)
    | none => .error .unrepresentable

def gaSem (calls : GCalls) : Sem GCond GAct GLoop GRet GEnv GVal :=
  { cond := evalGCond, act := doGAct calls, iter := iterG, retv := retG }

/-! ## the methods -/

def finishGen : GEnv × Flow GVal → Except Err (Int × List (Nat × Int))
  | (_, .raised e) => .error e
  | (env, .ret (.int g)) => .ok (g, env.writes)
  | (_, _) => .error .unrepresentable

/-- `BaseGASampler.get_trial_generation(study, trial)`: the generation and the trial-attr writes -/
def interpTrialGeneration (body : GStmt) (popSize : Option Nat) (trials : List GT) (cur : GT) :
    Except Err (Int × List (Nat × Int)) :=
  finishGen (exec (gaSem noCalls) body (GEnv.ofIn ⟨trials, cur, 0, popSize⟩ []))

def finishTrials : GEnv × Flow GVal → Except Err (List GT × Store)
  | (_, .raised e) => .error e
  | (env, .ret (.trials l)) => .ok (l, env.store)
  | (_, _) => .error .unrepresentable

/-- `BaseGASampler.get_population(study, generation)` -/
def interpPopulation (body : GStmt) (trials : List GT) (g : Nat) : Except Err (List GT) :=
  match finishTrials (exec (gaSem noCalls) body (GEnv.ofIn ⟨trials, default, g, none⟩ [])) with
  | .ok r => .ok r.1
  | .error e => .error e

/-- `BaseGASampler.get_parent_population(study, generation)` with `select_parent` as a parameter -/
def interpParentPopulation (body : GStmt) (select : Nat → Store → Except Err (List GT × Store)) (trials : List GT)
    (st : Store) (g : Nat) : Except Err (List GT × Store) :=
  finishTrials (exec (gaSem { noCalls with select := select }) body (GEnv.ofIn ⟨trials, default, g, none⟩ st))

/-- `NSGAIISampler.select_parent`: `return self._elite_population_selection_strategy(study, self.get_population(study, <a>)
+ self.get_parent_population(study, <b>))` (`popFirst`: the population comes first in the concatenation) -/
structure SelectIR where
  popGen : IExp
  parentGen : IExp
  popFirst : Bool
deriving DecidableEq, Repr, Inhabited

/-- the generated GA methods -/
structure GaProg where
  getTrialGeneration : GStmt
  getPopulation : GStmt
  getParentPopulation : GStmt
  selectParent : SelectIR
  sampleRelative : GStmt

def evalGenExp (g : Nat) (e : IExp) : Except Err Int :=
  evalIExp (GEnv.ofIn ⟨[], default, g, none⟩ []) e

/-- NSGA-II: `get_parent_population` with the generated `select_parent`, by recursion on the generation (the generated
`select_parent` must ask for the generation before: anything else is outside this recursion) -/
def interpNsga2Parents (P : GaProg) (elite : List GT → List GT) (trials : List GT) : Nat → Store → Except Err (List GT × Store)
  | 0, st => interpParentPopulation P.getParentPopulation (fun _ _ => .error .unrepresentable) trials st 0
  | g + 1, st =>
    interpParentPopulation P.getParentPopulation
      (fun g' st' =>
        match evalGenExp g' P.selectParent.popGen, evalGenExp g' P.selectParent.parentGen with
        | .ok a, .ok b =>
          if g' = g + 1 ∧ a = (g : Int) ∧ b = (g : Int) then
            match interpPopulation P.getPopulation trials g, interpNsga2Parents P elite trials g st' with
            | .ok pop, .ok (pp, st'') =>
              .ok (elite (if P.selectParent.popFirst then pop ++ pp else pp ++ pop), st'')
            | .error e, _ => .error e
            | _, .error e => .error e
          else .error .unrepresentable
        | .error e, _ => .error e
        | _, .error e => .error e)
      trials st (g + 1)

def finishSample : GEnv × Flow GVal → Except Err (List (Nat × Int) × Option (List GT) × Store)
  | (_, .raised e) => .error e
  | (env, .ret .emptyDict) => .ok (env.writes, some [], env.store)
  | (env, .ret (.child p)) => .ok (env.writes, some p, env.store)
  | (_, _) => .error .unrepresentable

/-- `NSGAIISampler.sample_relative` (bookkeeping): trial-attr writes, the parents handed on (`some []` = `{}`), the store -/
def interpSampleRelative (P : GaProg) (elite : List GT → List GT) (popSize : Option Nat) (trials : List GT) (st : Store)
    (cur : GT) : Except Err (List (Nat × Int) × Option (List GT) × Store) :=
  finishSample (exec (gaSem { noCalls with
      trialGen := fun _ => interpTrialGeneration P.getTrialGeneration popSize trials cur,
      parentPop := fun g s => interpNsga2Parents P elite trials g s })
    P.sampleRelative (GEnv.ofIn ⟨trials, cur, 0, popSize⟩ st))

/-! ## NSGA-III (site level) -/

/-- what `NSGAIIISampler._collect_parent_population` / `sample_relative` do with the population cache -/
structure Nsga3IR where
  /-- `trials = study.get_trials(deepcopy=False)` -/
  trialsAreStudyTrials : Bool
  /-- `population = [trials[n] for n in cached_population_numbers]` -/
  read : ReadKind
  /-- `population_numbers = [t.number for t in population]` stored by `set_study_system_attr(…, cache_key, (generation, population_numbers))` -/
  write : WriteKind
  /-- `cached_generation, cached_population_numbers = study_system_attrs.get(cache_key, (-1, []))` and `if cached_generation >= generation:` -/
  lookupWithDefault : Bool
  /-- the write happens only `if len(generation_to_runnings[generation]) == 0:` -/
  writeOnlyWhenNoneRunning : Bool
  /-- `study._storage.set_trial_system_attr(trial._trial_id, _GENERATION_KEY, generation)` with `generation = parent_generation + 1` -/
  generationWrite : Bool
deriving DecidableEq, Repr, Inhabited

/-- a cache round trip (WRITE then READ on the same trial list) under a discipline -/
def roundTripBy (w : WriteKind) (r : ReadKind) (trials parents : List GT) : Except Err (List GT) :=
  let stored : List Nat := match w with
    | .ids => parents.map (·.id)
    | .numbers => parents.map (·.number)
  match r with
  | .byIndex => (match readG trials stored with
    | some l => .ok l
    | none => .error .indexError)
  | .byIdLookup => lookupBy (·.id) trials stored
  | .byNumberLookup => lookupBy (·.number) trials stored

end OptunaVerif.GaIR
