import OptunaVerif.Model.Basic
/-
  Executable model of `optuna/samplers/_grid.py` (GridSampler: `before_trial`, `after_trial`,
  `_get_unvisited_grid_ids`) and of the sequential optimize loop that drives it.  Core Lean only.

  A grid of `n = len(self._all_grids)` cells; a cell is named by its `grid_id ∈ range(n)` (which
  parameter values a cell stands for is fixed by the shuffled `_all_grids` list and plays no role
  for the property).  Reading guide:
    t.system_attrs["grid_id"] (and same search space)   GTrial.gridId
    _get_unvisited_grid_ids                             unvisited
    before_trial                                        beforeTrial
    after_trial                                         afterTrial
    Study.ask (pops a WAITING trial first)              firstWaiting / runTrial
    _optimize_sequential / optimize / several calls     optimizeLoop / optimize / session
-/
namespace OptunaVerif.Grid

/-- what the sampler distinguishes in `t.state` -/
inductive TS where
  | running | finished | waiting
deriving DecidableEq, Repr

/-- A stored trial as `_get_unvisited_grid_ids` reads it: `gridId = some g` iff the trial has a
`grid_id` system attribute and its `search_space` attribute equals the sampler's. -/
structure GTrial where
  gridId : Option Nat
  state : TS
deriving DecidableEq, Repr

/-- `visited_grids` -/
def visitedIds (ts : List GTrial) : List Nat :=
  (ts.filter (fun t => t.state = .finished)).filterMap (·.gridId)

/-- `running_grids` -/
def runningIds (ts : List GTrial) : List Nat :=
  (ts.filter (fun t => t.state = .running)).filterMap (·.gridId)

/-- `_get_unvisited_grid_ids` as a function of the two id lists: `range(n) - visited - running`,
and when that is empty `range(n) - visited`.  (The Python value is `list(set)`; the model lists the
ids in increasing order, the harness compares as sets.) -/
def unvisitedOf (n : Nat) (visited running : List Nat) : List Nat :=
  let u := (List.range n).filter (fun g => !visited.contains g && !running.contains g)
  if u.isEmpty then (List.range n).filter (fun g => !visited.contains g) else u

def unvisited (n : Nat) (ts : List GTrial) : List Nat := unvisitedOf n (visitedIds ts) (runningIds ts)

/-- `rng.choice(target_grids)` for an arbitrary RNG (proposal taken if it is in the list). -/
def pick (target : List Nat) (proposal : Nat) : Nat :=
  if target.contains proposal then proposal else target.headD proposal

/-- `before_trial` of a fresh trial (no `grid_id`, no `fixed_params`) with number `number`; `ts` are
the stored trials (the fresh one has no grid id yet and does not count).  Returns the grid id and
whether the RNG was used. -/
def beforeTrial (n : Nat) (ts : List GTrial) (number : Nat) (proposal : Nat) : Nat × Bool :=
  if number < n then (number, false)
  else
    let target := unvisited n ts
    let target := if target.length = 0 then List.range n else target
    (pick target proposal, true)

/-- `after_trial`; `ts` are the stored trials with the current one still RUNNING, `cur` is
`system_attrs.get("grid_id")` of the current trial (`None` for an enqueued trial, which then simply
does not match the last target cell).  `true` = `study.stop()`. -/
def afterTrial (n : Nat) (ts : List GTrial) (cur : Option Nat) : Bool :=
  let target := unvisited n ts
  if target.length = 0 then true
  else if target.length = 1 then
    match cur with
    | none => false
    | some g => g == target.headD 0
  else false

/-! ## what the sampler reads from / writes to the storage (`search_space` / `grid_id` system attributes)

The definitions above see a stored trial through `GTrial.gridId` ("has a `grid_id` *and* its
`search_space` attribute equals the sampler's").  The definitions below spell that out: grid values,
`_grid_value_equal`, `_same_search_space`, the two attributes of a stored trial, the `KeyError` of
`t.system_attrs["search_space"]`, and the ORDER of the two attribute writes of `before_trial`.
(`Props/C14Gen.lean` proves the methods generated from the source equal to these.) -/

/-- A grid value (`GridValueType = Union[str, float, int, bool, None]`).  A NaN carries the identity
of its Python object (`nan 0` and `nan 1` are two NaN objects: `is` tells them apart, `==` is false for
both); a value read back from a serialising storage is a new object. -/
inductive GVal where
  | none | bool (b : Bool) | int (i : Int) | float (q : Rat) | inf (neg : Bool) | nan (obj : Nat)
  | str (s : String)
deriving DecidableEq, Repr, Inhabited

/-- the number a value denotes for `==` (`True == 1 == 1.0`) -/
def GVal.num? : GVal → Option Rat
  | .bool b => some (if b then 1 else 0)
  | .int i => some (i : Rat)
  | .float q => some q
  | _ => Option.none

/-- Python's `a == b` on grid values -/
def GVal.pyEq (a b : GVal) : Bool :=
  match a.num?, b.num? with
  | some x, some y => x == y
  | _, _ =>
    match a, b with
    | .none, .none => true
    | .inf x, .inf y => x == y
    | .str x, .str y => x == y
    | _, _ => false

/-- `isinstance(v, Real) and np.isnan(float(v))` -/
def GVal.isNaN : GVal → Bool
  | .nan _ => true
  | _ => false

/-- `GridSampler._grid_value_equal` -/
def gridValueEqual (a b : GVal) : Bool := a.pyEq b || (a.isNaN && b.isNaN)

/-- `search_space`: parameter name ↦ list of values (a dict: one entry per key) -/
abbrev Space := List (String × List GVal)

def sameKeySets (a b : List String) : Bool := a.all (fun x => b.contains x) && b.all (fun x => a.contains x)

/-- same length and `_grid_value_equal(theirs[i], mine[i])` for every `i` -/
def valuesEqual : List GVal → List GVal → Bool
  | [], [] => true
  | a :: as, b :: bs => gridValueEqual a b && valuesEqual as bs
  | _, _ => false

/-- `GridSampler._same_search_space(search_space)` with `self._search_space = mine` (both sides are looked
up by key, as the source does) -/
def entryEqual (mine other : Space) (k : String) : Bool :=
  match AList.get? other k, AList.get? mine k with
  | some vs, some ws => valuesEqual vs ws
  | _, _ => false

def sameSearchSpace (mine other : Space) : Bool :=
  sameKeySets (other.map (·.1)) (mine.map (·.1)) && other.all (fun kv => entryEqual mine other kv.1)

/-- A stored trial with the attributes the sampler reads. -/
structure RTrial where
  /-- `system_attrs.get("grid_id")` -/
  gridId : Option Nat
  /-- `system_attrs.get("search_space")` -/
  space : Option Space
  /-- `"fixed_params" in system_attrs` -/
  fixed : Bool
  state : TS
deriving DecidableEq, Repr

/-- how `_get_unvisited_grid_ids` sees a stored trial; `none` = `KeyError('search_space')` (a trial
with a grid id and no search space) -/
def RTrial.view (mine : Space) (t : RTrial) : Option GTrial :=
  match t.gridId with
  | Option.none => some ⟨Option.none, t.state⟩
  | some g =>
    match t.space with
    | Option.none => Option.none
    | some sp => some ⟨if sameSearchSpace mine sp then some g else Option.none, t.state⟩

def viewAll (mine : Space) : List RTrial → Option (List GTrial)
  | [] => some []
  | t :: rest =>
    match t.view mine with
    | Option.none => Option.none
    | some g => (viewAll mine rest).map (g :: ·)

/-- `_get_unvisited_grid_ids`; `none` = KeyError -/
def unvisitedR (mine : Space) (n : Nat) (ts : List RTrial) : Option (List Nat) :=
  (viewAll mine ts).map (unvisited n)

/-- one `study._storage.set_trial_system_attr(trial._trial_id, key, value)` of `before_trial` -/
inductive Write where
  | searchSpace            -- key "search_space", value `self._search_space`
  | gridId (g : Nat)       -- key "grid_id"
deriving DecidableEq, Repr

/-- `before_trial` for the trial `cur` (its attributes as in the frozen trial handed to the hook):
the attribute writes IN ORDER and whether the RNG was used; `none` = KeyError. -/
def beforeTrialR (mine : Space) (n : Nat) (ts : List RTrial) (cur : RTrial) (number : Nat)
    (proposal : Nat) : Option (List Write × Bool) :=
  if cur.gridId.isSome || cur.fixed then some ([], false)
  else if number < n then some ([.searchSpace, .gridId number], false)
  else
    match unvisitedR mine n ts with
    | Option.none => Option.none
    | some target =>
      let target := if target.length = 0 then List.range n else target
      some ([.searchSpace, .gridId (pick target proposal)], true)

/-- `after_trial`: `cur` = `get_trial_system_attrs(trial._trial_id).get("grid_id")`; `some true` =
`study.stop()`; `none` = KeyError -/
def afterTrialR (mine : Space) (n : Nat) (ts : List RTrial) (cur : Option Nat) : Option Bool :=
  match unvisitedR mine n ts with
  | Option.none => Option.none
  | some target =>
    if target.length = 0 then some true
    else if target.length = 1 then
      match cur with
      | Option.none => some false
      | some g => some (g == target.headD 0)
    else some false

/-- the stored form of an abstract trial under the sampler's own search space -/
def GTrial.store (mine : Space) (t : GTrial) : RTrial :=
  match t.gridId with
  | Option.none => ⟨Option.none, Option.none, false, t.state⟩
  | some g => ⟨some g, some mine, false, t.state⟩

/-- a state is safe when every trial with a grid id also has a search space -/
def attrsSafe (gridId : Bool) (space : Bool) : Bool := !gridId || space

/-- the attribute state of a fresh trial after a sequence of writes: (has grid_id, has search_space) -/
def afterWrites : List Write → Bool × Bool
  | [] => (false, false)
  | .searchSpace :: rest => ((afterWrites rest).1, true)
  | .gridId _ :: rest => (true, (afterWrites rest).2)

/-- every prefix of the write sequence (= every point at which the worker can die) leaves the trial
in a state `_get_unvisited_grid_ids` can read -/
def writesPrefixSafe (ws : List Write) : Bool :=
  (List.range (ws.length + 1)).all (fun k =>
    let s := afterWrites (ws.take k); attrsSafe s.1 s.2)

/-- index of the first WAITING trial (`Study.ask` pops it before creating a new trial) -/
def firstWaiting : List GTrial → Option Nat
  | [] => none
  | t :: rest => if t.state = .waiting then some 0 else (firstWaiting rest).map (· + 1)

def setState (ts : List GTrial) (i : Nat) (s : TS) : List GTrial :=
  updAt ts i (fun t => { t with state := s })

structure Ctx where
  /-- RNG proposals, by RNG call -/
  ω : Nat → Nat
  /-- does the objective of trial number `i` end with an exception that `optimize` re-raises
  (uncaught failure, KeyboardInterrupt)?  In every case the trial ends in a finished state. -/
  raises : Nat → Bool

structure St where
  trials : List GTrial := []
  stop : Bool := false
  calls : Nat := 0

/-- `_run_trial`.  The Boolean says whether an exception leaves `optimize`. -/
def runTrial (cx : Ctx) (n : Nat) (st : St) : St × Bool :=
  match firstWaiting st.trials with
  | some i =>
    -- an enqueued trial: `before_trial` returns at once (fixed_params), the objective runs with the
    -- fixed parameters, then `after_trial`
    let cur := (st.trials[i]?).bind (·.gridId)
    let ts1 := setState st.trials i .running
    let ts2 := setState st.trials i .finished
    ({ trials := ts2, stop := st.stop || afterTrial n ts1 cur, calls := st.calls }, cx.raises i)
  | none =>
    let j := st.trials.length
    let b := beforeTrial n st.trials j (cx.ω st.calls)
    let calls := if b.2 then st.calls + 1 else st.calls
    let ts1 := st.trials ++ [⟨some b.1, .running⟩]
    let ts2 := st.trials ++ [⟨some b.1, .finished⟩]
    ({ trials := ts2, stop := st.stop || afterTrial n ts1 (some b.1), calls := calls }, cx.raises j)

/-- the `while True` of `_optimize_sequential` with `n_trials = fuel` -/
def optimizeLoop (cx : Ctx) (n : Nat) : Nat → St → St
  | 0, st => st
  | k + 1, st =>
    if st.stop then st
    else
      let r := runTrial cx n st
      if r.2 then r.1 else optimizeLoop cx n k r.1

/-- `study.optimize(objective, n_trials=k)` (resets the stop flag first) -/
def optimize (cx : Ctx) (n : Nat) (k : Nat) (st : St) : St :=
  optimizeLoop cx n k { st with stop := false }

/-- several `optimize` calls; the user stops resuming once a call ended with the stop flag set -/
def session (cx : Ctx) (n : Nat) (ks : List Nat) (st : St) : St :=
  ks.foldl (fun st k => if st.stop then st else optimize cx n k st) st

end OptunaVerif.Grid
