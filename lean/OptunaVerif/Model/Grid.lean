import OptunaVerif.Model.Basic
/-
  Executable model of `optuna/samplers/_grid.py` (GridSampler: `before_trial`, `after_trial`,
  `_get_unvisited_grid_ids`) and of the sequential optimize loop that drives it.  Core Lean only.

  A grid of `n = len(self._all_grids)` cells; a cell is named by its `grid_id ∈ range(n)` (which
  parameter values a cell stands for is fixed by the shuffled `_all_grids` list and plays no role
  for the property).  Reading guide:
    t.system_attrs["grid_id"] (and same search space)   GTrial.gridId
    _get_unvisited_grid_ids                             unvisited
    before_trial                                        beforeTrial
    after_trial                                         afterTrial
    Study.ask (pops a WAITING trial first)              firstWaiting / runTrial
    _optimize_sequential / optimize / several calls     optimizeLoop / optimize / session
-/
namespace OptunaVerif.Grid

/-- what the sampler distinguishes in `t.state` -/
inductive TS where
  | running | finished | waiting
deriving DecidableEq, Repr

/-- A stored trial as `_get_unvisited_grid_ids` reads it: `gridId = some g` iff the trial has a
`grid_id` system attribute and its `search_space` attribute equals the sampler's. -/
structure GTrial where
  gridId : Option Nat
  state : TS
deriving DecidableEq, Repr

/-- `visited_grids` -/
def visitedIds (ts : List GTrial) : List Nat :=
  (ts.filter (fun t => t.state = .finished)).filterMap (·.gridId)

/-- `running_grids` -/
def runningIds (ts : List GTrial) : List Nat :=
  (ts.filter (fun t => t.state = .running)).filterMap (·.gridId)

/-- `_get_unvisited_grid_ids` as a function of the two id lists: `range(n) - visited - running`,
and when that is empty `range(n) - visited`.  (The Python value is `list(set)`; the model lists the
ids in increasing order, the harness compares as sets.) -/
def unvisitedOf (n : Nat) (visited running : List Nat) : List Nat :=
  let u := (List.range n).filter (fun g => !visited.contains g && !running.contains g)
  if u.isEmpty then (List.range n).filter (fun g => !visited.contains g) else u

def unvisited (n : Nat) (ts : List GTrial) : List Nat := unvisitedOf n (visitedIds ts) (runningIds ts)

/-- `rng.choice(target_grids)` for an arbitrary RNG (proposal taken if it is in the list). -/
def pick (target : List Nat) (proposal : Nat) : Nat :=
  if target.contains proposal then proposal else target.headD proposal

/-- `before_trial` of a fresh trial (no `grid_id`, no `fixed_params`) with number `number`; `ts` are
the stored trials (the fresh one has no grid id yet and does not count).  Returns the grid id and
whether the RNG was used. -/
def beforeTrial (n : Nat) (ts : List GTrial) (number : Nat) (proposal : Nat) : Nat × Bool :=
  if number < n then (number, false)
  else
    let target := unvisited n ts
    let target := if target.length = 0 then List.range n else target
    (pick target proposal, true)

/-- `after_trial`; `ts` are the stored trials with the current one still RUNNING, `cur` is
`system_attrs.get("grid_id")` of the current trial (`None` for an enqueued trial, which then simply
does not match the last target cell).  `true` = `study.stop()`. -/
def afterTrial (n : Nat) (ts : List GTrial) (cur : Option Nat) : Bool :=
  let target := unvisited n ts
  if target.length = 0 then true
  else if target.length = 1 then
    match cur with
    | none => false
    | some g => g == target.headD 0
  else false

/-- index of the first WAITING trial (`Study.ask` pops it before creating a new trial) -/
def firstWaiting : List GTrial → Option Nat
  | [] => none
  | t :: rest => if t.state = .waiting then some 0 else (firstWaiting rest).map (· + 1)

def setState (ts : List GTrial) (i : Nat) (s : TS) : List GTrial :=
  updAt ts i (fun t => { t with state := s })

structure Ctx where
  /-- RNG proposals, by RNG call -/
  ω : Nat → Nat
  /-- does the objective of trial number `i` end with an exception that `optimize` re-raises
  (uncaught failure, KeyboardInterrupt)?  In every case the trial ends in a finished state. -/
  raises : Nat → Bool

structure St where
  trials : List GTrial := []
  stop : Bool := false
  calls : Nat := 0

/-- `_run_trial`.  The Boolean says whether an exception leaves `optimize`. -/
def runTrial (cx : Ctx) (n : Nat) (st : St) : St × Bool :=
  match firstWaiting st.trials with
  | some i =>
    -- an enqueued trial: `before_trial` returns at once (fixed_params), the objective runs with the
    -- fixed parameters, then `after_trial`
    let cur := (st.trials[i]?).bind (·.gridId)
    let ts1 := setState st.trials i .running
    let ts2 := setState st.trials i .finished
    ({ trials := ts2, stop := st.stop || afterTrial n ts1 cur, calls := st.calls }, cx.raises i)
  | none =>
    let j := st.trials.length
    let b := beforeTrial n st.trials j (cx.ω st.calls)
    let calls := if b.2 then st.calls + 1 else st.calls
    let ts1 := st.trials ++ [⟨some b.1, .running⟩]
    let ts2 := st.trials ++ [⟨some b.1, .finished⟩]
    ({ trials := ts2, stop := st.stop || afterTrial n ts1 (some b.1), calls := calls }, cx.raises j)

/-- the `while True` of `_optimize_sequential` with `n_trials = fuel` -/
def optimizeLoop (cx : Ctx) (n : Nat) : Nat → St → St
  | 0, st => st
  | k + 1, st =>
    if st.stop then st
    else
      let r := runTrial cx n st
      if r.2 then r.1 else optimizeLoop cx n k r.1

/-- `study.optimize(objective, n_trials=k)` (resets the stop flag first) -/
def optimize (cx : Ctx) (n : Nat) (k : Nat) (st : St) : St :=
  optimizeLoop cx n k { st with stop := false }

/-- several `optimize` calls; the user stops resuming once a call ended with the stop flag set -/
def session (cx : Ctx) (n : Nat) (ks : List Nat) (st : St) : St :=
  ks.foldl (fun st k => if st.stop then st else optimize cx n k st) st

end OptunaVerif.Grid
