import OptunaVerif.Model.Proto
/-!
  T-grpc2 (C01): the statement / expression IR of the gRPC layer and its interpreter.

  `verif/translators/tgrpc2.py` reads, on every run, every rpc method of `OptunaStorageProxyService`
  (optuna/storages/_grpc/servicer.py), every method of `GrpcStorageProxy` (optuna/storages/_grpc/client.py), the
  wire half of `GrpcClientCache._read_trials_from_remote_storage`, the four `BaseStorage` defaults that run in the
  client, and the converter functions `_to_proto_trial_state` / `_from_proto_trial_state` / `_to_proto_trial` /
  `_from_proto_trial`, and writes them as DATA of the types below (`Generated/GrpcMethods.lean`).  This file is the
  one interpreter of that data (core Lean only).  `Props/C01GrpcGen.lean` proves, for all backend states and all
  arguments, that interpreting the generated data gives the hand model of the wire (`Model/Proto.lean`).

  What the IR keeps: every assignment, every request-field read, every argument of the ONE backend / stub call in
  its position, the `try`, every `except` clause with its class and what it does (`context.abort` with which status
  code, `raise C from e`, bare `raise`), the `if e.code() == …` chain, `assert`, the reply / request constructor
  with every keyword, conditional expressions, `or`, comprehensions.

  Primitives with stated laws (trusted, C11's or the codec's): `json.dumps` / `json.loads` on attribute payloads,
  `distribution_to_json` / `json_to_distribution` (the token is the canonical text; identity here),
  `to_internal_repr` / `to_external_repr` (the token is the internal representation; identity here),
  `strftime` / `strptime` with DATETIME_FORMAT (the contract only knows present / absent), `list`, `set`, `str`,
  `uuid.uuid4()` (the text is a parameter), `copy.deepcopy` (identity on values).  Python's `TypeError` /
  `AttributeError` / `NameError` / `AssertionError` are one coarse class (`Exc.exception`): no clause of either
  ladder catches them.
-/
namespace OptunaVerif.GrpcIR
open OptunaVerif OptunaVerif.Storage OptunaVerif.Proto OptunaVerif.Generated
open OptunaVerif.Generated.GrpcTables (Exc Status Rpc)

/-- field names of api.proto messages and attribute names of `FrozenTrial` / `FrozenStudy` (`p_x` = `_x`) -/
inductive Fld where
  | study_id | study_name | directions | key | value | user_attributes | system_attributes | studies
  | trial_id | template_trial | template_trial_is_none | param_name | param_value_internal | distribution
  | trial_number | state | values | step | intermediate_value | trial_updated | trial | trials
  | included_trial_ids | trial_id_greater_than | number | datetime_start | datetime_complete | params
  | distributions | intermediate_values
  | p_trial_id | p_study_id | user_attrs | system_attrs | direction
  | unfinished_trial_ids | last_finished_trial_id
deriving DecidableEq, Repr, Inhabited

/-- the `BaseStorage` methods -/
inductive BM where
  | create_new_study | delete_study | set_study_user_attr | set_study_system_attr | get_study_id_from_name
  | get_study_name_from_id | get_study_directions | get_study_user_attrs | get_study_system_attrs | get_all_studies
  | create_new_trial | set_trial_param | get_trial_id_from_study_id_trial_number | set_trial_state_values
  | set_trial_intermediate_value | set_trial_user_attr | set_trial_system_attr | get_trial | get_all_trials
deriving DecidableEq, Repr, Inhabited

/-- constructors called with keywords -/
inductive Msg where
  | request (rpc : Rpc)
  | reply (rpc : Rpc)
  /-- `api_pb2.Study` -/
  | study
  /-- `api_pb2.Trial` -/
  | trial
  | frozenStudy
  | frozenTrial
deriving DecidableEq, Repr, Inhabited

/-- named primitive functions -/
inductive Fn where
  | jsonLoads | jsonDumps | jsonToDistribution | distributionToJson
  | list_ | set_ | str_ | len_
  | toProtoTrial | fromProtoTrial | toProtoTrialState | fromProtoTrialState
  /-- `X.strftime(DATETIME_FORMAT)` / `datetime.strptime(X, DATETIME_FORMAT)` -/
  | strftime | strptime
deriving DecidableEq, Repr, Inhabited

mutual
inductive Expr where
  | none | tt | ff
  | nat (n : Nat)
  | str (s : String)
  /-- `TrialState.<X>` by its value -/
  | tstate (code : Nat)
  | var (x : String)
  /-- `e.f` -/
  | attr (e : Expr) (f : Fld)
  | call1 (f : Fn) (a : Expr)
  /-- `str(uuid.uuid4())` -/
  | uuid4
  /-- `a if c else b` -/
  | ifElse (c a b : Expr)
  /-- `a or b` -/
  | orElse (a b : Expr)
  | not_ (e : Expr)
  | isNone (e : Expr)
  | eq (a b : Expr)
  | gt (a b : Expr)
  | in_ (a b : Expr)
  | or_ (a b : Expr)
  | concat (a b : Expr)
  /-- `[th if d == test else el for d in src]` over enum numbers -/
  | mapDirs (test th el : Nat) (src : Expr)
  /-- `[body for x in src]` -/
  | listComp (x : String) (src body : Expr)
  /-- `[body for x in src if cond]` -/
  | listCompIf (x : String) (src body cond : Expr)
  /-- `{k: f(v) for k, v in src.items()}` -/
  | dictComp (f : Fn) (src : Expr)
  /-- `{k: v for k, v in src.items()}` -/
  | dictCopy (src : Expr)
  /-- `params = {}; for key, value in src.items(): params[key] = dists[key].to_internal_repr(value)` -/
  | internalParams (src dists : Expr)
  /-- `params = {}; for key, value in src.items(): params[key] = dists[key].to_external_repr(value)` -/
  | externalParams (src dists : Expr)
  | msg (m : Msg) (fs : Fields)
inductive Fields where
  | nil
  | cons (f : Fld) (e : Expr) (rest : Fields)
end

/-- runtime values -/
inductive Val where
  | none
  | bool (b : Bool)
  | nat (n : Nat)
  | int (i : Int)
  | str (s : String)
  | xval (x : XVal)
  | xvals (l : List XVal)
  | nats (l : List Nat)
  | dist (d : Dist)
  | state (t : TState)
  | attrs (m : AList String)
  | inter (l : List (Int × XVal))
  /-- external parameter values, each with its distribution (`FrozenTrial.params` + `.distributions`) -/
  | params (l : AList Param)
  | dists (l : AList Dist)
  | internals (l : AList String)
  /-- a `datetime` (present) -/
  | dt
  | frozen (f : Frozen)
  | frozens (l : List Frozen)
  | ptrial (p : PTrial)
  | ptrials (l : List PTrial)
  | study (p : Nat × StudyS)
  | studies (l : List (Nat × StudyS))
  | pstudy (p : PStudy)
  | pstudies (l : List PStudy)
  | req (r : Req)
  | reply (r : Reply)
  /-- `Container[TrialState]` -/
  | states (l : List TState)
  /-- a `GrpcClientCacheEntry` as far as a request reads it -/
  | entry (unfinished : List Nat) (last : Int)
deriving Repr, Inhabited

/-- what propagates -/
inductive Exn where
  | exc (c : Exc)
  /-- `grpc.RpcError` with its status code -/
  | rpc (code : Status)
deriving DecidableEq, Repr, Inhabited

abbrev Env := List (String × Val)

def Env.get : Env → String → Option Val
  | [], _ => Option.none
  | (k, v) :: t, x => bif k == x then some v else Env.get t x

def Env.set (env : Env) (x : String) (v : Val) : Env := (x, v) :: env

/-- the denotations of what a method calls -/
structure Ctx where
  /-- the contract's `implRaised` oracle bit of the backend (U1) -/
  ir : Bool
  /-- the text `uuid.uuid4()` produces -/
  uuid : String
  toProtoTrial : Frozen → Option PTrial
  fromProtoTrial : PTrial → Except Err Frozen
  toProtoState : TState → Option Nat
  fromProtoState : Nat → Option TState
  /-- what a stub call reaches -/
  serve : Spec → Bool → Req → Spec × Resp
  /-- `GrpcClientCache._read_trials_from_remote_storage` on an entry that was just created: the decoded trials it adds -/
  readTrials : Spec → Nat → Spec × Except Exn (List Frozen)

def typeError : Except Exn Val := .error (.exc .exception)

def truthy : Val → Bool
  | .none => false
  | .bool b => b
  | .nat n => n != 0
  | .int i => i != 0
  | .str s => s != ""
  | .xvals l => !l.isEmpty
  | .nats l => !l.isEmpty
  | .attrs l => !l.isEmpty
  | .inter l => !l.isEmpty
  | .params l => !l.isEmpty
  | .dists l => !l.isEmpty
  | .internals l => !l.isEmpty
  | .frozens l => !l.isEmpty
  | .ptrials l => !l.isEmpty
  | .studies l => !l.isEmpty
  | .pstudies l => !l.isEmpty
  | _ => true

/-! ### reading fields -/

def reqField : Req → Fld → Option Val
  | .createNewStudy dirs _, .directions => some (.nats dirs)
  | .createNewStudy _ name, .study_name => some (.str name)
  | .deleteStudy sid, .study_id => some (.nat sid)
  | .setStudyUserAttribute sid _ _, .study_id => some (.nat sid)
  | .setStudyUserAttribute _ k _, .key => some (.str k)
  | .setStudyUserAttribute _ _ v, .value => some (.str v)
  | .setStudySystemAttribute sid _ _, .study_id => some (.nat sid)
  | .setStudySystemAttribute _ k _, .key => some (.str k)
  | .setStudySystemAttribute _ _ v, .value => some (.str v)
  | .getStudyIdFromName name, .study_name => some (.str name)
  | .getStudyNameFromId sid, .study_id => some (.nat sid)
  | .getStudyDirections sid, .study_id => some (.nat sid)
  | .getStudyUserAttributes sid, .study_id => some (.nat sid)
  | .getStudySystemAttributes sid, .study_id => some (.nat sid)
  | .createNewTrial sid _ _, .study_id => some (.nat sid)
  | .createNewTrial _ pt _, .template_trial => some (.ptrial pt)
  | .createNewTrial _ _ b, .template_trial_is_none => some (.bool b)
  | .setTrialParameter tid _ _ _, .trial_id => some (.nat tid)
  | .setTrialParameter _ n _ _, .param_name => some (.str n)
  | .setTrialParameter _ _ i _, .param_value_internal => some (.str i)
  | .setTrialParameter _ _ _ d, .distribution => some (.dist d)
  | .getTrialIdFromStudyIdTrialNumber sid _, .study_id => some (.nat sid)
  | .getTrialIdFromStudyIdTrialNumber _ n, .trial_number => some (.nat n)
  | .setTrialStateValues tid _ _, .trial_id => some (.nat tid)
  | .setTrialStateValues _ st _, .state => some (.nat st)
  | .setTrialStateValues _ _ vs, .values => some (.xvals vs)
  | .setTrialIntermediateValue tid _ _, .trial_id => some (.nat tid)
  | .setTrialIntermediateValue _ stp _, .step => some (.int stp)
  | .setTrialIntermediateValue _ _ v, .intermediate_value => some (.xval v)
  | .setTrialUserAttribute tid _ _, .trial_id => some (.nat tid)
  | .setTrialUserAttribute _ k _, .key => some (.str k)
  | .setTrialUserAttribute _ _ v, .value => some (.str v)
  | .setTrialSystemAttribute tid _ _, .trial_id => some (.nat tid)
  | .setTrialSystemAttribute _ k _, .key => some (.str k)
  | .setTrialSystemAttribute _ _ v, .value => some (.str v)
  | .getTrial tid, .trial_id => some (.nat tid)
  | .getTrials sid _ _, .study_id => some (.nat sid)
  | .getTrials _ inc _, .included_trial_ids => some (.nats inc)
  | .getTrials _ _ w, .trial_id_greater_than => some (.int w)
  | _, _ => Option.none

def replyField : Reply → Fld → Option Val
  | .studyId n, .study_id => some (.nat n)
  | .studyName s, .study_name => some (.str s)
  | .directions l, .directions => some (.nats l)
  | .attrs m, .user_attributes => some (.attrs m)
  | .attrs m, .system_attributes => some (.attrs m)
  | .studies l, .studies => some (.pstudies l)
  | .trialId n, .trial_id => some (.nat n)
  | .trialUpdated b, .trial_updated => some (.bool b)
  | .trial t, .trial => some (.ptrial t)
  | .trials l, .trials => some (.ptrials l)
  | _, _ => Option.none

def frozenField (f : Frozen) : Fld → Option Val
  | .p_trial_id => some (.int f.id)
  | .number => some (.int f.number)
  | .state => some (.state f.body.state)
  | .values => some (match f.body.values with | Option.none => .none | some l => .xvals l)
  | .datetime_start => some (if f.body.hasStart then .dt else .none)
  | .datetime_complete => some (if f.body.hasComplete then .dt else .none)
  | .params => some (.params f.body.params)
  | .distributions => some (.dists (f.body.params.map (fun p => (p.1, p.2.dist))))
  | .user_attrs => some (.attrs f.body.userAttrs)
  | .system_attrs => some (.attrs f.body.systemAttrs)
  | .intermediate_values => some (.inter f.body.inter)
  | _ => Option.none

def ptrialField (p : PTrial) : Fld → Option Val
  | .trial_id => some (.int p.trialId)
  | .number => some (.int p.number)
  | .state => some (.nat p.state)
  | .values => some (.xvals p.values)
  | .datetime_start => some (.str p.datetimeStart)
  | .datetime_complete => some (.str p.datetimeComplete)
  | .params => some (.internals p.params)
  | .distributions => some (.dists p.distributions)
  | .user_attributes => some (.attrs p.userAttributes)
  | .system_attributes => some (.attrs p.systemAttributes)
  | .intermediate_values => some (.inter p.intermediateValues)
  | _ => Option.none

def studyField (p : Nat × StudyS) : Fld → Option Val
  | .p_study_id => some (.nat p.1)
  | .study_name => some (.str p.2.name)
  | .directions => some (.nats p.2.directions)
  | .user_attrs => some (.attrs p.2.userAttrs)
  | .system_attrs => some (.attrs p.2.systemAttrs)
  | _ => Option.none

def pstudyField (p : PStudy) : Fld → Option Val
  | .study_id => some (.nat p.studyId)
  | .study_name => some (.str p.studyName)
  | .directions => some (.nats p.directions)
  | .user_attributes => some (.attrs p.userAttributes)
  | .system_attributes => some (.attrs p.systemAttributes)
  | _ => Option.none

def getField : Val → Fld → Option Val
  | .req r, f => reqField r f
  | .reply r, f => replyField r f
  | .frozen x, f => frozenField x f
  | .ptrial x, f => ptrialField x f
  | .study x, f => studyField x f
  | .pstudy x, f => pstudyField x f
  | .entry u _, .unfinished_trial_ids => some (.nats u)
  | .entry _ l, .last_finished_trial_id => some (.int l)
  | _, _ => Option.none

/-! ### building messages (a keyword that is absent is the proto default) -/

abbrev KV := List (Fld × Val)

def KV.get : KV → Fld → Option Val
  | [], _ => Option.none
  | (k, v) :: t, f => if k = f then some v else KV.get t f

def kNat (fs : KV) (f : Fld) : Option Nat :=
  match fs.get f with | Option.none => some 0 | some (.nat n) => some n | _ => Option.none
def kInt (fs : KV) (f : Fld) : Option Int :=
  match fs.get f with | Option.none => some 0 | some (.int i) => some i | some (.nat n) => some n | _ => Option.none
def kStr (fs : KV) (f : Fld) : Option String :=
  match fs.get f with | Option.none => some "" | some (.str s) => some s | _ => Option.none
def kBool (fs : KV) (f : Fld) : Option Bool :=
  match fs.get f with | Option.none => some false | some (.bool b) => some b | _ => Option.none
def kNats (fs : KV) (f : Fld) : Option (List Nat) :=
  match fs.get f with | Option.none => some [] | some (.nats l) => some l | _ => Option.none
/-- `repeated double`: `None` and `[]` are both the empty field -/
def kXvals (fs : KV) (f : Fld) : Option (List XVal) :=
  match fs.get f with | Option.none => some [] | some .none => some [] | some (.xvals l) => some l | _ => Option.none
def kXval (fs : KV) (f : Fld) : Option XVal :=
  match fs.get f with | some (.xval x) => some x | _ => Option.none
def kDist (fs : KV) (f : Fld) : Option Dist :=
  match fs.get f with | some (.dist d) => some d | _ => Option.none
/-- `map<string, string>` from a dict -/
def kAttrs (fs : KV) (f : Fld) : Option (AList String) :=
  match fs.get f with | Option.none => some [] | some (.attrs m) => some (smap m) | _ => Option.none
def kInternals (fs : KV) (f : Fld) : Option (AList String) :=
  match fs.get f with | Option.none => some [] | some (.internals m) => some (smap m) | _ => Option.none
def kDists (fs : KV) (f : Fld) : Option (AList Dist) :=
  match fs.get f with | Option.none => some [] | some (.dists m) => some (smap m) | _ => Option.none
def kInter (fs : KV) (f : Fld) : Option (List (Int × XVal)) :=
  match fs.get f with | Option.none => some [] | some (.inter m) => some (imap m) | _ => Option.none
def kPTrial (fs : KV) (f : Fld) : Option PTrial :=
  match fs.get f with | Option.none => some PTrial.empty | some (.ptrial p) => some p | _ => Option.none
def kPTrials (fs : KV) (f : Fld) : Option (List PTrial) :=
  match fs.get f with | Option.none => some [] | some (.ptrials p) => some p | _ => Option.none
def kPStudies (fs : KV) (f : Fld) : Option (List PStudy) :=
  match fs.get f with | Option.none => some [] | some (.pstudies p) => some p | _ => Option.none

def mkRequest (fs : KV) : Rpc → Option Req
  | .createNewStudy => do some (.createNewStudy (← kNats fs .directions) (← kStr fs .study_name))
  | .deleteStudy => do some (.deleteStudy (← kNat fs .study_id))
  | .setStudyUserAttribute => do some (.setStudyUserAttribute (← kNat fs .study_id) (← kStr fs .key) (← kStr fs .value))
  | .setStudySystemAttribute => do some (.setStudySystemAttribute (← kNat fs .study_id) (← kStr fs .key) (← kStr fs .value))
  | .getStudyIdFromName => do some (.getStudyIdFromName (← kStr fs .study_name))
  | .getStudyNameFromId => do some (.getStudyNameFromId (← kNat fs .study_id))
  | .getStudyDirections => do some (.getStudyDirections (← kNat fs .study_id))
  | .getStudyUserAttributes => do some (.getStudyUserAttributes (← kNat fs .study_id))
  | .getStudySystemAttributes => do some (.getStudySystemAttributes (← kNat fs .study_id))
  | .getAllStudies => some .getAllStudies
  | .createNewTrial => do
    some (.createNewTrial (← kNat fs .study_id) (← kPTrial fs .template_trial) (← kBool fs .template_trial_is_none))
  | .setTrialParameter => do
    some (.setTrialParameter (← kNat fs .trial_id) (← kStr fs .param_name) (← kStr fs .param_value_internal) (← kDist fs .distribution))
  | .getTrialIdFromStudyIdTrialNumber => do
    some (.getTrialIdFromStudyIdTrialNumber (← kNat fs .study_id) (← kNat fs .trial_number))
  | .setTrialStateValues => do some (.setTrialStateValues (← kNat fs .trial_id) (← kNat fs .state) (← kXvals fs .values))
  | .setTrialIntermediateValue => do
    some (.setTrialIntermediateValue (← kNat fs .trial_id) (← kInt fs .step) (← kXval fs .intermediate_value))
  | .setTrialUserAttribute => do some (.setTrialUserAttribute (← kNat fs .trial_id) (← kStr fs .key) (← kStr fs .value))
  | .setTrialSystemAttribute => do some (.setTrialSystemAttribute (← kNat fs .trial_id) (← kStr fs .key) (← kStr fs .value))
  | .getTrial => do some (.getTrial (← kNat fs .trial_id))
  | .getTrials => do some (.getTrials (← kNat fs .study_id) (← kNats fs .included_trial_ids) (← kInt fs .trial_id_greater_than))

def mkReply (fs : KV) : Rpc → Option Reply
  | .createNewStudy => do some (.studyId (← kNat fs .study_id))
  | .getStudyIdFromName => do some (.studyId (← kNat fs .study_id))
  | .getStudyNameFromId => do some (.studyName (← kStr fs .study_name))
  | .getStudyDirections => do some (.directions (← kNats fs .directions))
  | .getStudyUserAttributes => do some (.attrs (← kAttrs fs .user_attributes))
  | .getStudySystemAttributes => do some (.attrs (← kAttrs fs .system_attributes))
  | .getAllStudies => do some (.studies (← kPStudies fs .studies))
  | .createNewTrial => do some (.trialId (← kNat fs .trial_id))
  | .getTrialIdFromStudyIdTrialNumber => do some (.trialId (← kNat fs .trial_id))
  | .setTrialStateValues => do some (.trialUpdated (← kBool fs .trial_updated))
  | .getTrial => do some (.trial (← kPTrial fs .trial))
  | .getTrials => do some (.trials (← kPTrials fs .trials))
  | _ => some .empty

def mkPStudy (fs : KV) : Option PStudy := do
  some { studyId := ← kNat fs .study_id, studyName := ← kStr fs .study_name, directions := ← kNats fs .directions,
         userAttributes := ← kAttrs fs .user_attributes, systemAttributes := ← kAttrs fs .system_attributes }

/-- `FrozenStudy(study_name=…, direction=None, directions=…, user_attrs=…, system_attrs=…, study_id=…)` -/
def mkStudy (fs : KV) : Option (Nat × StudyS) :=
  match fs.get .study_id, fs.get .study_name, fs.get .directions, fs.get .user_attrs, fs.get .system_attrs, fs.get .direction with
  | some (.nat i), some (.str n), some (.nats d), some (.attrs u), some (.attrs y), some .none =>
    some (i, { name := n, directions := d, userAttrs := u, systemAttrs := y, paramDist := [] })
  | _, _, _, _, _, _ => Option.none

def mkPTrial (fs : KV) : Option PTrial := do
  some { trialId := ← kInt fs .trial_id, number := ← kInt fs .number, state := ← kNat fs .state, values := ← kXvals fs .values,
         datetimeStart := ← kStr fs .datetime_start, datetimeComplete := ← kStr fs .datetime_complete,
         params := ← kInternals fs .params, distributions := ← kDists fs .distributions,
         userAttributes := ← kAttrs fs .user_attributes, systemAttributes := ← kAttrs fs .system_attributes,
         intermediateValues := ← kInter fs .intermediate_values }

def optValues : Val → Option (Option (List XVal))
  | .none => some Option.none
  | .xvals l => some (some l)
  | _ => Option.none

def optDt : Val → Option Bool
  | .none => some false
  | .dt => some true
  | _ => Option.none

/-- `FrozenTrial(trial_id=…, number=…, state=…, value=None, values=…, datetime_start=…, datetime_complete=…, params=…,
distributions=…, user_attrs=…, system_attrs=…, intermediate_values=…)`; `distributions` must be the ones `params` was
built with -/
def mkFrozen (fs : KV) : Option Frozen :=
  match fs.get .trial_id, fs.get .number, fs.get .state, fs.get .value, fs.get .params, fs.get .distributions,
        fs.get .user_attrs, fs.get .system_attrs, fs.get .intermediate_values with
  | some (.int i), some (.int n), some (.state st), some .none, some (.params ps), some (.dists _), some (.attrs u), some (.attrs y),
    some (.inter it) =>
    match (fs.get .values).bind optValues, (fs.get .datetime_start).bind optDt, (fs.get .datetime_complete).bind optDt with
    | some vs, some a, some b =>
      some { id := i, number := n, body := { state := st, values := vs, params := ps, userAttrs := u, systemAttrs := y, inter := it,
                                              hasStart := a, hasComplete := b } }
    | _, _, _ => Option.none
  | _, _, _, _, _, _, _, _, _ => Option.none

def mkMsg (fs : KV) : Msg → Option Val
  | .request rpc => (mkRequest fs rpc).map .req
  | .reply rpc => (mkReply fs rpc).map .reply
  | .study => (mkPStudy fs).map .pstudy
  | .trial => (mkPTrial fs).map .ptrial
  | .frozenStudy => (mkStudy fs).map .study
  | .frozenTrial => (mkFrozen fs).map .frozen

/-! ### primitive functions -/

def excOf (e : Err) : Exn := .exc (excOfErr e)

def applyFn (c : Ctx) : Fn → Val → Except Exn Val
  | .jsonLoads, .str s => .ok (.str s)
  | .jsonDumps, .str s => .ok (.str s)
  | .jsonToDistribution, .dist d => .ok (.dist d)
  | .distributionToJson, .dist d => .ok (.dist d)
  | .list_, v => .ok v
  | .set_, v => .ok v
  | .str_, .str s => .ok (.str s)
  | .len_, .frozens l => .ok (.nat l.length)
  | .len_, .nats l => .ok (.nat l.length)
  | .strftime, .dt => .ok (.str dtText)
  | .strptime, .str s => if s == "" then .error (.exc .valueError) else .ok .dt
  | .toProtoTrial, .frozen f =>
    match c.toProtoTrial f with | some p => .ok (.ptrial p) | Option.none => .error (.exc .valueError)
  | .fromProtoTrial, .ptrial p =>
    match c.fromProtoTrial p with | .ok f => .ok (.frozen f) | .error e => .error (excOf e)
  | .toProtoTrialState, .state t =>
    match c.toProtoState t with | some n => .ok (.nat n) | Option.none => .error (.exc .valueError)
  | .fromProtoTrialState, .nat n =>
    match c.fromProtoState n with | some t => .ok (.state t) | Option.none => .error (.exc .valueError)
  | _, _ => typeError

def mapAll {α β : Type} (f : α → Option β) : List α → Option (List β)
  | [] => some []
  | a :: t => match f a, mapAll f t with | some b, some r => some (b :: r) | _, _ => Option.none

def mapAllE {α β : Type} (f : α → Except Exn β) : List α → Except Exn (List β)
  | [] => .ok []
  | a :: t => match f a with
    | .error e => .error e
    | .ok b => match mapAllE f t with | .error e => .error e | .ok r => .ok (b :: r)

def filterE {α : Type} (f : α → Except Exn Bool) : List α → Except Exn (List α)
  | [] => .ok []
  | a :: t => match f a with
    | .error e => .error e
    | .ok b => match filterE f t with | .error e => .error e | .ok r => .ok (if b then a :: r else r)

/-- the element values of something iterable, and how to collect results of the same length -/
def elems : Val → Option (List Val)
  | .studies l => some (l.map .study)
  | .pstudies l => some (l.map .pstudy)
  | .frozens l => some (l.map .frozen)
  | .ptrials l => some (l.map .ptrial)
  | _ => Option.none

def asPStudy : Val → Option PStudy | .pstudy p => some p | _ => Option.none
def asStudy : Val → Option (Nat × StudyS) | .study p => some p | _ => Option.none
def asPTrial : Val → Option PTrial | .ptrial p => some p | _ => Option.none
def asFrozen : Val → Option Frozen | .frozen p => some p | _ => Option.none

/-- a list display of record values (a comprehension's result): by the kind of the source -/
def collect (src : Val) (out : List Val) : Option Val :=
  match src with
  | .studies _ => (mapAll asPStudy out).map .pstudies
  | .pstudies _ => (mapAll asStudy out).map .studies
  | .frozens _ => (mapAll asPTrial out).map .ptrials
  | .ptrials _ => (mapAll asFrozen out).map .frozens
  | _ => Option.none

def filterSrc (src : Val) (keep : List Bool) : Val :=
  let sel {α : Type} (l : List α) : List α := (l.zip keep).filterMap (fun p => if p.2 then some p.1 else Option.none)
  match src with
  | .studies l => .studies (sel l)
  | .pstudies l => .pstudies (sel l)
  | .frozens l => .frozens (sel l)
  | .ptrials l => .ptrials (sel l)
  | v => v

def lookupD (ds : AList Dist) (k : String) : Option Dist := Proto.lookup ds k

mutual
def eval (c : Ctx) (env : Env) : Expr → Except Exn Val
  | .none => .ok .none
  | .tt => .ok (.bool true)
  | .ff => .ok (.bool false)
  | .nat n => .ok (.nat n)
  | .str s => .ok (.str s)
  | .tstate n => match TState.ofCode? n with | some t => .ok (.state t) | Option.none => typeError
  | .var x => match env.get x with | some v => .ok v | Option.none => typeError
  | .attr e f =>
    match eval c env e with
    | .error x => .error x
    | .ok v => match getField v f with | some r => .ok r | Option.none => typeError
  | .call1 f a =>
    match eval c env a with
    | .error x => .error x
    | .ok v => applyFn c f v
  | .uuid4 => .ok (.str c.uuid)
  | .ifElse cnd a b =>
    match eval c env cnd with
    | .error x => .error x
    | .ok v => if truthy v then eval c env a else eval c env b
  | .orElse a b =>
    match eval c env a with
    | .error x => .error x
    | .ok v => if truthy v then .ok v else eval c env b
  | .not_ e =>
    match eval c env e with
    | .error x => .error x
    | .ok v => .ok (.bool (!truthy v))
  | .isNone e =>
    match eval c env e with
    | .error x => .error x
    | .ok .none => .ok (.bool true)
    | .ok _ => .ok (.bool false)
  | .eq a b =>
    match eval c env a, eval c env b with
    | .ok (.nat x), .ok (.nat y) => .ok (.bool (x == y))
    | .ok (.state x), .ok (.state y) => .ok (.bool (x.code == y.code))
    | .error x, _ => .error x
    | _, .error x => .error x
    | _, _ => typeError
  | .gt a b =>
    match eval c env a, eval c env b with
    | .ok (.int x), .ok (.int y) => .ok (.bool (decide (x > y)))
    | .error x, _ => .error x
    | _, .error x => .error x
    | _, _ => typeError
  | .in_ a b =>
    match eval c env a, eval c env b with
    | .ok (.int x), .ok (.nats l) => .ok (.bool (decide (0 ≤ x) && l.contains x.toNat))
    | .error x, _ => .error x
    | _, .error x => .error x
    | _, _ => typeError
  | .or_ a b =>
    match eval c env a with
    | .error x => .error x
    | .ok v => if truthy v then .ok v else eval c env b
  | .concat a b =>
    match eval c env a, eval c env b with
    | .ok (.str x), .ok (.str y) => .ok (.str (x ++ y))
    | .error x, _ => .error x
    | _, .error x => .error x
    | _, _ => typeError
  | .mapDirs test th el src =>
    match eval c env src with
    | .error x => .error x
    | .ok (.nats l) => .ok (.nats (l.map (fun d => if d = test then th else el)))
    | .ok _ => typeError
  | .listComp x src body =>
    match eval c env src with
    | .error e => .error e
    | .ok sv =>
      match elems sv with
      | Option.none => typeError
      | some vs =>
        match mapAllE (fun v => eval c (env.set x v) body) vs with
        | .error e => .error e
        | .ok out => match collect sv out with | some r => .ok r | Option.none => typeError
  | .listCompIf x src body cond =>
    match eval c env src with
    | .error e => .error e
    | .ok sv =>
      match elems sv with
      | Option.none => typeError
      | some vs =>
        match filterE (fun v => match eval c (env.set x v) cond with | .error e => .error e | .ok b => .ok (truthy b)) vs with
        | .error e => .error e
        | .ok kept =>
          match mapAllE (fun v => eval c (env.set x v) body) kept with
          | .error e => .error e
          | .ok out => match collect sv out with | some r => .ok r | Option.none => typeError
  | .dictComp f src =>
    match eval c env src with
    | .error x => .error x
    | .ok (.attrs m) => match f with | .jsonDumps => .ok (.attrs m) | .jsonLoads => .ok (.attrs m) | _ => typeError
    | .ok (.dists m) => match f with | .distributionToJson => .ok (.dists m) | .jsonToDistribution => .ok (.dists m) | _ => typeError
    | .ok _ => typeError
  | .dictCopy src =>
    match eval c env src with
    | .error x => .error x
    | .ok (.inter m) => .ok (.inter m)
    | .ok _ => typeError
  | .internalParams src dists =>
    match eval c env src, eval c env dists with
    | .ok (.params ps), .ok (.dists ds) =>
      -- `dists[key]` must exist for every key (`KeyError` otherwise); the value handed over is the internal token
      if ps.all (fun p => (lookupD ds p.1).isSome) then .ok (.internals (ps.map (fun p => (p.1, p.2.internal))))
      else .error (.exc .keyError)
    | .error x, _ => .error x
    | _, .error x => .error x
    | _, _ => typeError
  | .externalParams src dists =>
    match eval c env src, eval c env dists with
    | .ok (.internals ps), .ok (.dists ds) =>
      match joinParams ds ps with
      | some r => .ok (.params r)
      | Option.none => .error (.exc .keyError)
    | .error x, _ => .error x
    | _, .error x => .error x
    | _, _ => typeError
  | .msg m fs =>
    match evalFields c env fs with
    | .error x => .error x
    | .ok kv => match mkMsg kv m with | some v => .ok v | Option.none => typeError
def evalFields (c : Ctx) (env : Env) : Fields → Except Exn KV
  | .nil => .ok []
  | .cons f e rest =>
    match eval c env e with
    | .error x => .error x
    | .ok v => match evalFields c env rest with | .error x => .error x | .ok r => .ok ((f, v) :: r)
end

def evalList (c : Ctx) (env : Env) : List Expr → Except Exn (List Val)
  | [] => .ok []
  | e :: t =>
    match eval c env e with
    | .error x => .error x
    | .ok v => match evalList c env t with | .error x => .error x | .ok r => .ok (v :: r)

/-! ### statements -/

inductive Stmt where
  | skip
  | seq (a b : Stmt)
  | assign (x : String) (e : Expr)
  | ite (c : Expr) (a b : Stmt)
  | assert (c : Expr)
  /-- `[x =] self._backend.<m>(args)` -/
  | backend (m : BM) (args : List Expr) (into : Option String)
  /-- `[x =] self._stub.<Rpc>(req)` / `self.grpc_client.<Rpc>(req)` -/
  | stub (rpc : Rpc) (req : Expr) (into : Option String)
  /-- client cache bookkeeping that does not touch the wire (`self._cache.delete_study_cache(..)`, `self.studies.pop(..)`) -/
  | cacheNote
  /-- `[x =] self._cache.get_all_trials(sid, states)`: on a cold entry, `_read_trials_from_remote_storage` then the state filter
  (the dictionary by number, the watermark and the sort are C08's: Props/C08Gen.lean) -/
  | cacheGetAll (sid states : Expr) (into : Option String)
  | tryExcept (body handlers : Stmt)
  /-- one `except <cls> as e:` clause; `rest` = the following clauses (`.reraise` at the end) -/
  | onExc (cls : Exc) (h rest : Stmt)
  /-- `except grpc.RpcError as e:` -/
  | onRpcError (h rest : Stmt)
  /-- `if e.code() == grpc.StatusCode.<st>: a else: b` -/
  | ifCode (st : Status) (a b : Stmt)
  /-- `context.abort(code=grpc.StatusCode.<st>, details=str(e))` -/
  | abort (st : Status)
  | raise (c : Exc)
  | reraise
  | ret (e : Expr)
  /-- a statement the translator could not read -/
  | unrep
deriving Inhabited

def block : List Stmt → Stmt
  | [] => .skip
  | [s] => s
  | s :: t => .seq s (block t)

inductive Flow where
  | next
  | ret (v : Val)
  | raised (e : Exn)
  /-- `context.abort`: the handler is terminated with this status code -/
  | aborted (st : Status)
  | unrep
deriving Inhabited

structure St where
  s : Spec
  env : Env
  /-- the exception being handled -/
  cur : Option Exn
deriving Inhabited

/-- the arguments of a `BaseStorage` call, in the order of its signature -/
def opOf (ir : Bool) : BM → List Val → Option Op
  | .create_new_study, [.nats dirs, .str name] => some (.createStudy name dirs)
  | .delete_study, [.nat sid] => some (.deleteStudy sid)
  | .set_study_user_attr, [.nat sid, .str k, .str v] => some (.setStudyUserAttr sid k v)
  | .set_study_system_attr, [.nat sid, .str k, .str v] => some (.setStudySystemAttr sid k v)
  | .get_study_id_from_name, [.str n] => some (.getStudyIdFromName n)
  | .get_study_name_from_id, [.nat sid] => some (.getStudyNameFromId sid)
  | .get_study_directions, [.nat sid] => some (.getStudyDirections sid)
  | .get_study_user_attrs, [.nat sid] => some (.getStudyUserAttrs sid)
  | .get_study_system_attrs, [.nat sid] => some (.getStudySystemAttrs sid)
  | .get_all_studies, [] => some .getAllStudies
  | .create_new_trial, [.nat sid, .none] => some (.createTrial sid Option.none ir)
  | .create_new_trial, [.nat sid, .frozen f] => some (.createTrial sid (some f.body) ir)
  | .set_trial_param, [.nat tid, .str n, .str i, .dist d] => some (.setTrialParam tid n { internal := i, dist := d } ir)
  | .get_trial_id_from_study_id_trial_number, [.nat sid, .nat n] => some (.getTrialIdFromNumber sid n)
  | .set_trial_state_values, [.nat tid, .state st, .none] => some (.setTrialStateValues tid st Option.none)
  | .set_trial_state_values, [.nat tid, .state st, .xvals l] => some (.setTrialStateValues tid st (some l))
  | .set_trial_intermediate_value, [.nat tid, .int stp, .xval v] => some (.setTrialInter tid stp v)
  | .set_trial_user_attr, [.nat tid, .str k, .str v] => some (.setTrialUserAttr tid k v)
  | .set_trial_system_attr, [.nat tid, .str k, .str v] => some (.setTrialSystemAttr tid k v)
  | .get_trial, [.nat tid] => some (.getTrial tid)
  | .get_all_trials, [.nat sid] => some (.getAllTrials sid Option.none)
  | _, _ => Option.none

/-- what a `BaseStorage` call hands back -/
def outVal : Out → Except Err Val
  | .unit => .ok .none
  | .err e => .error e
  | .newId n => .ok (.nat n)
  | .bool b => .ok (.bool b)
  | .nat n => .ok (.nat n)
  | .str s => .ok (.str s)
  | .nats l => .ok (.nats l)
  | .attrs l => .ok (.attrs l)
  | .studies l => .ok (.studies l)
  | .trial id t => .ok (.frozen (frozenOf (id, t)))
  | .trials l => .ok (.frozens (l.map frozenOf))
  | .oneOf _ => .ok .none

def statesOf : Val → Option (Option (List TState))
  | .none => some Option.none
  | .states l => some (some l)
  | _ => Option.none

def bindInto (st : St) (into : Option String) (v : Val) : St :=
  match into with
  | Option.none => st
  | some x => { st with env := st.env.set x v }

/-- `isinstance(e, cls)` -/
def catches (cls : Exc) : Exn → Bool
  | .exc c => isSubclass c cls
  | .rpc _ => false

/-- `a; b`: go on with `b` when `a` fell through -/
def thenExec (k : St → St × Flow) : St × Flow → St × Flow
  | (st', .next) => k st'
  | r => r

/-- `try: … except …`: run the clauses when the body raised -/
def handleTry (k : St → St × Flow) : St × Flow → St × Flow
  | (st', .raised e) => k { st' with cur := some e }
  | r => r

/-- after `self._backend.<m>(…)` answered -/
def afterBackend (st : St) (into : Option String) (r : Spec × Out) : St × Flow :=
  match outVal r.2 with
  | .error e => ({ st with s := r.1 }, .raised (excOf e))
  | .ok v => (bindInto { st with s := r.1 } into v, .next)

/-- after the stub call came back -/
def afterStub (st : St) (into : Option String) (a : Spec × Resp) : St × Flow :=
  match a.2 with
  | .abort code => ({ st with s := a.1 }, .raised (.rpc code))
  | .ok rep => (bindInto { st with s := a.1 } into (.reply rep), .next)

/-- after `_read_trials_from_remote_storage` on the cold entry -/
def afterRead (st : St) (into : Option String) (sts : Option (List TState)) (r : Spec × Except Exn (List Frozen)) : St × Flow :=
  match r.2 with
  | .error e => ({ st with s := r.1 }, .raised e)
  | .ok l => (bindInto { st with s := r.1 } into (.frozens (l.filter (fun f => stateIn sts f.body.state))), .next)

def exec (c : Ctx) : Stmt → St → St × Flow
  | .skip, st => (st, .next)
  | .seq a b, st => thenExec (exec c b) (exec c a st)
  | .assign x e, st =>
    match eval c st.env e with
    | .error x => (st, .raised x)
    | .ok v => ({ st with env := st.env.set x v }, .next)
  | .ite cnd a b, st =>
    match eval c st.env cnd with
    | .error x => (st, .raised x)
    | .ok v => if truthy v then exec c a st else exec c b st
  | .assert cnd, st =>
    match eval c st.env cnd with
    | .error x => (st, .raised x)
    | .ok v => if truthy v then (st, .next) else (st, .raised (.exc .exception))
  | .backend m args into, st =>
    match evalList c st.env args with
    | .error x => (st, .raised x)
    | .ok vs =>
      match opOf c.ir m vs with
      | Option.none => (st, .raised (.exc .exception))
      | some op => afterBackend st into (step st.s op)
  | .stub rpc rq into, st =>
    match eval c st.env rq with
    | .error x => (st, .raised x)
    | .ok (.req r) =>
      if r.rpc = rpc then afterStub st into (c.serve st.s c.ir r)
      else (st, .raised (.exc .exception))
    | .ok _ => (st, .raised (.exc .exception))
  | .cacheNote, st => (st, .next)
  | .cacheGetAll sid states into, st =>
    match eval c st.env sid, eval c st.env states with
    | .ok (.nat n), .ok sv =>
      match statesOf sv with
      | Option.none => (st, .raised (.exc .exception))
      | some sts => afterRead st into sts (c.readTrials st.s n)
    | .error x, _ => (st, .raised x)
    | _, .error x => (st, .raised x)
    | _, _ => (st, .raised (.exc .exception))
  | .tryExcept body handlers, st => handleTry (exec c handlers) (exec c body st)
  | .onExc cls h rest, st =>
    match st.cur with
    | some e => if catches cls e then exec c h st else exec c rest st
    | Option.none => (st, .unrep)
  | .onRpcError h rest, st =>
    match st.cur with
    | some (.rpc _) => exec c h st
    | some _ => exec c rest st
    | Option.none => (st, .unrep)
  | .ifCode code a b, st =>
    match st.cur with
    | some (.rpc k) => if k = code then exec c a st else exec c b st
    | _ => (st, .raised (.exc .exception))
  | .abort code, st => (st, .aborted code)
  | .raise k, st => (st, .raised (.exc k))
  | .reraise, st =>
    match st.cur with
    | some e => (st, .raised e)
    | Option.none => (st, .unrep)
  | .ret e, st =>
    match eval c st.env e with
    | .error x => (st, .raised x)
    | .ok v => (st, .ret v)
  | .unrep, st => (st, .unrep)

/-! ### a servicer method: `request` ↦ reply or status code -/

def finishServicer : St × Flow → Option (Spec × Resp)
  | (st, .ret (.reply r)) => some (st.s, .ok r)
  | (st, .aborted code) => some (st.s, .abort code)
  | (_, .unrep) => Option.none
  -- an exception leaving the handler, or a handler that returns no message: UNKNOWN
  | (st, _) => some (st.s, .abort .unknown)

def interpServicer (body : Stmt) (c : Ctx) (s : Spec) (rq : Req) : Option (Spec × Resp) :=
  finishServicer (exec c body { s := s, env := [("request", .req rq)], cur := Option.none })

/-! ### a client method: parameters ↦ return value or exception -/

structure Method where
  params : List String
  body : Stmt
deriving Inhabited

def poutOfExn : Exn → POut
  | .rpc code => .rpcError code
  | .exc k => match errOfExc k with | some e => .ok (.err e) | Option.none => .raised k

def bindParams : List String → List Val → Option Env
  | [], [] => some []
  | x :: xs, v :: vs => (bindParams xs vs).map (fun e => (x, v) :: e)
  | _, _ => Option.none

def finishClient : St × Flow → Option (Spec × Except Exn Val)
  | (st, .ret v) => some (st.s, .ok v)
  | (st, .next) => some (st.s, .ok .none)
  | (st, .raised e) => some (st.s, .error e)
  | (_, .aborted _) => Option.none
  | (_, .unrep) => Option.none

/-- run a client-side method to the value it returns -/
def interpClient (m : Method) (c : Ctx) (s : Spec) (args : List Val) : Option (Spec × Except Exn Val) :=
  match bindParams m.params args with
  | Option.none => Option.none
  | some env => finishClient (exec c m.body { s := s, env := env, cur := Option.none })

/-- a converter function: one parameter, the value returned or the exception -/
def interpFn (m : Method) (c : Ctx) (arg : Val) : Option (Except Exn Val) :=
  (interpClient m c Storage.init [arg]).map (·.2)

/-! ### the whole layer: every callee is the interpreter of the callee's own generated body -/

/-- the generated bodies (`Generated/GrpcMethods.program`) -/
structure Program where
  servicer : Rpc → Stmt
  toProtoState : Method
  fromProtoState : Method
  toProtoTrial : Method
  fromProtoTrial : Method
  createNewStudy : Method
  deleteStudy : Method
  setStudyUserAttr : Method
  setStudySystemAttr : Method
  getStudyIdFromName : Method
  getStudyNameFromId : Method
  getStudyDirections : Method
  getStudyUserAttrs : Method
  getStudySystemAttrs : Method
  getAllStudies : Method
  createNewTrial : Method
  setTrialParam : Method
  setTrialStateValues : Method
  setTrialIntermediateValue : Method
  setTrialUserAttr : Method
  setTrialSystemAttr : Method
  getTrialIdFromNumber : Method
  getTrial : Method
  getAllTrials : Method
  readTrials : Method

/-- the client's `except grpc.RpcError` clause as the hand model states it (`Proto.clientError`), as an exception -/
def rpcExn (rpc : Rpc) (code : Status) : Exn :=
  match Proto.lookup (GrpcTables.clientRaises rpc) code with
  | some k => .exc k
  | Option.none => .rpc code

/-- `_read_trials_from_remote_storage` on a fresh entry, hand model (`Proto.fetchAll` before `trialOfFrozen`) -/
def readTrialsHand (s : Spec) (sid : Nat) : Spec × Except Exn (List Frozen) :=
  let r := Proto.servicer s false (.getTrials sid [] (-1))
  match r.2 with
  | .abort code => (r.1, .error (rpcExn .getTrials code))
  | .ok (.trials l) =>
    match fromProtoTrials l with
    | .ok fs => (r.1, .ok fs)
    | .error e => (r.1, .error (excOf e))
  | .ok _ => (r.1, .error (.exc .exception))

/-- every callee denoted by the hand model -/
def Ctx.hand (ir : Bool) (uuid : String) : Ctx :=
  { ir := ir, uuid := uuid, toProtoTrial := Proto.toProtoTrial, fromProtoTrial := Proto.fromProtoTrial,
    toProtoState := Proto.stateToProto, fromProtoState := Proto.stateFromProto, serve := Proto.servicer,
    readTrials := readTrialsHand }

namespace Program

def toProtoStateG (P : Program) (t : TState) : Option Nat :=
  match interpFn P.toProtoState (Ctx.hand false "") (.state t) with
  | some (.ok (.nat n)) => some n
  | _ => Option.none

def fromProtoStateG (P : Program) (n : Nat) : Option TState :=
  match interpFn P.fromProtoState (Ctx.hand false "") (.nat n) with
  | some (.ok (.state t)) => some t
  | _ => Option.none

/-- converters of trials see the generated state converters -/
def ctx1 (P : Program) : Ctx :=
  { Ctx.hand false "" with toProtoState := P.toProtoStateG, fromProtoState := P.fromProtoStateG }

def toProtoTrialG (P : Program) (f : Frozen) : Option PTrial :=
  match interpFn P.toProtoTrial P.ctx1 (.frozen f) with
  | some (.ok (.ptrial p)) => some p
  | _ => Option.none

def errOfExn : Exn → Err
  | .exc k => (errOfExc k).getD .runtimeError
  | .rpc _ => .runtimeError

def fromProtoTrialG (P : Program) (p : PTrial) : Except Err Frozen :=
  match interpFn P.fromProtoTrial P.ctx1 (.ptrial p) with
  | some (.ok (.frozen f)) => .ok f
  | some (.error e) => .error (errOfExn e)
  | _ => .error .runtimeError

/-- servicer methods see the generated converters -/
def ctx2 (P : Program) (ir : Bool) : Ctx :=
  { P.ctx1 with ir := ir, toProtoTrial := P.toProtoTrialG, fromProtoTrial := P.fromProtoTrialG }

def serveG (P : Program) (s : Spec) (ir : Bool) (rq : Req) : Spec × Resp :=
  (interpServicer (P.servicer rq.rpc) (P.ctx2 ir) s rq).getD (s, .abort .unimplemented)

/-- `_read_trials_from_remote_storage` sees the generated servicer -/
def ctx3 (P : Program) (ir : Bool) (uuid : String) : Ctx :=
  { P.ctx2 ir with uuid := uuid, serve := P.serveG }

def readTrialsG (P : Program) (s : Spec) (sid : Nat) : Spec × Except Exn (List Frozen) :=
  match interpClient P.readTrials (P.ctx3 false "") s [.nat sid, .entry [] (-1)] with
  | some (s', .ok (.frozens l)) => (s', .ok l)
  | some (s', .ok .none) => (s', .ok [])
  | some (s', .error e) => (s', .error e)
  | some (s', .ok _) => (s', .error (.exc .exception))
  | Option.none => (s, .error (.exc .baseException))

/-- the public client methods see all of the above -/
def ctx (P : Program) (ir : Bool) (uuid : String) : Ctx :=
  { P.ctx3 ir uuid with readTrials := P.readTrialsG }

end Program

def optXvals : Option (List XVal) → Val
  | Option.none => .none
  | some l => .xvals l

def optStates : Option (List TState) → Val
  | Option.none => .none
  | some l => .states l

/-- which client method an operation of the contract is, with its arguments in the order of the signature -/
def clientCall (P : Program) : Op → Option (Method × List Val)
  | .createStudy name dirs => some (P.createNewStudy, [.nats dirs, .str name])
  | .deleteStudy sid => some (P.deleteStudy, [.nat sid])
  | .setStudyUserAttr sid k v => some (P.setStudyUserAttr, [.nat sid, .str k, .str v])
  | .setStudySystemAttr sid k v => some (P.setStudySystemAttr, [.nat sid, .str k, .str v])
  | .createTrial sid Option.none _ => some (P.createNewTrial, [.nat sid, .none])
  | .createTrial sid (some t) _ => some (P.createNewTrial, [.nat sid, .frozen { id := -1, number := -1, body := t }])
  | .setTrialParam tid name p _ => some (P.setTrialParam, [.nat tid, .str name, .str p.internal, .dist p.dist])
  | .setTrialStateValues tid st vs => some (P.setTrialStateValues, [.nat tid, .state st, optXvals vs])
  | .setTrialInter tid stp v => some (P.setTrialIntermediateValue, [.nat tid, .int stp, .xval v])
  | .setTrialUserAttr tid k v => some (P.setTrialUserAttr, [.nat tid, .str k, .str v])
  | .setTrialSystemAttr tid k v => some (P.setTrialSystemAttr, [.nat tid, .str k, .str v])
  | .getStudyIdFromName name => some (P.getStudyIdFromName, [.str name])
  | .getStudyNameFromId sid => some (P.getStudyNameFromId, [.nat sid])
  | .getStudyDirections sid => some (P.getStudyDirections, [.nat sid])
  | .getStudyUserAttrs sid => some (P.getStudyUserAttrs, [.nat sid])
  | .getStudySystemAttrs sid => some (P.getStudySystemAttrs, [.nat sid])
  | .getAllStudies => some (P.getAllStudies, [])
  | .getTrialIdFromNumber sid n => some (P.getTrialIdFromNumber, [.nat sid, .nat n])
  | .getTrial tid => some (P.getTrial, [.nat tid])
  | .getAllTrials sid states => some (P.getAllTrials, [.nat sid, .bool true, optStates states])
  | _ => Option.none

/-- the value a client method returns, as the contract's answer to the operation -/
def retOut : Op → Val → Option Out
  | .createStudy .., .nat n => some (.newId n)
  | .createTrial .., .nat n => some (.newId n)
  | .deleteStudy .., .none => some .unit
  | .setStudyUserAttr .., .none => some .unit
  | .setStudySystemAttr .., .none => some .unit
  | .setTrialParam .., .none => some .unit
  | .setTrialInter .., .none => some .unit
  | .setTrialUserAttr .., .none => some .unit
  | .setTrialSystemAttr .., .none => some .unit
  | .setTrialStateValues .., .bool b => some (.bool b)
  | .getStudyIdFromName .., .nat n => some (.nat n)
  | .getStudyNameFromId .., .str s => some (.str s)
  | .getStudyDirections .., .nats l => some (.nats l)
  | .getStudyUserAttrs .., .attrs m => some (.attrs m)
  | .getStudySystemAttrs .., .attrs m => some (.attrs m)
  | .getAllStudies, .studies l => some (.studies l)
  | .getTrialIdFromNumber .., .nat n => some (.nat n)
  | .getTrial .., .frozen f => some (.trial (trialOfFrozen f).1 (trialOfFrozen f).2)
  | .getAllTrials .., .frozens l => some (.trials (l.map trialOfFrozen))
  | _, _ => Option.none

def poutOf (op : Op) : Except Exn Val → POut
  | .error e => poutOfExn e
  | .ok v => match retOut op v with | some o => .ok o | Option.none => .raised .exception

/-- one public method of `GrpcStorageProxy` that has a body of its own in client.py -/
def callPrimary (P : Program) (c : Ctx) (s : Spec) (op : Op) : Option (Spec × POut) :=
  match clientCall P op with
  | Option.none => Option.none
  | some (m, args) => (interpClient m c s args).map (fun r => (r.1, poutOf op r.2))

/-- the four `BaseStorage` defaults that run in the client (their bodies are `Proto.proxyStep`'s: C12 / T-inmem read
`_base.py`), on top of the generated `get_trial` / `get_all_trials` / `get_study_directions` -/
def callDerived (P : Program) (c : Ctx) (s : Spec) : Op → Option (Spec × POut)
  | .getTrialNumberFromId tid =>
    (callPrimary P c s (.getTrial tid)).map (fun r =>
      match r.2 with | .ok (.trial _ t) => (r.1, .ok (.nat t.number)) | o => (r.1, o))
  | .getTrialParam tid name =>
    (callPrimary P c s (.getTrial tid)).map (fun r =>
      match r.2 with | .ok (.trial _ t) => (r.1, .ok (Cache.trialParamOut t name)) | o => (r.1, o))
  | .getNTrials sid states =>
    (callPrimary P c s (.getAllTrials sid states)).map (fun r =>
      match r.2 with | .ok (.trials l) => (r.1, .ok (.nat l.length)) | o => (r.1, o))
  | .getBestTrial sid =>
    match callPrimary P c s (.getAllTrials sid Option.none) with
    | Option.none => Option.none
    | some (s', .ok (.trials l)) =>
      (callPrimary P c s' (.getStudyDirections sid)).map (fun r =>
        match r.2 with | .ok (.nats ds) => (r.1, .ok (bestOut ds l)) | o => (r.1, o))
    | some r => some r
  | _ => Option.none

/-- **the generated proxy**: generated client method, over the generated servicer method, over the generated converters -/
def proxyStepGen (P : Program) (s : Spec) (uuid : String) (op : Op) : Option (Spec × POut) :=
  let c := P.ctx (implRaisedOf op) uuid
  match clientCall P op with
  | some _ => callPrimary P c s op
  | Option.none => callDerived P c s op

end OptunaVerif.GrpcIR
