/-
  Heap model for C20 ("objects read from a study are snapshots").

  What is modelled.  The in-process storages (`InMemoryStorage`, `JournalStorageReplayResult` behind
  `JournalStorage`) keep *Python objects* and hand references to them to their callers
  (`get_trial`, `get_all_trials(deepcopy=False)`, `get_study_user_attrs`, ...).  Whether a reference
  that was handed out keeps denoting the same value is a question about aliasing, so the model is a
  heap:

  * `Heap` — an append-only list of objects; an address is an index.  An object is an association
    list `key ↦ cell`, a cell being a scalar token or a reference.  A `FrozenTrial` is an object whose
    dict-valued attributes (`params`, `distributions`, `user_attrs`, `system_attrs`,
    `intermediate_values`, `values`) are references to further objects; a dict is an object with
    scalar cells; a list of trials is an object `index ↦ ref`.
  * `slots` — the places where getters find objects (`self._studies[s].trials[n]`, `self._trials[id]`,
    `study.user_attrs`, ...).  The containers themselves (`_studies`, `trials` list, `_trials` dict,
    `_StudyInfo`/`FrozenStudy` records) are *not* heap objects: they are private to the storage; the
    only way they can leak is a getter returning the container itself, which is the `view` handle.
  * `uo` — addresses owned by the user: the objects produced by `copy.deepcopy` in a getter.  The
    user may mutate these and nothing else (contract clause of `BaseStorage`).

  A storage method is a list of primitives (`Prim`), generated from the Python source by
  `verif/translators/theap.py` into `Generated/HeapMethods.lean`.  `step` is the meaning of one
  primitive, `callM` runs a method as one atomic call (every method body runs under the storage's
  lock), `disciplined` is the decidable "fresh mutation discipline".
  Core Lean only.
-/
namespace OptunaVerif.Heap

inductive Cell where
  | sc (v : Nat)
  | ref (a : Nat)
deriving DecidableEq, Repr, Inhabited

/-- association list, most recent binding first (`put` shadows) -/
abbrev Obj := List (Nat × Cell)
abbrev Heap := List Obj

def put (o : Obj) (k : Nat) (c : Cell) : Obj := (k, c) :: o

/-- the cell `f` of the object at address `a` -/
def cellAt (h : Heap) (a f : Nat) : Option Cell := (h[a]?).bind (fun o => o.lookup f)

/-- in-place update of the object at `a` (no effect on a dangling address) -/
def upd (h : Heap) (a k : Nat) (c : Cell) : Heap := h.modify a (fun o => put o k c)

/-- what a caller can hold: a reference to a live heap object (`return x`), a reference to a deep
copy made for the caller (`return copy.deepcopy(x)`), or the storage's own container (a live view
of the slots `ss`) -/
inductive Ret where
  | addr (a : Nat)
  | copy (a : Nat)
  | view (ss : List Nat)
deriving DecidableEq, Repr, Inhabited

inductive Cur where
  | none
  | addr (a : Nat)
  | view (ss : List Nat)
deriving DecidableEq, Repr, Inhabited

structure World where
  heap : Heap
  slots : List (Nat × Nat)
  uo : List Nat
deriving Repr, Inhabited, DecidableEq

structure Frame where
  heap : Heap
  slots : List (Nat × Nat)
  uo : List Nat
  cur : Cur
  rets : List Ret
deriving Repr, Inhabited, DecidableEq

/-- arguments of one call: the slot read (`trial_id`/`study_id` of the getter part), the slot
written, the slots a list getter ranges over, and the key/value of a dict write -/
structure Args where
  src : Nat
  dst : Nat
  srcs : List Nat
  key : Nat
  val : Nat
deriving Repr, Inhabited, DecidableEq

/-- Heap primitives.  Python shapes they stand for (see the translator):
* `load`        `x = self._get_trial(id)` / `self._trials[id]` / `study.user_attrs`
* `loadAll`     `xs = self._studies[sid].trials` (the live container)
* `collect`     a new list of the live objects (`copy.copy(xs)`, `[t for t in xs if ..]`, `list(..)`)
* `allocNew`    `FrozenTrial(...)`, `copy.deepcopy(template_trial)`
* `allocCopy`   `x = copy.copy(x)`, `{**d}`
* `loadField f` `x = x.f`
* `copyField f` `x.f = copy.copy(x.f)` / `x.f = {**x.f, ..}`  (new dict, then re-point the field)
* `newField f`  `x.f = {}` / a freshly built dict or list
* `mutField f`  `x.f[k] = v`, `x.f.update(..)`    — IN PLACE
* `mutCur`      `d[k] = v`, `d.update(..)`        — IN PLACE
* `setScalar f` `x.f = v`                          — IN PLACE on `x`
* `publish`     `self._set_trial(id, x)`, `self._trials[id] = x`, `study.user_attrs = d`
* `unpublish`   `del self._trials[id]`
* `ret`         `return x`
* `retDeep`     `return copy.deepcopy(x)` -/
inductive Prim where
  | load | loadAll | collect | allocNew | allocCopy
  | loadField (f : Nat) | copyField (f : Nat) | newField (f : Nat)
  | mutField (f : Nat) | mutCur | setScalar (f : Nat)
  | publish | unpublish | ret | retDeep
deriving DecidableEq, Repr, Inhabited

structure Method where
  name : String
  body : List Prim
deriving Repr, Inhabited, DecidableEq

/-- the list object built by a list getter: `index ↦ ref (object in slot s_i)` -/
def listCells (slots : List (Nat × Nat)) : Nat → List Nat → Obj
  | _, [] => []
  | i, s :: t =>
    match slots.lookup s with
    | some a => (i, .ref a) :: listCells slots (i + 1) t
    | none => listCells slots (i + 1) t

/-- `copy.deepcopy` of the cells of one object, `rec` copying a referenced object -/
def copyCells (rec : Heap → Nat → Heap × Nat) : Heap → Obj → Heap × Obj
  | h, [] => (h, [])
  | h, (k, .sc v) :: t =>
    let r := copyCells rec h t
    (r.1, (k, .sc v) :: r.2)
  | h, (k, .ref d) :: t =>
    let r1 := rec h d
    let r2 := copyCells rec r1.1 t
    (r2.1, (k, .ref r1.2) :: r2.2)

/-- `copy.deepcopy` of the object at `a`, to depth `fuel` (callers pass `heap.length + 1`, which
exceeds the depth of every acyclic object graph; storage object graphs have depth ≤ 2).  Sharing
inside the copied graph is not preserved (tree copy) — the deep *value* is. -/
def deepCopy : Nat → Heap → Nat → Heap × Nat
  | 0, h, _ => (h ++ [[]], h.length)
  | n + 1, h, a =>
    let r := copyCells (deepCopy n) h ((h[a]?).getD [])
    (r.1 ++ [r.2], r.1.length)

def step (ar : Args) (fr : Frame) : Prim → Frame
  | .load =>
    { fr with cur := match fr.slots.lookup ar.src with
                     | some a => .addr a
                     | none => .none }
  | .loadAll => { fr with cur := .view ar.srcs }
  | .collect =>
    { fr with heap := fr.heap ++ [listCells fr.slots 0 ar.srcs], cur := .addr fr.heap.length }
  | .allocNew => { fr with heap := fr.heap ++ [[]], cur := .addr fr.heap.length }
  | .allocCopy =>
    match fr.cur with
    | .addr a => { fr with heap := fr.heap ++ [(fr.heap[a]?).getD []], cur := .addr fr.heap.length }
    | _ => fr
  | .loadField f =>
    match fr.cur with
    | .addr a =>
      match cellAt fr.heap a f with
      | some (.ref d) => { fr with cur := .addr d }
      | _ => { fr with cur := .none }
    | _ => fr
  | .copyField f =>
    match fr.cur with
    | .addr a =>
      match cellAt fr.heap a f with
      | some (.ref d) =>
        { fr with heap := upd (fr.heap ++ [(fr.heap[d]?).getD []]) a f (.ref fr.heap.length) }
      | _ => fr
    | _ => fr
  | .newField f =>
    match fr.cur with
    | .addr a => { fr with heap := upd (fr.heap ++ [[]]) a f (.ref fr.heap.length) }
    | _ => fr
  | .mutField f =>
    match fr.cur with
    | .addr a =>
      match cellAt fr.heap a f with
      | some (.ref d) => { fr with heap := upd fr.heap d ar.key (.sc ar.val) }
      | _ => fr
    | _ => fr
  | .mutCur =>
    match fr.cur with
    | .addr a => { fr with heap := upd fr.heap a ar.key (.sc ar.val) }
    | _ => fr
  | .setScalar f =>
    match fr.cur with
    | .addr a => { fr with heap := upd fr.heap a f (.sc ar.val) }
    | _ => fr
  | .publish =>
    match fr.cur with
    | .addr a => { fr with slots := (ar.dst, a) :: fr.slots }
    | _ => fr
  | .unpublish => { fr with slots := fr.slots.filter (fun p => p.1 != ar.dst) }
  | .ret =>
    match fr.cur with
    | .addr a => { fr with rets := fr.rets ++ [.addr a] }
    | .view ss => { fr with rets := fr.rets ++ [.view ss] }
    | .none => fr
  | .retDeep =>
    match fr.cur with
    | .addr a =>
      let r := deepCopy (fr.heap.length + 1) fr.heap a
      { fr with heap := r.1, rets := fr.rets ++ [.copy r.2],
                uo := List.range' fr.heap.length (r.1.length - fr.heap.length) ++ fr.uo }
    | _ => fr

def run (ar : Args) (fr : Frame) (body : List Prim) : Frame := body.foldl (step ar) fr

def enter (w : World) : Frame := { heap := w.heap, slots := w.slots, uo := w.uo, cur := .none, rets := [] }
def Frame.world (fr : Frame) : World := { heap := fr.heap, slots := fr.slots, uo := fr.uo }

/-- one atomic call of a method: the new world and what the caller received -/
def callM (body : List Prim) (ar : Args) (w : World) : World × List Ret :=
  let fr := run ar (enter w) body
  (fr.world, fr.rets)

/-! ## the fresh-mutation discipline (decidable, by abstract interpretation of the primitive list) -/

structure Abs where
  /-- the current object was allocated in this call -/
  fresh : Bool
  /-- fields of the current object known to reference objects allocated in this call -/
  ff : List Nat
  /-- the current value is the storage's own container -/
  view : Bool
deriving Repr, DecidableEq

def Abs.init : Abs := ⟨false, [], false⟩

/-- `none` = the discipline is broken at this primitive: an in-place mutation whose target was not
allocated in this call, or the container itself is returned. -/
def absStep (ab : Abs) : Prim → Option Abs
  | .load => some ⟨false, [], false⟩
  | .loadAll => some ⟨false, [], true⟩
  | .collect => some ⟨true, [], false⟩
  | .allocNew => some ⟨true, [], false⟩
  | .allocCopy => if ab.view then none else some ⟨true, [], false⟩
  | .loadField f => if ab.view then none else some ⟨ab.ff.contains f, [], false⟩
  | .copyField f => if ab.fresh && !ab.view then some ⟨true, f :: ab.ff, false⟩ else none
  | .newField f => if ab.fresh && !ab.view then some ⟨true, f :: ab.ff, false⟩ else none
  | .mutField f => if ab.ff.contains f && !ab.view then some ab else none
  | .mutCur => if ab.fresh && !ab.view then some ab else none
  | .setScalar _ => if ab.fresh && !ab.view then some ab else none
  | .publish => if ab.view then none else some ⟨false, [], false⟩   -- once published the object is no longer this call's private copy: a later write to it is a breach (publish-then-mutate)
  | .unpublish => some ab
  | .ret => if ab.view then none else some ab
  | .retDeep => if ab.view then none else some ab

def absRun : Abs → List Prim → Option Abs
  | ab, [] => some ab
  | ab, p :: ps =>
    match absStep ab p with
    | some ab' => absRun ab' ps
    | none => none

/-- **fresh_mutation_discipline**: every in-place mutation of the method targets an object allocated
earlier in the same call AND NOT YET PUBLISHED (a write after `publish` - publish-then-mutate - is a breach even
under the lock: a reader that is not under the lock, or holds the object already, would see it change), and the
method never returns the storage's container itself. -/
def disciplined (body : List Prim) : Bool := (absRun Abs.init body).isSome

/-- the method hands out nothing but deep copies (what `Study.trials`, `Study.user_attrs`,
`Trial.params`, ... promise) -/
def returnsOnlyDeep (body : List Prim) : Bool := body.all (fun p => p != .ret)

/-! ## histories -/

inductive Ev where
  /-- one storage call (reads and writes alike), by any thread: calls are atomic under the lock -/
  | call (body : List Prim) (ar : Args)
  /-- the user writes into an object they own (a deep copy they received) -/
  | userMut (a k v : Nat)
deriving Repr, DecidableEq

def stepEv (w : World) : Ev → World
  | .call body ar => (callM body ar w).1
  | .userMut a k v => if a ∈ w.uo then { w with heap := upd w.heap a k (.sc v) } else w

def runEvs (w : World) (evs : List Ev) : World := evs.foldl stepEv w

def Ev.disciplined : Ev → Bool
  | .call body _ => Heap.disciplined body
  | .userMut .. => true

def Ev.isCall : Ev → Bool
  | .call .. => true
  | .userMut .. => false

/-! ## the deep value of a reference ("pickle at read time") -/

def pickleCells (rec : Nat → List Nat) : Obj → List Nat
  | [] => []
  | (k, .sc v) :: t => k :: 0 :: v :: pickleCells rec t
  | (k, .ref d) :: t => k :: 1 :: (rec d ++ pickleCells rec t)

/-- serialisation of everything reachable from `a` down to depth `fuel` (2 = cut-off, 3 = dangling,
4 = end of object).  Theorems quantify over every `fuel`. -/
def pickle : Nat → Heap → Nat → List Nat
  | 0, _, _ => [2]
  | n + 1, h, a =>
    match h[a]? with
    | none => [3]
    | some o => pickleCells (pickle n h) o ++ [4]

/-- what a handle denotes in a world -/
def denote (fuel : Nat) (w : World) : Ret → List Nat
  | .addr a => pickle fuel w.heap a
  | .copy a => pickle fuel w.heap a
  | .view ss => pickleCells (pickle fuel w.heap) (listCells w.slots 0 ss)

def World.init : World := { heap := [], slots := [], uo := [] }

end OptunaVerif.Heap
