import OptunaVerif.Model.Basic
/-!
  Model of the stale-trial recovery (`optuna/storages/_heartbeat.py: fail_stale_trials`,
  `optuna/storages/_callbacks.py: RetryFailedTrialCallback.__call__`,
  `optuna/storages/_rdb/storage.py: record_heartbeat / _get_stale_trial_ids`) as a small-step
  transition system over one study.

  * The shared state is the list of trials of the study (index = trial number).  A trial has the
    part a `FrozenTrial` shows (`Rec`) and the age in seconds of its row in `trial_heartbeats`
    (`hb = none`: no row).  Time passes by `tick d`, which ages every row; `beat` resets one age to 0.
  * Any number of workers run the sweep.  Every *storage call* of the sweep is one atomic step:
      `ids := storage._get_stale_trial_ids(study)`          idle      → failing ids []
      `storage.set_trial_state_values(id, FAIL)`            failing   (won / UpdateFinishedTrialError swallowed)
      `storage.get_trial(id)` + the `max_retry` test        calling   (callback invoked for a WON id)
      `study.add_trial(WAITING copy)`                       enqueue   (one retry trial appended)
    and any other actor's storage calls (`ask` = claim / create, heartbeats, `tell`, attribute and
    parameter writes, `enqueue_trial`, the clock) are `EnvOp`s.  A schedule is a list of `Act`s; a
    worker may die (`die w`) between any two steps and then never moves again.
  * `events` is a ghost log (newest first) of what the sweeps did; the theorems count in it and the
    correspondence check compares it with what the real code was seen doing.
-/
namespace OptunaVerif.Heartbeat
open OptunaVerif

/-- The part of a trial a `FrozenTrial` shows.  `failed_trial` / `retry_history` are the two system
attributes `RetryFailedTrialCallback` writes; `otherSys` is every other system attribute
(e.g. `fixed_params`).  Parameter values (with their distribution) and attribute payloads are
opaque tokens. -/
structure Rec where
  state : TState
  params : AList String
  userAttrs : AList String
  failedTrial : Option Nat
  retryHistory : Option (List Nat)
  otherSys : AList String
deriving DecidableEq, Repr, Inhabited

structure HTrial where
  core : Rec
  /-- age (seconds) of the `trial_heartbeats` row; `none` = no row recorded -/
  hb : Option Nat
deriving DecidableEq, Repr, Inhabited

structure Params where
  /-- `grace_period` (or `2 * heartbeat_interval`) -/
  grace : Nat
  /-- `failed_trial_callback is not None` -/
  hasCb : Bool
  /-- `RetryFailedTrialCallback(max_retry=…)` -/
  maxRetry : Option Nat
deriving DecidableEq, Repr, Inhabited

/-- `_get_stale_trial_ids`: RUNNING ∧ a heartbeat row exists ∧ `now - heartbeat > grace`. -/
def HTrial.isStale (g : Nat) (x : HTrial) : Bool :=
  x.core.state == .running &&
    (match x.hb with
     | some a => decide (g < a)
     | none => false)

def staleFrom (g : Nat) : List HTrial → Nat → List Nat
  | [], _ => []
  | x :: r, i => if x.isStale g then i :: staleFrom g r (i + 1) else staleFrom g r (i + 1)

def staleIds (g : Nat) (tr : List HTrial) : List Nat := staleFrom g tr 0

/-- The SQL query has no `ORDER BY`: the stale ids may come in any order `ord` proposes (ids of
`ord` that are not stale are dropped, stale ids `ord` does not mention follow in id order). -/
def orderBy (ord stale : List Nat) : List Nat :=
  ord.filter (fun t => stale.contains t) ++ stale.filter (fun t => !ord.contains t)

def Rec.hist (r : Rec) : List Nat := r.retryHistory.getD []

/-- `RetryFailedTrialCallback.__call__`: `{"failed_trial": n, "retry_history": [], **system_attrs}`,
then `retry_history.append(n)`; WAITING copy with params, distributions, user attrs. -/
def retryOf (t : Nat) (r : Rec) : Rec :=
  { state := .waiting, params := r.params, userAttrs := r.userAttrs,
    failedTrial := some (r.failedTrial.getD t), retryHistory := some (r.hist ++ [t]),
    otherSys := r.otherSys }

/-- `max_retry is not None and max_retry < len(retry_history)` (after the append). -/
def exceeds (m : Option Nat) (r : Rec) : Bool :=
  match m with
  | none => false
  | some m => decide (m < r.hist.length + 1)

/-! ### everybody else's storage calls -/

inductive EnvOp where
  /-- `create_new_trial(study)` without template (an `ask` that found nothing WAITING) -/
  | create
  /-- `enqueue_trial`: WAITING, user attrs, system attrs (`fixed_params`) -/
  | enqueue (user other : AList String)
  /-- `set_trial_state_values(t, RUNNING)` (the claim inside `ask`) -/
  | claim (t : Nat)
  /-- `record_heartbeat(t)` -/
  | beat (t : Nat)
  /-- `set_trial_state_values(t, st)` with `st` finished (`tell`) -/
  | finish (t : Nat) (st : TState)
  | setParam (t : Nat) (k v : String)
  | setUserAttr (t : Nat) (k v : String)
  | setSysAttr (t : Nat) (k v : String)
  /-- `d` seconds pass -/
  | tick (d : Nat)
deriving DecidableEq, Repr, Inhabited

inductive EnvOut where
  | unit | bool (b : Bool) | updateFinished | keyError | newNumber (n : Nat)
deriving DecidableEq, Repr, Inhabited

def freshRec (st : TState) (user other : AList String) : Rec :=
  { state := st, params := [], userAttrs := user, failedTrial := none, retryHistory := none,
    otherSys := other }

def setState (st : TState) (x : HTrial) : HTrial := { x with core := { x.core with state := st } }

/-- Guarded write: unknown number ⇒ `KeyError`, finished ⇒ `UpdateFinishedTrialError`, nothing changes. -/
def guarded (tr : List HTrial) (t : Nat) (f : HTrial → HTrial) : List HTrial × EnvOut :=
  match tr[t]? with
  | none => (tr, .keyError)
  | some x => if x.core.state.isFinished then (tr, .updateFinished) else (updAt tr t f, .unit)

def envStep (tr : List HTrial) : EnvOp → List HTrial × EnvOut
  | .create => (tr ++ [⟨freshRec .running [] [], none⟩], .newNumber tr.length)
  | .enqueue user other => (tr ++ [⟨freshRec .waiting user other, none⟩], .newNumber tr.length)
  | .claim t =>
    match tr[t]? with
    | none => (tr, .keyError)
    | some x =>
      if x.core.state.isFinished then (tr, .updateFinished)
      else if x.core.state == TState.waiting then (updAt tr t (setState .running), .bool true)
      else (tr, .bool false)
  | .beat t =>
    match tr[t]? with
    | none => (tr, .keyError)
    | some _ => (updAt tr t (fun x => { x with hb := some 0 }), .unit)
  | .finish t st =>
    if st.isFinished then
      (match guarded tr t (setState st) with
       | (tr', .unit) => (tr', .bool true)
       | r => r)
    else (tr, .unit)
  | .setParam t k v => guarded tr t (fun x => { x with core := { x.core with params := x.core.params.set k v } })
  | .setUserAttr t k v => guarded tr t (fun x => { x with core := { x.core with userAttrs := x.core.userAttrs.set k v } })
  | .setSysAttr t k v => guarded tr t (fun x => { x with core := { x.core with otherSys := x.core.otherSys.set k v } })
  | .tick d => (tr.map (fun x => { x with hb := x.hb.map (· + d) }), .unit)

/-! ### the sweep -/

/-- Where a worker is in `fail_stale_trials`. -/
inductive Phase where
  | idle
  /-- first loop: ids still to be failed, ids won so far (`failed_trial_ids`) -/
  | failing (todo won : List Nat)
  /-- second loop: won ids whose callback is still to run -/
  | calling (todo : List Nat)
  /-- inside the callback of trial `t`, holding the deep copy `snap`, about to `add_trial` -/
  | enqueue (t : Nat) (snap : Rec) (todo : List Nat)
  | dead
deriving DecidableEq, Repr, Inhabited

inductive Event where
  | read (w : Nat) (ids : List Nat)
  | won (w t : Nat)
  | lost (w t : Nat)
  | callback (w t : Nat) (retry : Bool)
  | enqueued (w t n : Nat) (r : Rec)
deriving DecidableEq, Repr, Inhabited

structure Cfg where
  trials : List HTrial
  workers : List Phase
  /-- newest first -/
  events : List Event
deriving DecidableEq, Repr, Inhabited

/-- Skip the loops that have nothing left to do (they make no storage call). -/
def Phase.norm (hasCb : Bool) : Phase → Phase
  | .failing [] won => if hasCb && !won.isEmpty then .calling won else .idle
  | .calling [] => .idle
  | p => p

def Cfg.setPhase (c : Cfg) (w : Nat) (p : Phase) : Cfg :=
  { c with workers := updAt c.workers w (fun _ => p) }

/-- One storage call of worker `w`'s sweep. -/
def sweepStep (P : Params) (c : Cfg) (w : Nat) (ord : List Nat) : Cfg :=
  match c.workers[w]? with
  | none => c
  | some .dead => c
  | some .idle =>
    let ids := orderBy ord (staleIds P.grace c.trials)
    { (c.setPhase w (Phase.norm P.hasCb (.failing ids []))) with events := .read w ids :: c.events }
  | some (.failing [] won) => c.setPhase w (Phase.norm P.hasCb (.failing [] won))
  | some (.failing (t :: todo) won) =>
    match c.trials[t]? with
    | none => c.setPhase w (Phase.norm P.hasCb (.failing todo won))
    | some x =>
      if x.core.state.isFinished then
        -- UpdateFinishedTrialError, swallowed
        { (c.setPhase w (Phase.norm P.hasCb (.failing todo won))) with events := .lost w t :: c.events }
      else
        { trials := updAt c.trials t (setState .fail),
          workers := updAt c.workers w (fun _ => Phase.norm P.hasCb (.failing todo (won ++ [t]))),
          events := .won w t :: c.events }
  | some (.calling []) => c.setPhase w .idle
  | some (.calling (t :: todo)) =>
    match c.trials[t]? with
    | none => c.setPhase w (Phase.norm P.hasCb (.calling todo))
    | some x =>
      if exceeds P.maxRetry x.core then
        { (c.setPhase w (Phase.norm P.hasCb (.calling todo))) with events := .callback w t false :: c.events }
      else
        { (c.setPhase w (.enqueue t x.core todo)) with events := .callback w t true :: c.events }
  | some (.enqueue t snap todo) =>
    { trials := c.trials ++ [⟨retryOf t snap, none⟩],
      workers := updAt c.workers w (fun _ => Phase.norm P.hasCb (.calling todo)),
      events := .enqueued w t c.trials.length (retryOf t snap) :: c.events }

inductive Act where
  /-- worker `w` performs the next storage call of its sweep (`ord`: row order of the stale query) -/
  | sweep (w : Nat) (ord : List Nat)
  /-- worker `w` dies here -/
  | die (w : Nat)
  | env (op : EnvOp)
deriving DecidableEq, Repr, Inhabited

def step (P : Params) (c : Cfg) : Act → Cfg
  | .sweep w ord => sweepStep P c w ord
  | .die w => c.setPhase w .dead
  | .env op => { c with trials := (envStep c.trials op).1 }

def init (n : Nat) : Cfg := { trials := [], workers := List.replicate n .idle, events := [] }

def run (P : Params) (c : Cfg) (as : List Act) : Cfg := as.foldl (step P) c

end OptunaVerif.Heartbeat
