import OptunaVerif.Model.Hypervolume
/-
  Executable model of `optuna/_hypervolume/hssp.py` (greedy hypervolume subset selection), over integer
  lattice rows.  Core Lean only.  Rows are addressed by their position in `rank_i_loss_vals`
  (`rank_i_indices` is only a relabelling, applied by the harness).

    argmax                 np.argmax (first maximum)
    argsortDesc            np.argsort(-contribs) (some order by decreasing value; the result of the lazy
                           update does not depend on how ties are ordered, see Props/C15)
    lazyGo / lazyUpdate    _lazy_contribs_update: skip a candidate whose stored upper bound is already
                           below the best exact contribution seen, otherwise recompute it exactly
    greedyLazy             the main loop of _solve_hssp_on_unique_loss_vals (d ≠ 2)
    hssp2dLoop             _solve_hssp_2d (rectangle diagonals)
    solveOnUnique          _solve_hssp_on_unique_loss_vals (non-finite reference, k = n, 2-D dispatch)
    solveHssp              _solve_hssp (k = n, np.unique with first-occurrence indices, duplicates branch)
-/
namespace OptunaVerif.Hssp
open OptunaVerif.Hypervolume

/-- first index of the maximum (`np.argmax`); 0 on the empty list: the head, unless the maximum of the
tail is strictly larger -/
def argmax : List Int → Nat
  | [] => 0
  | x :: t =>
    if t.isEmpty then 0
    else if x < t.getD (argmax t) 0 then argmax t + 1 else 0

/-- insert index `i` (value `v i`) into a list of indices sorted by decreasing value -/
def insertDesc (v : Nat → Int) (i : Nat) : List Nat → List Nat
  | [] => [i]
  | j :: t => if v j < v i then i :: j :: t else j :: insertDesc v i t

/-- `np.argsort(-contribs)` -/
def argsortDesc (cs : List Int) : List Nat :=
  (List.range cs.length).foldr (insertDesc (fun i => cs.getD i 0)) []

/-- the `for i in index_from_larger_upper_bound_contrib` loop; `g i` is the exact contribution
`hv(selected ∪ {i}) - hv(selected)` of candidate `i` -/
def lazyGo (g : Nat → Int) : List Nat → Int → List Int → List Int
  | [], _, cs => cs
  | i :: rest, m, cs =>
    if cs.getD i 0 < m then lazyGo g rest m cs
    else lazyGo g rest (max (g i) m) (cs.set i (g i))

/-- `compute_hypervolume(vecs, reference_point, assume_pareto=True)` on finite data -/
def hvAP (r : Pt) (vecs : List Pt) : Int := computeHypervolumeFin vecs r true

/-- `_lazy_contribs_update(contribs, pareto_loss_values, selected_vecs, reference_point)`;
`selected` = `selected_vecs[:-1]` -/
def lazyUpdate (r : Pt) (contribs : List Int) (cands : List Pt) (selected : List Pt) : List Int :=
  let hvSel := hvAP r selected
  lazyGo (fun i => hvAP r (selected ++ [cands.getD i []]) - hvSel) (argsortDesc contribs) 0 contribs

/-- a remaining candidate: row, position label, stored contribution -/
structure Cand where
  pt : Pt
  label : Nat
  contrib : Int
deriving Repr

def setContribs : List Cand → List Int → List Cand
  | c :: cs, v :: vs => { c with contrib := v } :: setContribs cs vs
  | cs, _ => cs

/-- main loop of `_solve_hssp_on_unique_loss_vals`: `k` picks still to make; returns the picked
candidates in order (`selected_vecs` / `selected_indices`) -/
def greedyLazy (r : Pt) : Nat → List Cand → List Pt → List Cand
  | 0, _, _ => []
  | k + 1, cands, selected =>
    let m := argmax (cands.map (·.contrib))
    match cands[m]? with
    | none => []
    | some c =>
      let cands' := cands.eraseIdx m
      if k = 0 then [c]
      else
        let selected' := selected ++ [c.pt]
        let contribs' := lazyUpdate r (cands'.map (·.contrib)) (cands'.map (·.pt)) selected'
        c :: greedyLazy r k (setContribs cands' contribs') selected'

/-- a remaining candidate of the 2-D solver: row, label, diagonal corner of its rectangle -/
structure Cand2 where
  pt : Pt
  label : Nat
  dx : Int
  dy : Int
deriving Repr

def contrib2 (c : Cand2) : Int := (c.dx - x0 c.pt) * (c.dy - y1 c.pt)

/-- `_solve_hssp_2d` main loop -/
def hssp2dLoop : Nat → List Cand2 → List Nat
  | 0, _ => []
  | k + 1, cands =>
    let m := argmax (cands.map contrib2)
    match cands[m]? with
    | none => []
    | some c =>
      let before := (cands.take m).map (fun e => { e with dx := min (x0 c.pt) e.dx })
      let after := (cands.drop (m + 1)).map (fun e => { e with dy := min (y1 c.pt) e.dy })
      c.label :: hssp2dLoop k (before ++ after)

/-- `_solve_hssp_on_unique_loss_vals(U, labels, k, ref)`; `U` is unique-lexsorted -/
def solveOnUnique (U : List Pt) (labels : List Nat) (k : Nat) (r : Pt) (refFinite : Bool) : List Nat :=
  if !refFinite then labels.take k
  else if labels.length = k then labels
  else if r.length = 2 then
    hssp2dLoop k ((U.zip labels).map (fun e => { pt := e.1, label := e.2, dx := x0 r, dy := y1 r }))
  else
    (greedyLazy r k ((U.zip labels).map (fun e => { pt := e.1, label := e.2, contrib := vol r e.1 })) []).map (·.label)

/-- `_solve_hssp(vals, arange(n), k, ref)`: positions of the selected rows -/
def solveHssp (vals : List Pt) (k : Nat) (r : Pt) (refFinite : Bool) : List Nat :=
  let n := vals.length
  if k = n then List.range n
  else
    let U := uniqueLex vals
    let firsts := U.map (fun p => vals.idxOf p)
    if U.length < k then
      let dups := (List.range n).filter (fun i => !firsts.contains i)
      let extra := dups.take (k - U.length)
      (List.range n).filter (fun i => firsts.contains i || extra.contains i)
    else solveOnUnique U firsts k r refFinite

end OptunaVerif.Hssp
