import OptunaVerif.Model.HvIR
/-!
# C15 — IR and interpreters for `optuna/_hypervolume/hssp.py` (`_solve_hssp`, `_solve_hssp_on_unique_loss_vals`) — core Lean only

* `SE` / `SV` — index-array expressions over NAMED numpy primitives, with `letE` (assignments) and `ifB` (early returns):
  `a.size`, `np.unique(a, return_index=True, axis=0)` (= `uniqueLex` + first-occurrence positions), `np.zeros(n, dtype=bool)`, `np.arange(n)`,
  `m[idx] = True`, `~m`, `a[mask]`, `a[idx]`, `a[:n]`, `a - b` on sizes, `==` / `<` on sizes, a call of the solver for unique rows.
  `_solve_hssp` is ONE such expression (`topGen`).
* `GreedyIR` — `_solve_hssp_on_unique_loss_vals`: the three early returns, the initial contributions (an `HvIR.HE` expression), and the
  loop body as it treats the three parallel arrays `contribs` / `indices` / `rank_i_loss_vals` (first-maximum `argmax`, the `keep` mask that
  drops the picked position from each array, the `break` at the last pick, the slice `selected_vecs[: k + e]` handed to
  `_lazy_contribs_update`, the final `rank_i_indices[selected_indices]`).  `_lazy_contribs_update` and `_solve_hssp_2d` are PARAMETERS of
  the interpreter (`lazy`, `solve2d`).
-/
namespace OptunaVerif.HsspIR
open OptunaVerif OptunaVerif.Hypervolume OptunaVerif.HvIR

inductive SV where
  | idx (i : List Nat) | mask (b : List Bool) | nat (n : Nat) | mat (m : List Pt) | bool (b : Bool) | err
deriving DecidableEq, Repr, Inhabited

inductive SE where
  | var (n : String) | nat (k : Nat)
  | letE (x : String) (e body : SE)
  | ifB (c a b : SE)
  | eqN (a b : SE) | ltN (a b : SE)
  | size (a : SE)                     -- `a.size` / `a.shape[0]`
  | uniqueRows (a : SE)               -- `np.unique(a, return_index=True, axis=0)[0]`
  | uniqueFirst (a : SE)              -- `…[1]`: position of the first occurrence of every unique row
  | zerosMask (n : SE) | arange (n : SE)
  | setTrue (m i : SE)                -- `m[i] = True`
  | notMask (m : SE)
  | maskSel (a m : SE)                -- `a[m]`
  | take (a i : SE)                   -- `a[i]`, `i` an index array
  | pref (a n : SE)                   -- `a[:n]`
  | subN (a b : SE)
  | setdiff (a b : SE)                -- `np.setdiff1d(a, b)`: sorted distinct values of `a` that are not in `b`
  | append (a b : SE)                 -- `np.append(a, b)`
  | solveUnique (u labels k : SE)     -- `_solve_hssp_on_unique_loss_vals(u, labels, k, reference_point)`
deriving Repr, Inhabited

def sget (env : List (String × SV)) (n : String) : SV :=
  match env.find? (fun p => p.1 == n) with
  | some p => p.2
  | none => .err

def selMask {α : Type} : List α → List Bool → List α
  | a :: as, true :: ms => a :: selMask as ms
  | _ :: as, false :: ms => selMask as ms
  | _, _ => []

def setAll (m : List Bool) : List Nat → List Bool
  | [] => m
  | j :: js => setAll (m.set j true) js

def insertSortedU (x : Nat) : List Nat → List Nat
  | [] => [x]
  | y :: t => if x < y then x :: y :: t else if x = y then y :: t else y :: insertSortedU x t

def SE.eval (solver : List Pt → List Nat → Nat → List Nat) (env : List (String × SV)) : SE → SV
  | .var n => sget env n
  | .nat k => .nat k
  | .letE x e body => body.eval solver ((x, e.eval solver env) :: env)
  | .ifB c a b =>
    match c.eval solver env with
    | .bool true => a.eval solver env
    | .bool false => b.eval solver env
    | _ => .err
  | .eqN a b =>
    match a.eval solver env, b.eval solver env with
    | .nat x, .nat y => .bool (x == y)
    | _, _ => .err
  | .ltN a b =>
    match a.eval solver env, b.eval solver env with
    | .nat x, .nat y => .bool (decide (x < y))
    | _, _ => .err
  | .size a =>
    match a.eval solver env with
    | .idx l => .nat l.length
    | .mask l => .nat l.length
    | .mat l => .nat l.length
    | _ => .err
  | .uniqueRows a =>
    match a.eval solver env with
    | .mat m => .mat (uniqueLex m)
    | _ => .err
  | .uniqueFirst a =>
    match a.eval solver env with
    | .mat m => .idx ((uniqueLex m).map (fun p => m.idxOf p))
    | _ => .err
  | .zerosMask n => match n.eval solver env with | .nat k => .mask (List.replicate k false) | _ => .err
  | .arange n => match n.eval solver env with | .nat k => .idx (List.range k) | _ => .err
  | .setTrue m i =>
    match m.eval solver env, i.eval solver env with
    | .mask b, .idx l => .mask (setAll b l)          -- an index outside the mask (numpy: IndexError) is ignored
    | _, _ => .err
  | .notMask m => match m.eval solver env with | .mask b => .mask (b.map (fun x => !x)) | _ => .err
  | .maskSel a m =>
    match a.eval solver env, m.eval solver env with
    | .idx l, .mask b => if l.length = b.length then .idx (selMask l b) else .err
    | _, _ => .err
  | .take a i =>
    match a.eval solver env, i.eval solver env with
    | .idx l, .idx is => .idx (is.map (fun j => l.getD j 0))     -- an index outside the array (numpy: IndexError) reads 0
    | _, _ => .err
  | .pref a n =>
    match a.eval solver env, n.eval solver env with
    | .idx l, .nat k => .idx (l.take k)
    | _, _ => .err
  | .subN a b =>
    match a.eval solver env, b.eval solver env with
    | .nat x, .nat y => if y ≤ x then .nat (x - y) else .err      -- a negative slice bound means something else in Python
    | _, _ => .err
  | .setdiff a b =>
    match a.eval solver env, b.eval solver env with
    | .idx x, .idx y => .idx ((x.filter (fun v => !y.contains v)).foldr insertSortedU [])
    | _, _ => .err
  | .append a b =>
    match a.eval solver env, b.eval solver env with
    | .idx x, .idx y => .idx (x ++ y)
    | _, _ => .err
  | .solveUnique u labels k =>
    match u.eval solver env, labels.eval solver env, k.eval solver env with
    | .mat m, .idx l, .nat n => .idx (solver m l n)
    | _, _, _ => .err

/-- `_solve_hssp(vals, ids, k, reference_point)` as generated; `solver` = `_solve_hssp_on_unique_loss_vals(·, ·, ·, reference_point)` -/
def topGen (e : SE) (solver : List Pt → List Nat → Nat → List Nat) (vals : List Pt) (ids : List Nat) (k : Nat) : SV :=
  e.eval solver [("vals", .mat vals), ("ids", .idx ids), ("k", .nat k)]

/-! ## `_solve_hssp_on_unique_loss_vals` -/

inductive Pick where
  | argmaxFirst | argmaxLast
deriving DecidableEq, Repr, Inhabited

structure GreedyIR where
  refNotFiniteReturnsPrefix : Bool   -- `if not np.isfinite(reference_point).all(): return rank_i_indices[:subset_size]`
  sizeEqReturnsAll : Bool            -- `if rank_i_indices.size == subset_size: return rank_i_indices`
  dispatch2d : Nat                   -- `if rank_i_loss_vals.shape[-1] == 2: return _solve_hssp_2d(…)`
  initContribs : HE                  -- `np.prod(reference_point - rank_i_loss_vals, axis=-1)` (over `S`, `ref`)
  pick : Pick                        -- `int(np.argmax(contribs))`
  recordsIndexOfPick : Bool          -- `selected_indices[k] = indices[max_index]`
  recordsVecOfPick : Bool            -- `selected_vecs[k] = rank_i_loss_vals[max_index].copy()`
  dropFromContribs : Bool            -- `contribs = contribs[keep]` with `keep[max_index] = False`
  dropFromIndices : Bool             -- `indices = indices[keep]`
  dropFromVals : Bool                -- `rank_i_loss_vals = rank_i_loss_vals[keep]`
  breakAtLast : Bool                 -- `if k == subset_size - 1: break`
  lazySliceExtra : Nat               -- `selected_vecs[: k + e]`
  resultThroughIds : Bool            -- `return rank_i_indices[selected_indices]`
deriving DecidableEq, Repr, Inhabited

def argmaxLastOf (l : List Int) : Nat := l.length - 1 - Hssp.argmax l.reverse

def Pick.eval : Pick → List Int → Nat
  | .argmaxFirst, l => Hssp.argmax l
  | .argmaxLast, l => argmaxLastOf l

/-- the greedy loop on the three parallel arrays; `sel` = the rows recorded so far -/
def greedyGen (G : GreedyIR) (lazy : List Int → List Pt → List Pt → List Int) :
    Nat → List Int → List Nat → List Pt → List Pt → List Nat
  | 0, _, _, _, _ => []
  | k + 1, cs, is, vs, sel =>
    let m := G.pick.eval cs
    match is[m]?, vs[m]? with
    | some i, some v =>
      let cs' := if G.dropFromContribs then cs.eraseIdx m else cs
      let is' := if G.dropFromIndices then is.eraseIdx m else is
      let vs' := if G.dropFromVals then vs.eraseIdx m else vs
      let rec_i := if G.recordsIndexOfPick then i else 0
      if G.breakAtLast && k == 0 then [rec_i]
      else
        let sel' := if G.recordsVecOfPick then sel ++ [v] else sel ++ [[]]
        -- `selected_vecs[: k' + e]` has the k'+1 recorded rows and e-1 scratch rows; `_lazy_contribs_update` reads all but the last
        if G.lazySliceExtra = 2 then rec_i :: greedyGen G lazy k (lazy cs' vs' sel') is' vs' sel'
        else []
    | _, _ => []

/-- `_solve_hssp_on_unique_loss_vals(U, labels, k, ref)` as generated -/
def uniqueGen (G : GreedyIR) (lazy : List Int → List Pt → List Pt → List Int)
    (solve2d : List Pt → List Nat → Nat → List Nat) (U : List Pt) (labels : List Nat) (k : Nat) (r : Pt) (refFinite : Bool) : List Nat :=
  if G.refNotFiniteReturnsPrefix && !refFinite then labels.take k
  else if G.sizeEqReturnsAll && labels.length == k then labels
  else if r.length = G.dispatch2d then solve2d U labels k
  else
    let cs := vecOf (G.initContribs.eval [("S", .mat U), ("ref", .vec r)])
    let pos := greedyGen G lazy k cs (List.range U.length) U []
    if G.resultThroughIds then pos.map (fun j => labels.getD j 0) else pos

structure HsspProg where
  top : SE
  greedy : GreedyIR
deriving Repr, Inhabited

end OptunaVerif.HsspIR
