import OptunaVerif.Model.Hssp
import OptunaVerif.Model.Rank
/-!
# C15 — the IR that `verif/translators/thv.py` emits from `optuna/_hypervolume/wfg.py`, and its interpreters
(core Lean only; linked into the driver).

`Generated/HvMethods.lean` is DATA of the types below (`prog : HvProg`), regenerated from the source on every run:

* `c2d`        — `_compute_2d` as ONE expression over named numpy primitives (`HE`);
* `wfg`        — `_compute_hv` / `_compute_exclusive_hv`: the inclusive volumes, the base cases by array size with their formulas,
                 the limited array `np.maximum(S[:, np.newaxis], S)`, the slice `[i, i + k:]`, the empty test, the Pareto filter
                 (`assume_unique_lexsorted`), the formula `inclusive_hv - rec`;
* `chv`        — `compute_hypervolume` as a list of statements (`CStmt`) with early returns.
`Generated/HvShapes.lean` additionally carries the normalised source text of every function of `wfg.py`, `hssp.py` and of the two
rank functions of `_multi_objective.py` (pinned by `*_shape` obligations of `Props/C15Gen.lean`).

Named numpy primitives and their list semantics (trusted base): `a[:, k]` (`getD k 0` of every row), `a[i]`, `a[:-1]`,
`np.minimum.accumulate`, `np.append(x, v)`, `-` (number−number, vector−vector element-wise over the common prefix, number−vector,
vector−matrix row-wise), `np.maximum` (element-wise), `np.prod(axis=-1)` (per row), `np.prod`, `np.sum`, `@` (sum of products),
`float`; in `compute_hypervolume`: `np.all(a <cmp> ref)`, `np.isfinite`, boolean row selection, `np.unique(axis=0)` (= `uniqueLex`),
`a[a[:, 0].argsort()]` (= `sort0`, a stable sort by column 0), `.shape[0]`.  Values are the integer lattice points of
`Model/Hypervolume.lean` (`EInt` = ℤ ∪ {±∞, NaN} at the boundary of `compute_hypervolume`).
IEEE fact modelled, not proved (as in the hand model): a remaining non-finite coordinate makes the computed `hv` non-finite.
-/
namespace OptunaVerif.HvIR
open OptunaVerif OptunaVerif.Hypervolume

/-! ## numeric expressions -/

inductive HVal where
  | mat (m : List Pt) | vec (v : List Int) | num (k : Int) | err
deriving DecidableEq, Repr, Inhabited

inductive HE where
  | var (n : String)
  | int (k : Int)
  | at (i : Nat) (a : HE)        -- `a[i]`
  | col (k : Nat) (a : HE)       -- `a[:, k]`
  | init (a : HE)                -- `a[:-1]`
  | cummin (a : HE)              -- `np.minimum.accumulate(a)`
  | append (x a : HE)            -- `np.append(x, a)`
  | sub (a b : HE)               -- `a - b`
  | maximum (a b : HE)           -- `np.maximum(a, b)`
  | prodLast (a : HE)            -- `np.prod(a, axis=-1)`
  | prod (a : HE)                -- `np.prod(a)`
  | sum (a : HE)                 -- `np.sum(a)`
  | dot (a b : HE)               -- `a @ b`
  | toFloat (a : HE)             -- `float(a)`
deriving DecidableEq, Repr, Inhabited

def cumminFromI (m : Int) : List Int → List Int
  | [] => []
  | y :: rest => min m y :: cumminFromI (min m y) rest

def cumminI : List Int → List Int
  | [] => []
  | x :: rest => x :: cumminFromI x rest

def subL (a b : List Int) : List Int := List.zipWith (fun x y => x - y) a b
def prodL (v : List Int) : Int := v.foldr (fun x acc => x * acc) 1
def sumL (v : List Int) : Int := v.foldr (fun x acc => x + acc) 0
def dotL (a b : List Int) : Int := sumL (List.zipWith (fun x y => x * y) a b)

def hget (env : List (String × HVal)) (n : String) : HVal :=
  match env.find? (fun p => p.1 == n) with
  | some p => p.2
  | none => .err

def HE.eval (env : List (String × HVal)) : HE → HVal
  | .var n => hget env n
  | .int k => .num k
  | .at i a =>
    match a.eval env with
    | .vec v => .num (v.getD i 0)
    | .mat m => .vec (m.getD i [])
    | _ => .err
  | .col k a =>
    match a.eval env with
    | .mat m => .vec (m.map (fun r => r.getD k 0))
    | _ => .err
  | .init a =>
    match a.eval env with
    | .vec v => .vec v.dropLast
    | _ => .err
  | .cummin a =>
    match a.eval env with
    | .vec v => .vec (cumminI v)
    | _ => .err
  | .append x a =>
    match x.eval env, a.eval env with
    | .num k, .vec v => .vec (k :: v)
    | _, _ => .err
  | .sub a b =>
    match a.eval env, b.eval env with
    | .num x, .num y => .num (x - y)
    | .vec x, .vec y => .vec (subL x y)
    | .num x, .vec y => .vec (y.map (fun t => x - t))
    | .vec x, .mat m => .mat (m.map (fun row => subL x row))
    | _, _ => .err
  | .maximum a b =>
    match a.eval env, b.eval env with
    | .vec x, .vec y => .vec (pmax x y)
    | _, _ => .err
  | .prodLast a =>
    match a.eval env with
    | .mat m => .vec (m.map prodL)
    | _ => .err
  | .prod a =>
    match a.eval env with
    | .vec v => .num (prodL v)
    | _ => .err
  | .sum a =>
    match a.eval env with
    | .vec v => .num (sumL v)
    | _ => .err
  | .dot a b =>
    match a.eval env, b.eval env with
    | .vec x, .vec y => .num (dotL x y)
    | _, _ => .err
  | .toFloat a => a.eval env

def numOf : HVal → Int
  | .num k => k
  | _ => 0
def vecOf : HVal → List Int
  | .vec v => v
  | _ => []

/-- `_compute_2d(sorted_pareto_sols, reference_point)` as generated -/
def c2dGen (e : HE) (r : Pt) (S : List Pt) : Int := numOf (e.eval [("S", .mat S), ("ref", .vec r)])

/-! ## `_compute_hv` / `_compute_exclusive_hv` -/

structure WfgIR where
  incl : HE                      -- `inclusive_hvs` (over `S`, `ref`)
  cases : List (Nat × HE)        -- `if inclusive_hvs.shape[0] == n: return e` (over `S`, `ref`, `incl`), in order
  limitedPairMax : Bool          -- `limited_sols_array = np.maximum(S[:, np.newaxis], S)`
  sliceOffset : Nat              -- `limited_sols_array[i, i + k :]`
  sumOverEnumerate : Bool        -- `sum(_compute_exclusive_hv(…, inclusive_hv, ref) for i, inclusive_hv in enumerate(inclusive_hvs))`
  exclEmptyTest : Bool           -- `if limited_sols.shape[0] == 0: return …`
  exclEmpty : HE                 -- … (over `inc`)
  exclAssumeUnique : Bool        -- `_is_pareto_front(limited_sols, assume_unique_lexsorted=…)`
  exclFormula : HE               -- `inclusive_hv - _compute_hv(limited_sols[on_front], ref)` (over `inc`, `rec`)
deriving DecidableEq, Repr, Inhabited

/-- `_compute_exclusive_hv` as generated; `front` = `limited_sols[_is_pareto_front(limited_sols, assume_unique_lexsorted=·)]` -/
def exclGen (W : WfgIR) (front : Bool → List Pt → List Pt) (rec : List Pt → Int) (limited : List Pt) (inc : Int) : Int :=
  if W.exclEmptyTest && limited.isEmpty then numOf (W.exclEmpty.eval [("inc", .num inc)])
  else numOf (W.exclFormula.eval [("inc", .num inc), ("rec", .num (rec (front W.exclAssumeUnique limited)))])

/-- `_compute_hv` as generated, with a recursion budget -/
def hvGen (W : WfgIR) (front : Bool → List Pt → List Pt) (r : Pt) : Nat → List Pt → Int
  | 0, _ => 0
  | fuel + 1, S =>
    let env0 : List (String × HVal) := [("S", .mat S), ("ref", .vec r)]
    let incl := vecOf (W.incl.eval env0)
    match W.cases.find? (fun c => c.1 == incl.length) with
    | some c => numOf (c.2.eval (("incl", .vec incl) :: env0))
    | none =>
      if W.limitedPairMax && W.sumOverEnumerate then
        sumL ((List.range incl.length).map (fun i =>
          exclGen W front (hvGen W front r fuel) ((S.drop (i + W.sliceOffset)).map (pmax (S.getD i []))) (incl.getD i 0)))
      else 0

/-! ## `compute_hypervolume` -/

inductive HCmp where
  | le | lt | ge | gt
deriving DecidableEq, Repr, Inhabited

def HCmp.evalE : HCmp → EInt → EInt → Bool
  | .le, a, b => a.le b
  | .lt, a, b => a.lt b
  | .ge, a, b => b.le a
  | .gt, a, b => b.lt a

def allCmpE (c : HCmp) : List EInt → List EInt → Bool
  | a :: p, b :: q => c.evalE a b && allCmpE c p q
  | [], [] => true
  | _, _ => false

inductive ElemTest where
  | isNegInf | isPosInf | isNan | notFinite
deriving DecidableEq, Repr, Inhabited

def ElemTest.eval : ElemTest → EInt → Bool
  | .isNegInf, .ninf => true
  | .isPosInf, .pinf => true
  | .isNan, .nan => true
  | .notFinite, x => !x.isFinite
  | _, _ => false

/-- how the rows are put in order before the sweep / the recursion -/
inductive SortK where
  | uniqueFront (assumeUnique : Bool)   -- `u = np.unique(lv, axis=0); u[_is_pareto_front(u, assume_unique_lexsorted=…)]`
  | argsort0                            -- `lv[lv[:, 0].argsort()]`
  | uniqueOnly                          -- `np.unique(lv, axis=0)`
deriving DecidableEq, Repr, Inhabited

inductive CStmt where
  | raiseUnlessAll (c : HCmp)           -- `if not np.all(loss_vals <c> reference_point): raise ValueError`
  | retInfUnlessRefFinite               -- `if not np.all(np.isfinite(reference_point)): return float("inf")`
  | keepRowsAll (c : HCmp)              -- `loss_vals = loss_vals[np.all(loss_vals <c> reference_point, axis=1)]`
  | retIfEmpty (v : Int)                -- `if loss_vals.shape[0] == 0: return v`
  | retInfIfAny (t : ElemTest)          -- `if np.any(np.<t>(loss_vals)): return float("inf")`
  | sortBranch (ifNotAssume ifAssume : SortK)   -- `if not assume_pareto: … else: …`
  | dispatch (d2 : Nat)                 -- `if reference_point.shape[0] == d2: hv = _compute_2d(…) else: hv = _compute_hv(…)`
  | retFiniteOrInf                      -- `return hv if np.isfinite(hv) else float("inf")`
  | retHv                               -- `return hv`
deriving DecidableEq, Repr, Inhabited

/-- result of the generated `compute_hypervolume`: an outcome of the hand model's type, a non-finite float returned as is
(`nan` or `inf`), or a path the statements do not determine -/
inductive COut where
  | out (o : HvOut) | nonFiniteAsIs | stuck
deriving DecidableEq, Repr, Inhabited

structure CState where
  rows : List (List EInt)
  sorted : Option (List Pt)
  hv : Option Int
  nf : Bool                             -- some remaining coordinate is not finite: the float computation leaves the finite numbers

structure HvProg where
  c2d : HE
  wfg : WfgIR
  chv : List CStmt
deriving DecidableEq, Repr, Inhabited

def frontOf (d : Nat) : Bool → List Pt → List Pt := fun au l => if au then frontSorted id d l else frontSorted id d (uniqueLex l)

def sortGen (d : Nat) (k : SortK) (S : List Pt) : List Pt :=
  match k with
  | .uniqueFront au => frontOf d au (uniqueLex S)
  | .argsort0 => sort0 S
  | .uniqueOnly => uniqueLex S

def CStmt.step (P : HvProg) (r : List EInt) (ap : Bool) (s : CState) : CStmt → COut ⊕ CState
  | .raiseUnlessAll c => if !(s.rows.all (fun p => allCmpE c p r)) then .inl (.out .error) else .inr s
  | .retInfUnlessRefFinite => if !(r.all EInt.isFinite) then .inl (.out .inf) else .inr s
  | .keepRowsAll c => .inr { s with rows := s.rows.filter (fun p => allCmpE c p r) }
  | .retIfEmpty v => if s.rows.isEmpty then .inl (.out (.fin v)) else .inr s
  | .retInfIfAny t => if s.rows.any (fun p => p.any t.eval) then .inl (.out .inf) else .inr s
  | .sortBranch a b =>
    if s.rows.any (fun p => p.any (fun c => !c.isFinite)) then .inr { s with nf := true }
    else .inr { s with sorted := some (sortGen r.length (if ap then b else a) (s.rows.map (·.map EInt.toInt))) }
  | .dispatch d2 =>
    if s.nf then .inr s else
    match s.sorted with
    | some S =>
      let rr := r.map EInt.toInt
      .inr { s with hv := some (if rr.length = d2 then c2dGen P.c2d rr S
                                 else hvGen P.wfg (frontOf rr.length) rr S.length S) }
    | none => .inl .stuck
  | .retFiniteOrInf =>
    if s.nf then .inl (.out .inf) else
    match s.hv with
    | some v => .inl (.out (.fin v))
    | none => .inl .stuck
  | .retHv =>
    if s.nf then .inl .nonFiniteAsIs else
    match s.hv with
    | some v => .inl (.out (.fin v))
    | none => .inl .stuck

def runC (P : HvProg) (r : List EInt) (ap : Bool) : List CStmt → CState → COut
  | [], _ => .stuck
  | st :: rest, s =>
    match st.step P r ap s with
    | .inl o => o
    | .inr s' => runC P r ap rest s'

/-- `compute_hypervolume(loss_vals, reference_point, assume_pareto)` as generated -/
def chvGen (P : HvProg) (S : List (List EInt)) (r : List EInt) (ap : Bool) : COut :=
  runC P r ap P.chv { rows := S, sorted := none, hv := none, nf := false }

end OptunaVerif.HvIR
