/-
  Executable model of `optuna/_hypervolume/wfg.py` and of the Pareto-front filters of
  `optuna/study/_multi_objective.py` (`_is_pareto_front*`), over integer lattice points
  (`List Int`; exact rationals are handled by scaling with a common denominator in the harness).
  Core Lean only (the compiled driver links this file).

  Correspondence with the source (function by function):
    vol r p                 np.prod(reference_point - p)
    pmax p q                np.maximum(p, q)
    anyLt a b               np.any(a < b)
    front1d / front2d / frontNd / frontSorted
                            _is_pareto_front_for_unique_sorted and its three branches, returned as the
                            sub-list selected by the boolean mask (`arr[on_front]`); generic in the
                            element type so that the driver can recover the mask itself by running it on
                            (index, point) pairs
    compute2d               _compute_2d
    hvFuel/computeHv        _compute_hv       (1-point, 2-point, WFG sum of exclusive volumes)
    exclusiveHv             _compute_exclusive_hv (limit = pointwise max, weakly-dominated filter)
    uniqueLex               np.unique(loss_vals, axis=0)
    sort0                   loss_vals[loss_vals[:, 0].argsort()]
    computeHypervolume      compute_hypervolume (reference check, non-finite reference => inf,
                            unique + Pareto pre-filter or assume_pareto sort, 2-D dispatch)
-/
namespace OptunaVerif.Hypervolume

abbrev Pt := List Int

/-- `np.prod(reference_point - p)` -/
def vol : Pt → Pt → Int
  | b :: r, a :: p => (b - a) * vol r p
  | _, _ => 1

/-- `np.maximum(p, q)` -/
def pmax : Pt → Pt → Pt
  | a :: p, b :: q => max a b :: pmax p q
  | _, _ => []

/-- `np.any(a < b)` -/
def anyLt : Pt → Pt → Bool
  | a :: p, b :: q => decide (a < b) || anyLt p q
  | _, _ => false

/-- `np.all(a <= b)` -/
def allLe : Pt → Pt → Bool
  | a :: p, b :: q => decide (a ≤ b) && allLe p q
  | [], [] => true
  | _, _ => false

/-- column 0 / column 1 of a row -/
def x0 (p : Pt) : Int := p.headD 0
def y1 (p : Pt) : Int := p.tail.headD 0

/-! ## `_is_pareto_front_for_unique_sorted` (returns `arr[on_front]`) -/
section Front
variable {α : Type} (key : α → Pt)

/-- `n_objectives == 1`: only the first row. -/
def front1d : List α → List α
  | [] => []
  | h :: _ => [h]

/-- `_is_pareto_front_2d`: row `i ≥ 1` is kept iff `cummin[i] < cummin[i-1]`, i.e. iff its second
coordinate is below the running minimum `m` of the rows before it. -/
def front2dGo (m : Int) : List α → List α
  | [] => []
  | q :: t => if y1 (key q) < m then q :: front2dGo (y1 (key q)) t else front2dGo m t

def front2d : List α → List α
  | [] => []
  | h :: t => h :: front2dGo key (y1 (key h)) t

/-- `_is_pareto_front_nd`: the head is on the front; keep, for the next round, the rows with
`np.any(loss_values[i, 1:] < loss_values[0, 1:])`.  The `while len(loss_values)` loop removes at least
the head in every round, so `length` rounds always suffice (`frontNd_cons` in Lemmas/Hypervolume). -/
def frontNdFuel : Nat → List α → List α
  | 0, _ => []
  | _ + 1, [] => []
  | n + 1, h :: t => h :: frontNdFuel n (t.filter (fun q => anyLt (key q).tail (key h).tail))

def frontNd (l : List α) : List α := frontNdFuel key l.length l

/-- dispatch on `n_objectives` -/
def frontSorted (d : Nat) (l : List α) : List α :=
  if d = 1 then front1d l else if d = 2 then front2d key l else frontNd key l

end Front

/-! ## `_compute_2d` -/

/-- rows `i ≥ 1` of the sweep: `y = np.minimum.accumulate(sols[:, 1])`; `prevY` is `y[i-1]`, the row contributes
`(ref[0] - x_i) · (y[i-1] - y[i])` with `y[i] = min(y[i-1], sols[i, 1])` — nothing when it is dominated or a
duplicate. -/
def compute2dGo (r0 : Int) : Int → List Pt → Int
  | _, [] => 0
  | prevY, p :: t => (r0 - x0 p) * (prevY - min prevY (y1 p)) + compute2dGo r0 (min prevY (y1 p)) t

/-- `edge_length_x @ edge_length_y` with `y = cummin(sols[:, 1])`, `rect_diag_y = [ref[1], y_0, …, y_{n-2}]`,
`edge_length_y = rect_diag_y - y` (row 0: `y_0 = sols[0, 1]`, no minimum with the reference) -/
def compute2d (r : Pt) (S : List Pt) : Int :=
  match S with
  | [] => 0
  | p :: t => (x0 r - x0 p) * (y1 r - y1 p) + compute2dGo (x0 r) (y1 p) t

/-! ## `_compute_hv` / `_compute_exclusive_hv` -/

/-- `_compute_exclusive_hv(limited_sols, inclusive_hv, reference_point)`; `rec` is `_compute_hv`. -/
def exclusiveHv (d : Nat) (rec : List Pt → Int) (limited : List Pt) (inc : Int) : Int :=
  if limited.isEmpty then inc else inc - rec (frontSorted id d limited)

/-- `sum(_compute_exclusive_hv(limited_sols_array[i, i+1:], inclusive_hvs[i], ref) for i …)` -/
def sumExcl (d : Nat) (r : Pt) (rec : List Pt → Int) : List Pt → Int
  | [] => 0
  | p :: rest => exclusiveHv d rec (rest.map (pmax p)) (vol r p) + sumExcl d r rec rest

/-- `_compute_hv` with an explicit recursion budget (the recursion is on strictly shorter arrays, so
`fuel = length` is always enough: `hvFuel_fuel_irrelevant` in Props/C15). -/
def hvFuel (d : Nat) (r : Pt) : Nat → List Pt → Int
  | 0, _ => 0
  | fuel + 1, S =>
    match S with
    | [] => 0
    | [p] => vol r p
    | [p, q] => vol r p + vol r q - vol r (pmax p q)
    | _ => sumExcl d r (hvFuel d r fuel) S

def computeHv (d : Nat) (r : Pt) (S : List Pt) : Int := hvFuel d r S.length S

/-! ## `np.unique(axis=0)` and `argsort` of column 0 -/

/-- strict lexicographic order of rows (equal lengths) -/
def lexLt : Pt → Pt → Bool
  | a :: p, b :: q => decide (a < b) || (a == b && lexLt p q)
  | _, _ => false

def insertLex (p : Pt) : List Pt → List Pt
  | [] => [p]
  | q :: t => if lexLt p q then p :: q :: t else if p == q then q :: t else q :: insertLex p t

/-- `np.unique(S, axis=0)`: rows lexicographically sorted, duplicates removed -/
def uniqueLex (S : List Pt) : List Pt := S.foldr insertLex []

def insert0 (p : Pt) : List Pt → List Pt
  | [] => [p]
  | q :: t => if x0 p ≤ x0 q then p :: q :: t else q :: insert0 p t

/-- `S[S[:, 0].argsort()]` (some permutation that is sorted by column 0; numpy's order of ties is
unspecified, the theorems hold for every column-0-sorted permutation) -/
def sort0 (S : List Pt) : List Pt := S.foldr insert0 []

/-! ## `compute_hypervolume` -/

/-- a coordinate as `compute_hypervolume` may receive it -/
inductive EInt where
  | ninf | fin (v : Int) | pinf | nan
deriving DecidableEq, Repr, Inhabited

/-- IEEE `a <= b` -/
def EInt.le : EInt → EInt → Bool
  | .nan, _ => false
  | _, .nan => false
  | .ninf, _ => true
  | _, .pinf => true
  | .fin a, .fin b => decide (a ≤ b)
  | .fin _, .ninf => false
  | .pinf, .fin _ => false
  | .pinf, .ninf => false

def EInt.isFinite : EInt → Bool
  | .fin _ => true
  | _ => false

def EInt.toInt : EInt → Int
  | .fin v => v
  | _ => 0

def allLeE : List EInt → List EInt → Bool
  | a :: p, b :: q => a.le b && allLeE p q
  | [], [] => true
  | _, _ => false

inductive HvOut where
  | error            -- ValueError: a point does not weakly dominate the reference point
  | inf
  | fin (v : Int)
deriving DecidableEq, Repr, Inhabited

/-- the finite core of `compute_hypervolume` (all coordinates finite, check passed) -/
def computeHypervolumeFin (S : List Pt) (r : Pt) (assumePareto : Bool) : Int :=
  let d := r.length
  let sorted :=
    if assumePareto then sort0 S
    else frontSorted id d (uniqueLex S)
  if d = 2 then compute2d r sorted else computeHv d r sorted

/-- IEEE `a < b` (false as soon as NaN is involved) -/
def EInt.lt (a b : EInt) : Bool := a.le b && !(b.le a)

/-- `np.all(p < r)` for one row -/
def allLtE : List EInt → List EInt → Bool
  | a :: p, b :: q => a.lt b && allLtE p q
  | [], [] => true
  | _, _ => false

/-- the same on finite rows -/
def allLt : Pt → Pt → Bool
  | a :: p, b :: q => decide (a < b) && allLt p q
  | [], [] => true
  | _, _ => false

/-- `loss_vals[np.all(loss_vals < reference_point, axis=1)]`: the rows that do not touch the reference point -/
def dropTouching (S : List Pt) (r : Pt) : List Pt := S.filter (fun p => allLt p r)

/-- `compute_hypervolume(loss_vals, reference_point, assume_pareto)`.
After the reference-point check and the early return for a non-finite reference point, rows that touch the
reference point in some coordinate are dropped (they dominate a box of zero volume); nothing left => `0.0`.
A remaining row with a `-inf` coordinate is strictly below a finite reference point in every coordinate: its
`inclusive_hv` / sweep term is `inf` or `nan`, every sum/difference it enters stays non-finite, and the last line
maps non-finite to `inf`; this IEEE fact is modelled by the `any` branch (sampled by the tie, not proved). -/
def computeHypervolume (S : List (List EInt)) (r : List EInt) (assumePareto : Bool) : HvOut :=
  if !(S.all (fun p => allLeE p r)) then .error
  else if !(r.all EInt.isFinite) then .inf
  else
    let S' := S.filter (fun p => allLtE p r)
    if S'.isEmpty then .fin 0
    else if S'.any (fun p => p.any (fun c => !c.isFinite)) then .inf
    else .fin (computeHypervolumeFin (S'.map (·.map EInt.toInt)) (r.map EInt.toInt) assumePareto)

/-! ## executable rendition of the specification (brute force over unit cells) -/

/-- all lattice cells `c` with `lo ≤ c < r` -/
def cellsBetween : Pt → Pt → List Pt
  | a :: lo, b :: r =>
    (List.range (b - a).toNat).flatMap (fun (k : Nat) => (cellsBetween lo r).map (fun c => (a + (k : Int)) :: c))
  | [], [] => [[]]
  | _, _ => []

/-- pointwise minimum -/
def pmin : Pt → Pt → Pt
  | a :: p, b :: q => min a b :: pmin p q
  | _, _ => []

/-- number of unit cells below `r` dominated by some point of `S` -/
def hvBrute (S : List Pt) (r : Pt) : Nat :=
  let lo := S.foldl pmin r
  ((cellsBetween lo r).filter (fun c => S.any (fun p => allLe p c))).length

end OptunaVerif.Hypervolume
