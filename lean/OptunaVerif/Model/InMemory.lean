import OptunaVerif.Model.Storage
/-
  Implementation-shaped model of `optuna/storages/_in_memory.py` (`InMemoryStorage`, `_StudyInfo`):
  the same dictionaries and counters, one branch of `step` per public method, the same order of
  checks (hence of errors) and the same order of state changes (a call that raises half-way keeps
  what it had already written, e.g. `create_new_study` has consumed a study id when it raises
  `DuplicatedStudyError`).

  Representation choices (all bijective to the Python state; the sub-driver prints the Python view):
  * Python `dict`s are insertion-ordered association lists (`NMap` for int keys, `AList` for `str`
    keys): assignment overwrites in place or appends, `del` removes the entry.
  * `_max_study_id` / `_max_trial_id` (start at -1, incremented *before* use) are kept as the next
    id to hand out: `nextStudyId = _max_study_id + 1`, `nextTrialId = _max_trial_id + 1`.
  * a stored `FrozenTrial` is the pair (`_trial_id`, `TrialS`); `TrialS.study` is model-only
    (a `FrozenTrial` does not know its study) and always holds the id of the owning study.
  * Lookups that cannot fail in a reachable state (`self._studies[study_id]` after the id came out of
    `_trial_id_to_study_id_and_number`, `trials[number]`, `_prev_waiting_trial_number[study_id]`)
    are total here: a missing dictionary key answers `KeyError` as Python would, a list index out of
    range `RuntimeError` (there is no `IndexError` in `Storage.Err`); `Lemmas/InMemoryRefine.lean`
    proves from the invariant that these branches are never taken.
  * Off-contract faults inside `_update_cache` are modelled with their state effect and a coarse
    error class (`Err.runtimeError`): `_directions[0]` on a study created with `directions=[]`
    (IndexError), `FrozenTrial.value` on a trial with several values (RuntimeError) or with
    `values=[]` (IndexError), `assert trial.value is not None` (AssertionError).
  * `create_new_study(study_name=None)` (uuid name) is not modelled: the op always carries a name.
  * `get_all_trials(states=…)`: the WAITING shortcut is taken iff `states == (TrialState.WAITING,)`,
    i.e. the one-element *tuple*; the op's `some [.waiting]` stands for that tuple.
    `get_n_trials` is `len(get_all_trials(…, deepcopy=False, states))` (`BaseStorage`), so it moves
    the cursor as well.
-/
namespace OptunaVerif.InMemory
open OptunaVerif OptunaVerif.Storage

/-! ### Python dictionaries -/

/-- `dict[int, α]`, insertion-ordered. -/
abbrev NMap (α : Type) := List (Nat × α)

namespace NMap
variable {α : Type}

/-- `d.get(k)` -/
def get? : NMap α → Nat → Option α
  | [], _ => none
  | (k', v) :: t, k => if k' = k then some v else get? t k

/-- `d[k] = v` -/
def set : NMap α → Nat → α → NMap α
  | [], k, v => [(k, v)]
  | (k', v') :: t, k, v => if k' = k then (k, v) :: t else (k', v') :: set t k v

/-- `del d[k]` (keys of a dict are unique, so dropping every entry with the key is the same) -/
def erase (l : NMap α) (k : Nat) : NMap α := l.filter (fun p => p.1 != k)

/-- in-place mutation of the object stored under `k` (`d[k].field = …`); nothing if absent -/
def upd : NMap α → Nat → (α → α) → NMap α
  | [], _, _ => []
  | (k', v') :: t, k, f => if k' = k then (k', f v') :: t else (k', v') :: upd t k f

end NMap

/-- `del d[k]` for a `dict[str, α]` -/
def eraseKey {α : Type} (l : AList α) (k : String) : AList α := l.filter (fun p => p.1 != k)

/-! ### the state -/

/-- `_StudyInfo` -/
structure StudyInfo where
  /-- `trials`: position = trial number; entry = (`_trial_id`, the other fields of the FrozenTrial) -/
  trials : List (Nat × TrialS)
  /-- `param_distribution` -/
  paramDist : AList Dist
  userAttrs : AList String
  systemAttrs : AList String
  name : String
  directions : List Nat
  /-- `best_trial_id` -/
  bestTrialId : Option Nat
deriving DecidableEq, Repr, Inhabited

structure State where
  /-- `_trial_id_to_study_id_and_number` -/
  tidMap : NMap (Nat × Nat)
  /-- `_study_name_to_id` -/
  nameToId : AList Nat
  /-- `_studies` -/
  studies : NMap StudyInfo
  /-- `_max_study_id + 1` -/
  nextStudyId : Nat
  /-- `_max_trial_id + 1` -/
  nextTrialId : Nat
  /-- `_prev_waiting_trial_number` -/
  prevWaiting : NMap Nat
deriving DecidableEq, Repr, Inhabited

/-- `InMemoryStorage.__init__` -/
def init : State :=
  { tidMap := [], nameToId := [], studies := [], nextStudyId := 0, nextTrialId := 0, prevWaiting := [] }

/-- `_StudyInfo.__init__` -/
def newStudy (name : String) (dirs : List Nat) : StudyInfo :=
  { trials := [], paramDist := [], userAttrs := [], systemAttrs := [], name := name,
    directions := dirs, bestTrialId := none }

/-- what `_build_frozen_study` shows of a `_StudyInfo` (`paramDist` is not part of a FrozenStudy;
it is carried so that the value can be compared with the contract model's ghost field) -/
def StudyInfo.pub (si : StudyInfo) : StudyS :=
  { name := si.name, directions := si.directions, userAttrs := si.userAttrs,
    systemAttrs := si.systemAttrs, paramDist := si.paramDist }

/-- A trial found by `_get_trial`: where it lives and what it is. -/
structure Found where
  sid : Nat
  num : Nat
  id : Nat          -- the `_trial_id` field of the stored object
  t : TrialS
deriving DecidableEq, Repr

/-- `_check_trial_id` + `_get_trial` -/
def getTrial (m : State) (tid : Nat) : Except Err Found :=
  match m.tidMap.get? tid with
  | none => .error .keyError
  | some (sid, num) =>
    match m.studies.get? sid with
    | none => .error .keyError
    | some si =>
      match si.trials[num]? with
      | none => .error .runtimeError
      | some (id, t) => .ok { sid := sid, num := num, id := id, t := t }

/-- `_set_trial`: `self._studies[study_id].trials[trial_number] = trial` -/
def setTrial (m : State) (sid num : Nat) (p : Nat × TrialS) : State :=
  { m with studies := m.studies.upd sid (fun si => { si with trials := si.trials.set num p }) }

/-- `_get_trial` followed by `check_trial_is_updatable` -/
def getUpdatable (m : State) (tid : Nat) : Except Err Found :=
  match getTrial m tid with
  | .error e => .error e
  | .ok f => if f.t.state.isFinished then .error .updateFinished else .ok f

/-- Python `a < b` on floats (every comparison with NaN is False) -/
def flt (a b : XVal) : Bool := a.le b && !(b.le a)

/-- `FrozenTrial.value` -/
def value? (t : TrialS) : Except Err (Option XVal) :=
  match t.values with
  | none => .ok none
  | some [] => .error .runtimeError        -- IndexError
  | some [v] => .ok (some v)
  | some (_ :: _ :: _) => .error .runtimeError  -- RuntimeError("… multi-objective optimization.")

def setBest (m : State) (sid tid : Nat) : State :=
  { m with studies := m.studies.upd sid (fun si => { si with bestTrialId := some tid }) }

/-- `_update_cache(trial_id, study_id)` -/
def updateCache (m : State) (tid sid : Nat) : Except Err State :=
  match getTrial m tid with
  | .error e => .error e
  | .ok f =>
    if f.t.state != .complete then .ok m else
    match m.studies.get? sid with
    | none => .error .keyError
    | some si =>
      match si.bestTrialId with
      | none => .ok (setBest m sid tid)
      | some b =>
        match si.directions with
        | [] => .error .runtimeError            -- `_directions[0]`: IndexError
        | _ :: _ :: _ => .ok m                  -- `len(_directions) > 1`
        | [d] =>
          match getTrial m b with
          | .error e => .error e
          | .ok fb =>
            match value? fb.t with
            | .error e => .error e
            | .ok none => .ok (setBest m sid tid)
            | .ok (some bv) =>
              match value? f.t with
              | .error e => .error e
              | .ok none => .error .runtimeError  -- `assert trial.value is not None`
              | .ok (some nv) =>
                if d == 2 then (if flt bv nv then .ok (setBest m sid tid) else .ok m)
                else (if flt nv bv then .ok (setBest m sid tid) else .ok m)

/-- the body shared by the four plain trial setters: `_get_trial`, `check_trial_is_updatable`,
copy-modify, `_set_trial` -/
def modTrial (m : State) (tid : Nat) (g : TrialS → TrialS) : State × Out :=
  match getUpdatable m tid with
  | .error e => (m, .err e)
  | .ok f => (setTrial m f.sid f.num (f.id, g f.t), .unit)

/-- `get_all_trials(study_id, states=states)` on an existing study: the new cursor table and the list -/
def allTrials (m : State) (sid : Nat) (si : StudyInfo) (states : Option (List TState)) :
    State × List (Nat × TrialS) :=
  if states == some [.waiting] then
    let c := (m.prevWaiting.get? sid).getD 0
    let found := (si.trials.drop c).filter (fun p => p.2.state == .waiting)
    let c' := match found with
      | [] => si.trials.length
      | p :: _ => p.2.number
    ({ m with prevWaiting := m.prevWaiting.set sid c' }, found)
  else (m, si.trials.filter (fun p => stateIn states p.2.state))

/-! ### the public methods -/

def step (m : State) : Op → State × Out
  | .createStudy name dirs =>
    let sid := m.nextStudyId
    let m0 := { m with nextStudyId := sid + 1 }
    if (m.nameToId.get? name).isSome then (m0, .err .duplicated)
    else
      ({ m0 with studies := m.studies.set sid (newStudy name dirs),
                 nameToId := m.nameToId.set name sid,
                 prevWaiting := m.prevWaiting.set sid 0 }, .newId sid)
  | .deleteStudy sid =>
    match m.studies.get? sid with
    | none => (m, .err .keyError)
    | some si =>
      ({ m with tidMap := si.trials.foldl (fun mp p => mp.erase p.1) m.tidMap,
                nameToId := eraseKey m.nameToId si.name,
                studies := m.studies.erase sid,
                prevWaiting := m.prevWaiting.erase sid }, .unit)
  | .setStudyUserAttr sid k v =>
    match m.studies.get? sid with
    | none => (m, .err .keyError)
    | some _ =>
      ({ m with studies := m.studies.upd sid (fun si => { si with userAttrs := si.userAttrs.set k v }) }, .unit)
  | .setStudySystemAttr sid k v =>
    match m.studies.get? sid with
    | none => (m, .err .keyError)
    | some _ =>
      ({ m with studies := m.studies.upd sid (fun si => { si with systemAttrs := si.systemAttrs.set k v }) }, .unit)
  | .createTrial sid tmpl _ =>
    match m.studies.get? sid with
    | none => (m, .err .keyError)
    | some si =>
      let tid := m.nextTrialId
      let num := si.trials.length
      let m1 := { m with
        nextTrialId := tid + 1,
        tidMap := m.tidMap.set tid (sid, num),
        studies := m.studies.upd sid (fun si => { si with trials := si.trials ++ [(tid, mkTrial sid num tmpl)] }) }
      match updateCache m1 tid sid with
      | .ok m2 => (m2, .newId tid)
      | .error e => (m1, .err e)
  | .setTrialParam tid name p _ =>
    match getUpdatable m tid with
    | .error e => (m, .err e)
    | .ok f =>
      match m.studies.get? f.sid with
      | none => (m, .err .keyError)
      | some si =>
        match si.paramDist.get? name with
        | some d0 =>
          if d0.compat p.dist then
            (setTrial { m with studies := m.studies.upd f.sid (fun si => { si with paramDist := si.paramDist.set name p.dist }) }
              f.sid f.num (f.id, { f.t with params := f.t.params.set name p }), .unit)
          else (m, .err .valueError)
        | none =>
          (setTrial { m with studies := m.studies.upd f.sid (fun si => { si with paramDist := si.paramDist.set name p.dist }) }
            f.sid f.num (f.id, { f.t with params := f.t.params.set name p }), .unit)
  | .setTrialStateValues tid st values =>
    match getUpdatable m tid with
    | .error e => (m, .err e)
    | .ok f =>
      if st == .running && f.t.state != .waiting then (m, .bool false)
      else
        let t' := { f.t with
          state := st,
          values := values.or f.t.values,
          hasStart := f.t.hasStart || st == .running,
          hasComplete := f.t.hasComplete || st.isFinished }
        let m1 := setTrial m f.sid f.num (f.id, t')
        if st.isFinished then
          match updateCache m1 tid f.sid with
          | .ok m2 => (m2, .bool true)
          | .error e => (m1, .err e)
        else if st == .waiting then
          ({ m1 with prevWaiting := m1.prevWaiting.upd f.sid (fun c => min c t'.number) }, .bool true)
        else (m1, .bool true)
  | .setTrialInter tid stp v => modTrial m tid (fun t => { t with inter := setInter t.inter stp v })
  | .setTrialUserAttr tid k v => modTrial m tid (fun t => { t with userAttrs := t.userAttrs.set k v })
  | .setTrialSystemAttr tid k v => modTrial m tid (fun t => { t with systemAttrs := t.systemAttrs.set k v })
  | .getStudyIdFromName name =>
    match m.nameToId.get? name with
    | none => (m, .err .keyError)
    | some sid => (m, .nat sid)
  | .getStudyNameFromId sid =>
    match m.studies.get? sid with
    | none => (m, .err .keyError)
    | some si => (m, .str si.name)
  | .getStudyDirections sid =>
    match m.studies.get? sid with
    | none => (m, .err .keyError)
    | some si => (m, .nats si.directions)
  | .getStudyUserAttrs sid =>
    match m.studies.get? sid with
    | none => (m, .err .keyError)
    | some si => (m, .attrs si.userAttrs)
  | .getStudySystemAttrs sid =>
    match m.studies.get? sid with
    | none => (m, .err .keyError)
    | some si => (m, .attrs si.systemAttrs)
  | .getAllStudies => (m, .studies (m.studies.map (fun p => (p.1, p.2.pub))))
  | .getTrialIdFromNumber sid number =>
    match m.studies.get? sid with
    | none => (m, .err .keyError)
    | some si =>
      match si.trials[number]? with
      | none => (m, .err .keyError)          -- `len(trials) <= trial_number`
      | some p => (m, .nat p.1)
  | .getTrialNumberFromId tid =>
    match m.tidMap.get? tid with
    | none => (m, .err .keyError)
    | some (_, num) => (m, .nat num)
  | .getTrialParam tid name =>
    match getTrial m tid with
    | .error e => (m, .err e)
    | .ok f =>
      match f.t.params.get? name with
      | none => (m, .err .keyError)          -- `trial.distributions[param_name]`
      | some p => (m, .str p.internal)
  | .getTrial tid =>
    match getTrial m tid with
    | .error e => (m, .err e)
    | .ok f => (m, .trial f.id f.t)
  | .getAllTrials sid states =>
    match m.studies.get? sid with
    | none => (m, .err .keyError)
    | some si => ((allTrials m sid si states).1, .trials (allTrials m sid si states).2)
  | .getNTrials sid states =>
    match m.studies.get? sid with
    | none => (m, .err .keyError)
    | some si => ((allTrials m sid si states).1, .nat (allTrials m sid si states).2.length)
  | .getBestTrial sid =>
    match m.studies.get? sid with
    | none => (m, .err .keyError)
    | some si =>
      match si.bestTrialId with
      | none => (m, .err .valueError)
      | some b =>
        if si.directions.length > 1 then (m, .err .runtimeError)
        else
          match getTrial m b with
          | .error e => (m, .err e)
          | .ok f => (m, .trial f.id f.t)

def run (ops : List Op) : State := ops.foldl (fun m op => (step m op).1) init

/-- Outputs of a whole history. -/
def runOut : State → List Op → List Out
  | _, [] => []
  | m, op :: rest => (step m op).2 :: runOut (step m op).1 rest

end OptunaVerif.InMemory
