import OptunaVerif.Model.Basic
/-
  `InMemoryStorage`'s shortcut for `get_all_trials(states=(WAITING,))` (optuna/storages/_in_memory.py):
  a per-study cursor `_prev_waiting_trial_number` below which no trial is WAITING; the scan starts at
  the cursor, moves it to the first WAITING trial found (or to the end), and
  `set_trial_state_values(…, WAITING)` lowers it again (the F11 repair).
-/
namespace OptunaVerif.InMemoryCursor
open OptunaVerif

structure St where
  states : List TState      -- trial number ↦ state (one study)
  cursor : Nat
deriving Repr, DecidableEq

inductive Op where
  | create (st : TState)                 -- create_new_trial (plain or from a template in any state)
  | setState (n : Nat) (st : TState)     -- set_trial_state_values on an unfinished trial
  | getWaiting                           -- get_all_trials(states=(WAITING,))
deriving Repr

/-- numbers of the WAITING trials among `l`, whose first element has number `i` -/
def waitingFrom : List TState → Nat → List Nat
  | [], _ => []
  | st :: r, i => if st = .waiting then i :: waitingFrom r (i + 1) else waitingFrom r (i + 1)

/-- what the optimised scan returns: the WAITING trials at or after the cursor -/
def scan (s : St) : List Nat := waitingFrom (s.states.drop s.cursor) s.cursor

/-- the from-scratch answer -/
def allWaiting (s : St) : List Nat := waitingFrom s.states 0

def step (s : St) : Op → St × Option (List Nat)
  | .create st => ({ s with states := s.states ++ [st] }, none)
  | .setState n st =>
    match s.states[n]? with
    | none => (s, none)
    | some old =>
      if old.isFinished then (s, none)                       -- UpdateFinishedTrialError
      else if st = .running ∧ old ≠ .waiting then (s, none)   -- answers False
      else ({ states := s.states.set n st, cursor := if st = .waiting then min s.cursor n else s.cursor }, none)
  | .getWaiting =>
    let found := scan s
    ({ s with cursor := match found with | [] => s.states.length | n :: _ => n }, some found)

/-- the same without the repair (cursor never lowered): for the F11 witness -/
def stepNoRepair (s : St) : Op → St × Option (List Nat)
  | .setState n st =>
    match s.states[n]? with
    | none => (s, none)
    | some old =>
      if old.isFinished then (s, none)
      else if st = .running ∧ old ≠ .waiting then (s, none)
      else ({ s with states := s.states.set n st }, none)
  | op => step s op

end OptunaVerif.InMemoryCursor
