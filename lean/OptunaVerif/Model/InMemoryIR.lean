import OptunaVerif.Model.InMemory
/-
  A statement language for the bodies of the methods of `InMemoryStorage`
  (optuna/storages/_in_memory.py) and its interpreter over the state of `Model/InMemory.lean`
  (same design as `Model/JournalIR.lean`; here the hand model already has the dictionaries of the code,
  so the primitives are plain dict / list / field operations).

  `verif/translators/tinmem.py` reads the Python source with `ast` on every run and emits every public
  method, the private helpers (`_check_study_id`, `_check_trial_id`, `_get_trial`, `_set_trial`,
  `_update_cache`), `BaseStorage.check_trial_is_updatable` / `get_n_trials` and the initialisers of
  `_StudyInfo` as DATA of the types below into `Generated/InMemoryMethods.lean`.
  `Props/C01InMemGen.lean` proves `interp (generated method) = InMemory.step` on that method's op for
  all states and arguments.

  Meaning given here (modelled, not derived from the source) — the same choices as `Model/InMemory.lean`:
    * `_max_study_id + 1` / `_max_trial_id + 1` are `nextStudyId` / `nextTrialId`;
    * a stored FrozenTrial is (`_trial_id`, `TrialS`); `params`+`distributions` are one list;
      `datetime_*` are presence bits; `TrialS.study` is model-only and written when the trial is
      appended to a study's list;
    * `copy.copy` / `copy.deepcopy` are the identity on values (aliasing is C20's subject); a local
      `study = self._studies[sid]` is a reference (writes go to the stored record);
    * `d[k]` with a missing key raises `KeyError`; `del d[k]`, `d[k] = min(d[k], …)` and the slice start
      `_prev_waiting_trial_number[sid]` are total as in the hand model (`erase`, `upd`, `getD 0`);
      `self._studies[sid].trials[i] = x` with `sid` unknown or `i` out of range is a no-op as in the hand
      model (`InMemory.setTrial`: `NMap.upd`, `List.set`);
    * IndexError / AssertionError / TypeError / the RuntimeError of `FrozenTrial.value` are the one
      coarse class `Err.runtimeError`, as in the hand model;
    * an unbound local / an argument the method does not have / a value of the wrong kind ends the
      run with the marker `Flow.bad` (answer `Out.oneOf []`, which `InMemory.step` never gives).
-/
namespace OptunaVerif.InMemoryIR
open OptunaVerif OptunaVerif.Storage OptunaVerif.InMemory

/-! ### the arguments of a call (`none` = the method has no such parameter) -/

def opSid? : Op → Option Nat
  | .deleteStudy sid | .setStudyUserAttr sid _ _ | .setStudySystemAttr sid _ _ | .createTrial sid _ _
  | .getStudyNameFromId sid | .getStudyDirections sid | .getStudyUserAttrs sid | .getStudySystemAttrs sid
  | .getTrialIdFromNumber sid _ | .getAllTrials sid _ | .getNTrials sid _ | .getBestTrial sid => some sid
  | _ => none

def opTid? : Op → Option Nat
  | .setTrialParam tid _ _ _ | .setTrialStateValues tid _ _ | .setTrialInter tid _ _
  | .setTrialUserAttr tid _ _ | .setTrialSystemAttr tid _ _ | .getTrialNumberFromId tid
  | .getTrialParam tid _ | .getTrial tid => some tid
  | _ => none

/-- `study_name` -/
def opName? : Op → Option String
  | .createStudy name _ | .getStudyIdFromName name => some name
  | _ => none

/-- `directions` -/
def opDirs? : Op → Option (List Nat)
  | .createStudy _ dirs => some dirs
  | _ => none

/-- `key`, `value` -/
def opAttr? : Op → Option (String × String)
  | .setStudyUserAttr _ k v | .setStudySystemAttr _ k v | .setTrialUserAttr _ k v
  | .setTrialSystemAttr _ k v => some (k, v)
  | _ => none

/-- `template_trial` -/
def opTmpl? : Op → Option (Option Template)
  | .createTrial _ t _ => some t
  | _ => none

/-- `param_name` -/
def opParamName? : Op → Option String
  | .setTrialParam _ name _ _ | .getTrialParam _ name => some name
  | _ => none

/-- `param_value_internal`, `distribution` -/
def opParam? : Op → Option Param
  | .setTrialParam _ _ p _ => some p
  | _ => none

/-- `state` -/
def opState? : Op → Option TState
  | .setTrialStateValues _ st _ => some st
  | _ => none

/-- `values` -/
def opValues? : Op → Option (Option (List XVal))
  | .setTrialStateValues _ _ vs => some vs
  | _ => none

/-- `step`, `intermediate_value` -/
def opInter? : Op → Option (Int × XVal)
  | .setTrialInter _ stp v => some (stp, v)
  | _ => none

/-- `trial_number` -/
def opNumber? : Op → Option Nat
  | .getTrialIdFromNumber _ n => some n
  | _ => none

/-- `states` (`get_n_trials` hands its `state` on unchanged) -/
def opStates? : Op → Option (Option (List TState))
  | .getAllTrials _ s | .getNTrials _ s => some s
  | _ => none

/-! ### the statement language -/

/-- integer expressions -/
inductive NumE where
  | lit (n : Nat)
  | sidV                 -- `study_id`
  | tidV                 -- `trial_id`
  | numV                 -- `trial_number`
  | trialNumber          -- `trial.number`
  | trialId              -- `trial._trial_id`
  | lenStudyTrials       -- `len(self._studies[study_id].trials)`
  | lenTrials            -- `len(trials)`
  | succ (e : NumE)      -- `e + 1`
deriving DecidableEq, Repr, Inhabited

inductive Cmp where
  | lt | gt | le | ge
deriving DecidableEq, Repr, Inhabited

inductive Cond where
  | tt | ff
  | not (c : Cond)
  | and (a b : Cond)
  | or (a b : Cond)
  | nameGiven            -- `study_name is not None` (the uuid name is not modelled: always true)
  | nameKnown            -- `study_name in self._study_name_to_id`
  | studyKnown           -- `study_id in self._studies`
  | trialKnown           -- `trial_id in self._trial_id_to_study_id_and_number`
  | templateNone         -- `template_trial is None`
  | paramKnown           -- `param_name in self._studies[study_id].param_distribution`
  | studyIsNone          -- `study is None`
  | numberBeyond         -- `len(trials) <= trial_number`
  | bestIsNone           -- `best_trial_id is None`
  | studyMultiObjective  -- `len(self._studies[study_id].directions) > 1`
  | dirsMany             -- `len(_directions) > 1`
  | argStateIs (s : TState)   -- `state == TrialState.<S>`
  | argStateFinished     -- `state.is_finished()`
  | trialStateIs (s : TState) -- `trial.state == TrialState.<S>`
  | passedStateFinished  -- `trial_state.is_finished()` (parameter of check_trial_is_updatable)
  | valuesGiven          -- `values is not None`
  | statesIsWaitingTuple -- `states == (TrialState.WAITING,)`
  | statesGiven          -- `states is not None`
  | trialsEmpty          -- `not trials`
  | bestValueNone        -- `best_trial.value is None`
  | trialValueNone       -- `trial.value is None`
  | dirIsMaximize        -- `direction == StudyDirection.MAXIMIZE`
  | cmpBestNew (c : Cmp) -- `best_value <c> new_value`
deriving DecidableEq, Repr, Inhabited

/-- what a `return` yields -/
inductive RetE where
  | none | bool (b : Bool)
  | sidV | tidV
  | nameToId             -- `self._study_name_to_id[study_name]`
  | studyName | studyDirs | studyUserAttrs | studySystemAttrs   -- `self._studies[study_id].<field>`
  | allStudies           -- `[self._build_frozen_study(study_id) for study_id in self._studies]`
  | studyTrialAt         -- `self._studies[study_id].trials[trial_number]`
  | tidMapNumber         -- `self._trial_id_to_study_id_and_number[trial_id][1]`
  | trial                -- `trial`
  | trialIdOfTrial       -- `trial._trial_id`
  | trials               -- `trials`
  | trialParamInternal   -- `trial.distributions[param_name].to_internal_repr(trial.params[param_name])`
  | val                  -- the value a call just returned
  | lenVal               -- `len(<that value>)`
deriving DecidableEq, Repr, Inhabited

/-- parameters of a callee -/
inductive Slot where
  | sid | tid | trial | passedState
deriving DecidableEq, Repr, Inhabited

/-- argument expressions at a call site -/
inductive Arg where
  | sidV | tidV | bestId | trial | trialState
deriving DecidableEq, Repr, Inhabited

/-- where the caller keeps the result of a call -/
inductive Res where
  | drop | trial | bestTrial | dirs | val
deriving DecidableEq, Repr, Inhabited

inductive Act where
  | sidFromMax                 -- `study_id = self._max_study_id + 1`
  | bumpMaxStudyId             -- `self._max_study_id += 1`
  | tidFromMax                 -- `trial_id = self._max_trial_id + 1`
  | bumpMaxTrialId             -- `self._max_trial_id += 1`
  | sidOfTrialId               -- `study_id = self._trial_id_to_study_id_and_number[trial_id][0]`
  | sidNumOfTrialId            -- `study_id, trial_number = self._trial_id_to_study_id_and_number[trial_id]`
  | uuidName                   -- `study_name = DEFAULT_STUDY_NAME_PREFIX + str(uuid.uuid4())` (not modelled)
  | storeNewStudy              -- `self._studies[study_id] = _StudyInfo(study_name, list(directions))`
  | nameToIdSet                -- `self._study_name_to_id[study_name] = study_id`
  | prevWaitingSet (e : NumE)  -- `self._prev_waiting_trial_number[study_id] = e`
  | prevWaitingMin (e : NumE)  -- `self._prev_waiting_trial_number[study_id] = min(self._prev_waiting_trial_number[study_id], e)`
  | tidMapDel (e : NumE)       -- `del self._trial_id_to_study_id_and_number[e]`
  | nameOfStudy                -- `study_name = self._studies[study_id].name`
  | nameToIdDel                -- `del self._study_name_to_id[study_name]`
  | studiesDel                 -- `del self._studies[study_id]`
  | prevWaitingDel             -- `del self._prev_waiting_trial_number[study_id]`
  | bindStudy                  -- `study = self._studies[study_id]`
  | bindStudyGet               -- `study = self._studies.get(study_id)`
  | studySetAttr (user : Bool) -- `study.<user|system>_attrs = {**study.<same>, key: value}`
  | newRunningTrial            -- `trial = self._create_running_trial()`
  | trialFromTemplate          -- `trial = copy.deepcopy(template_trial)`
  | trialSetNumber (e : NumE)  -- `trial.number = e`
  | trialSetId (e : NumE)      -- `trial._trial_id = e`
  | tidMapSet (e : NumE)       -- `self._trial_id_to_study_id_and_number[trial_id] = (study_id, e)`
  | studyTrialsAppend          -- `self._studies[study_id].trials.append(trial)`
  | studyTrialSet              -- `self._studies[study_id].trials[trial_number] = trial`
  | checkCompat                -- `distributions.check_distribution_compatibility(self._studies[study_id].param_distribution[param_name], distribution)`
  | paramDistSet               -- `self._studies[study_id].param_distribution[param_name] = distribution`
  | trialSetParam              -- `trial.params[param_name] = distribution.to_external_repr(param_value_internal)` + `trial.distributions[param_name] = distribution`
  | trialSetInter              -- `trial.intermediate_values[step] = intermediate_value`
  | trialSetAttr (user : Bool) -- `trial.<user|system>_attrs[key] = value`
  | trialSetState              -- `trial.state = state`
  | trialSetValues             -- `trial.values = values`
  | trialSetStart              -- `trial.datetime_start = datetime.now()`
  | trialSetComplete           -- `trial.datetime_complete = datetime.now()`
  | bindTrialsOfStudyRef       -- `trials = study.trials`
  | bindTrialsOfStudy          -- `trials = self._studies[study_id].trials`
  | trialsNew                  -- `trials = []`
  | trialsAppend               -- `trials.append(trial)`
  | trialsFilterStates         -- `trials = [t for t in trials if t.state in states]`
  | trialOfTrials              -- `trial = trials[trial_number]`
  | bindBest                   -- `best_trial_id = self._studies[study_id].best_trial_id`
  | setBest                    -- `self._studies[study_id].best_trial_id = trial_id`
  | bindDirection              -- `direction = _directions[0]`
  | bindBestValue              -- `best_value = best_trial.value`
  | bindNewValue               -- `new_value = trial.value`
deriving DecidableEq, Repr, Inhabited

inductive Stmt where
  | skip
  | seq (a b : Stmt)
  | ite (c : Cond) (t e : Stmt)
  | raise (e : Err)
  | ret (r : RetE)
  | act (a : Act)
  /-- a call of another method of the object: its body runs in a fresh frame whose parameters are bound
  from the caller's expressions; what it returns goes to `res`; what it raises propagates -/
  | call (h : Stmt) (args : List (Slot × Arg)) (res : Res)
  /-- `for trial in self._studies[study_id].trials[<from>:]: body`; `fromCursor`: the slice starts at
  `self._prev_waiting_trial_number[study_id]`, else at 0.  The slice is taken once, before the loop. -/
  | forStudyTrials (fromCursor : Bool) (body : Stmt)
deriving Repr, Inhabited

def block : List Stmt → Stmt
  | [] => .skip
  | [s] => s
  | s :: rest => .seq s (block rest)

/-! ### interpreter -/

abbrev Tr := Nat × TrialS

inductive Val where
  | none | bool (b : Bool) | nat (n : Nat) | str (s : String) | nats (l : List Nat)
  | attrs (l : AList String) | studies (l : List (Nat × StudyS)) | trial (p : Tr) | trials (l : List Tr)
deriving DecidableEq, Repr, Inhabited

/-- one frame: the storage object and the locals of the running method -/
structure Env where
  m : State
  sid : Option Nat                 -- `study_id`
  tid : Option Nat                 -- `trial_id`
  num : Option Nat                 -- `trial_number` (a local of `_get_trial` / `_set_trial`)
  name : Option String             -- `study_name`
  trial : Option Tr                -- `trial`
  bestTrial : Option Tr            -- `best_trial`
  study : Option (Option Nat)      -- `study`: a reference to `self._studies[id]`, or `None`
  trials : Option (List Tr)        -- `trials`
  best : Option (Option Nat)       -- `best_trial_id`
  dirs : Option (List Nat)         -- `_directions`
  dir : Option Nat                 -- `direction`
  passedState : Option TState      -- parameter `trial_state`
  bestValue : Option (Option XVal) -- `best_value`
  newValue : Option (Option XVal)  -- `new_value`
  val : Option Val                 -- the value the last call returned
deriving Repr, Inhabited

def Env.frame (m : State) : Env :=
  { m := m, sid := none, tid := none, num := none, name := none, trial := none, bestTrial := none,
    study := none, trials := none, best := none, dirs := none, dir := none, passedState := none,
    bestValue := none, newValue := none, val := none }

/-- the frame of a public method called with the arguments of `op` -/
def Env.entry (m : State) (op : Op) : Env :=
  { Env.frame m with sid := opSid? op, tid := opTid? op, name := opName? op }

inductive Flow where
  | next
  | ret (v : Val)
  | raised (e : Err)
  | bad
deriving DecidableEq, Repr, Inhabited

/-- result of evaluating an expression -/
inductive R (α : Type) where
  | ok (a : α) | err (e : Err) | bad
deriving Repr

def R.ofOpt {α : Type} : Option α → R α
  | some a => .ok a
  | none => .bad

/-- `self._studies[study_id]` -/
def studyOf (env : Env) : R (Nat × StudyInfo) :=
  match env.sid with
  | none => .bad
  | some sid => match env.m.studies.get? sid with
    | none => .err .keyError
    | some si => .ok (sid, si)

def evalNum (env : Env) : NumE → R Nat
  | .lit n => .ok n
  | .sidV => R.ofOpt env.sid
  | .tidV => R.ofOpt env.tid
  | .numV => R.ofOpt env.num
  | .trialNumber => match env.trial with
    | none => .bad
    | some p => .ok p.2.number
  | .trialId => match env.trial with
    | none => .bad
    | some p => .ok p.1
  | .lenStudyTrials => match studyOf env with
    | .ok (_, si) => .ok si.trials.length
    | .err e => .err e
    | .bad => .bad
  | .lenTrials => match env.trials with
    | none => .bad
    | some l => .ok l.length
  | .succ e => match evalNum env e with
    | .ok n => .ok (n + 1)
    | r => r

/-- Python comparison of floats (`False` whenever a NaN is involved) -/
def cmpVal : Cmp → XVal → XVal → Bool
  | .lt, a, b => flt a b
  | .gt, a, b => flt b a
  | .le, a, b => a.le b
  | .ge, a, b => b.le a

def evalCond (op : Op) (env : Env) : Cond → R Bool
  | .tt => .ok true
  | .ff => .ok false
  | .not c => match evalCond op env c with
    | .ok b => .ok (!b)
    | r => r
  | .and a b => match evalCond op env a with
    | .ok true => evalCond op env b
    | r => r
  | .or a b => match evalCond op env a with
    | .ok false => evalCond op env b
    | r => r
  | .nameGiven => match env.name with
    | none => .bad
    | some _ => .ok true
  | .nameKnown => match env.name with
    | none => .bad
    | some n => .ok (env.m.nameToId.get? n).isSome
  | .studyKnown => match env.sid with
    | none => .bad
    | some sid => .ok (env.m.studies.get? sid).isSome
  | .trialKnown => match env.tid with
    | none => .bad
    | some tid => .ok (env.m.tidMap.get? tid).isSome
  | .templateNone => match opTmpl? op with
    | none => .bad
    | some t => .ok t.isNone
  | .paramKnown => match studyOf env, opParamName? op with
    | .ok (_, si), some n => .ok (si.paramDist.get? n).isSome
    | .err e, _ => .err e
    | _, _ => .bad
  | .studyIsNone => match env.study with
    | none => .bad
    | some r => .ok r.isNone
  | .numberBeyond => match env.trials, opNumber? op with
    | some l, some n => .ok (decide (l.length ≤ n))
    | _, _ => .bad
  | .bestIsNone => match env.best with
    | none => .bad
    | some b => .ok b.isNone
  | .studyMultiObjective => match studyOf env with
    | .ok (_, si) => .ok (decide (si.directions.length > 1))
    | .err e => .err e
    | .bad => .bad
  | .dirsMany => match env.dirs with
    | none => .bad
    | some l => .ok (decide (l.length > 1))
  | .argStateIs s => match opState? op with
    | none => .bad
    | some st => .ok (st == s)
  | .argStateFinished => match opState? op with
    | none => .bad
    | some st => .ok st.isFinished
  | .trialStateIs s => match env.trial with
    | none => .bad
    | some p => .ok (p.2.state == s)
  | .passedStateFinished => match env.passedState with
    | none => .bad
    | some st => .ok st.isFinished
  | .valuesGiven => match opValues? op with
    | none => .bad
    | some vs => .ok vs.isSome
  | .statesIsWaitingTuple => match opStates? op with
    | none => .bad
    | some s => .ok (s == some [.waiting])
  | .statesGiven => match opStates? op with
    | none => .bad
    | some s => .ok s.isSome
  | .trialsEmpty => match env.trials with
    | none => .bad
    | some l => .ok l.isEmpty
  | .bestValueNone => match env.bestTrial with
    | none => .bad
    | some p => match value? p.2 with
      | .error e => .err e
      | .ok v => .ok v.isNone
  | .trialValueNone => match env.trial with
    | none => .bad
    | some p => match value? p.2 with
      | .error e => .err e
      | .ok v => .ok v.isNone
  | .dirIsMaximize => match env.dir with
    | none => .bad
    | some d => .ok (d == 2)
  | .cmpBestNew c => match env.bestValue, env.newValue with
    | some (some a), some (some b) => .ok (cmpVal c a b)
    | some _, some _ => .err .runtimeError      -- `None < x`: TypeError
    | _, _ => .bad

def evalRet (op : Op) (env : Env) : RetE → R Val
  | .none => .ok .none
  | .bool b => .ok (.bool b)
  | .sidV => match env.sid with
    | none => .bad
    | some s => .ok (.nat s)
  | .tidV => match env.tid with
    | none => .bad
    | some t => .ok (.nat t)
  | .nameToId => match env.name with
    | none => .bad
    | some n => match env.m.nameToId.get? n with
      | none => .err .keyError
      | some s => .ok (.nat s)
  | .studyName => match studyOf env with
    | .ok (_, si) => .ok (.str si.name)
    | .err e => .err e
    | .bad => .bad
  | .studyDirs => match studyOf env with
    | .ok (_, si) => .ok (.nats si.directions)
    | .err e => .err e
    | .bad => .bad
  | .studyUserAttrs => match studyOf env with
    | .ok (_, si) => .ok (.attrs si.userAttrs)
    | .err e => .err e
    | .bad => .bad
  | .studySystemAttrs => match studyOf env with
    | .ok (_, si) => .ok (.attrs si.systemAttrs)
    | .err e => .err e
    | .bad => .bad
  | .allStudies => .ok (.studies (env.m.studies.map (fun p => (p.1, p.2.pub))))
  | .studyTrialAt => match studyOf env, env.num with
    | .ok (_, si), some n => match si.trials[n]? with
      | none => .err .runtimeError             -- IndexError
      | some p => .ok (.trial p)
    | .err e, _ => .err e
    | _, _ => .bad
  | .tidMapNumber => match env.tid with
    | none => .bad
    | some t => match env.m.tidMap.get? t with
      | none => .err .keyError
      | some (_, n) => .ok (.nat n)
  | .trial => match env.trial with
    | none => .bad
    | some p => .ok (.trial p)
  | .trialIdOfTrial => match env.trial with
    | none => .bad
    | some p => .ok (.nat p.1)
  | .trials => match env.trials with
    | none => .bad
    | some l => .ok (.trials l)
  | .trialParamInternal => match env.trial, opParamName? op with
    | some p, some n => match p.2.params.get? n with
      | none => .err .keyError
      | some q => .ok (.str q.internal)
    | _, _ => .bad
  | .val => R.ofOpt env.val
  | .lenVal => match env.val with
    | some (.trials l) => .ok (.nat l.length)
    | _ => .bad

def setM (env : Env) (m : State) : Env := { env with m := m }

def updStudy (env : Env) (sid : Nat) (f : StudyInfo → StudyInfo) : Env :=
  setM env { env.m with studies := env.m.studies.upd sid f }

def ok (env : Env) : Env × Flow := (env, .next)
def bad (env : Env) : Env × Flow := (env, .bad)
def raiseE (env : Env) (e : Err) : Env × Flow := (env, .raised e)

def doAct (op : Op) (env : Env) : Act → Env × Flow
  | .sidFromMax => ok { env with sid := some env.m.nextStudyId }
  | .bumpMaxStudyId => ok (setM env { env.m with nextStudyId := env.m.nextStudyId + 1 })
  | .tidFromMax => ok { env with tid := some env.m.nextTrialId }
  | .bumpMaxTrialId => ok (setM env { env.m with nextTrialId := env.m.nextTrialId + 1 })
  | .sidOfTrialId => match env.tid with
    | none => bad env
    | some t => match env.m.tidMap.get? t with
      | none => raiseE env .keyError
      | some (s, _) => ok { env with sid := some s }
  | .sidNumOfTrialId => match env.tid with
    | none => bad env
    | some t => match env.m.tidMap.get? t with
      | none => raiseE env .keyError
      | some (s, n) => ok { env with sid := some s, num := some n }
  | .uuidName => bad env
  | .storeNewStudy => match env.sid, env.name, opDirs? op with
    | some s, some n, some d => ok (setM env { env.m with studies := env.m.studies.set s (newStudy n d) })
    | _, _, _ => bad env
  | .nameToIdSet => match env.sid, env.name with
    | some s, some n => ok (setM env { env.m with nameToId := env.m.nameToId.set n s })
    | _, _ => bad env
  | .prevWaitingSet e => match env.sid, evalNum env e with
    | some s, .ok n => ok (setM env { env.m with prevWaiting := env.m.prevWaiting.set s n })
    | some _, .err x => raiseE env x
    | _, _ => bad env
  | .prevWaitingMin e => match env.sid, evalNum env e with
    | some s, .ok n => ok (setM env { env.m with prevWaiting := env.m.prevWaiting.upd s (fun c => min c n) })
    | some _, .err x => raiseE env x
    | _, _ => bad env
  | .tidMapDel e => match evalNum env e with
    | .ok n => ok (setM env { env.m with tidMap := env.m.tidMap.erase n })
    | .err x => raiseE env x
    | .bad => bad env
  | .nameOfStudy => match studyOf env with
    | .ok (_, si) => ok { env with name := some si.name }
    | .err e => raiseE env e
    | .bad => bad env
  | .nameToIdDel => match env.name with
    | none => bad env
    | some n => ok (setM env { env.m with nameToId := eraseKey env.m.nameToId n })
  | .studiesDel => match env.sid with
    | none => bad env
    | some s => ok (setM env { env.m with studies := env.m.studies.erase s })
  | .prevWaitingDel => match env.sid with
    | none => bad env
    | some s => ok (setM env { env.m with prevWaiting := env.m.prevWaiting.erase s })
  | .bindStudy => match studyOf env with
    | .ok (s, _) => ok { env with study := some (some s) }
    | .err e => raiseE env e
    | .bad => bad env
  | .bindStudyGet => match env.sid with
    | none => bad env
    | some s => ok { env with study := some (if (env.m.studies.get? s).isSome then some s else none) }
  | .studySetAttr user => match env.study, opAttr? op with
    | some (some s), some (k, v) =>
      ok (updStudy env s (fun si =>
        if user then { si with userAttrs := si.userAttrs.set k v }
        else { si with systemAttrs := si.systemAttrs.set k v }))
    | some none, some _ => raiseE env .runtimeError    -- attribute of `None`
    | _, _ => bad env
  | .newRunningTrial => ok { env with trial := some (0, mkTrial 0 0 none) }
  | .trialFromTemplate => match opTmpl? op with
    | some (some t) => ok { env with trial := some (0, mkTrial 0 0 (some t)) }
    | _ => bad env
  | .trialSetNumber e => match env.trial, evalNum env e with
    | some p, .ok n => ok { env with trial := some (p.1, { p.2 with number := n }) }
    | some _, .err x => raiseE env x
    | _, _ => bad env
  | .trialSetId e => match env.trial, evalNum env e with
    | some p, .ok n => ok { env with trial := some (n, p.2) }
    | some _, .err x => raiseE env x
    | _, _ => bad env
  | .tidMapSet e => match env.sid, env.tid, evalNum env e with
    | some s, some t, .ok n => ok (setM env { env.m with tidMap := env.m.tidMap.set t (s, n) })
    | some _, some _, .err x => raiseE env x
    | _, _, _ => bad env
  | .studyTrialsAppend => match studyOf env, env.trial with
    | .ok (s, _), some p =>
      ok (updStudy env s (fun si => { si with trials := si.trials ++ [(p.1, { p.2 with study := s })] }))
    | .err e, _ => raiseE env e
    | _, _ => bad env
  | .studyTrialSet => match env.sid, env.num, env.trial with
    | some s, some n, some p => ok (updStudy env s (fun si => { si with trials := si.trials.set n p }))
    | _, _, _ => bad env
  | .checkCompat => match studyOf env, opParamName? op, opParam? op with
    | .ok (_, si), some n, some p => match si.paramDist.get? n with
      | none => raiseE env .keyError
      | some d0 => if d0.compat p.dist then ok env else raiseE env .valueError
    | .err e, _, _ => raiseE env e
    | _, _, _ => bad env
  | .paramDistSet => match studyOf env, opParamName? op, opParam? op with
    | .ok (s, _), some n, some p => ok (updStudy env s (fun si => { si with paramDist := si.paramDist.set n p.dist }))
    | .err e, _, _ => raiseE env e
    | _, _, _ => bad env
  | .trialSetParam => match env.trial, opParamName? op, opParam? op with
    | some t, some n, some p => ok { env with trial := some (t.1, { t.2 with params := t.2.params.set n p }) }
    | _, _, _ => bad env
  | .trialSetInter => match env.trial, opInter? op with
    | some t, some (stp, v) => ok { env with trial := some (t.1, { t.2 with inter := setInter t.2.inter stp v }) }
    | _, _ => bad env
  | .trialSetAttr user => match env.trial, opAttr? op with
    | some t, some (k, v) =>
      ok { env with trial := some (t.1, if user then { t.2 with userAttrs := t.2.userAttrs.set k v }
                                         else { t.2 with systemAttrs := t.2.systemAttrs.set k v }) }
    | _, _ => bad env
  | .trialSetState => match env.trial, opState? op with
    | some t, some st => ok { env with trial := some (t.1, { t.2 with state := st }) }
    | _, _ => bad env
  | .trialSetValues => match env.trial, opValues? op with
    | some t, some vs => ok { env with trial := some (t.1, { t.2 with values := vs }) }
    | _, _ => bad env
  | .trialSetStart => match env.trial with
    | some t => ok { env with trial := some (t.1, { t.2 with hasStart := true }) }
    | none => bad env
  | .trialSetComplete => match env.trial with
    | some t => ok { env with trial := some (t.1, { t.2 with hasComplete := true }) }
    | none => bad env
  | .bindTrialsOfStudyRef => match env.study with
    | some (some s) => match env.m.studies.get? s with
      | some si => ok { env with trials := some si.trials }
      | none => bad env
    | some none => raiseE env .runtimeError
    | none => bad env
  | .bindTrialsOfStudy => match studyOf env with
    | .ok (_, si) => ok { env with trials := some si.trials }
    | .err e => raiseE env e
    | .bad => bad env
  | .trialsNew => ok { env with trials := some [] }
  | .trialsAppend => match env.trials, env.trial with
    | some l, some p => ok { env with trials := some (l ++ [p]) }
    | _, _ => bad env
  | .trialsFilterStates => match env.trials, opStates? op with
    | some l, some s => ok { env with trials := some (l.filter (fun p => stateIn s p.2.state)) }
    | _, _ => bad env
  | .trialOfTrials => match env.trials, opNumber? op with
    | some l, some n => match l[n]? with
      | some p => ok { env with trial := some p }
      | none => raiseE env .runtimeError
    | _, _ => bad env
  | .bindBest => match studyOf env with
    | .ok (_, si) => ok { env with best := some si.bestTrialId }
    | .err e => raiseE env e
    | .bad => bad env
  | .setBest => match studyOf env, env.tid with
    | .ok (s, _), some t => ok (setM env (InMemory.setBest env.m s t))
    | .err e, _ => raiseE env e
    | _, _ => bad env
  | .bindDirection => match env.dirs with
    | none => bad env
    | some [] => raiseE env .runtimeError       -- IndexError
    | some (d :: _) => ok { env with dir := some d }
  | .bindBestValue => match env.bestTrial with
    | none => bad env
    | some p => match value? p.2 with
      | .error e => raiseE env e
      | .ok v => ok { env with bestValue := some v }
  | .bindNewValue => match env.trial with
    | none => bad env
    | some p => match value? p.2 with
      | .error e => raiseE env e
      | .ok v => ok { env with newValue := some v }

/-- the callee's frame -/
def bindArgs (caller : Env) : List (Slot × Arg) → Env → Option Env
  | [], c => some c
  | (s, a) :: rest, c =>
    let c' : Option Env := match s, a with
      | .sid, .sidV => caller.sid.map (fun x => { c with sid := some x })
      | .tid, .tidV => caller.tid.map (fun x => { c with tid := some x })
      | .tid, .bestId => match caller.best with
        | some (some b) => some { c with tid := some b }
        | _ => none
      | .trial, .trial => caller.trial.map (fun x => { c with trial := some x })
      | .passedState, .trialState => caller.trial.map (fun x => { c with passedState := some x.2.state })
      | _, _ => none
    match c' with
    | none => none
    | some c' => bindArgs caller rest c'

def bindRes (env : Env) : Res → Val → Env × Flow
  | .drop, _ => ok env
  | .val, v => ok { env with val := some v }
  | .trial, .trial p => ok { env with trial := some p }
  | .bestTrial, .trial p => ok { env with bestTrial := some p }
  | .dirs, .nats l => ok { env with dirs := some l }
  | _, _ => bad env

/-- the loop: `return` / `raise` in the body leave it (there is no `break` in these loops) -/
def loop (f : Env → Env × Flow) : List Tr → Env → Env × Flow
  | [], env => (env, .next)
  | p :: rest, env =>
    match f { env with trial := some p } with
    | (env', .next) => loop f rest env'
    | r => r

def exec (op : Op) : Stmt → Env → Env × Flow
  | .skip, env => (env, .next)
  | .seq a b, env =>
    match exec op a env with
    | (env', .next) => exec op b env'
    | r => r
  | .ite c t e, env =>
    match evalCond op env c with
    | .ok true => exec op t env
    | .ok false => exec op e env
    | .err x => (env, .raised x)
    | .bad => (env, .bad)
  | .raise x, env => (env, .raised x)
  | .ret r, env =>
    match evalRet op env r with
    | .ok v => (env, .ret v)
    | .err x => (env, .raised x)
    | .bad => (env, .bad)
  | .act a, env => doAct op env a
  | .call h args res, env =>
    match bindArgs env args (Env.frame env.m) with
    | none => (env, .bad)
    | some callee =>
      match exec op h callee with
      | (c, .raised x) => (setM env c.m, .raised x)
      | (c, .bad) => (setM env c.m, .bad)
      | (c, .ret v) => bindRes (setM env c.m) res v
      | (c, .next) => bindRes (setM env c.m) res .none
  | .forStudyTrials fromCursor body, env =>
    match studyOf env with
    | .bad => (env, .bad)
    | .err x => (env, .raised x)
    | .ok (sid, si) =>
      loop (fun e => exec op body e)
        (if fromCursor then si.trials.drop ((env.m.prevWaiting.get? sid).getD 0) else si.trials) env

/-- how the harness' `Out` encodes what a method returned (`create_*` answer fresh ids) -/
def outFor : Op → Val → Out
  | .createStudy _ _, .nat n => .newId n
  | .createTrial _ _ _, .nat n => .newId n
  | _, .none => .unit
  | _, .bool b => .bool b
  | _, .nat n => .nat n
  | _, .str s => .str s
  | _, .nats l => .nats l
  | _, .attrs l => .attrs l
  | _, .studies l => .studies l
  | _, .trial p => .trial p.1 p.2
  | _, .trials l => .trials l

/-- the answer nobody gives: the run left what this interpreter can express -/
abbrev unrepresentable : Out := .oneOf []

def finish (op : Op) : Env × Flow → State × Out
  | (env, .raised e) => (env.m, .err e)
  | (env, .ret v) => (env.m, outFor op v)
  | (env, .next) => (env.m, outFor op .none)
  | (env, .bad) => (env.m, unrepresentable)

/-- one public method called with the arguments of `op` -/
def interp (h : Stmt) (m : State) (op : Op) : State × Out := finish op (exec op h (Env.entry m op))

/-! ### the class -/

structure Program where
  /-- method name ↦ body (public methods, `BaseStorage.get_n_trials`) -/
  methods : List (String × Stmt)
  /-- `_StudyInfo.__init__`: attribute ↦ initial value (`"[]"`, `"{}"`, `"None"`, a parameter name) -/
  studyInfoInit : List (String × String)
  /-- `InMemoryStorage.__init__`: attribute ↦ initial value -/
  storageInit : List (String × String)
deriving Repr, Inhabited

def lookup {α : Type} (k : String) : List (String × α) → Option α
  | [] => none
  | (k', v) :: t => if k' == k then some v else lookup k t

/-- the method of `InMemoryStorage` an op of the harness calls -/
def methodOf : Op → String
  | .createStudy .. => "create_new_study" | .deleteStudy .. => "delete_study"
  | .setStudyUserAttr .. => "set_study_user_attr" | .setStudySystemAttr .. => "set_study_system_attr"
  | .createTrial .. => "create_new_trial" | .setTrialParam .. => "set_trial_param"
  | .setTrialStateValues .. => "set_trial_state_values" | .setTrialInter .. => "set_trial_intermediate_value"
  | .setTrialUserAttr .. => "set_trial_user_attr" | .setTrialSystemAttr .. => "set_trial_system_attr"
  | .getStudyIdFromName .. => "get_study_id_from_name" | .getStudyNameFromId .. => "get_study_name_from_id"
  | .getStudyDirections .. => "get_study_directions" | .getStudyUserAttrs .. => "get_study_user_attrs"
  | .getStudySystemAttrs .. => "get_study_system_attrs" | .getAllStudies => "get_all_studies"
  | .getTrialIdFromNumber .. => "get_trial_id_from_study_id_trial_number"
  | .getTrialNumberFromId .. => "get_trial_number_from_id" | .getTrialParam .. => "get_trial_param"
  | .getTrial .. => "get_trial" | .getAllTrials .. => "get_all_trials" | .getNTrials .. => "get_n_trials"
  | .getBestTrial .. => "get_best_trial"

def interpOp (p : Program) (m : State) (op : Op) : State × Out :=
  match lookup (methodOf op) p.methods with
  | none => (m, unrepresentable)
  | some h => interp h m op

def runGen (p : Program) (ops : List Op) : State := ops.foldl (fun m op => (interpOp p m op).1) init

end OptunaVerif.InMemoryIR
