import OptunaVerif.Model.Storage
/-
  Implementation-shaped model of `JournalStorageReplayResult` (optuna/storages/journal/_storage.py):
  the state a worker derives from the log by `apply_logs`, one `_apply_*` handler per op code, errors
  raised only at the issuer of a record, the read cursor advanced *before* a record is applied.

  Representation: journal ids are counters that never go back (`_next_study_id`,
  `len(_trial_id_to_study_id)`), so studies/trials live in the same position-indexed lists as the
  contract model `Storage.Spec`; `_apply_delete_study` drops the study's trials, which is `Spec`'s
  "a trial of a deleted study is dead".  On top of that the replica keeps what is local to a worker:
  the cursor, the trial each worker thread owns, the id of the trial this process created last.
-/
namespace OptunaVerif.Journal
open OptunaVerif OptunaVerif.Storage

inductive Rec where
  | createStudy (w : String) (name : String) (dirs : List Nat)
  | deleteStudy (w : String) (sid : Nat)
  | setStudyUserAttr (w : String) (sid : Nat) (k v : String)
  | setStudySystemAttr (w : String) (sid : Nat) (k v : String)
  | createTrial (w : String) (sid : Nat) (tmpl : Option Template)
  | setTrialParam (w : String) (tid : Nat) (name : String) (p : Param)
  | setTrialStateValues (w : String) (tid : Nat) (st : TState) (values : Option (List XVal))
  | setTrialInter (w : String) (tid : Nat) (step : Int) (v : XVal)
  | setTrialUserAttr (w : String) (tid : Nat) (k v : String)
  | setTrialSystemAttr (w : String) (tid : Nat) (k v : String)
deriving Repr, Inhabited, DecidableEq

def Rec.worker : Rec → String
  | .createStudy w .. | .deleteStudy w .. | .setStudyUserAttr w .. | .setStudySystemAttr w ..
  | .createTrial w .. | .setTrialParam w .. | .setTrialStateValues w .. | .setTrialInter w ..
  | .setTrialUserAttr w .. | .setTrialSystemAttr w .. => w

structure JState where
  spec : Spec
  /-- `log_number_read` -/
  cursor : Nat
  /-- `_worker_id_to_owned_trial_id` -/
  owned : AList Nat
  /-- `_last_created_trial_id_by_this_process` (`none` = -1) -/
  lastCreated : Option Nat
deriving Repr, Inhabited, DecidableEq

def JState.init : JState := { spec := Storage.init, cursor := 0, owned := [], lastCreated := none }

def erase (l : AList Nat) (k : String) : AList Nat := l.filter (fun p => p.1 != k)

/-- `_apply_set_trial_param`'s compatibility check: the first trial of the study, in number order,
that already has the name decides. -/
def firstDistOf (s : Spec) (sid : Nat) (name : String) : Option Dist :=
  ((s.trialsOf sid).findSome? (fun p => p.2.params.get? name)).map (·.dist)

/-- the state change of an accepted `set_trial_param` (the `paramDist` component is ghost state kept
so that the replica can be compared with the contract model) -/
def setParam (s : Spec) (tid sid : Nat) (name : String) (p : Param) : Spec :=
  (s.updTrial tid (fun t => { t with params := t.params.set name p })).updStudy sid
    (fun x => { x with paramDist := x.paramDist.set name p.dist })

/-- `raiseIf me e st` : an error is raised only when this replica's worker issued the record. -/
def reject (me : Bool) (e : Err) (st : JState) : JState × Option Err :=
  (st, if me then some e else none)

/-- `_trial_exists_and_updatable` -/
def updatable (s : Spec) (tid : Nat) : Except Err TrialS := s.writable tid

/-- One `_apply_*` handler.  `w` is the worker id of the thread that runs the replay. -/
def apply (w : String) (st : JState) (r : Rec) : JState × Option Err :=
  let me := r.worker == w
  let s := st.spec
  match r with
  | .createStudy _ name dirs =>
    if s.nameTaken name then reject me .duplicated st
    else ({ st with spec := { s with studies := s.studies ++ [some (StudyS.mk name dirs [] [] [])] } }, none)
  | .deleteStudy _ sid =>
    match s.study? sid with
    | none => reject me .keyError st
    | some _ => ({ st with spec := { s with studies := updAt s.studies sid (fun _ => none) } }, none)
  | .setStudyUserAttr _ sid k v =>
    match s.study? sid with
    | none => reject me .keyError st
    | some _ => ({ st with spec := s.updStudy sid (fun x => { x with userAttrs := x.userAttrs.set k v }) }, none)
  | .setStudySystemAttr _ sid k v =>
    match s.study? sid with
    | none => reject me .keyError st
    | some _ => ({ st with spec := s.updStudy sid (fun x => { x with systemAttrs := x.systemAttrs.set k v }) }, none)
  | .createTrial _ sid tmpl =>
    match s.study? sid with
    | none => reject me .keyError st
    | some _ =>
      let tid := s.trials.length
      let t := mkTrial sid (s.trialsOf sid).length tmpl
      let st1 := { st with spec := { s with trials := s.trials ++ [t] } }
      if me then
        ({ st1 with lastCreated := some tid,
                    owned := if t.state == .running then st.owned.set w tid else st.owned }, none)
      else (st1, none)
  | .setTrialParam _ tid name p =>
    match updatable s tid with
    | .error e => reject me e st
    | .ok t =>
      match firstDistOf s t.study name with
      | some d0 =>
        if d0.compat p.dist then
          ({ st with spec := setParam s tid t.study name p }, none)
        else reject me .valueError st
      | none =>
        ({ st with spec := setParam s tid t.study name p }, none)
  | .setTrialStateValues _ tid state values =>
    match updatable s tid with
    | .error e => reject me e st
    | .ok t =>
      if state == .running && t.state == .running then
        -- already running: nothing changes; the issuer gives up what it owned (so it answers False)
        ({ st with owned := if me then erase st.owned w else st.owned }, none)
      else
        let s' := s.updTrial tid (fun t => { t with
            state := state,
            values := values.or t.values,
            hasStart := t.hasStart || state == .running,
            hasComplete := t.hasComplete || state.isFinished })
        ({ st with spec := s', owned := if state == .running && me then st.owned.set w tid else st.owned }, none)
  | .setTrialInter _ tid stp v =>
    match updatable s tid with
    | .error e => reject me e st
    | .ok _ => ({ st with spec := s.updTrial tid (fun t => { t with inter := setInter t.inter stp v }) }, none)
  | .setTrialUserAttr _ tid k v =>
    match updatable s tid with
    | .error e => reject me e st
    | .ok _ => ({ st with spec := s.updTrial tid (fun t => { t with userAttrs := t.userAttrs.set k v }) }, none)
  | .setTrialSystemAttr _ tid k v =>
    match updatable s tid with
    | .error e => reject me e st
    | .ok _ => ({ st with spec := s.updTrial tid (fun t => { t with systemAttrs := t.systemAttrs.set k v }) }, none)

/-- `apply_logs`: the cursor moves past a record *before* it is applied; an error aborts the batch
(the records after it stay unread and are picked up by the next sync). -/
def applyLogs (w : String) : JState → List Rec → JState × Option Err
  | st, [] => (st, none)
  | st, r :: rest =>
    match apply w { st with cursor := st.cursor + 1 } r with
    | (st', some e) => (st', some e)
    | (st', none) => applyLogs w st' rest

/-- `_sync_with_backend` against a log of which the first `upto` records are visible. -/
def sync (w : String) (st : JState) (log : List Rec) (upto : Nat) : JState × Option Err :=
  applyLogs w st ((log.take upto).drop st.cursor)

/-- Replay that swallows errors (what a sequence of syncs amounts to in the end). -/
def applyAll (w : String) (st : JState) (rs : List Rec) : JState :=
  rs.foldl (fun st r => (apply w { st with cursor := st.cursor + 1 } r).1) st

/-- `restore_replay_result`: a snapshot taken by any worker, adopted by worker-local bookkeeping reset. -/
def restore (snap : JState) : JState := { snap with owned := [], lastCreated := none }

/-- Return value of `JournalStorage.set_trial_state_values` after its own record was synced. -/
def claimAnswer (w : String) (st : JState) (tid : Nat) (state : TState) : Bool :=
  !(state == .running && st.owned.get? w != some tid)

end OptunaVerif.Journal
