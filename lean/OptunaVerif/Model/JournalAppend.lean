import OptunaVerif.Model.JournalFile
/-
  The appender side of `JournalFileBackend.append_logs`, byte by byte, with process death:

      with get_lock_file(self._lock):            -- acquire (or take over the lock of a dead holder)
          truncate an unterminated tail           -- repair (the F9 fix)
          f.write(record + b"\n")                 -- delivered one byte at a time (= any chunking)
          f.flush(); os.fsync(...)                -- no change of the bytes
      release                                     -- the call returns: the record is acknowledged

  A worker may die after any step.  A dead holder keeps the lock file; another worker may take it
  over (modelled as one atomic step: the hypothesis "at most one waiter breaks a stale lock at a
  time" — the race between two waiters is known finding F13 and is outside this model).
-/
namespace OptunaVerif.JournalAppend
open OptunaVerif.JournalFile

/-- complete lines (without their newline) and the unterminated tail of a byte string -/
def splitRec : List Nat → List Nat → List (List Nat) × List Nat
  | [], cur => ([], cur)
  | b :: r, cur => if b = nl then ((cur :: (splitRec r []).1), (splitRec r []).2) else splitRec r (cur ++ [b])

def records (f : List Nat) : List (List Nat) := (splitRec f []).1
def tail (f : List Nat) : List Nat := (splitRec f []).2

/-- the repair step: drop the bytes after the last newline -/
def repair (f : List Nat) : List Nat := f.take (f.length - (tail f).length)

inductive Stage where
  | locked                       -- holds the lock, has not repaired yet
  | writing (rest : List Nat)    -- bytes of `record ++ [nl]` still to be written
  | written                      -- everything written, flushing / syncing
deriving DecidableEq, Repr

structure Worker where
  stage : Option Stage           -- `none`: not inside append_logs
  record : List Nat              -- the record of the current call (no newline inside)
  dead : Bool
deriving DecidableEq, Repr

structure St where
  file : List Nat
  lock : Option Nat
  ws : List Worker
  /-- records whose `append_logs` has returned, oldest first -/
  acked : List (List Nat)
deriving Repr

inductive Act where
  | acquire (w : Nat) (r : List Nat)     -- lock file created; `r` = the record to append
  | takeover (w : Nat) (r : List Nat)    -- stale lock of a dead holder broken and re-created
  | repair (w : Nat)
  | writeByte (w : Nat)
  | release (w : Nat)                    -- unlock; the call returns
  | die (w : Nat)
deriving Repr

def setW (ws : List Worker) (w : Nat) (x : Worker) : List Worker := updAt ws w (fun _ => x)

def isDead (st : St) (w : Nat) : Bool := ((st.ws[w]?).map (·.dead)).getD false

def step (st : St) : Act → St
  | .acquire w r =>
    match st.lock, st.ws[w]? with
    | none, some wk =>
      if wk.dead || wk.stage.isSome || r.contains nl then st
      else { st with lock := some w, ws := setW st.ws w { wk with stage := some .locked, record := r } }
    | _, _ => st
  | .takeover w r =>
    match st.lock, st.ws[w]? with
    | some h, some wk =>
      if isDead st h && !wk.dead && wk.stage.isNone && !r.contains nl && h != w then
        -- the dead holder is gone for good: whatever it was doing is forgotten, its bytes stay in the file
        { st with lock := some w,
                  ws := setW (updAt st.ws h (fun x => { x with stage := none })) w
                          { wk with stage := some .locked, record := r } }
      else st
    | _, _ => st
  | .repair w =>
    match st.ws[w]? with
    | some wk =>
      if st.lock == some w && !wk.dead && wk.stage == some .locked then
        { st with file := repair st.file, ws := setW st.ws w { wk with stage := some (.writing (wk.record ++ [nl])) } }
      else st
    | none => st
  | .writeByte w =>
    match st.ws[w]? with
    | some wk =>
      if st.lock == some w && !wk.dead then
        match wk.stage with
        | some (.writing (b :: rest)) =>
          { st with file := st.file ++ [b],
                    ws := setW st.ws w { wk with stage := some (if rest.isEmpty then .written else .writing rest) } }
        | _ => st
      else st
    | none => st
  | .release w =>
    match st.ws[w]? with
    | some wk =>
      if st.lock == some w && !wk.dead && wk.stage == some .written then
        { st with lock := none, ws := setW st.ws w { wk with stage := none }, acked := st.acked ++ [wk.record] }
      else st
    | none => st
  | .die w =>
    match st.ws[w]? with
    | some wk => { st with ws := setW st.ws w { wk with dead := true } }
    | none => st

def run (st : St) (acts : List Act) : St := acts.foldl step st

def init (n : Nat) : St :=
  { file := [], lock := none, ws := List.replicate n { stage := none, record := [], dead := false }, acked := [] }

end OptunaVerif.JournalAppend
