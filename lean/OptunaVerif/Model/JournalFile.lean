import OptunaVerif.Model.Basic
/-
  Byte-level model of `JournalFileBackend.read_logs` (optuna/storages/journal/_file.py): the file is
  a list of bytes; the reader takes a size snapshot, seeks to a cached offset or scans from 0, walks
  the lines, remembers where each record starts, drops an unterminated / undecodable *last* line
  (and forgets its offset), raises if such a line is followed by another one.
-/
namespace OptunaVerif.JournalFile

def nl : Nat := 10

/-- What the reader looks at in one line (`for line in f`). -/
structure Line where
  len : Nat            -- bytes, newline included when present
  terminated : Bool    -- `line.endswith(b"\n")`
  valid : Bool         -- `json.loads(line)` succeeds
deriving DecidableEq, Repr, Inhabited

/-- Python's line iteration over a byte string: lengths and termination of the successive lines. -/
def splitLens : List Nat → Nat → List (Nat × Bool)
  | [], 0 => []
  | [], n + 1 => [(n + 1, false)]
  | b :: r, n => if b = nl then (n + 1, true) :: splitLens r 0 else splitLens r (n + 1)

abbrev Cache := List (Nat × Nat)     -- log number ↦ byte offset (a dict: first match wins, set replaces)

def Cache.get? (c : Cache) (k : Nat) : Option Nat := (c.find? (fun p => p.1 == k)).map (·.2)
def Cache.set (c : Cache) (k o : Nat) : Cache := (k, o) :: c.filter (fun p => p.1 != k)
def Cache.del (c : Cache) (k : Nat) : Cache := c.filter (fun p => p.1 != k)

inductive Res where
  | ok (lines : List Nat) (cache : Cache)      -- indices (log numbers) of the returned records
  | raised (cache : Cache)                     -- the pending decode error was raised
  | keyError (cache : Cache)                   -- `self._log_number_offset[log_number]` missing
deriving Repr, Inhabited, DecidableEq

/-- The loop body of `read_logs`, line by line. `n` = log number of the head line,
`remaining` = bytes of the snapshot not yet consumed, `pending` = `last_decode_error is not None`. -/
def readLoop (from_ : Nat) : List Line → Nat → Int → Bool → Cache → List Nat → Res
  | [], _, _, _, cache, acc => .ok acc.reverse cache
  | ln :: rest, n, remaining, pending, cache, acc =>
    let remaining' := remaining - ln.len
    if remaining' < 0 then .ok acc.reverse cache
    else if pending then .raised cache
    else
      match (if (cache.get? (n + 1)).isSome then some cache
             else (cache.get? n).map (fun o => cache.set (n + 1) (o + ln.len))) with
      | none => .keyError cache
      | some cache1 =>
        if !ln.terminated then readLoop from_ rest (n + 1) remaining' true (cache1.del (n + 1)) acc
        else if n < from_ then readLoop from_ rest (n + 1) remaining' false cache1 acc
        else if ln.valid then readLoop from_ rest (n + 1) remaining' false cache1 (n :: acc)
        else readLoop from_ rest (n + 1) remaining' true (cache1.del (n + 1)) acc

/-- `read_logs(log_number_from)`: `lines` are the lines of the file from the seek position on
(`linesFrom 0` when the offset of `from_` is not cached, `linesFrom (offset from_)` otherwise). -/
def readLogs (size : Nat) (cache : Cache) (from_ : Nat) (linesFrom : Nat → List Line) : Res :=
  match cache.get? from_ with
  | some off => readLoop from_ (linesFrom off) from_ ((size : Int) - off) false cache []
  | none => readLoop from_ (linesFrom 0) 0 (size : Int) false cache []

end OptunaVerif.JournalFile
