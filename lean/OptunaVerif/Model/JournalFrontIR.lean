import OptunaVerif.Model.JournalIR
/-
  The front end of the journal storage: the PUBLIC methods of `JournalStorage`
  (optuna/storages/journal/_storage.py) as data, and what that data means.

  `verif/translators/tjournalfront.py` reads the source with `ast` on every run and emits into
  `Generated/JournalFront.lean`
    * for every writer: the statements that build the record (`FStmt`: which argument goes into which
      key, under which condition, through which encoding), the `JournalOperation` member passed to
      `_write_log`, and the step sequences before / inside / after `with self._thread_lock:`;
    * for every getter: the same step sequences (sync, then one read of the replay result);
    * `__getstate__` / `__setstate__` / `restore_replay_result` as tables.
  `Props/C06FrontGen.lean` proves that the record a generated writer builds is the record of
  `Model/Journal.lean` for that contract call (so that the generated handlers of `Generated/JournalHandlers`
  apply to it), that every read of the replay result happens inside the lock after the sync, that the
  returned expression is the contract's answer, and the pickle tables.

  Meaning given here (modelled, not derived from the source):
    * a record is a finite map key ↦ `FVal`; `decodeRec` reads it back the way the `_apply_*` handlers
      (and the harness' `rec_to_driver`) read a record: it is the inverse of the encodings
      `distribution_to_json` / `json_to_distribution`, `to_internal_repr`, `isoformat` / `fromisoformat`
      (timestamps are presence bits), `int(state)` / `TrialState(..)`;
    * `study_name or DEFAULT_STUDY_NAME_PREFIX + str(uuid.uuid4())`: the op always carries a name
      (the generated name is an abstract string the caller learns through the returned id);
    * `template_trial.value` of a template with `values == []` raises (IndexError): no record is built.
-/
namespace OptunaVerif.JournalFrontIR
open OptunaVerif OptunaVerif.Storage OptunaVerif.Journal

/-! ### record fields -/

inductive FVal where
  | nat (n : Nat) | str (s : String) | nats (l : List Nat)
  | attr (k v : String)              -- `{key: value}`
  | state (s : TState)               -- `state` (JSON: its int value)
  | values (v : Option (List XVal))  -- `values` / `None`
  | value (v : Option XVal)          -- `template_trial.value` / `None`
  | time (present : Bool)            -- `….isoformat(timespec="microseconds")` / `None`
  | dist (d : Dist)                  -- `distribution_to_json(distribution)`
  | internal (s : String)            -- `param_value_internal`
  | step (i : Int) | xval (v : XVal)
  | dists (l : AList Dist)           -- `{k: distribution_to_json(d) for k, d in template_trial.distributions.items()}`
  | internals (l : AList String)     -- `{k: template_trial.distributions[k].to_internal_repr(p) for k, p in template_trial.params.items()}`
  | attrs (l : AList String)
  | inter (l : List (Int × XVal))
deriving DecidableEq, Repr, Inhabited

abbrev LogD := AList FVal

/-- expressions over the arguments of the public method -/
inductive FieldE where
  | studyId | trialId
  | studyName            -- `study_name` after `study_name = study_name or DEFAULT_STUDY_NAME_PREFIX + str(uuid.uuid4())`
  | directions
  | attrKV               -- `{key: value}`
  | nowIso               -- `datetime.datetime.now().isoformat(timespec="microseconds")`
  | state | values
  | paramName | paramInternal | paramDist   -- `param_name`, `param_value_internal`, `distribution_to_json(distribution)`
  | step | interValue
  | none                 -- `None`
  | tmplState            -- `template_trial.state`
  | tmplValue            -- `template_trial.value`
  | tmplValues           -- `template_trial.values`
  | tmplStartIso | tmplCompleteIso   -- `template_trial.datetime_<x>.isoformat(timespec="microseconds")`
  | tmplDists | tmplInternals | tmplUserAttrs | tmplSystemAttrs | tmplInter
deriving DecidableEq, Repr, Inhabited

inductive FCond where
  | hasTemplate          -- `if template_trial:`
  | tmplMultiValues      -- `template_trial.values is not None and len(template_trial.values) > 1`
  | tmplHasStart         -- `if template_trial.datetime_start:`
  | tmplHasComplete      -- `if template_trial.datetime_complete:`
  | stateIsRunning       -- `state == TrialState.RUNNING`
  | stateFinished        -- `state.is_finished()`
deriving DecidableEq, Repr, Inhabited

/-- statements that fill the record (`log[key] = e`, dict displays are a run of `set`s) -/
inductive FStmt where
  | set (key : String) (e : FieldE)
  | ite (c : FCond) (t e : List FStmt)
deriving Repr, Inhabited

/-! ### arguments of a contract call -/

def aSid? : Op → Option Nat
  | .deleteStudy sid | .setStudyUserAttr sid _ _ | .setStudySystemAttr sid _ _ | .createTrial sid _ _ => some sid
  | _ => none
def aTid? : Op → Option Nat
  | .setTrialParam tid _ _ _ | .setTrialStateValues tid _ _ | .setTrialInter tid _ _
  | .setTrialUserAttr tid _ _ | .setTrialSystemAttr tid _ _ => some tid
  | _ => none
def aTmpl? : Op → Option (Option Template)
  | .createTrial _ t _ => some t
  | _ => none
def aState? : Op → Option TState
  | .setTrialStateValues _ st _ => some st
  | _ => none

def evalField (op : Op) : FieldE → Option FVal
  | .studyId => (aSid? op).map .nat
  | .trialId => (aTid? op).map .nat
  | .studyName => match op with
    | .createStudy name _ => some (.str name)
    | _ => none
  | .directions => match op with
    | .createStudy _ dirs => some (.nats dirs)
    | _ => none
  | .attrKV => match op with
    | .setStudyUserAttr _ k v | .setStudySystemAttr _ k v | .setTrialUserAttr _ k v | .setTrialSystemAttr _ k v =>
      some (.attr k v)
    | _ => none
  | .nowIso => some (.time true)
  | .state => (aState? op).map .state
  | .values => match op with
    | .setTrialStateValues _ _ vs => some (.values vs)
    | _ => none
  | .paramName => match op with
    | .setTrialParam _ name _ _ => some (.str name)
    | _ => none
  | .paramInternal => match op with
    | .setTrialParam _ _ p _ => some (.internal p.internal)
    | _ => none
  | .paramDist => match op with
    | .setTrialParam _ _ p _ => some (.dist p.dist)
    | _ => none
  | .step => match op with
    | .setTrialInter _ s _ => some (.step s)
    | _ => none
  | .interValue => match op with
    | .setTrialInter _ _ v => some (.xval v)
    | _ => none
  | .none => some (.value none)
  | .tmplState => match aTmpl? op with
    | some (some t) => some (.state t.state)
    | _ => none
  | .tmplValue => match aTmpl? op with
    | some (some t) => match t.values with
      | none => some (.value none)
      | some [v] => some (.value (some v))
      | some _ => none                      -- IndexError (`[]`) / RuntimeError (several values)
    | _ => none
  | .tmplValues => match aTmpl? op with
    | some (some t) => some (.values t.values)
    | _ => none
  | .tmplStartIso => match aTmpl? op with
    | some (some t) => if t.hasStart then some (.time true) else none   -- `None.isoformat`: AttributeError
    | _ => none
  | .tmplCompleteIso => match aTmpl? op with
    | some (some t) => if t.hasComplete then some (.time true) else none
    | _ => none
  | .tmplDists => match aTmpl? op with
    | some (some t) => some (.dists (t.params.map (fun p => (p.1, p.2.dist))))
    | _ => none
  | .tmplInternals => match aTmpl? op with
    | some (some t) => some (.internals (t.params.map (fun p => (p.1, p.2.internal))))
    | _ => none
  | .tmplUserAttrs => match aTmpl? op with
    | some (some t) => some (.attrs t.userAttrs)
    | _ => none
  | .tmplSystemAttrs => match aTmpl? op with
    | some (some t) => some (.attrs t.systemAttrs)
    | _ => none
  | .tmplInter => match aTmpl? op with
    | some (some t) => some (.inter t.inter)
    | _ => none

def evalFCond (op : Op) : FCond → Option Bool
  | .hasTemplate => (aTmpl? op).map (·.isSome)
  | .tmplMultiValues => match aTmpl? op with
    | some (some t) => some (match t.values with
      | some l => decide (l.length > 1)
      | none => false)
    | _ => none
  | .tmplHasStart => match aTmpl? op with
    | some (some t) => some t.hasStart
    | _ => none
  | .tmplHasComplete => match aTmpl? op with
    | some (some t) => some t.hasComplete
    | _ => none
  | .stateIsRunning => (aState? op).map (· == .running)
  | .stateFinished => (aState? op).map (·.isFinished)

mutual
/-- run the record-building statements; `none` = an expression raised / an argument is missing -/
def runF (op : Op) : FStmt → LogD → Option LogD
  | .set k e, d => (evalField op e).map (fun v => d.set k v)
  | .ite c t e, d => match evalFCond op c with
    | none => none
    | some true => runFs op t d
    | some false => runFs op e d
def runFs (op : Op) : List FStmt → LogD → Option LogD
  | [], d => some d
  | s :: rest, d => match runF op s d with
    | none => none
    | some d' => runFs op rest d'
end

/-! ### reading a record back (what the handlers / the harness read) -/

def gNat (d : LogD) (k : String) : Option Nat := match d.get? k with | some (.nat n) => some n | _ => none
def gStr (d : LogD) (k : String) : Option String := match d.get? k with | some (.str s) => some s | _ => none

/-- the template fields of a `CREATE_TRIAL` record (`"state" in log`) -/
def decodeTemplate (d : LogD) : Option (Option Template) :=
  match d.get? "state" with
  | none => some none
  | some (.state st) =>
    let values : Option (List XVal) := match d.get? "values", d.get? "value" with
      | some (.values (some l)), _ => some l
      | _, some (.value (some v)) => some [v]
      | _, _ => none
    let dists : AList Dist := match d.get? "distributions" with | some (.dists l) => l | _ => []
    let internals : AList String := match d.get? "params" with | some (.internals l) => l | _ => []
    let params : Option (AList Param) := internals.mapM (fun p => (dists.get? p.1).map (fun ds => (p.1, (⟨p.2, ds⟩ : Param))))
    match params with
    | none => none                          -- `distributions[k]`: KeyError
    | some ps =>
      some (some {
        state := st, values := values, params := ps,
        userAttrs := (match d.get? "user_attrs" with | some (.attrs l) => l | _ => []),
        systemAttrs := (match d.get? "system_attrs" with | some (.attrs l) => l | _ => []),
        inter := (match d.get? "intermediate_values" with | some (.inter l) => l | _ => []),
        hasStart := (match d.get? "datetime_start" with | some (.time b) => b | _ => false),
        hasComplete := (d.get? "datetime_complete").isSome })
  | some _ => none

/-- the record of `Model/Journal.lean` an op code and a field map stand for -/
def decodeRec (code : Nat) (w : String) (d : LogD) : Option Rec :=
  match code with
  | 0 => match gStr d "study_name", d.get? "directions" with
    | some n, some (.nats l) => some (.createStudy w n l)
    | _, _ => none
  | 1 => (gNat d "study_id").map (fun s => .deleteStudy w s)
  | 2 => match gNat d "study_id", d.get? "user_attr" with
    | some s, some (.attr k v) => some (.setStudyUserAttr w s k v)
    | _, _ => none
  | 3 => match gNat d "study_id", d.get? "system_attr" with
    | some s, some (.attr k v) => some (.setStudySystemAttr w s k v)
    | _, _ => none
  | 4 => match gNat d "study_id", decodeTemplate d with
    | some s, some t => some (.createTrial w s t)
    | _, _ => none
  | 5 => match gNat d "trial_id", gStr d "param_name", d.get? "param_value_internal", d.get? "distribution" with
    | some t, some n, some (.internal i), some (.dist ds) => some (.setTrialParam w t n ⟨i, ds⟩)
    | _, _, _, _ => none
  | 6 => match gNat d "trial_id", d.get? "state", d.get? "values" with
    | some t, some (.state st), some (.values vs) => some (.setTrialStateValues w t st vs)
    | _, _, _ => none
  | 7 => match gNat d "trial_id", d.get? "step", d.get? "intermediate_value" with
    | some t, some (.step s), some (.xval v) => some (.setTrialInter w t s v)
    | _, _, _ => none
  | 8 => match gNat d "trial_id", d.get? "user_attr" with
    | some t, some (.attr k v) => some (.setTrialUserAttr w t k v)
    | _, _ => none
  | 9 => match gNat d "trial_id", d.get? "system_attr" with
    | some t, some (.attr k v) => some (.setTrialSystemAttr w t k v)
    | _, _ => none
  | _ => none

/-! ### the methods -/

/-- reads of `self._replay_result` (after the sync) -/
inductive ReadE where
  | studyIdByName (assertFound : Bool)  -- the loop over `get_all_studies()` comparing `study_name`; falls through to `assert False` / `raise KeyError`
  | studyName | studyDirections | studyUserAttrs | studySystemAttrs   -- `self._replay_result.get_study(study_id).<field>`
  | allStudies            -- `copy.deepcopy(self._replay_result.get_all_studies())`
  | trialIdByNumber       -- `len(self._replay_result._study_id_to_trial_ids[study_id]) <= trial_number` → KeyError; else `…[study_id][trial_number]`
  | trial                 -- `self._replay_result.get_trial(trial_id)`
  | allTrials             -- `self._replay_result.get_all_trials(study_id, states)` (+ deepcopy flag)
  | lastCreated           -- `self._replay_result._last_created_trial_id_by_this_process`
  | claimAnswer           -- `if state == TrialState.RUNNING and trial_id != self._replay_result.owned_trial_id: return False else: return True`
deriving DecidableEq, Repr, Inhabited

inductive Step where
  | normaliseName          -- `study_name = study_name or DEFAULT_STUDY_NAME_PREFIX + str(uuid.uuid4())`
  | buildLog               -- the `FStmt`s of the method
  | writeLog (member : String)   -- `self._write_log(JournalOperation.<member>, log)`
  | sync                   -- `self._sync_with_backend()`
  | read (r : ReadE)       -- a read of the replay result (bound to a local or returned)
  | snapshot (onStudy : Bool)    -- `if isinstance(self._backend, BaseJournalSnapshot) and id != 0 and id % SNAPSHOT_INTERVAL == 0: self._backend.save_snapshot(pickle.dumps(self._replay_result))`
  | lockedSnapshot (onStudy : Bool)  -- the same inside its own `with self._thread_lock:`
  | retLocal               -- `return <the local bound by the read>`
  | retNone
deriving DecidableEq, Repr, Inhabited

structure Method where
  name : String
  /-- statements that build the record (writers) -/
  log : List FStmt
  /-- before / inside / after `with self._thread_lock:` -/
  before : List Step
  locked : List Step
  after : List Step
deriving Repr, Inhabited

structure Program where
  methods : List Method
  /-- `__getstate__`: the keys deleted from the copied `__dict__` -/
  getstateDrops : List String
  /-- `__setstate__`: attribute ↦ expression assigned after `self.__dict__.update(state)` -/
  setstateSets : List (String × String)
  /-- `restore_replay_result`: attribute of the restored object ↦ value, in source order; then `self._replay_result = r` -/
  restoreSets : List (String × String)
  /-- `_write_log`: the keys it adds to the record, `_sync_with_backend`: the two calls -/
  writeLogKeys : List (String × String)
  syncCalls : List String
deriving Repr, Inhabited

def Program.method? (p : Program) (n : String) : Option Method := p.methods.find? (fun m => m.name == n)

/-- the public method a mutating contract call goes to -/
def writerOf : Op → Option String
  | .createStudy .. => some "create_new_study" | .deleteStudy .. => some "delete_study"
  | .setStudyUserAttr .. => some "set_study_user_attr" | .setStudySystemAttr .. => some "set_study_system_attr"
  | .createTrial .. => some "create_new_trial" | .setTrialParam .. => some "set_trial_param"
  | .setTrialStateValues .. => some "set_trial_state_values" | .setTrialInter .. => some "set_trial_intermediate_value"
  | .setTrialUserAttr .. => some "set_trial_user_attr" | .setTrialSystemAttr .. => some "set_trial_system_attr"
  | _ => none

/-- the getter of `JournalStorage` itself a reading contract call goes to (`get_n_trials`, `get_best_trial`,
`get_trial_param`, `get_trial_number_from_id` are `BaseStorage`'s, built on these) -/
def getterOf : Op → Option String
  | .getStudyIdFromName .. => some "get_study_id_from_name" | .getStudyNameFromId .. => some "get_study_name_from_id"
  | .getStudyDirections .. => some "get_study_directions" | .getStudyUserAttrs .. => some "get_study_user_attrs"
  | .getStudySystemAttrs .. => some "get_study_system_attrs" | .getAllStudies => some "get_all_studies"
  | .getTrialIdFromNumber .. => some "get_trial_id_from_study_id_trial_number" | .getTrial .. => some "get_trial"
  | .getAllTrials .. => some "get_all_trials"
  | _ => none

/-- the `JournalOperation` member a method passes to `_write_log` (the first `writeLog` step inside the lock) -/
def Method.member? (m : Method) : Option String :=
  m.locked.findSome? (fun s => match s with | .writeLog x => some x | _ => none)

/-- the record a writer appends for the call `op`, as worker `w`: `opCodes` is `JournalOperation`
(from `Generated/JournalHandlers`) -/
def buildRec (opCodes : List (String × Nat)) (m : Method) (w : String) (op : Op) : Option Rec :=
  match m.member? with
  | none => none
  | some mem => match JournalIR.lookup mem opCodes, runFs op m.log [] with
    | some code, some d => decodeRec code w d
    | _, _ => none

/-- the record the front end `p` appends for the call `op` made by worker `w` (none for a reading call) -/
def frontRecOf (p : Program) (opCodes : List (String × Nat)) (w : String) (op : Op) : Option Rec :=
  ((writerOf op).bind p.method?).bind (fun m => buildRec opCodes m w op)

/-- a method touches `self._replay_result` only while it holds the lock, and (writers) only after it has
appended its record and synced, (getters) only after it has synced -/
def Method.disciplined (m : Method) : Bool :=
  let isRead : Step → Bool := fun s => match s with
    | .read _ | .snapshot _ | .lockedSnapshot _ | .sync | .writeLog _ => true
    | _ => false
  !(m.before.any isRead) && !(m.after.any isRead) &&
  (match m.locked with
    | .writeLog _ :: .sync :: rest => !(rest.any (fun s => match s with | .writeLog _ | .sync => true | _ => false))
    | .sync :: rest => !(rest.any (fun s => match s with | .writeLog _ | .sync => true | _ => false))
    | _ => false)

/-! ### what a read yields (on the replica after the sync) -/

/-- the answer a read step computes for the call `op` run by worker `w` on replica `st` -/
def readOut (w : String) (st : JState) (op : Op) : ReadE → Out
  | .studyIdByName assertFound =>
    -- `for s in get_all_studies(): if s.study_name == study_name: …`: the first live study of that name in id
    -- order, which is the search the contract model itself specifies (`Storage.step … getStudyIdFromName`)
    let name := match op with
      | .createStudy n _ | .getStudyIdFromName n => n
      | _ => ""
    match (Storage.step st.spec (.getStudyIdFromName name)).2 with
    | .nat i => if assertFound then .newId i else .nat i
    | _ => if assertFound then .err .runtimeError else .err .keyError   -- `assert False` / `raise KeyError`
  | .studyName => match (aSidG op).bind st.spec.study? with
    | some s => .str s.name
    | none => .err .keyError
  | .studyDirections => match (aSidG op).bind st.spec.study? with
    | some s => .nats s.directions
    | none => .err .keyError
  | .studyUserAttrs => match (aSidG op).bind st.spec.study? with
    | some s => .attrs s.userAttrs
    | none => .err .keyError
  | .studySystemAttrs => match (aSidG op).bind st.spec.study? with
    | some s => .attrs s.systemAttrs
    | none => .err .keyError
  | .allStudies => .studies (st.spec.studies.zipIdx.filterMap (fun p => p.1.map (fun s => (p.2, s))))
  | .trialIdByNumber => match op with
    | .getTrialIdFromNumber sid n => match st.spec.study? sid with
      | none => .err .keyError                 -- `_study_id_to_trial_ids[study_id]`
      | some _ => match (st.spec.trialsOf sid)[n]? with
        | none => .err .keyError               -- `len(…) <= trial_number`
        | some p => .nat p.1
    | _ => .err .runtimeError
  | .trial => match op with
    | .getTrial tid => match st.spec.trial? tid with
      | none => .err .keyError
      | some t => .trial tid t
    | _ => .err .runtimeError
  | .allTrials => match op with
    | .getAllTrials sid states => match st.spec.study? sid with
      | none => .err .keyError
      | some _ => .trials ((st.spec.trialsOf sid).filter (fun p => stateIn states p.2.state))
    | _ => .err .runtimeError
  | .lastCreated => match st.lastCreated with
    | some t => .newId t
    | none => .err .runtimeError              -- -1 / AttributeError: nothing was created by this process
  | .claimAnswer => match op with
    | .setTrialStateValues tid state _ => .bool (claimAnswer w st tid state)
    | _ => .err .runtimeError
where
  aSidG : Op → Option Nat
    | .getStudyNameFromId sid | .getStudyDirections sid | .getStudyUserAttrs sid | .getStudySystemAttrs sid => some sid
    | _ => none

/-- the value a method returns when its sync did not raise: the last read if it ends in `retLocal`, `None` otherwise -/
def Method.answer (m : Method) (w : String) (st : JState) (op : Op) : Out :=
  match (m.locked ++ m.after).reverse.findSome? (fun s => match s with | .read r => some r | _ => none),
        (m.locked ++ m.after).any (fun s => s == .retLocal) with
  | some r, true => readOut w st op r
  | _, _ => .unit

end OptunaVerif.JournalFrontIR
