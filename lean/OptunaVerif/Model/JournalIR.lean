import OptunaVerif.Model.Journal
/-
  A small statement language for the bodies of `JournalStorageReplayResult._apply_*`
  (optuna/storages/journal/_storage.py) and its interpreter over the replica state of
  `Model/Journal.lean`.

  `verif/translators/tjournal.py` reads the Python source with `ast` on every run and emits every
  handler (and the helpers `_study_exists`, `_trial_exists_and_updatable`, the dispatch of
  `apply_logs`, the `JournalOperation` codes) as DATA of the types below into
  `Generated/JournalHandlers.lean`.  `Props/C06Gen.lean` then proves, for all states / records /
  workers, `interp (generated handler) = Journal.apply` restricted to the handler's op code.

  What is *meaning given here* (and therefore modelled, not derived from the source): the
  denotation of each primitive on the replica representation of `Model/Journal.lean`:
    * `_studies` (a dict keyed by ids below `_next_study_id`) is the list `spec.studies`
      (`none` = id handed out, no entry);  `_next_study_id` is its length;
    * `_trial_id_to_study_id` (never shrinks) is `spec.trials` with `TrialS.study`;  `_trials` holds the
      trials whose study is live (`Spec.trial?`);  `_study_id_to_trial_ids[sid]` is `Spec.trialsOf sid`;
    * the two id maps are therefore *derived* data: the statements that maintain them are `Ghost`
      obligations — an action that changes the primary data `owe`s them, the statement that updates the
      map `pay`s them, and a handler that ends with an unpaid obligation (or pays one it does not owe)
      has left the Python object in a state this representation cannot express: the interpreter then
      answers `runtimeError`, which no branch of `Journal.apply` ever does, so the equality theorem of
      that handler fails;
    * `FrozenTrial.params` + `FrozenTrial.distributions` are the one list `TrialS.params`;
      `datetime_start` / `datetime_complete` are kept as presence bits;
    * a dict subscript with a missing key, or a `log[...]` field the record does not carry, is Python's
      `KeyError` (raised whoever issued the record).
-/
namespace OptunaVerif.JournalIR
open OptunaVerif OptunaVerif.Storage OptunaVerif.Journal

/-! ### fields of a record (`log[...]`); `none` = the key is absent -/

def recStudyId? : Rec → Option Nat
  | .deleteStudy _ sid | .setStudyUserAttr _ sid _ _ | .setStudySystemAttr _ sid _ _
  | .createTrial _ sid _ => some sid
  | _ => none

def recTrialId? : Rec → Option Nat
  | .setTrialParam _ tid _ _ | .setTrialStateValues _ tid _ _ | .setTrialInter _ tid _ _
  | .setTrialUserAttr _ tid _ _ | .setTrialSystemAttr _ tid _ _ => some tid
  | _ => none

/-- `log["study_name"]`, `log["directions"]` -/
def recNewStudy? : Rec → Option (String × List Nat)
  | .createStudy _ name dirs => some (name, dirs)
  | _ => none

/-- `log["user_attr"]` (`user = true`) / `log["system_attr"]`: the single key/value pair -/
def recAttr? (user : Bool) : Rec → Option (String × String)
  | .setStudyUserAttr _ _ k v | .setTrialUserAttr _ _ k v => if user then some (k, v) else none
  | .setStudySystemAttr _ _ k v | .setTrialSystemAttr _ _ k v => if user then none else some (k, v)
  | _ => none

/-- the optional fields of a `CREATE_TRIAL` record (`none` inside = no template was logged) -/
def recTmpl? : Rec → Option (Option Template)
  | .createTrial _ _ t => some t
  | _ => none

/-- `log["param_name"]`, `log["param_value_internal"]`, `log["distribution"]` -/
def recParam? : Rec → Option (String × Param)
  | .setTrialParam _ _ name p => some (name, p)
  | _ => none

/-- `TrialState(log["state"])` of a `SET_TRIAL_STATE_VALUES` record -/
def recState? : Rec → Option TState
  | .setTrialStateValues _ _ st _ => some st
  | _ => none

/-- `log["values"]` -/
def recValues? : Rec → Option (Option (List XVal))
  | .setTrialStateValues _ _ _ vs => some vs
  | _ => none

/-- `log["step"]`, `log["intermediate_value"]` -/
def recInter? : Rec → Option (Int × XVal)
  | .setTrialInter _ _ stp v => some (stp, v)
  | _ => none

/-- `log["op_code"]` (the numbering the driver's record parser uses; tied to `JournalOperation` by
`C06Gen.dispatch_table`) -/
def recOpCode : Rec → Nat
  | .createStudy .. => 0 | .deleteStudy .. => 1 | .setStudyUserAttr .. => 2
  | .setStudySystemAttr .. => 3 | .createTrial .. => 4 | .setTrialParam .. => 5
  | .setTrialStateValues .. => 6 | .setTrialInter .. => 7 | .setTrialUserAttr .. => 8
  | .setTrialSystemAttr .. => 9

/-! ### the statement language -/

/-- where the local `study_id` comes from -/
inductive SidSrc where
  | log        -- `study_id = log["study_id"]`
  | next       -- `study_id = self._next_study_id`
  | ofTrial    -- `study_id = self._trial_id_to_study_id[trial_id]`
deriving DecidableEq, Repr, Inhabited

/-- where the local `trial_id` comes from -/
inductive TidSrc where
  | log        -- `trial_id = log["trial_id"]`
  | fresh      -- `trial_id = len(self._trial_id_to_study_id)`
deriving DecidableEq, Repr, Inhabited

inductive Cond where
  | tt | ff
  | not (c : Cond)
  | and (a b : Cond)        -- short-circuit, as in Python
  | or (a b : Cond)
  | issuedByMe              -- `self._is_issued_by_this_worker(log)`  i.e. `log["worker_id"] == self.worker_id`
  | studyIn                 -- `study_id in self._studies`
  | nameTaken               -- `study_name in [s.study_name for s in self._studies.values()]`
  | trialIn                 -- `trial_id in self._trials`
  | storedFinished          -- `self._trials[trial_id].state.is_finished()`
  | storedRunning           -- `self._trials[trial_id].state == TrialState.RUNNING`
  | stateIsStored           -- `state == self._trials[trial_id].state`
  | stateIs (s : TState)    -- `state == TrialState.<S>`
  | stateFinished           -- `state.is_finished()`
  | valuesGiven             -- `log["values"] is not None`
deriving DecidableEq, Repr, Inhabited

/-- maintenance of the derived id maps -/
inductive Ghost where
  | initStudyTrialIds    -- `self._study_id_to_trial_ids[study_id] = []`
  | popStudyTrialIds     -- `for trial_id in self._study_id_to_trial_ids.pop(study_id): del self._trials[trial_id]`
  | appendStudyTrialId   -- `self._study_id_to_trial_ids[study_id].append(trial_id)`
  | mapTrialToStudy      -- `self._trial_id_to_study_id[trial_id] = study_id`
deriving DecidableEq, Repr, Inhabited

/-- `number=` of a new trial -/
inductive NumSrc where
  | lenStudyTrialIds     -- `len(self._study_id_to_trial_ids[study_id])`
  | lenTrials            -- `len(self._trials)`
  | trialId              -- `trial_id`
deriving DecidableEq, Repr, Inhabited

/-- the fields of a new `FrozenTrial` that may be taken from the record -/
inductive TField where
  | state | values | params | userAttrs | systemAttrs | inter | start | complete
deriving DecidableEq, Repr, Inhabited

inductive Act where
  | setSid (s : SidSrc)
  | setTid (t : TidSrc)
  | bumpNextStudyId                 -- `self._next_study_id += 1`
  | storeNewStudy                   -- `self._studies[study_id] = FrozenStudy(study_name=study_name, direction=None, user_attrs={}, system_attrs={}, study_id=study_id, directions=directions)`
  | popStudy                        -- `fs = self._studies.pop(study_id)`
  | mergeStudyAttr (user : Bool) (src : Bool)  -- `study = self._studies[study_id]; study.<user|system>_attrs = {**study.<same>, **log["<src>_attr"]}`
  | newTrial (num : NumSrc) (fromLog : List TField)  -- `self._trials[trial_id] = FrozenTrial(trial_id=trial_id, number=…, state=…, …)`
  | loadTrial                       -- `trial = copy.copy(self._trials[trial_id])`
  | setParam                        -- `trial.params = {**copy.copy(trial.params), param_name: distribution.to_external_repr(param_value_internal)}; trial.distributions = {**copy.copy(trial.distributions), param_name: distribution}`
  | mergeTrialAttr (user : Bool) (src : Bool)  -- `trial.<user|system>_attrs = {**copy.copy(trial.<same>), **log["<src>_attr"]}`
  | setInter                        -- `trial.intermediate_values = {**copy.copy(trial.intermediate_values), log["step"]: log["intermediate_value"]}`
  | setState                        -- `trial.state = state`
  | setValues                       -- `trial.values = log["values"]`
  | setStart                        -- `trial.datetime_start = datetime.datetime.fromisoformat(log["datetime_start"])`
  | setComplete                     -- `trial.datetime_complete = datetime.datetime.fromisoformat(log["datetime_complete"])`
  | storeTrial                      -- `self._trials[trial_id] = trial`
  | setLastCreated                  -- `self._last_created_trial_id_by_this_process = trial_id`
  | ownedSet                        -- `self._worker_id_to_owned_trial_id[self.worker_id] = trial_id`
  | ownedPop                        -- `self._worker_id_to_owned_trial_id.pop(self.worker_id, None)`
  | ghost (g : Ghost)
deriving DecidableEq, Repr, Inhabited

inductive Stmt where
  | skip
  | seq (a b : Stmt)
  | ite (c : Cond) (t e : Stmt)
  /-- `if self.<helper>(…): t else: e` with the helper's body inlined as `h` (it returns a Bool or raises) -/
  | ifCall (h t e : Stmt)
  | raise (e : Err)
  | ret                     -- `return`
  | retB (b : Bool)         -- `return True` / `return False`
  /-- `_apply_set_trial_param`'s loop: the first trial of the study (in `_study_id_to_trial_ids` order)
  that has `param_name` decides; `onFail` is the body of the `except Exception:` around
  `check_distribution_compatibility` (a bare `raise` there is `raise valueError`) -/
  | firstDistCheck (onFail : Stmt)
  | act (a : Act)
deriving Repr, Inhabited

/-- a statement list -/
def block : List Stmt → Stmt
  | [] => .skip
  | [s] => s
  | s :: rest => .seq s (block rest)

/-! ### interpreter -/

structure Env where
  st : JState
  /-- local `study_id` / `trial_id` (unbound = `none`) -/
  sid : Option Nat
  tid : Option Nat
  /-- local `trial` (the shallow copy being edited) -/
  trial : Option TrialS
  /-- ghost: the distribution a `setParam` fixed (goes to `StudyS.paramDist` when the trial is stored) -/
  fixed : Option (String × Dist)
  /-- unpaid maintenance of the derived id maps -/
  debt : List Ghost
deriving Repr, Inhabited

def Env.init (st : JState) : Env :=
  { st := st, sid := none, tid := none, trial := none, fixed := none, debt := [] }

inductive Flow where
  | next
  | ret (b : Option Bool)
  | raised (e : Err)
deriving DecidableEq, Repr, Inhabited

/-- the Python object is in a state the replica representation cannot express / a local is unbound -/
abbrev unrepresentable : Err := .runtimeError

def evalCond (w : String) (r : Rec) (env : Env) : Cond → Except Err Bool
  | .tt => .ok true
  | .ff => .ok false
  | .not c => match evalCond w r env c with
    | .ok b => .ok (!b)
    | .error e => .error e
  | .and a b => match evalCond w r env a with
    | .ok true => evalCond w r env b
    | .ok false => .ok false
    | .error e => .error e
  | .or a b => match evalCond w r env a with
    | .ok true => .ok true
    | .ok false => evalCond w r env b
    | .error e => .error e
  | .issuedByMe => .ok (r.worker == w)
  | .studyIn => match env.sid with
    | none => .error unrepresentable
    | some sid => .ok (env.st.spec.study? sid).isSome
  | .nameTaken => match recNewStudy? r with
    | none => .error .keyError
    | some (name, _) => .ok (env.st.spec.nameTaken name)
  | .trialIn => match env.tid with
    | none => .error unrepresentable
    | some tid => .ok (env.st.spec.trial? tid).isSome
  | .storedFinished => match env.tid with
    | none => .error unrepresentable
    | some tid => match env.st.spec.trial? tid with
      | none => .error .keyError
      | some t => .ok t.state.isFinished
  | .storedRunning => match env.tid with
    | none => .error unrepresentable
    | some tid => match env.st.spec.trial? tid with
      | none => .error .keyError
      | some t => .ok (t.state == .running)
  | .stateIsStored => match env.tid, recState? r with
    | none, _ => .error unrepresentable
    | some _, none => .error .keyError
    | some tid, some s => match env.st.spec.trial? tid with
      | none => .error .keyError
      | some t => .ok (s == t.state)
  | .stateIs s0 => match recState? r with
    | none => .error .keyError
    | some s => .ok (s == s0)
  | .stateFinished => match recState? r with
    | none => .error .keyError
    | some s => .ok s.isFinished
  | .valuesGiven => match recValues? r with
    | none => .error .keyError
    | some vs => .ok vs.isSome

def setSpec (env : Env) (s : Spec) : Env := { env with st := { env.st with spec := s } }

def owe (env : Env) (gs : List Ghost) : Env := { env with debt := env.debt ++ gs }

/-- a new `FrozenTrial` built from the record: the fields listed in `fromLog` are read from the record
the way `_apply_create_trial` reads them today (`Storage.mkTrial`), the others get the constructor's
constant (`RUNNING`, `None`, `{}`) -/
def buildTrial (sid number : Nat) (tmpl : Option Template) (fromLog : List TField) : TrialS :=
  let b := mkTrial sid number tmpl
  { study := sid, number := number,
    state := if fromLog.contains .state then b.state else .running,
    values := if fromLog.contains .values then b.values else none,
    params := if fromLog.contains .params then b.params else [],
    userAttrs := if fromLog.contains .userAttrs then b.userAttrs else [],
    systemAttrs := if fromLog.contains .systemAttrs then b.systemAttrs else [],
    inter := if fromLog.contains .inter then b.inter else [],
    hasStart := if fromLog.contains .start then b.hasStart else false,
    hasComplete := if fromLog.contains .complete then b.hasComplete else false }

def bad (env : Env) : Env × Flow := (env, .raised unrepresentable)
def keyErr (env : Env) : Env × Flow := (env, .raised .keyError)

def doAct (w : String) (r : Rec) (env : Env) : Act → Env × Flow
  | .setSid .log => match recStudyId? r with
    | none => keyErr env
    | some i => ({ env with sid := some i }, .next)
  | .setSid .next => ({ env with sid := some env.st.spec.studies.length }, .next)
  | .setSid .ofTrial => match env.tid with
    | none => bad env
    | some tid => match env.st.spec.trials[tid]? with
      | none => keyErr env
      | some t => ({ env with sid := some t.study }, .next)
  | .setTid .log => match recTrialId? r with
    | none => keyErr env
    | some i => ({ env with tid := some i }, .next)
  | .setTid .fresh => ({ env with tid := some env.st.spec.trials.length }, .next)
  | .bumpNextStudyId =>
    (setSpec env { env.st.spec with studies := env.st.spec.studies ++ [none] }, .next)
  | .storeNewStudy => match env.sid, recNewStudy? r with
    | none, _ => bad env
    | some _, none => keyErr env
    | some sid, some (name, dirs) =>
      -- an id at or above `_next_study_id` cannot be a key in this representation
      if sid < env.st.spec.studies.length then
        (owe (setSpec env { env.st.spec with
            studies := updAt env.st.spec.studies sid (fun _ => some (StudyS.mk name dirs [] [] [])) })
          [.initStudyTrialIds], .next)
      else bad env
  | .popStudy => match env.sid with
    | none => bad env
    | some sid => match env.st.spec.study? sid with
      | none => keyErr env
      | some _ =>
        (owe (setSpec env { env.st.spec with studies := updAt env.st.spec.studies sid (fun _ => none) })
          [.popStudyTrialIds], .next)
  | .mergeStudyAttr user src => match env.sid, recAttr? src r with
    | none, _ => bad env
    | some _, none => keyErr env
    | some sid, some (k, v) => match env.st.spec.study? sid with
      | none => keyErr env
      | some _ =>
        (setSpec env (env.st.spec.updStudy sid (fun x =>
          if user then { x with userAttrs := x.userAttrs.set k v }
          else { x with systemAttrs := x.systemAttrs.set k v })), .next)
  | .newTrial num fromLog => match env.sid, env.tid, recTmpl? r with
    | none, _, _ => bad env
    | some _, none, _ => bad env
    | some _, some _, none => keyErr env
    | some sid, some tid, some tmpl =>
      -- only the next unused id can be stored without overwriting
      if tid = env.st.spec.trials.length then
        match env.st.spec.study? sid with
        | none => keyErr env
        | some _ =>
          let number := match num with
            | .lenStudyTrialIds => (env.st.spec.trialsOf sid).length
            | .lenTrials => ((List.range env.st.spec.trials.length).filter
                (fun i => (env.st.spec.trial? i).isSome)).length
            | .trialId => tid
          (owe (setSpec env { env.st.spec with
              trials := env.st.spec.trials ++ [buildTrial sid number tmpl fromLog] })
            [.appendStudyTrialId, .mapTrialToStudy], .next)
      else bad env
  | .loadTrial => match env.tid with
    | none => bad env
    | some tid => match env.st.spec.trial? tid with
      | none => keyErr env
      | some t => ({ env with trial := some t }, .next)
  | .setParam => match env.trial, recParam? r with
    | none, _ => bad env
    | some _, none => keyErr env
    | some t, some (name, p) =>
      ({ env with trial := some { t with params := t.params.set name p }, fixed := some (name, p.dist) }, .next)
  | .mergeTrialAttr user src => match env.trial, recAttr? src r with
    | none, _ => bad env
    | some _, none => keyErr env
    | some t, some (k, v) =>
      ({ env with trial := some (if user then { t with userAttrs := t.userAttrs.set k v }
                                  else { t with systemAttrs := t.systemAttrs.set k v }) }, .next)
  | .setInter => match env.trial, recInter? r with
    | none, _ => bad env
    | some _, none => keyErr env
    | some t, some (stp, v) => ({ env with trial := some { t with inter := setInter t.inter stp v } }, .next)
  | .setState => match env.trial, recState? r with
    | none, _ => bad env
    | some _, none => keyErr env
    | some t, some s => ({ env with trial := some { t with state := s } }, .next)
  | .setValues => match env.trial, recValues? r with
    | none, _ => bad env
    | some _, none => keyErr env
    | some t, some vs => ({ env with trial := some { t with values := vs } }, .next)
  | .setStart => match env.trial with
    | none => bad env
    | some t => ({ env with trial := some { t with hasStart := true } }, .next)
  | .setComplete => match env.trial with
    | none => bad env
    | some t => ({ env with trial := some { t with hasComplete := true } }, .next)
  | .storeTrial => match env.tid, env.trial with
    | none, _ => bad env
    | some _, none => bad env
    | some tid, some t =>
      -- storing under an id that is not a key would add a trial no study lists
      match env.st.spec.trial? tid with
      | none => bad env
      | some _ =>
        let s1 := env.st.spec.updTrial tid (fun _ => t)
        (setSpec env (match env.fixed with
          | none => s1
          | some (name, d) => s1.updStudy t.study (fun x => { x with paramDist := x.paramDist.set name d })),
         .next)
  | .setLastCreated => match env.tid with
    | none => bad env
    | some tid => ({ env with st := { env.st with lastCreated := some tid } }, .next)
  | .ownedSet => match env.tid with
    | none => bad env
    | some tid => ({ env with st := { env.st with owned := env.st.owned.set w tid } }, .next)
  | .ownedPop => ({ env with st := { env.st with owned := erase env.st.owned w } }, .next)
  | .ghost g =>
    if env.debt.contains g then ({ env with debt := env.debt.erase g }, .next) else bad env

def exec (w : String) (r : Rec) : Stmt → Env → Env × Flow
  | .skip, env => (env, .next)
  | .seq a b, env =>
    match exec w r a env with
    | (env', .next) => exec w r b env'
    | res => res
  | .ite c t e, env =>
    match evalCond w r env c with
    | .error x => (env, .raised x)
    | .ok true => exec w r t env
    | .ok false => exec w r e env
  | .ifCall h t e, env =>
    match exec w r h env with
    | (env', .ret (some true)) => exec w r t env'
    | (env', .ret _) => exec w r e env'
    | (env', .next) => exec w r e env'        -- fell off the end: `None`
    | (env', .raised x) => (env', .raised x)
  | .raise x, env => (env, .raised x)
  | .ret, env => (env, .ret none)
  | .retB b, env => (env, .ret (some b))
  | .firstDistCheck onFail, env =>
    match env.sid, recParam? r with
    | none, _ => bad env
    | some _, none => keyErr env
    | some sid, some (name, p) =>
      match firstDistOf env.st.spec sid name with
      | some d0 => if d0.compat p.dist then (env, .next) else exec w r onFail env
      | none => (env, .next)
  | .act a, env => doAct w r env a

/-- what the caller of a handler sees -/
def finish : Env × Flow → JState × Option Err
  | (env, .raised e) => (env.st, some e)
  | (env, _) => if env.debt.isEmpty then (env.st, none) else (env.st, some unrepresentable)

/-- one `_apply_*` handler run by worker `w` on record `r` -/
def interp (h : Stmt) (w : String) (st : JState) (r : Rec) : JState × Option Err :=
  finish (exec w r h (Env.init st))

/-! ### `apply_logs` -/

structure Program where
  /-- `JournalOperation`: member name ↦ value -/
  opCodes : List (String × Nat)
  /-- the `if op == JournalOperation.X: self._apply_y(log)` chain of `apply_logs`, in source order -/
  dispatch : List (String × String)
  /-- is `self.log_number_read += 1` executed before the dispatch (else after it) -/
  cursorFirst : Bool
  /-- method name ↦ body -/
  handlers : List (String × Stmt)
deriving Repr, Inhabited

def lookup {α : Type} (k : String) : List (String × α) → Option α
  | [] => none
  | (k', v) :: t => if k' == k then some v else lookup k t

/-- the handler the if-chain of `apply_logs` selects for op code `n`: the first arm whose enum member has
that value -/
def Program.select (p : Program) (n : Nat) : Option Stmt :=
  match p.dispatch.find? (fun d => lookup d.1 p.opCodes == some n) with
  | none => none
  | some d => lookup d.2 p.handlers

/-- one record (`assert False` for an unknown op code is an error nobody models: `unrepresentable`) -/
def interpLog (p : Program) (w : String) (st : JState) (r : Rec) : JState × Option Err :=
  match p.select (recOpCode r) with
  | none => (st, some unrepresentable)
  | some h => interp h w st r

def bump (st : JState) : JState := { st with cursor := st.cursor + 1 }

/-- `apply_logs`: an exception leaves the loop -/
def interpLogs (p : Program) (w : String) : JState → List Rec → JState × Option Err
  | st, [] => (st, none)
  | st, r :: rest =>
    match interpLog p w (if p.cursorFirst then bump st else st) r with
    | (st', some e) => (st', some e)
    | (st', none) => interpLogs p w (if p.cursorFirst then st' else bump st') rest

/-- `_sync_with_backend` over the generated `apply_logs` (cf. `Journal.sync`) -/
def syncLogs (p : Program) (w : String) (st : JState) (log : List Rec) (upto : Nat) : JState × Option Err :=
  interpLogs p w st ((log.take upto).drop st.cursor)

/-- error-swallowing replay (cf. `Journal.applyAll`) -/
def interpAll (p : Program) (w : String) (st : JState) (rs : List Rec) : JState :=
  rs.foldl (fun st r => (interpLog p w (bump st) r).1) st

end OptunaVerif.JournalIR
