import OptunaVerif.Model.Basic
/-
  Small-step model of `JournalRedisBackend` (optuna/storages/journal/_redis.py): every Redis command the
  Python issues is one atomic step of one worker (Redis executes commands one at a time; an `EVAL` script
  is one command); an arbitrary interleaving of any number of workers is a list of events
  (`call w op` | `step w` | `crash w`).

      def read_logs(self, log_number_from):                              pc of the worker *before* the command
          max_log_number_bytes = self._redis.get(f"{prefix}:log_number")      rdCounter k
          if max_log_number_bytes is None:
              return []
          max_log_number = int(max_log_number_bytes)
          logs = []
          for log_number in range(log_number_from, max_log_number + 1):
              sleep_secs = 0.1
              while True:
                  log = self._redis.get(self._key_log_id(log_number))         rdGet k cur max acc
                  if log is not None:
                      break
                  time.sleep(sleep_secs)                                      (the same pc again: the retry is a
                  sleep_secs = min(sleep_secs * 2, 10)                         step that may repeat without bound)
              try:
                  logs.append(json.loads(log))
              except json.JSONDecodeError as err:                            (not modelled, see below)
                  if log_number != max_log_number:
                      raise err
          return logs

      def append_logs(self, logs):
          self._redis.setnx(f"{prefix}:log_number", -1)                       appSetnx recs
          for log in logs:
              if not self._use_cluster:
                  self._redis.eval("local i = redis.call('incr', <counter>) "  appEval done r rest
                                   "redis.call('set', <prefix>:log:<i>, ARGV[2])", 0, prefix, json.dumps(log))
              else:
                  log_number = self._redis.incr(f"{prefix}:log_number", 1)    appIncr done r rest
                  self._redis.set(self._key_log_id(log_number), json.dumps(log))   appSet done n r rest

      def save_snapshot(self, snapshot):  self._redis.set(f"{prefix}:snapshot", snapshot)     snapSet s
      def load_snapshot(self):            return self._redis.get(f"{prefix}:snapshot")        snapGet

  Redis state = key ↦ value restricted to the keys the backend uses: the counter key
  `<prefix>:log_number` (`counter : Option Int`, absent or an integer), the log keys `<prefix>:log:<n>`
  (`log : Int → Option ρ`, `n` is whatever integer `INCR` returned) and the snapshot key.  Command
  semantics as in Redis: `SETNX` writes only an absent key, `INCR` of an absent key counts from 0, `SET`
  overwrites, `GET` of an absent key is nil.

  A record `ρ` is opaque: `json.dumps` / `json.loads` are a bijection on what `append_logs` is given
  (trusted JSON codec) and Redis stores a value whole (`SET` is atomic: there is no partly written value),
  hence the `JSONDecodeError` branch of `read_logs` is dead for values written by `append_logs` and is
  not modelled.  Not modelled either: connection errors / time-outs of the client, other clients writing
  to the same keys, key expiry or eviction, a Redis cluster losing acknowledged writes in a fail-over.
  The ghost list `done` of the writer (number assigned to each record appended so far by this call) is
  not a variable of the Python; it is reported when the call returns.
-/
namespace OptunaVerif.JournalRedis

structure Cfg where
  /-- `use_cluster` -/
  cluster : Bool
deriving DecidableEq, Repr

/-- a call of the backend's public interface -/
inductive Op (ρ : Type) where
  | append (recs : List ρ)
  | read (k : Nat)
  | saveSnapshot (s : Nat)
  | loadSnapshot
deriving DecidableEq, Repr

/-- where a worker is = which Redis command it issues next -/
inductive PC (ρ : Type) where
  | idle
  | appSetnx (recs : List ρ)
  | appEval (done : List (Int × ρ)) (r : ρ) (rest : List ρ)
  | appIncr (done : List (Int × ρ)) (r : ρ) (rest : List ρ)
  | appSet (done : List (Int × ρ)) (n : Int) (r : ρ) (rest : List ρ)
  | rdCounter (k : Nat)
  | rdGet (k : Nat) (cur max : Int) (acc : List ρ)
  | snapSet (s : Nat)
  | snapGet
deriving DecidableEq, Repr

structure Worker (ρ : Type) where
  pc : PC ρ
  dead : Bool
deriving DecidableEq, Repr

/-- the keys of the Redis server the backend uses -/
structure Redis (ρ : Type) where
  /-- `<prefix>:log_number` -/
  counter : Option Int
  /-- `<prefix>:log:<n>` -/
  log : Int → Option ρ
  /-- `<prefix>:snapshot` (the bytes are a token) -/
  snap : Option Nat

structure St (ρ : Type) where
  db : Redis ρ
  ws : List (Worker ρ)

inductive Ev (ρ : Type) where
  | call (w : Nat) (op : Op ρ)   -- worker `w` (idle) enters a call; no Redis command yet
  | step (w : Nat)               -- worker `w` issues its next Redis command
  | crash (w : Nat)              -- kill -9
deriving DecidableEq, Repr

/-- the command issued and what Redis answered -/
inductive Label (ρ : Type) where
  | noop                               -- event of a dead / unknown / idle worker
  | called
  | crashed
  | setnx (created : Bool)             -- SETNX <counter> -1
  | eval (n : Int) (r : ρ)             -- the script: INCR gave `n`, SET log:n r (answers nil)
  | incr (n : Int)                     -- INCR <counter> 1
  | set (n : Int) (r : ρ)              -- SET log:n r
  | getCounter (v : Option Int)        -- GET <counter>
  | getLog (n : Int) (v : Option ρ)    -- GET log:n
  | setSnap (s : Nat)
  | getSnap (v : Option Nat)
deriving DecidableEq, Repr

/-- the value the call returns to its caller (when this command was its last) -/
inductive Ret (ρ : Type) where
  | appended (done : List (Int × ρ))
  | read (l : List ρ)
  | snapSaved
  | snapLoaded (v : Option Nat)
deriving DecidableEq, Repr

structure Obs (ρ : Type) where
  label : Label ρ
  ret : Option (Ret ρ)
deriving DecidableEq, Repr

variable {ρ : Type}

def setLog (db : Redis ρ) (n : Int) (r : ρ) : Redis ρ :=
  { db with log := fun k => if k = n then some r else db.log k }

/-- Redis `INCR`: an absent key counts as 0 -/
def incrVal (db : Redis ρ) : Int := db.counter.getD 0 + 1

/-- the top of the `for log in logs` loop -/
def nextApp (cfg : Cfg) (done : List (Int × ρ)) : List ρ → PC ρ × Option (Ret ρ)
  | [] => (.idle, some (.appended done))
  | r :: rest => (if cfg.cluster then .appIncr done r rest else .appEval done r rest, none)

/-- one command of a live worker at `pc` -/
def stepW (cfg : Cfg) (db : Redis ρ) : PC ρ → Redis ρ × PC ρ × Obs ρ
  | .idle => (db, .idle, ⟨.noop, none⟩)
  | .appSetnx recs =>
    let p := nextApp cfg [] recs
    match db.counter with
    | none => ({ db with counter := some (-1) }, p.1, ⟨.setnx true, p.2⟩)
    | some _ => (db, p.1, ⟨.setnx false, p.2⟩)
  | .appEval done r rest =>
    let n := incrVal db
    let p := nextApp cfg (done ++ [(n, r)]) rest
    (setLog { db with counter := some n } n r, p.1, ⟨.eval n r, p.2⟩)
  | .appIncr done r rest =>
    let n := incrVal db
    ({ db with counter := some n }, .appSet done n r rest, ⟨.incr n, none⟩)
  | .appSet done n r rest =>
    let p := nextApp cfg (done ++ [(n, r)]) rest
    (setLog db n r, p.1, ⟨.set n r, p.2⟩)
  | .rdCounter k =>
    match db.counter with
    | none => (db, .idle, ⟨.getCounter none, some (.read [])⟩)
    | some m =>
      if (k : Int) ≤ m then (db, .rdGet k k m [], ⟨.getCounter (some m), none⟩)
      else (db, .idle, ⟨.getCounter (some m), some (.read [])⟩)
  | .rdGet k cur max acc =>
    match db.log cur with
    | none => (db, .rdGet k cur max acc, ⟨.getLog cur none, none⟩)
    | some r =>
      if cur + 1 ≤ max then (db, .rdGet k (cur + 1) max (acc ++ [r]), ⟨.getLog cur (some r), none⟩)
      else (db, .idle, ⟨.getLog cur (some r), some (.read (acc ++ [r]))⟩)
  | .snapSet s => ({ db with snap := some s }, .idle, ⟨.setSnap s, some .snapSaved⟩)
  | .snapGet => (db, .idle, ⟨.getSnap db.snap, some (.snapLoaded db.snap)⟩)

def entry : Op ρ → PC ρ
  | .append recs => .appSetnx recs
  | .read k => .rdCounter k
  | .saveSnapshot s => .snapSet s
  | .loadSnapshot => .snapGet

def step (cfg : Cfg) (st : St ρ) : Ev ρ → St ρ × Obs ρ
  | .call w op =>
    match st.ws[w]? with
    | some wk =>
      match wk.dead, wk.pc with
      | false, .idle => ({ st with ws := updAt st.ws w (fun x => { x with pc := entry op }) }, ⟨.called, none⟩)
      | _, _ => (st, ⟨.noop, none⟩)
    | none => (st, ⟨.noop, none⟩)
  | .crash w =>
    match st.ws[w]? with
    | some wk =>
      if wk.dead then (st, ⟨.noop, none⟩)
      else ({ st with ws := updAt st.ws w (fun x => { x with dead := true }) }, ⟨.crashed, none⟩)
    | none => (st, ⟨.noop, none⟩)
  | .step w =>
    match st.ws[w]? with
    | some wk =>
      if wk.dead then (st, ⟨.noop, none⟩)
      else
        let r := stepW cfg st.db wk.pc
        ({ db := r.1, ws := updAt st.ws w (fun x => { x with pc := r.2.1 }) }, r.2.2)
    | none => (st, ⟨.noop, none⟩)

def run (cfg : Cfg) (st : St ρ) : List (Ev ρ) → St ρ
  | [] => st
  | e :: es => run cfg (step cfg st e).1 es

/-- the observations of a run, in order -/
def trace (cfg : Cfg) (st : St ρ) : List (Ev ρ) → List (Obs ρ)
  | [] => []
  | e :: es => (step cfg st e).2 :: trace cfg (step cfg st e).1 es

def emptyDb : Redis ρ := { counter := none, log := fun _ => none, snap := none }

def init (n : Nat) : St ρ :=
  { db := emptyDb, ws := List.replicate n { pc := .idle, dead := false } }

def pcOf (st : St ρ) (w : Nat) : Option (PC ρ) := (st.ws[w]?).map (·.pc)

def isLive (st : St ρ) (w : Nat) : Bool :=
  match st.ws[w]? with
  | some wk => !wk.dead
  | none => false

/-- the values of the log keys `k, k+1, …` up to the first absent one, at most `fuel` of them -/
def collect (log : Int → Option ρ) (k : Int) : Nat → List ρ
  | 0 => []
  | fuel + 1 =>
    match log k with
    | none => []
    | some r => r :: collect log (k + 1) fuel

/-- **the log** all workers replay: the records of the keys 0, 1, 2, … up to the counter (or the first gap) -/
def officialLog (db : Redis ρ) : List ρ :=
  match db.counter with
  | none => []
  | some c => collect db.log 0 (c + 1).toNat

/-! ### Named schedules (served by the driver to the harness, which replays them on the real code;
the theorems about them are in `Props/C06Redis.lean`) -/

def stepsOf (w k : Nat) : List (Ev ρ) := List.replicate k (.step w)

structure Scenario where
  cfg : Cfg
  n : Nat
  evs : List (Ev Nat)

/-- cluster mode: writer 0 dies between `INCR` (number 0 is taken) and `SET`; writer 1 appends record 11 as
number 1 and is acknowledged; reader 2 enters `read_logs(0)` (no command yet). -/
def clusterCrashGapBase : List (Ev Nat) :=
  [.call 0 (.append [10]), .step 0, .step 0, .crash 0,
   .call 1 (.append [11]), .step 1, .step 1, .step 1,
   .call 2 (.read 0)]

/-- … the reader then learns the counter 1 and polls key 0, `polls` times. -/
def clusterCrashGap (polls : Nat) : Scenario :=
  { cfg := { cluster := true }, n := 3, evs := clusterCrashGapBase ++ [.step 2] ++ stepsOf 2 polls }

/-- the same schedule in non-cluster mode: the writer cannot die between the two halves of the script -/
def nonClusterCrash : Scenario :=
  { cfg := { cluster := false }, n := 3,
    evs := [.call 0 (.append [10]), .step 0, .step 0, .crash 0,
            .call 1 (.append [11]), .step 1, .step 1,
            .call 2 (.read 0), .step 2, .step 2, .step 2] }

/-- cluster mode, nobody dies: the reader meets the gap of a slow writer, polls, and gets the record once it is SET -/
def clusterSlowWriter : Scenario :=
  { cfg := { cluster := true }, n := 3,
    evs := [.call 0 (.append [10]), .step 0, .step 0,
            .call 1 (.append [11]), .step 1, .step 1, .step 1,
            .call 2 (.read 0), .step 2, .step 2, .step 2, .step 0, .step 2, .step 2] }

def Scenario.final (s : Scenario) : St Nat := run s.cfg (init s.n) s.evs
def Scenario.obs (s : Scenario) : List (Obs Nat) := trace s.cfg (init s.n) s.evs

end OptunaVerif.JournalRedis
