import OptunaVerif.Model.Journal
/-
  A small-step system over any number of `JournalStorage` workers and ONE shared log
  (optuna/storages/journal/_storage.py seen from outside): the events by which the log and the replicas
  change.  `Props/C06Run.lean` proves the run-level forms of C06 by induction over ALL event lists.

  * `append w op`  — live worker `w` builds the record of the mutating contract call `op` (the issuing side
                     of the front end: `issue`, proved equal to what the GENERATED front end builds in
                     `C06Run.issue_is_generated_front`) and appends it; whether it is accepted is decided at replay;
  * `sync w`       — `w` reads the log from its cursor and applies (`Journal.sync`; an error for one of its own
                     records aborts the batch just past that record);
  * `call w op`    — what a public writer does under its lock: `append` immediately followed by `sync`;
  * `snapshot w`   — `w` saves its replica (with its cursor);
  * `restore w k`  — a worker (live or not, possibly fresh) adopts the `k`-th saved snapshot, whoever saved it
                     (`Journal.restore`: worker-local bookkeeping reset); the tail is read by later `sync`s;
  * `join w`       — a fresh worker starts from the empty replica;
  * `crash w`      — `w` stops; the records it appended stay in the log.
-/
namespace OptunaVerif.JournalRun
open OptunaVerif OptunaVerif.Storage OptunaVerif.Journal

/-- the record a mutating contract call stands for when issued by worker `w` (none for a getter) -/
def issue (w : String) : Op → Option Rec
  | .createStudy n d => some (.createStudy w n d)
  | .deleteStudy sid => some (.deleteStudy w sid)
  | .setStudyUserAttr sid k v => some (.setStudyUserAttr w sid k v)
  | .setStudySystemAttr sid k v => some (.setStudySystemAttr w sid k v)
  | .createTrial sid t _ => some (.createTrial w sid t)
  | .setTrialParam tid n p _ => some (.setTrialParam w tid n p)
  | .setTrialStateValues tid st vs => some (.setTrialStateValues w tid st vs)
  | .setTrialInter tid s v => some (.setTrialInter w tid s v)
  | .setTrialUserAttr tid k v => some (.setTrialUserAttr w tid k v)
  | .setTrialSystemAttr tid k v => some (.setTrialSystemAttr w tid k v)
  | _ => none

structure Sys where
  /-- the shared, append-only log -/
  log : List Rec
  /-- the replicas of the live workers (one entry per worker id) -/
  reps : List (String × JState)
  /-- the snapshots saved so far -/
  snaps : List JState
deriving Repr, Inhabited

def Sys.init : Sys := { log := [], reps := [], snaps := [] }

def Sys.rep? (s : Sys) (w : String) : Option JState := (s.reps.find? (fun p => p.1 == w)).map (·.2)

def Sys.setRep (s : Sys) (w : String) (st : JState) : Sys :=
  { s with reps := (w, st) :: s.reps.filter (fun p => p.1 != w) }

inductive Ev where
  | append (w : String) (op : Op)
  | sync (w : String)
  | call (w : String) (op : Op)
  | snapshot (w : String)
  | restore (w : String) (k : Nat)
  | join (w : String)
  | crash (w : String)
deriving Repr, Inhabited

def doAppend (s : Sys) (w : String) (op : Op) : Sys :=
  match s.rep? w, issue w op with
  | some _, some r => { s with log := s.log ++ [r] }
  | _, _ => s

def doSync (s : Sys) (w : String) : Sys :=
  match s.rep? w with
  | some st => s.setRep w (sync w st s.log s.log.length).1
  | none => s

def stepEv (s : Sys) : Ev → Sys
  | .append w op => doAppend s w op
  | .sync w => doSync s w
  | .call w op => doSync (doAppend s w op) w
  | .snapshot w => match s.rep? w with
    | some st => { s with snaps := s.snaps ++ [st] }
    | none => s
  | .restore w k => match s.snaps[k]? with
    | some snap => s.setRep w (restore snap)
    | none => s
  | .join w => match s.rep? w with
    | some _ => s
    | none => s.setRep w JState.init
  | .crash w => { s with reps := s.reps.filter (fun p => p.1 != w) }

def run (s : Sys) (evs : List Ev) : Sys := evs.foldl stepEv s

/-- what the issuer of the record at the end of the log is answered by the sync that reads it: the error raised
(the batch aborts at its own rejected record) -/
def ackErr (s : Sys) (w : String) : Option Err :=
  match s.rep? w with
  | some st => (sync w st s.log s.log.length).2
  | none => none

/-! ### the id discipline of the real code

Every `JournalStorage` object draws a fresh `uuid4` worker id, so a `join` / `restore` never re-uses an id that
joined or restored before; and every public writer syncs before it returns, so a worker that is between calls has
no `append` of its own still waiting for its `sync`. -/

/-- every `join w` / `restore w k` of the list uses an id that no earlier `join` / `restore` (of the list or of `seen`) used -/
def freshFrom (seen : List String) : List Ev → Bool
  | [] => true
  | .join w :: rest => !seen.contains w && freshFrom (w :: seen) rest
  | .restore w _ :: rest => !seen.contains w && freshFrom (w :: seen) rest
  | _ :: rest => freshFrom seen rest

/-- **FreshIds**: worker ids are never re-used by a `join` / `restore` (decidable on the event list) -/
def FreshIds (evs : List Ev) : Bool := freshFrom [] evs

/-- the number of `append`s of `w` whose `sync` is still outstanding (a `call` is an `append` and its `sync`) -/
def pendStep (w : String) (p : Nat) : Ev → Nat
  | .append w' _ => if w' == w then p + 1 else p
  | .sync w' => if w' == w then p - 1 else p
  | _ => p

/-- `pending w evs = 0`: `w` is between calls after `evs` -/
def pending (w : String) (evs : List Ev) : Nat := evs.foldl (pendStep w) 0

end OptunaVerif.JournalRun
