import OptunaVerif.Model.Basic
import OptunaVerif.Model.Rank
import OptunaVerif.Model.Dist
/-!
# Model of NSGA-II's elite selection and child generation (core Lean only, executable)

Sources mirrored (function by function):

* `optuna/samplers/nsgaii/_elite_population_selection_strategy.py`
    `_calc_crowding_distance`      → `crowdStep` / `calcCrowding`   (per objective: in-place stable sort, skip when
                                      first == last, `vs = [-inf] + column + [inf]`, `v_min`/`v_max` = first/last entry
                                      different from -inf/+inf, `width <= 0 → 1.0`, `gap = 0.0 if vs[j] == vs[j+2] else
                                      vs[j+2] - vs[j]`, `manhattan[number] += gap / width` on a `defaultdict(float)`)
    `_crowding_distance_sort`      → `crowdingSort`  (stable sort by the accumulated distance of the list AS LEFT BY THE
                                      LAST PER-OBJECTIVE SORT, then `reverse()` — F-C13-1 lives in that order)
    `_rank_population`             → `lossRow` / `penaltyOf` / `ranksOf` / `perRank`
    `NSGAIIElitePopulationSelectionStrategy.__call__` → `selectLoop` / `eliteWith` / `elite`
* `optuna/samplers/nsgaii/_constraints_evaluation.py`
    `_validate_constraints`, `_evaluate_penalty`, `_constrained_dominates` → `validateConstraints`, `penaltyOf`,
                                      `constrainedDominates`
* `optuna/study/_multi_objective.py` `_dominates` → `dominates`
* `optuna/samplers/nsgaii/_crossover.py`
    `_select_parent(s)`, `_inlined_categorical_uniform_crossover`, `_try_crossover`, `_is_contained`,
    `perform_crossover` → `selectParent(s)`, `catCrossover`, `tryCrossover`, `isContained`, `performCrossover`
* `optuna/samplers/nsgaii/_child_generation_strategy.py` `NSGAIIChildGenerationStrategy.__call__` → `childGen`

Numbers.  The crowding code does float arithmetic (`-`, `/`, `+=`) and comparisons on objective values that may be
±inf.  Everything that touches numbers is written once, over an abstract record of operations `Num α`, and used at
two instances: `xnum : Num XVal` (exact rationals with ±inf and NaN — the instance all theorems are about) and, in the
driver only, IEEE doubles (`Float`), so that the correspondence check can compare the SAME definitions bit for bit
with the Python floats and exactly with the rational idealisation wherever the float arithmetic happens to be exact.

The non-domination ranks come from `Model/Rank.lean` (C15), which works on integer lattice rows: the loss values are
pushed through an order embedding `Enc` (scale by a common denominator, ±inf beyond every finite value) — the ranks
only depend on comparisons.

What is abstract: the random generator and the numeric crossover operator.  Every `rng.rand()`, `rng.rand(n)`,
`rng.choice(n)` and every return value of `crossover.crossover(...)` is read from a script (`Draw`); the theorems
quantify over all scripts, the correspondence check replays recorded / scripted ones.
-/
namespace OptunaVerif.Nsga2
open OptunaVerif OptunaVerif.Dist

/-! ## numbers -/

/-- the float operations the crowding code uses -/
structure Num (α : Type) where
  ninf : α
  pinf : α
  zero : α
  one : α
  lt : α → α → Bool      -- `<`   (the only comparison `list.sort` uses)
  le : α → α → Bool      -- `<=`
  eq : α → α → Bool      -- `==`
  sub : α → α → α
  add : α → α → α
  div : α → α → α
  neg : α → α            -- unary minus

def xlt : XVal → XVal → Bool
  | .nan, _ => false
  | _, .nan => false
  | .ninf, .ninf => false
  | .ninf, _ => true
  | .fin _, .ninf => false
  | .fin a, .fin b => decide (a < b)
  | .fin _, .pinf => true
  | .pinf, _ => false

/-- Python `==` on floats (NaN is not equal to itself) -/
def xeq : XVal → XVal → Bool
  | .ninf, .ninf => true
  | .pinf, .pinf => true
  | .fin a, .fin b => decide (a = b)
  | _, _ => false

def xneg : XVal → XVal
  | .ninf => .pinf
  | .pinf => .ninf
  | .fin q => .fin (-q)
  | .nan => .nan

def xadd : XVal → XVal → XVal
  | .nan, _ => .nan
  | _, .nan => .nan
  | .fin a, .fin b => .fin (a + b)
  | .pinf, .ninf => .nan
  | .ninf, .pinf => .nan
  | .pinf, _ => .pinf
  | _, .pinf => .pinf
  | .ninf, _ => .ninf
  | _, .ninf => .ninf

def xsub (a b : XVal) : XVal := xadd a (xneg b)

/-- float division.  A finite or infinite number divided by zero is `ZeroDivisionError` in Python; the crowding code
never does that (`width <= 0 → 1.0`), the model answers NaN. -/
def xdiv : XVal → XVal → XVal
  | .nan, _ => .nan
  | _, .nan => .nan
  | .fin a, .fin b => if b = 0 then .nan else .fin (a / b)
  | .fin _, _ => .fin 0
  | .pinf, .fin b => if 0 < b then .pinf else if b < 0 then .ninf else .nan
  | .ninf, .fin b => if 0 < b then .ninf else if b < 0 then .pinf else .nan
  | _, _ => .nan

def xnum : Num XVal :=
  { ninf := .ninf, pinf := .pinf, zero := .fin 0, one := .fin 1,
    lt := xlt, le := XVal.le, eq := xeq, sub := xsub, add := xadd, div := xdiv, neg := xneg }

/-! ## trials -/

/-- what the NSGA-II code reads of a `FrozenTrial` of the population -/
structure Ind (α : Type) where
  number : Nat
  values : List α
  cons : Option (List XVal) := none       -- system_attrs["constraints"]
  complete : Bool := true                  -- state == COMPLETE (populations only hold COMPLETE trials)
  params : List (String × Tok) := []       -- params (external representation), in suggestion order
deriving Repr

def Ind.val {α : Type} (N : Num α) (x : Ind α) (i : Nat) : α := x.values.getD i N.zero

/-! ## stable sorting as `list.sort(key=…)` does it (only `<` on the keys is used) -/

def insertByKey {α β : Type} (lt : α → α → Bool) (key : β → α) (x : β) : List β → List β
  | [] => [x]
  | y :: t => if lt (key y) (key x) then y :: insertByKey lt key x t else x :: y :: t

/-- stable: an element is placed before the first later element that is not smaller than it -/
def sortByKey {α β : Type} (lt : α → α → Bool) (key : β → α) : List β → List β
  | [] => []
  | x :: t => insertByKey lt key x (sortByKey lt key t)

/-! ## `_calc_crowding_distance` -/

/-- the `defaultdict(float)` keyed by trial number -/
abbrev Dists (α : Type) := List (Nat × α)

def lookupD {α : Type} (N : Num α) (n : Nat) : Dists α → α
  | [] => N.zero
  | (m, e) :: t => if m = n then e else lookupD N n t

/-- `manhattan_distances[n] += e` -/
def addDist {α : Type} (N : Num α) (n : Nat) (e : α) : Dists α → Dists α
  | [] => [(n, N.add N.zero e)]
  | (m, x) :: t => if m = n then (m, N.add x e) :: t else (m, x) :: addDist N n e t

/-- `next(x for x in vs if x != bad)`; `vs` always holds such an element (its other sentinel) -/
def firstNe {α : Type} (N : Num α) (bad dflt : α) (vs : List α) : α :=
  (vs.find? (fun x => !N.eq x bad)).getD dflt

/-- `width = v_max - v_min; if width <= 0: width = 1.0` -/
def widthOf {α : Type} (N : Num α) (vs : List α) : α :=
  let vmin := firstNe N N.ninf N.pinf vs
  let vmax := firstNe N N.pinf N.ninf vs.reverse
  let w := N.sub vmax vmin
  if N.le w N.zero then N.one else w

/-- `gap_j = 0.0 if vs[j] == vs[j+2] else vs[j+2] - vs[j]` for `j = 0 … n-1` (`vs` has `n+2` entries) -/
def gaps {α : Type} (N : Num α) (vs : List α) : List α :=
  List.zipWith (fun a c => if N.eq a c then N.zero else N.sub c a) vs (vs.drop 2)

/-- the contributions of one objective, by position of the sorted population -/
def contribs {α : Type} (N : Num α) (col : List α) : List α :=
  let vs := N.ninf :: (col ++ [N.pinf])
  let w := widthOf N vs
  (gaps N vs).map (fun g => N.div g w)

def accumulate {α : Type} (N : Num α) (nums : List Nat) (cs : List α) (d : Dists α) : Dists α :=
  (nums.zip cs).foldl (fun acc p => addDist N p.1 p.2 acc) d

/-- one round of the `for i in range(len(population[0].values))` loop: state = (population as the list object
currently is, distances) -/
def crowdStep {α : Type} (N : Num α) (st : List (Ind α) × Dists α) (i : Nat) : List (Ind α) × Dists α :=
  let pop := sortByKey N.lt (fun x => x.val N i) st.1
  let col := pop.map (fun x => x.val N i)
  match col.head?, col.getLast? with
  | some a, some b =>
    if N.eq a b then (pop, st.2)
    else (pop, accumulate N (pop.map (·.number)) (contribs N col) st.2)
  | _, _ => (pop, st.2)

/-- `_calc_crowding_distance(population)`: the population in its final order and the distances -/
def calcCrowding {α : Type} (N : Num α) (pop : List (Ind α)) : List (Ind α) × Dists α :=
  match pop with
  | [] => ([], [])
  | p0 :: _ => (List.range p0.values.length).foldl (crowdStep N) (pop, [])

/-- Python's `<` on the tuples `(-distance, number)`: the first components are compared with `==`; when they are
equal the numbers decide, otherwise `<` on the first components does.  (For a NaN first component `==` is false and
`<` is false both ways; a NaN distance cannot occur for a population without NaN objective values — every distance
is then a non-negative number or `+inf`, `Lemmas/Nsga2Crowd.crowdingSort_desc` — so that corner is never reached;
CPython's identity shortcut inside tuple comparison does not matter either, `-d` is a fresh object per call.) -/
def ltKey {α : Type} (N : Num α) (p q : α × Nat) : Bool :=
  if N.eq p.1 q.1 then decide (p.2 < q.2) else N.lt p.1 q.1

/-- `_crowding_distance_sort(population)` (the list after the call):
`population.sort(key=lambda x: (-manhattan_distances[x.number], x.number))` — distance descending (`-(+inf) = -inf`
first), ties by ascending trial number.  (Repair of finding F-C13-1.) -/
def crowdingSort {α : Type} (N : Num α) (pop : List (Ind α)) : List (Ind α) :=
  let r := calcCrowding N pop
  sortByKey (ltKey N) (fun x => (N.neg (lookupD N x.number r.2), x.number)) r.1

/-- the code before the repair of F-C13-1: `population.sort(key=distance); population.reverse()` — equal distances
come out in the reversed order the LAST per-objective sort left them in, i.e. by the raw last objective.  Kept so
that a revert is recognised (`C13.crowding_old_order_not_symmetric`, and the correspondence stage names it). -/
def crowdingSortOld {α : Type} (N : Num α) (pop : List (Ind α)) : List (Ind α) :=
  let r := calcCrowding N pop
  (sortByKey N.lt (fun x => lookupD N x.number r.2) r.1).reverse

/-! ### mirroring objectives (what `maximize f` vs `minimize -f` does to the raw values the crowding code reads) -/

/-- negate the objectives selected by the mask (missing mask entries = keep) -/
def flipVals : List Bool → List XVal → List XVal
  | m :: ms, v :: vs => (if m then xneg v else v) :: flipVals ms vs
  | [], vs => vs
  | _ :: _, [] => []

def flipInd (mask : List Bool) (x : Ind XVal) : Ind XVal := { x with values := flipVals mask x.values }

/-! ## `NSGAIIElitePopulationSelectionStrategy.__call__` -/

def maxRank (ranks : List Nat) : Nat := ranks.foldl max 0

/-- `population_per_rank` -/
def perRank {β : Type} (ranks : List Nat) (pop : List β) : List (List β) :=
  (List.range (maxRank ranks + 1)).map (fun r => ((pop.zip ranks).filter (fun p => p.2 == r)).map (·.1))

def selectLoop {α : Type} (N : Num α) (popSize : Nat) : List (List (Ind α)) → List (Ind α) → List (Ind α)
  | [], elite => elite
  | front :: rest, elite =>
    if elite.length + front.length < popSize then selectLoop N popSize rest (elite ++ front)
    else elite ++ (crowdingSort N front).take (popSize - elite.length)

/-- the selection given the non-domination ranks -/
def eliteWith {α : Type} (N : Num α) (popSize : Nat) (ranks : List Nat) (pop : List (Ind α)) : List (Ind α) :=
  match pop with
  | [] => []
  | _ => selectLoop N popSize (perRank ranks pop) []

/-! ### ranks: `_rank_population` through `Model/Rank.lean` -/

/-- order embedding of the loss values into the integer lattice of `Model/Rank.lean`: finite values are scaled by a
common denominator `den`, ±inf lie beyond `big` -/
structure Enc where
  den : Nat
  big : Int
deriving Repr

def encV (e : Enc) : XVal → Int
  | .ninf => -e.big
  | .pinf => e.big
  | .fin q => (q * (e.den : Rat)).floor
  | .nan => e.big + 1

/-- `objective_values *= [-1.0 if d == MAXIMIZE else 1.0 …]` (`true` = MAXIMIZE) -/
def normVal (maximize : Bool) (v : XVal) : XVal := if maximize then xneg v else v

def lossRow (e : Enc) (dirs : List Bool) (x : Ind XVal) : Hypervolume.Pt :=
  List.zipWith (fun m v => encV e (normVal m v)) dirs x.values

/-- `sum(v for v in constraints if v > 0)` -/
def violation (cs : List XVal) : XVal :=
  (cs.filter (fun v => xlt (.fin 0) v)).foldl xadd (.fin 0)

/-- `_evaluate_penalty`: NaN when the trial has no constraint values -/
def penaltyOf (x : Ind XVal) : XVal :=
  match x.cons with
  | none => .nan
  | some cs => violation cs

def encPenalty (e : Enc) : XVal → Option Int
  | .nan => none
  | v => some (encV e v)

def isNaN : XVal → Bool
  | .nan => true
  | _ => false

/-- `_validate_constraints`: `false` = ValueError (a NaN constraint value, or constraint lists of different lengths) -/
def validateConstraints (pop : List (Ind XVal)) : Bool :=
  let nc := (pop.map (fun t => (t.cons.getD []).length)).foldl max 0
  pop.all (fun t => match t.cons with
    | none => true
    | some cs => !(cs.any isNaN) && cs.length == nc)

/-- `_fast_non_domination_rank(objective_values, penalty=…)` as called by `_rank_population` (no `n_below`) -/
def ranksOf (e : Enc) (dirs : List Bool) (constrained : Bool) (pop : List (Ind XVal)) : Option (List Nat) :=
  Rank.fastRank dirs.length (pop.map (lossRow e dirs))
    (if constrained then some (pop.map (fun x => encPenalty e (penaltyOf x))) else none) none

/-- `NSGAIIElitePopulationSelectionStrategy(population_size, constraints_func)(study, population)`;
`none` = ValueError -/
def elite (e : Enc) (popSize : Nat) (dirs : List Bool) (constrained : Bool) (pop : List (Ind XVal)) :
    Option (List (Ind XVal)) :=
  if constrained && !validateConstraints pop then none
  else match ranksOf e dirs constrained pop with
    | none => none
    | some ranks => some (eliteWith xnum popSize ranks pop)

/-! ## domination between two trials (binary tournament) -/

def listEq : List XVal → List XVal → Bool
  | [], [] => true
  | a :: t, b :: u => xeq a b && listEq t u
  | _, _ => false

def allLeX : List XVal → List XVal → Bool
  | a :: t, b :: u => XVal.le a b && allLeX t u
  | _, _ => true

/-- `_dominates(trial0, trial1, directions)`; `none` = ValueError -/
def dominates (dirs : List Bool) (t0 t1 : Ind XVal) : Option Bool :=
  if !t0.complete then some false
  else if !t1.complete then some true
  else if t0.values.length ≠ t1.values.length then none
  else if t0.values.length ≠ dirs.length then none
  else
    let a := List.zipWith normVal dirs t0.values
    let b := List.zipWith normVal dirs t1.values
    if listEq a b then some false else some (allLeX a b)

/-- `all(v <= 0 for v in constraints)` -/
def satisfies (cs : List XVal) : Bool := cs.all (fun v => XVal.le v (.fin 0))

/-- `_constrained_dominates(trial0, trial1, directions)`; `none` = ValueError -/
def constrainedDominates (dirs : List Bool) (t0 t1 : Ind XVal) : Option Bool :=
  match t0.cons, t1.cons with
  | none, none => dominates dirs t0 t1
  | some _, none => some true
  | none, some _ => some false
  | some c0, some c1 =>
    if c0.length ≠ c1.length then none
    else if !t0.complete then some false
    else if !t1.complete then some true
    else if satisfies c0 && satisfies c1 then dominates dirs t0 t1
    else if satisfies c0 then some true
    else if satisfies c1 then some false
    else some (xlt (violation c0) (violation c1))

/-! ## child generation -/

/-- one value taken from the random generator or from the (abstract) crossover operator -/
inductive Draw where
  | rand (q : Rat)              -- `rng.rand()`
  | randVec (qs : List Rat)     -- `rng.rand(n)`
  | choice (i : Nat)            -- `rng.choice(n)`
  | op (raw : List XVal)        -- the vector returned by `crossover.crossover(parents, rng, study, bounds)`
deriving Repr

/-- why a call does not return a value -/
inductive Stop where
  | valueError      -- a `ValueError` escapes
  | keyError        -- a parent lacks a parameter of the search space
  | assertion       -- the operator returned a vector of the wrong length
  | exhausted       -- the script is used up: the `while True` loop would go on
  | desync          -- the script does not fit the calls made (a tie problem, never a verdict)
deriving DecidableEq, Repr

abbrev M := Except Stop

def nextRand : List Draw → M (Rat × List Draw)
  | .rand q :: t => .ok (q, t)
  | [] => .error .exhausted
  | _ => .error .desync

def nextRandVec (n : Nat) : List Draw → M (List Rat × List Draw)
  | .randVec qs :: t => if qs.length = n then .ok (qs, t) else .error .desync
  | [] => .error .exhausted
  | _ => .error .desync

/-- `rng.choice(n)`; `n = 0` raises ValueError before anything is drawn -/
def nextChoice (n : Nat) (s : List Draw) : M (Nat × List Draw) :=
  if n = 0 then .error .valueError
  else match s with
    | .choice i :: t => if i < n then .ok (i, t) else .error .desync
    | [] => .error .exhausted
    | _ => .error .desync

def nextOp : List Draw → M (List XVal × List Draw)
  | .op raw :: t => .ok (raw, t)
  | [] => .error .exhausted
  | _ => .error .desync

structure Cfg where
  crossoverProb : Rat
  swappingProb : Rat
  mutationProb : Option Rat
  nParents : Nat               -- `crossover.n_parents`
  constrained : Bool           -- `constraints_func is not None`
  dirs : List Bool             -- `study.directions`, `true` = MAXIMIZE
deriving Repr

/-- the search space: names with their distributions, in dict order -/
abbrev Space := List (String × Dist)

def isNumerical : Dist → Bool
  | .cat _ => false
  | _ => true

/-- `_SearchSpaceTransform(numerical_search_space)`: transform_log, transform_step on, 0-1 scaling off -/
def tcfg : TCfg := { tlog := true, tstep := true, t01 := false }

def liftOpt {β : Type} (e : Stop) : Option β → M β
  | some b => .ok b
  | none => .error e

/-- `dominates = _dominates if constraints_func is None else _constrained_dominates` -/
def dom (cfg : Cfg) (t0 t1 : Ind XVal) : M Bool :=
  liftOpt .valueError (if cfg.constrained then constrainedDominates cfg.dirs t0 t1 else dominates cfg.dirs t0 t1)

/-- `_select_parent`: binary tournament -/
def selectParent (cfg : Cfg) (pool : List (Ind XVal)) (s : List Draw) : M (Ind XVal × List Draw) := do
  let (i0, s) ← nextChoice pool.length s
  let (i1, s) ← nextChoice pool.length s
  let c0 ← liftOpt .desync pool[i0]?
  let c1 ← liftOpt .desync pool[i1]?
  let b ← dom cfg c0 c1
  pure (if b then c0 else c1, s)

/-- `_select_parents`: `n_parents` tournaments among the trials not selected yet (`t not in parents`; trials of a
population are told apart by their number) -/
def selectParents (cfg : Cfg) (pop : List (Ind XVal)) : Nat → List (Ind XVal) → List Draw → M (List (Ind XVal) × List Draw)
  | 0, acc, s => .ok (acc, s)
  | k + 1, acc, s => do
    let pool := pop.filter (fun t => !acc.any (fun p => p.number == t.number))
    let (p, s) ← selectParent cfg pool s
    selectParents cfg pop k (acc ++ [p]) s

def getParam (x : Ind XVal) (name : String) : M Tok := liftOpt .keyError (AList.get? x.params name)

/-- `_inlined_categorical_uniform_crossover`: `masks = (rng.rand(n) >= swapping_prob).astype(int)`, the value comes
from `[parents[0], parents[-1]][mask]` -/
def catCrossover (cfg : Cfg) (first last : Ind XVal) : List String → List Rat → M (List (String × Tok))
  | [], _ => .ok []
  | n :: ns, u :: us => do
    let v ← getParam (if cfg.swappingProb ≤ u then last else first) n
    let rest ← catCrossover cfg first last ns us
    pure ((n, v) :: rest)
  | _ :: _, [] => .error .desync

def mapErr {β : Type} : R β → M β
  | .ok b => .ok b
  | .error .keyError => .error .keyError
  | .error _ => .error .valueError

/-- `numerical_transform.transform({name: parent.params[name] …})` -/
def transformParent (E : Env) (num : Space) (x : Ind XVal) : M (List Rat) := do
  let toks ← num.mapM (fun p => getParam x p.1)
  mapErr (transform E tcfg (num.map (·.2)) toks)

/-- `_untransform_numerical_param` on one raw column value that may be ±inf or NaN (finite values go through
`Dist.decode`, C10's projection).  NaN: `int(nan)` raises ValueError for int distributions, floats stay NaN.
+inf / -inf: `exp`, `round`, `clip`, `min(·, nextafter(high))` as IEEE evaluates them. -/
def decodeX (E : Env) (d : Dist) (x : XVal) : M Tok :=
  match x with
  | .fin q => liftOpt .desync (decode E tcfg d [q])
  | .nan =>
    match d with
    | .int _ _ _ _ _ => .error .valueError
    | .flt _ _ _ _ _ => .ok .nan
    | .cat _ => .error .desync
  | .pinf =>
    match d with
    | .flt cl low high log none =>
      if (Dist.flt cl low high log none).single then .ok .pinf else .ok (.flt (E.below high))
    | .flt _ _ high _ (some _) => .ok (.flt high)
    | .int _ _ high _ _ => .ok (.int high)
    | .cat _ => .error .desync
  | .ninf =>
    match d with
    | .flt cl low high true none =>
      if (Dist.flt cl low high true none).single then .ok (.flt 0) else .ok (.flt (min 0 (E.below high)))
    | .flt _ _ _ false none => .ok .ninf
    | .flt _ low _ _ (some _) => .ok (.flt low)
    | .int _ low _ _ _ => .ok (.int low)
    | .cat _ => .error .desync

/-- `numerical_transform.untransform(child_numerical_array)` -/
def untransformX (E : Env) : Space → List XVal → M (List (String × Tok))
  | [], [] => .ok []
  | (n, d) :: ds, x :: xs => do
    let v ← decodeX E d x
    let rest ← untransformX E ds xs
    pure ((n, v) :: rest)
  | _, _ => .error .assertion

/-- `param_distribution._contains(param_distribution.to_internal_repr(param))` for one child parameter
(`to_internal_repr` raises ValueError for NaN and for a non-positive value of a log distribution) -/
def containedTok (d : Dist) (t : Tok) : M Bool :=
  if isNumerical d && t == .pinf then .ok false
  else if isNumerical d && t == .ninf then (if d.isLog then .error .valueError else .ok false)
  else
    match d.toInternal t with
    | .ok q => .ok (d.contains q)
    | .error _ => .error .valueError

/-- `_is_contained(params, search_space)`: parameters in dict order, `False` at the first one outside -/
def isContained (space : Space) : List (String × Tok) → M Bool
  | [] => .ok true
  | (n, t) :: rest => do
    let d ← liftOpt .keyError (AList.get? space n)
    let c ← containedTok d t
    if c then isContained space rest else pure false

/-- what the operator was handed in one attempt: the numbers of the selected parents and their transformed rows -/
structure Attempt where
  parents : List Nat
  rows : List (List Rat)
deriving Repr

/-- `_try_crossover` -/
def tryCrossover (E : Env) (cfg : Cfg) (cat num : Space) (parents : List (Ind XVal)) (s : List Draw) :
    M (List (String × Tok) × List (List Rat) × List Draw) := do
  let (childCat, s) ←
    (match cat with
     | [] => (.ok ([], s) : M (List (String × Tok) × List Draw))
     | _ => do
       let (us, s) ← nextRandVec cat.length s
       let first ← liftOpt .desync parents.head?
       let last ← liftOpt .desync parents.getLast?
       let c ← catCrossover cfg first last (cat.map (·.1)) us
       pure (c, s))
  match num with
  | [] => pure (childCat, [], s)
  | _ => do
    let rows ← parents.mapM (transformParent E num)
    let (raw, s) ← nextOp s
    let childNum ← untransformX E num raw
    pure (childCat ++ childNum, rows, s)

/-- `perform_crossover`: `fuel` bounds the number of rounds of `while True` (callers pass the script length + 1:
every round that does not return consumes at least one draw) -/
def performLoop (E : Env) (cfg : Cfg) (space cat num : Space) (pop : List (Ind XVal)) :
    Nat → List Attempt → List Draw → M (List (String × Tok) × List Attempt × List Draw)
  | 0, _, _ => .error .exhausted
  | fuel + 1, tr, s => do
    let (parents, s) ← selectParents cfg pop cfg.nParents [] s
    let (child, rows, s) ← tryCrossover E cfg cat num parents s
    let tr := tr ++ [{ parents := parents.map (·.number), rows := rows }]
    let c ← isContained space child
    if c then pure (child, tr, s) else performLoop E cfg space cat num pop fuel tr s

def performCrossover (E : Env) (cfg : Cfg) (space : Space) (pop : List (Ind XVal)) (s : List Draw) :
    M (List (String × Tok) × List Attempt × List Draw) :=
  performLoop E cfg space (space.filter (fun p => !isNumerical p.2)) (space.filter (fun p => isNumerical p.2)) pop
    (s.length + 1) [] s

/-- `{name: parent_params[name] for name in search_space.keys()}` -/
def copyParams (p : Ind XVal) : Space → M (List (String × Tok))
  | [] => .ok []
  | q :: rest => do
    let v ← getParam p q.1
    let r ← copyParams p rest
    pure ((q.1, v) :: r)

/-- the mutation loop: `if rng.rand() >= mutation_prob: params[name] = child_params[name]` -/
def mutate (mp : Rat) : List (String × Tok) → List Draw → M (List (String × Tok) × List Draw)
  | [], s => .ok ([], s)
  | p :: rest, s => do
    let (r, s) ← nextRand s
    let (kept, s) ← mutate mp rest s
    pure (if mp ≤ r then p :: kept else kept, s)

/-- `mutation_prob` actually used: `1.0 / max(1.0, n_params)` when the option is `None` -/
def mutationProb (cfg : Cfg) (nParams : Nat) : Rat :=
  match cfg.mutationProb with
  | some p => p
  | none => 1 / ((max 1 nParams : Nat) : Rat)

structure ChildOut where
  child : List (String × Tok)      -- `child_params` before mutation
  params : List (String × Tok)     -- the returned dict: the parameters that were not dropped
  attempts : List Attempt
  rest : List Draw
deriving Repr

/-- `NSGAIIChildGenerationStrategy.__call__(study, search_space, parent_population)` -/
def childGen (E : Env) (cfg : Cfg) (space : Space) (pop : List (Ind XVal)) (s : List Draw) : M ChildOut := do
  let (r, s) ← nextRand s
  let (child, tr, s) ←
    (if r < cfg.crossoverProb then performCrossover E cfg space pop s
     else do
       let (i, s) ← nextChoice pop.length s
       let p ← liftOpt .desync pop[i]?
       let child ← copyParams p space
       pure (child, [], s))
  let (params, s) ← mutate (mutationProb cfg child.length) child s
  pure { child := child, params := params, attempts := tr, rest := s }

end OptunaVerif.Nsga2
