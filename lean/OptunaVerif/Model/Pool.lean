import OptunaVerif.Model.Basic
/-
  C02 — the `n_jobs > 1` branch of `optuna/study/_optimize.py::_optimize` (lines 76-120) as a
  transition system over the events that the harness can see on the real code:

      submit            main thread: `executor.submit(_optimize_sequential, …, n_trials=1, …)`
      begin i           worker thread: future i starts running
      stopCalled i      user code running inside future i calls `study.stop()`
      finish i r        worker thread: future i is done with result r (returned / raised class c)
      waitFirst C       main thread: `wait(futures, FIRST_COMPLETED)` returned `completed = C`
      timeout           main thread: the clock reading at the loop head says `timeout` has elapsed
                        (`(now - time_start).total_seconds() > timeout`): the loop will `break`
      waitAll           main thread: the final `wait(futures)` returned
      exit r            `_optimize` returned (`ok`) or raised an exception of class c

  `step` is *checked* stepping: it answers `none` when the event is not enabled in the state, so the
  same function (a) validates a trace recorded from a real multi-threaded run (driver sub-command
  `pool`) and (b) defines the set of executions the theorems of Props/C02 quantify over
  (every event list accepted from `init`).  Guards are those of the code; where the main thread's
  view may be stale (it reads `study._stop_flag` at the loop head, the flag may be raised a moment
  later) the guard is the weaker one, so the model over-approximates the code's behaviours and the
  theorems hold a fortiori.  `ThreadPoolExecutor.__exit__` = `shutdown(wait=True)`: the `with` block
  is left only when every submitted work item has run (trusted: CPython's concurrent.futures).
-/
namespace OptunaVerif.Pool

/-- Result of one future: returned, or raised an exception of (opaque) class id `c`. -/
inductive Res where
  | ok
  | raised (c : Nat)
deriving DecidableEq, Repr, Inhabited

inductive Phase where
  | loop                 -- inside `for n_submitted_trials in itertools.count():` (or just broke out of it)
  | drained              -- the final `for f in wait(futures).done: f.result()` has run
  | exited (r : Res)     -- `_optimize` has returned / raised
deriving DecidableEq, Repr, Inhabited

structure State where
  submitted : Nat := 0                      -- futures 0 .. submitted-1 exist
  futures : List Nat := []                  -- the main thread's `futures` set
  begun : Nat → Bool := fun _ => false
  ended : Nat → Option Res := fun _ => none
  stop : Bool := false                      -- study._stop_flag
  cands : List Nat := []                    -- classes of the exceptions `f.result()` met in the main thread
  timedOut : Bool := false                  -- the main thread has seen `timeout` elapse at its loop head
  phase : Phase := .loop

def init : State := {}

inductive Event where
  | submit
  | begin (i : Nat)
  | stopCalled (i : Nat)
  | finish (i : Nat) (r : Res)
  | waitFirst (c : List Nat)
  | timeout
  | waitAll
  | exit (r : Res)
deriving DecidableEq, Repr, Inhabited

/-- classes raised by the futures in `l` -/
def raisedOf (ended : Nat → Option Res) : List Nat → List Nat
  | [] => []
  | i :: t =>
    match ended i with
    | some (.raised c) => c :: raisedOf ended t
    | _ => raisedOf ended t

def allEnded (ended : Nat → Option Res) (l : List Nat) : Bool := l.all (fun i => (ended i).isSome)

/-- `n_trials` reached (`n_submitted_trials >= n_trials`) -/
def quotaReached (n : Option Nat) (submitted : Nat) : Bool :=
  match n with
  | some m => decide (m ≤ submitted)
  | none => false

/-- `_optimize` may return only after the final drain met no exception; it may raise class `c` only if
some `f.result()` in the main thread raised it. -/
def exitAllowed (s : State) : Res → Bool
  | .ok => decide (s.phase = .drained) && decide (s.cands = [])
  | .raised c => s.cands.contains c

/-- One observable event of `_optimize(n_jobs = k, n_trials = n)`; `none` = not enabled. -/
def step (k : Nat) (n : Option Nat) (s : State) : Event → Option State
  | .submit =>
    if s.phase = .loop ∧ s.cands = [] ∧ quotaReached n s.submitted = false ∧ s.futures.length < k then
      some { s with submitted := s.submitted + 1, futures := s.submitted :: s.futures }
    else none
  | .begin i =>
    if i < s.submitted ∧ s.begun i = false then
      some { s with begun := fun j => if j = i then true else s.begun j }
    else none
  | .stopCalled i =>
    if s.begun i = true ∧ s.ended i = none then some { s with stop := true } else none
  | .finish i r =>
    if s.begun i = true ∧ s.ended i = none then
      some { s with ended := fun j => if j = i then some r else s.ended j }
    else none
  | .waitFirst c =>
    if s.phase = .loop ∧ s.cands = [] ∧ quotaReached n s.submitted = false ∧ k ≤ s.futures.length
        ∧ c ≠ [] ∧ (c.all (fun i => s.futures.contains i)) = true ∧ allEnded s.ended c = true then
      some { s with futures := s.futures.filter (fun i => !c.contains i), cands := raisedOf s.ended c }
    else none
  | .timeout =>
    -- the clock is an input: the reading may say "elapsed" at any loop head (whether a `timeout` was
    -- given at all is not known to this model; `PoolRun.step` enables the event only if one was)
    if s.phase = .loop then some { s with timedOut := true } else none
  | .waitAll =>
    if s.phase = .loop ∧ s.cands = [] ∧
        (s.stop = true ∨ quotaReached n s.submitted = true ∨ s.timedOut = true)
        ∧ allEnded s.ended s.futures = true then
      some { s with futures := [], cands := raisedOf s.ended s.futures, phase := .drained }
    else none
  | .exit r =>
    if (s.phase = .loop ∨ s.phase = .drained) ∧ allEnded s.ended (List.range s.submitted) = true
        ∧ exitAllowed s r = true then
      some { s with phase := .exited r }
    else none

/-- Run a whole event list; `none` as soon as one event is not enabled. -/
def run (k : Nat) (n : Option Nat) : State → List Event → Option State
  | s, [] => some s
  | s, e :: es =>
    match step k n s e with
    | none => none
    | some s' => run k n s' es

/-- Index of the first event that is not enabled (for the harness's message). -/
def firstRejected (k : Nat) (n : Option Nat) : State → List Event → Nat → Option Nat
  | _, [], _ => none
  | s, e :: es, idx =>
    match step k n s e with
    | none => some idx
    | some s' => firstRejected k n s' es (idx + 1)

end OptunaVerif.Pool
