import OptunaVerif.Model.Pool
import OptunaVerif.Model.Tell
/-!
  C02 — `_optimize(n_jobs = k)` with the worker jobs filled in: every future submitted by the main
  thread (`Model/Pool.lean`) is a run of `_optimize_sequential(study, func, n_trials=1, timeout, …,
  time_start=shared)` = `Tell.optimizeSeq cfg (some 1) timeout [plan] 0 elapsed stop` (`Model/Tell.lean`)
  over a storage shared by all workers.

  Granularity.  A worker contributes two atomic steps per future:

      begin i    the worker enters `_optimize_sequential`: it reads `study._stop_flag` and the clock at
                 the loop head (`loopBreaks`); if the loop goes on, `study.ask()` →
                 `storage.create_new_trial` appends a RUNNING row, whose number is the next free one
                 (allocation of the number is ONE storage call; that storage calls are atomic w.r.t.
                 each other is C03's subject and is assumed here);
      finish i   the rest of `_run_trial` for that row (rest of `ask`, the objective, the reports,
                 `_tell_with_warning`, the `finally:` block), the callbacks, and the second look at the
                 loop head (`n_trials = 1` reached): the row is overwritten with `runPlan`'s final
                 record, the callback invocations are appended to the log, the stop flag is raised if
                 the objective / a callback called `study.stop()`, the future ends with the job's result.

  Why `finish` may be one step: between `begin i` and `finish i` the row is written only by worker `i`
  (the `Trial` object is private to the worker; the only foreign writer the code base has —
  `fail_stale_trials` of another worker, or the objective calling `study.tell` itself — is the
  `Script.pre` / `Env.interfere` input of `runTrial`, i.e. present in the model as an arbitrary input
  and excluded only where a theorem says `Undisturbed`); other workers only read it (samplers), and a
  read does not change it.  `stopCalled i` makes the one effect of the job that the *main thread* can see
  early (the stop flag) available at any moment between the two steps.

  Main thread.  The events of `Pool.step`, plus `interrupt c`: an exception that does not come out of
  `f.result()` is raised in the main thread anywhere inside the `with ThreadPoolExecutor` block
  (KeyboardInterrupt while it sits in `wait(…)`).  Then no further main-thread statement of the block
  runs; `ThreadPoolExecutor.__exit__` = `shutdown(wait=True)` (no `cancel_futures`): queued work items
  are still run, running ones run to completion, every worker thread is joined, and only then does the
  exception leave `_optimize`.  **The one modelled-not-verified hypothesis** (already in `Pool.step`):
  `exit` — normal or exceptional — is enabled only when every submitted future has ended, i.e. the
  executor's `__exit__` joins all submitted futures (CPython's concurrent.futures).  For the exit of an
  interrupted `_optimize` the hypothesis is the explicit parameter `Params.joins`; the theorems assume
  `joins = true` and `pool_join_hypothesis_needed` shows they fail without it.  It is *not* a theorem of
  CPython: (a) a second KeyboardInterrupt delivered during the join aborts it; (b) on CPython 3.12 a
  KeyboardInterrupt delivered while the main thread is inside `executor.submit` →
  `_adjust_thread_count` → `t.start()` (which blocks on the thread's started-event) leaves a worker
  thread that runs the queued work item but was never added to `executor._threads`, so `__exit__` does
  not join it: `study.optimize(n_jobs=3)` then raises KeyboardInterrupt with one trial RUNNING and the
  worker still alive (observed on /repo, see the report of this task; the trial is finished by that
  worker a moment later).  Interrupts delivered while the main thread is in `wait(…)` or in optuna's own
  statements behave as modelled.
-/
namespace OptunaVerif.PoolRun
open OptunaVerif OptunaVerif.Tell

/-- What the environment decides for future `i`: how its trial behaves, and the (virtual) seconds since
`time_start` when its worker looks at the clock at the loop head. -/
structure Job where
  plan : TrialPlan := {}
  elapsed : Nat := 0
deriving Repr, Inhabited

structure Params where
  cfg : Cfg
  k : Nat                      -- n_jobs
  n : Option Nat               -- n_trials
  timeout : Option Nat
  jobs : Nat → Job
  /-- class id under which the main thread sees an exception re-raised by `f.result()` -/
  cls : Exc → Nat
  /-- **the hypothesis**: when an exception raised in the main thread leaves the `with` block,
  `ThreadPoolExecutor.__exit__` joins every worker that runs (or will run) a submitted work item.
  `false` = the executor may let `_optimize` go while futures are unfinished. -/
  joins : Bool

/-- A storage row: the trial record and (ghost) the future whose worker created it. -/
structure Cell where
  owner : Nat
  row : Rec
deriving DecidableEq, Repr, Inhabited

def upd {α : Type} (f : Nat → α) (i : Nat) (a : α) : Nat → α := fun j => if j = i then a else f j

structure State where
  pool : Pool.State := {}
  /-- `study._stop_flag` as worker `i` read it at its loop head -/
  stop0 : Nat → Bool := fun _ => false
  /-- number of the trial future `i` created -/
  trialOf : Nat → Option Nat := fun _ => none
  /-- the shared storage: trial number ↦ row; rows `0 .. nTrials-1` exist -/
  store : Nat → Option Cell := fun _ => none
  nTrials : Nat := 0
  /-- (trial number, callback index) per callback invocation, in execution order -/
  cbLog : List (Nat × Nat) := []
  /-- an exception raised in the main thread that is not a future's (KeyboardInterrupt) -/
  interrupted : Option Nat := none
  /-- `_optimize` has returned (`ok`) / raised -/
  done : Option Pool.Res := none

def init : State := {}

/-- The job of future `i`: `_optimize_sequential(n_trials=1)` with the stop flag it read. -/
def jobOut (P : Params) (stop0 : Bool) (i : Nat) : SeqOut :=
  optimizeSeq P.cfg (some 1) P.timeout [(P.jobs i).plan] 0 (P.jobs i).elapsed stop0

/-- the loop head of the job breaks at once: the future starts no trial -/
def jobBreaks (P : Params) (stop0 : Bool) (i : Nat) : Bool :=
  loopBreaks (some 1) P.timeout 0 (P.jobs i).elapsed stop0

def resOf (cls : Exc → Nat) : Option Exc → Pool.Res
  | none => .ok
  | some e => .raised (cls e)

inductive Event where
  | submit
  | waitFirst (c : List Nat)
  | timeout
  | waitAll
  | exit (r : Pool.Res)
  | interrupt (c : Nat)
  | begin (i : Nat)
  | stopCalled (i : Nat)
  | finish (i : Nat)
deriving DecidableEq, Repr, Inhabited

def liftPool (P : Params) (s : State) (e : Pool.Event) : Option State :=
  match Pool.step P.k P.n s.pool e with
  | none => none
  | some p => some { s with pool := p }

/-- One step of the refined system; `none` = not enabled.  The pool component moves by `Pool.step`
only (so every theorem about `Pool.run` applies to it), except that an interrupted `_optimize` leaves
through the executor's `__exit__` with the interrupting exception. -/
def step (P : Params) (s : State) (ev : Event) : Option State :=
  if s.done.isSome then none
  else
    match ev with
    | .submit => if s.interrupted = none then liftPool P s .submit else none
    | .waitFirst c => if s.interrupted = none then liftPool P s (.waitFirst c) else none
    | .timeout =>
      -- the main thread's clock reading at the loop head says `timeout` has elapsed (only if one was given)
      if s.interrupted = none ∧ P.timeout.isSome = true then liftPool P s .timeout else none
    | .waitAll => if s.interrupted = none then liftPool P s .waitAll else none
    | .exit r =>
      match s.interrupted with
      | none =>
        match Pool.step P.k P.n s.pool (.exit r) with
        | none => none
        | some p => some { s with pool := p, done := some r }
      | some c =>
        if r = .raised c ∧
            (P.joins = false ∨ Pool.allEnded s.pool.ended (List.range s.pool.submitted) = true) then
          some { s with done := some r }
        else none
    | .interrupt c => if s.interrupted = none then some { s with interrupted := some c } else none
    | .begin i =>
      match Pool.step P.k P.n s.pool (.begin i) with
      | none => none
      | some p =>
        if jobBreaks P s.pool.stop i then
          some { s with pool := p, stop0 := upd s.stop0 i s.pool.stop }
        else
          some { s with pool := p, stop0 := upd s.stop0 i s.pool.stop,
                        trialOf := upd s.trialOf i (some s.nTrials),
                        store := upd s.store s.nTrials (some ⟨i, {}⟩),
                        nTrials := s.nTrials + 1 }
    | .stopCalled i =>
      if (jobOut P (s.stop0 i) i).stopFlag = true then liftPool P s (.stopCalled i) else none
    | .finish i =>
      let o := jobOut P (s.stop0 i) i
      match (if o.stopFlag then Pool.step P.k P.n s.pool (.stopCalled i) else some s.pool) with
      | none => none
      | some p1 =>
        match Pool.step P.k P.n p1 (.finish i (resOf P.cls o.raised)) with
        | none => none
        | some p2 =>
          some { s with
            pool := p2,
            store := (match s.trialOf i, o.trials with
              | some t, ro :: _ => upd s.store t (some ⟨i, ro.final⟩)
              | _, _ => s.store),
            cbLog := s.cbLog ++ (match s.trialOf i with
              | some t => o.cbLog.map (fun x => (t, x.2))
              | none => []) }

def run (P : Params) : State → List Event → Option State
  | s, [] => some s
  | s, e :: es =>
    match step P s e with
    | none => none
    | some s' => run P s' es

end OptunaVerif.PoolRun
