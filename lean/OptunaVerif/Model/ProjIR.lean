import OptunaVerif.Model.Suggest
/-!
# C10 — the IR that `verif/translators/tproj.py` emits from the sampler projections, and its evaluator
(core Lean only; linked into the driver).

`Generated/ProjGen.lean` is DATA of the types below, regenerated from the source on every run:

* TPE (`optuna/samplers/_tpe/parzen_estimator.py`): `tpeTransform`, `tpeUntransform` (the log branch, the int rounding
  `low + round((x - low) / step) * step` + clip, float / categorical pass-through), the widening of
  `_calculate_distributions` (`calcLow`, `calcHigh`, `calcStepNone`) and the endpoints / which batched distribution
  `_calculate_numerical_distributions` builds;
* TPE (`probability_distributions.py`, `_MixtureOfProductDistribution.sample`): `mixCont` (the clip of fix 56cb744 / F33),
  `mixDisc` (discretisation + clip), the truncation bounds `mixDiscA/B`, `mixContA/B`, the categorical index `mixCat`;
* TPE (`sampler.py::_sample`): the hand-off `dist.to_external_repr(ret[param_name])`;
* GP (`optuna/_gp/search_space.py`): `gpUnnormalize`, `gpNormalize`, `gpRound` (`round_one_normalized_param`),
  `gpSampleCat` / the guards of the loop of `sample_normalized_params`, `gpGet` (`get_unnormalized_param`, numerical arm);
* QMC / Random: the call shape of the hand-off to `_SearchSpaceTransform(...).untransform(...)` (strings).

Numbers are exact rationals; `np.exp` / `np.log` / `math.log` are the abstract `Env` of `Model/Dist.lean`;
`np.round` and the builtin `round` are `roundHE` (half to even), `int(·)` is `truncI`, `np.clip` is `clip`,
`np.floor` and `//` are the floor.  Only whitelisted shapes are representable; everything else makes the translator
report "untranslatable".
-/
namespace OptunaVerif.ProjIR
open OptunaVerif.Dist

/-- `ScaleType` of `optuna/_gp/search_space.py` -/
inductive ST where
  | linear | log | cat
deriving DecidableEq, Repr, Inhabited

inductive V where
  | x                          -- the raw number handed to the function (`samples`, `param_value`, `normalized_param[i]`, …)
  | low | high | step          -- `dist.low`, `dist.high`, `dist.step` (resp. `d.low`, … of a batched distribution)
  | b0 | b1                    -- `bounds[0]`, `bounds[1]`
  | mu | sigma                 -- `active_mus`, `active_sigmas`
deriving DecidableEq, Repr, Inhabited

/-- which generated function a call goes to -/
inductive Fn where
  | un | no                    -- `unnormalize_one_param`, `normalize_one_param`
deriving DecidableEq, Repr, Inhabited

mutual
  /-- guards -/
  inductive G where
    | isInt | isFloat | isCat | isNum    -- `isinstance(dist, …)`
    | dLog                                -- `dist.log`
    | stepNone                            -- `dist.step is None` / `step is None`
    | stIs (s : ST)                       -- `scale_type == ScaleType.s`
    | eq (a b : X)                        -- `a == b`
    | and (a b : G)
    | not (g : G)
  /-- numeric expressions -/
  inductive X where
    | var (v : V)
    | num (q : Rat)
    | add (a b : X) | sub (a b : X) | mul (a b : X) | div (a b : X) | neg (a : X)
    | floordiv (a b : X)                  -- `a // b`
    | lg (a : X) | ex (a : X)             -- `np.log` / `math.log`, `np.exp`
    | floor (a : X)                       -- `np.floor`
    | abs (a : X) | sign (a : X)          -- `np.abs`, `np.sign` (so that a hand-rolled rounding still translates)
    | round (a : X)                       -- `np.round` (half to even)
    | pyround (a : X)                     -- builtin `round(·)` (half to even, an `int`)
    | toFloat (a : X) | toInt (a : X)
    | clip (a lo hi : X)
    | ite (g : G) (a b : X)               -- `a if g else b`
    | call (f : Fn) (a : X) (st : STX) (b0 b1 step : X)   -- `f(a, scale_type, (b0, b1), step)`
  /-- scale-type expressions -/
  inductive STX where
    | param                               -- the caller's own `scale_type`
    | const (s : ST)
    | ite (g : G) (a b : STX)
end

/-- everything an expression can read -/
structure Ctx where
  x : Rat := 0
  low : Rat := 0
  high : Rat := 0
  step : Rat := 0
  b0 : Rat := 0
  b1 : Rat := 0
  mu : Rat := 0
  sigma : Rat := 1
  isInt : Bool := false
  isFloat : Bool := false
  isCat : Bool := false
  dLog : Bool := false
  stepNone : Bool := true
  st : ST := .linear
deriving Repr, Inhabited

def Ctx.get (ρ : Ctx) : V → Rat
  | .x => ρ.x | .low => ρ.low | .high => ρ.high | .step => ρ.step
  | .b0 => ρ.b0 | .b1 => ρ.b1 | .mu => ρ.mu | .sigma => ρ.sigma

mutual
  def G.eval (E : Env) (callf : Fn → Ctx → Rat) (ρ : Ctx) : G → Bool
    | .isInt => ρ.isInt
    | .isFloat => ρ.isFloat
    | .isCat => ρ.isCat
    | .isNum => ρ.isInt || ρ.isFloat
    | .dLog => ρ.dLog
    | .stepNone => ρ.stepNone
    | .stIs s => decide (ρ.st = s)
    | .eq a b => decide (a.eval E callf ρ = b.eval E callf ρ)
    | .and a b => a.eval E callf ρ && b.eval E callf ρ
    | .not g => !(g.eval E callf ρ)
  def X.eval (E : Env) (callf : Fn → Ctx → Rat) (ρ : Ctx) : X → Rat
    | .var v => ρ.get v
    | .num q => q
    | .add a b => a.eval E callf ρ + b.eval E callf ρ
    | .sub a b => a.eval E callf ρ - b.eval E callf ρ
    | .mul a b => a.eval E callf ρ * b.eval E callf ρ
    | .div a b => a.eval E callf ρ / b.eval E callf ρ
    | .neg a => - a.eval E callf ρ
    | .floordiv a b => ((a.eval E callf ρ / b.eval E callf ρ).floor : Rat)
    | .lg a => E.lg (a.eval E callf ρ)
    | .ex a => E.ex (a.eval E callf ρ)
    | .floor a => ((a.eval E callf ρ).floor : Rat)
    | .abs a => Rat.abs (a.eval E callf ρ)
    | .sign a => (if 0 < a.eval E callf ρ then 1 else if a.eval E callf ρ < 0 then -1 else 0)
    | .round a => (roundHE (a.eval E callf ρ) : Rat)
    | .pyround a => (roundHE (a.eval E callf ρ) : Rat)
    | .toFloat a => a.eval E callf ρ
    | .toInt a => (truncI (a.eval E callf ρ) : Rat)
    | .clip a lo hi => Dist.clip (a.eval E callf ρ) (lo.eval E callf ρ) (hi.eval E callf ρ)
    | .ite g a b => if g.eval E callf ρ then a.eval E callf ρ else b.eval E callf ρ
    | .call f a st b0 b1 step =>
      callf f { ρ with x := a.eval E callf ρ, st := st.eval E callf ρ, b0 := b0.eval E callf ρ, b1 := b1.eval E callf ρ,
                       step := step.eval E callf ρ }
  def STX.eval (E : Env) (callf : Fn → Ctx → Rat) (ρ : Ctx) : STX → ST
    | .param => ρ.st
    | .const s => s
    | .ite g a b => if g.eval E callf ρ then a.eval E callf ρ else b.eval E callf ρ
end

/-- the context of a function that reads an optuna distribution and one raw number -/
def ctxD (d : Dist) (x : Rat) : Ctx :=
  match d with
  | .flt _ l h lg st => { x := x, low := l, high := h, step := st.getD 0, isFloat := true, dLog := lg, stepNone := st.isNone }
  | .int _ l h lg st => { x := x, low := (l : Rat), high := (h : Rat), step := (st : Rat), isInt := true, dLog := lg, stepNone := false }
  | .cat _ => { x := x, isCat := true }

/-- the context of the GP functions `f(param_value, scale_type, bounds, step)` -/
def ctxG (st : ST) (b0 b1 step x : Rat) : Ctx := { x := x, st := st, b0 := b0, b1 := b1, step := step }

/-- the context of one batched distribution of `_MixtureOfProductDistribution.sample` -/
def ctxM (low high step mu sigma x : Rat) : Ctx := { x := x, low := low, high := high, step := step, mu := mu, sigma := sigma }

def noCall : Fn → Ctx → Rat := fun _ _ => 0

/-- the categorical index of `_MixtureOfProductDistribution.sample`:
`cum_probs[:, -1] = lastTo; np.sum(cum_probs < q)` (`strict`) resp. `<=` -/
structure CatIR where
  strict : Bool
  lastTo : Option Rat
deriving DecidableEq, Repr, Inhabited

def setLast (cum : List Rat) (v : Rat) : List Rat :=
  match cum with
  | [] => []
  | _ => cum.dropLast ++ [v]

def CatIR.eval (ir : CatIR) (cum : List Rat) (q : Rat) : Nat :=
  let cum' := match ir.lastTo with | some v => setLast cum v | none => cum
  (cum'.filter (fun c => if ir.strict then decide (c < q) else decide (c ≤ q))).length

/-- the GP functions as generated -/
structure GpProg where
  unnormalize : X
  normalize : X
  round : X

/-- calls between the generated GP functions (one level: `round_one_normalized_param` calls the other two, which call
nothing) -/
def GpProg.callf (P : GpProg) (E : Env) : Fn → Ctx → Rat
  | .un, ρ => P.unnormalize.eval E noCall ρ
  | .no, ρ => P.normalize.eval E noCall ρ

/-! ## hand models of the GP normalisation functions (`optuna/_gp/search_space.py`) -/

/-- `low, high = bounds[0] - 0.5 * step, bounds[1] + 0.5 * step`, `math.log` of both for `ScaleType.LOG` -/
def gpLo (E : Env) (st : ST) (b0 step : Rat) : Rat :=
  if st = .log then E.lg (b0 - 1 / 2 * step) else b0 - 1 / 2 * step

def gpHi (E : Env) (st : ST) (b1 step : Rat) : Rat :=
  if st = .log then E.lg (b1 + 1 / 2 * step) else b1 + 1 / 2 * step

/-- `unnormalize_one_param(x, scale_type, (b0, b1), step)` -/
def gpUnnorm (E : Env) (st : ST) (b0 b1 step x : Rat) : Rat :=
  if st = .cat then x
  else
    let y := x * (gpHi E st b1 step - gpLo E st b0 step) + gpLo E st b0 step
    if st = .log then E.ex y else y

/-- `normalize_one_param(v, scale_type, (b0, b1), step)` -/
def gpNorm (E : Env) (st : ST) (b0 b1 step v : Rat) : Rat :=
  if st = .cat then v
  else if gpHi E st b1 step = gpLo E st b0 step then 1 / 2
  else ((if st = .log then E.lg v else v) - gpLo E st b0 step) / (gpHi E st b1 step - gpLo E st b0 step)

/-- the grid point `round_one_normalized_param` snaps to, in parameter space:
`clip((u - b0 + 0.5 * step) // step * step + b0, b0, b1)` -/
def gpSnap (b0 b1 step u : Rat) : Rat :=
  Dist.clip ((((u - b0 + 1 / 2 * step) / step).floor : Rat) * step + b0) b0 b1

/-- `round_one_normalized_param(x, scale_type, (b0, b1), step)` -/
def gpRoundNorm (E : Env) (st : ST) (b0 b1 step x : Rat) : Rat :=
  if step = 0 then x else gpNorm E st b0 b1 step (gpSnap b0 b1 step (gpUnnorm E st b0 b1 step x))

/-- the scale type / step `get_unnormalized_param` derives from a distribution -/
def stOf (d : Dist) : ST := if d.isLog then .log else .linear

end OptunaVerif.ProjIR
