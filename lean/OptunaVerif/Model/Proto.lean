import OptunaVerif.Model.Storage
import OptunaVerif.Model.Cache
import OptunaVerif.Generated.GrpcTables
/-
  The wire level of the gRPC storage proxy (C01): `GrpcStorageProxy` (optuna/storages/_grpc/client.py)
  in front of `OptunaStorageProxyService` (optuna/storages/_grpc/servicer.py), over the messages of
  optuna/storages/_grpc/api.proto.

  One proxied call =  client encodes the request  →  servicer decodes it and calls its backend
  (`Storage.step`)  →  servicer encodes the reply, or `context.abort`s with a status code chosen by its
  `except` clauses  →  client decodes the reply, or turns the status code back into an exception.

  What is on the wire and how it is modelled
  * `map<K,V>` fields: a protobuf map is a finite map whose iteration order is unspecified (hash order in
    the Python runtime, neither insertion nor key order).  Representative: the list sorted by key with
    unique keys (`ofList`).  The harness compares maps as dictionaries.
  * `repeated double values`: `None` and `[]` are both the empty field; the receiver decides what an
    empty field means (`GrpcTables.setStateValuesDecode`, `GrpcTables.trialValuesDecode`, read from the source).
  * enums: the if-chains of `_to_proto_trial_state` / `_from_proto_trial_state` and the conditional
    expressions over `StudyDirection` are read from the source (`GrpcTables.stateToProto`, `dirToProto*`, …).
  * errors: `GrpcTables.servicerCatches`, `GrpcTables.clientRaises`, `GrpcTables.excBases` (read from the source).
  * opaque tokens, handed through unchanged (trusted codecs, see REPORT/manifest): attribute payloads
    (`json.dumps`/`json.loads`; the token is the canonical JSON text), distributions
    (`distribution_to_json`/`json_to_distribution`; C11), doubles (exact), the text of a present
    datetime (`strftime`/`strptime` with `%Y-%m-%d %H:%M:%S.%f`; the contract only knows present/absent).
  * not on the wire: the study id of a trial (`FrozenTrial` has none; `TrialS.study` is model-only
    bookkeeping, decoded as 0) and `StudyS.paramDist` (decoded as []).
  * `GrpcClientCache` (dict by number, watermark, sort by number) is Model/Cache.lean (C08); here
    `get_all_trials` is the cold request `GetTrials(included=[], greater_than=-1)` plus the state filter.
-/
namespace OptunaVerif.Proto
open OptunaVerif OptunaVerif.Storage OptunaVerif.Generated
open OptunaVerif.Generated.GrpcTables (Exc Status Rpc ValuesDecode)

/-! ### protobuf maps -/

section Map
variable {κ α : Type} [DecidableEq κ]

/-- `m[k] = v` on the representative: replace an equal key, else insert in key order. -/
def insertBy (lt : κ → κ → Bool) (k : κ) (v : α) : List (κ × α) → List (κ × α)
  | [] => [(k, v)]
  | (k', v') :: t =>
    if k' = k then (k, v) :: t
    else if lt k k' then (k, v) :: (k', v') :: t
    else (k', v') :: insertBy lt k v t

/-- A Python dict (association list read by its first entry per key, like `AList.get?`) as a map field. -/
def ofList (lt : κ → κ → Bool) (l : List (κ × α)) : List (κ × α) :=
  l.foldr (fun p m => insertBy lt p.1 p.2 m) []

def lookup : List (κ × α) → κ → Option α
  | [], _ => none
  | (k', v) :: t, k => if k' = k then some v else lookup t k

end Map

def strLt (a b : String) : Bool := decide (a < b)
def intLt (a b : Int) : Bool := decide (a < b)

/-- `map<string, _>` from a dict -/
def smap {α : Type} (l : AList α) : AList α := ofList strLt l
/-- `map<int64, double>` from a dict -/
def imap (l : List (Int × XVal)) : List (Int × XVal) := ofList intLt l

/-! ### enums -/

/-- `_to_proto_trial_state`; `none` = `raise ValueError` -/
def stateToProto (s : TState) : Option Nat := lookup GrpcTables.stateToProto s.code

/-- `_from_proto_trial_state`; `none` = `raise ValueError` -/
def stateFromProto (n : Nat) : Option TState := (lookup GrpcTables.stateFromProto n).bind TState.ofCode?

/-- `api_pb2.<P1> if d == StudyDirection.<X> else api_pb2.<P2>` -/
def dirToProto (d : Nat) : Nat :=
  if d = GrpcTables.dirToProtoTest then GrpcTables.dirToProtoThen else GrpcTables.dirToProtoElse

/-- `StudyDirection.<D1> if d == api_pb2.<X> else StudyDirection.<D2>` -/
def dirFromProto (n : Nat) : Nat :=
  if n = GrpcTables.dirFromProtoTest then GrpcTables.dirFromProtoThen else GrpcTables.dirFromProtoElse

/-! ### `repeated double values` -/

/-- `values=trial.values` / `values=values`: `None` and `[]` are the same empty field -/
def encodeValues : Option (List XVal) → List XVal
  | none => []
  | some l => l

def decodeValues : ValuesDecode → List XVal → Option (List XVal)
  | .emptyIsNone, [] => none
  | _, l => some l

/-! ### datetimes (`""` = absent) -/

def dtText : String := "2024-01-01 01:01:01.123456"
def encodeDt (present : Bool) : String := if present then dtText else ""
def decodeDt (s : String) : Bool := !(s == "")

/-! ### messages -/

/-- `message Trial` -/
structure PTrial where
  trialId : Int
  number : Int
  state : Nat
  values : List XVal
  datetimeStart : String
  datetimeComplete : String
  /-- `map<string, double>`: internal representation -/
  params : AList String
  /-- `map<string, string>`: distribution json -/
  distributions : AList Dist
  userAttributes : AList String
  systemAttributes : AList String
  intermediateValues : List (Int × XVal)
deriving DecidableEq, Repr, Inhabited

/-- the default message (what `template_trial` holds when `template_trial_is_none`) -/
def PTrial.empty : PTrial :=
  { trialId := 0, number := 0, state := 0, values := [], datetimeStart := "", datetimeComplete := "",
    params := [], distributions := [], userAttributes := [], systemAttributes := [], intermediateValues := [] }

/-- `message Study` -/
structure PStudy where
  studyId : Nat
  studyName : String
  directions : List Nat
  userAttributes : AList String
  systemAttributes : AList String
deriving DecidableEq, Repr, Inhabited

/-- `optuna.trial.FrozenTrial` as far as the contract sees it: id, number and the stored fields. -/
structure Frozen where
  id : Int
  number : Int
  body : Template
deriving DecidableEq, Repr, Inhabited

/-- `_to_proto_trial`; `none` = `_to_proto_trial_state` raises `ValueError` -/
def toProtoTrial (f : Frozen) : Option PTrial :=
  match stateToProto f.body.state with
  | none => none
  | some st => some {
      trialId := f.id, number := f.number, state := st,
      values := encodeValues f.body.values,
      datetimeStart := encodeDt f.body.hasStart,
      datetimeComplete := encodeDt f.body.hasComplete,
      params := smap (f.body.params.map (fun p => (p.1, p.2.internal))),
      distributions := smap (f.body.params.map (fun p => (p.1, p.2.dist))),
      userAttributes := smap f.body.userAttrs,
      systemAttributes := smap f.body.systemAttrs,
      intermediateValues := imap f.body.inter }

/-- `for key, value in trial.params.items(): params[key] = distributions[key].to_external_repr(value)`;
`none` = `KeyError` (a parameter without distribution) -/
def joinParams (ds : AList Dist) : AList String → Option (AList Param)
  | [] => some []
  | (k, i) :: t =>
    match lookup ds k, joinParams ds t with
    | some d, some r => some ((k, { internal := i, dist := d }) :: r)
    | _, _ => none

/-- `_from_proto_trial` -/
def fromProtoTrial (p : PTrial) : Except Err Frozen :=
  match joinParams p.distributions p.params with
  | none => .error .keyError
  | some ps =>
    match stateFromProto p.state with
    | none => .error .valueError
    | some st => .ok {
        id := p.trialId, number := p.number,
        body := {
          state := st, values := decodeValues GrpcTables.trialValuesDecode p.values,
          params := ps, userAttrs := p.userAttributes, systemAttrs := p.systemAttributes,
          inter := p.intermediateValues,
          hasStart := decodeDt p.datetimeStart, hasComplete := decodeDt p.datetimeComplete } }

def fromProtoTrials : List PTrial → Except Err (List Frozen)
  | [] => .ok []
  | p :: t =>
    match fromProtoTrial p, fromProtoTrials t with
    | .ok f, .ok r => .ok (f :: r)
    | .error e, _ => .error e
    | _, .error e => .error e

def toProtoTrials : List Frozen → Option (List PTrial)
  | [] => some []
  | f :: t =>
    match toProtoTrial f, toProtoTrials t with
    | some p, some r => some (p :: r)
    | _, _ => none

def TrialS.template (t : TrialS) : Template :=
  { state := t.state, values := t.values, params := t.params, userAttrs := t.userAttrs,
    systemAttrs := t.systemAttrs, inter := t.inter, hasStart := t.hasStart, hasComplete := t.hasComplete }

/-- a stored trial as the `FrozenTrial` a backend returns for it -/
def frozenOf (p : Nat × TrialS) : Frozen := { id := p.1, number := p.2.number, body := TrialS.template p.2 }

/-- a decoded `FrozenTrial` in the shape of the contract's outputs (no study id on the wire) -/
def trialOfFrozen (f : Frozen) : Nat × TrialS :=
  (f.id.toNat,
   { study := 0, number := f.number.toNat, state := f.body.state, values := f.body.values,
     params := f.body.params, userAttrs := f.body.userAttrs, systemAttrs := f.body.systemAttrs,
     inter := f.body.inter, hasStart := f.body.hasStart, hasComplete := f.body.hasComplete })

/-- the `api_pb2.Study(...)` expression of `GetAllStudies` -/
def toProtoStudy (p : Nat × StudyS) : PStudy :=
  { studyId := p.1, studyName := p.2.name, directions := p.2.directions.map dirToProto,
    userAttributes := smap p.2.userAttrs, systemAttributes := smap p.2.systemAttrs }

/-- the `FrozenStudy(...)` expression of `get_all_studies` -/
def fromProtoStudy (p : PStudy) : Nat × StudyS :=
  (p.studyId, { name := p.studyName, directions := p.directions.map dirFromProto,
                userAttrs := p.userAttributes, systemAttrs := p.systemAttributes, paramDist := [] })

/-- request messages (`message <Rpc>Request`) -/
inductive Req where
  | createNewStudy (directions : List Nat) (studyName : String)
  | deleteStudy (studyId : Nat)
  | setStudyUserAttribute (studyId : Nat) (key value : String)
  | setStudySystemAttribute (studyId : Nat) (key value : String)
  | getStudyIdFromName (studyName : String)
  | getStudyNameFromId (studyId : Nat)
  | getStudyDirections (studyId : Nat)
  | getStudyUserAttributes (studyId : Nat)
  | getStudySystemAttributes (studyId : Nat)
  | getAllStudies
  | createNewTrial (studyId : Nat) (templateTrial : PTrial) (templateTrialIsNone : Bool)
  | setTrialParameter (trialId : Nat) (paramName : String) (paramValueInternal : String) (distribution : Dist)
  | getTrialIdFromStudyIdTrialNumber (studyId trialNumber : Nat)
  | setTrialStateValues (trialId : Nat) (state : Nat) (values : List XVal)
  | setTrialIntermediateValue (trialId : Nat) (step : Int) (intermediateValue : XVal)
  | setTrialUserAttribute (trialId : Nat) (key value : String)
  | setTrialSystemAttribute (trialId : Nat) (key value : String)
  | getTrial (trialId : Nat)
  | getTrials (studyId : Nat) (includedTrialIds : List Nat) (trialIdGreaterThan : Int)
deriving DecidableEq, Repr, Inhabited

def Req.rpc : Req → Rpc
  | .createNewStudy .. => .createNewStudy
  | .deleteStudy .. => .deleteStudy
  | .setStudyUserAttribute .. => .setStudyUserAttribute
  | .setStudySystemAttribute .. => .setStudySystemAttribute
  | .getStudyIdFromName .. => .getStudyIdFromName
  | .getStudyNameFromId .. => .getStudyNameFromId
  | .getStudyDirections .. => .getStudyDirections
  | .getStudyUserAttributes .. => .getStudyUserAttributes
  | .getStudySystemAttributes .. => .getStudySystemAttributes
  | .getAllStudies => .getAllStudies
  | .createNewTrial .. => .createNewTrial
  | .setTrialParameter .. => .setTrialParameter
  | .getTrialIdFromStudyIdTrialNumber .. => .getTrialIdFromStudyIdTrialNumber
  | .setTrialStateValues .. => .setTrialStateValues
  | .setTrialIntermediateValue .. => .setTrialIntermediateValue
  | .setTrialUserAttribute .. => .setTrialUserAttribute
  | .setTrialSystemAttribute .. => .setTrialSystemAttribute
  | .getTrial .. => .getTrial
  | .getTrials .. => .getTrials

/-- reply messages (`message <Rpc>Reply`), by shape -/
inductive Reply where
  | empty
  | studyId (n : Nat)
  | studyName (s : String)
  | directions (l : List Nat)
  | attrs (m : AList String)
  | studies (l : List PStudy)
  | trialId (n : Nat)
  | trialUpdated (b : Bool)
  | trial (t : PTrial)
  | trials (l : List PTrial)
deriving DecidableEq, Repr, Inhabited

/-- what comes back over the channel: a reply, or the status code of `context.abort` / of an uncaught
exception in the handler (`UNKNOWN`) -/
inductive Resp where
  | ok (r : Reply)
  | abort (code : Status)
deriving DecidableEq, Repr, Inhabited

/-! ### error mapping -/

def excOfErr : Err → Exc
  | .keyError => .keyError
  | .duplicated => .duplicatedStudyError
  | .updateFinished => .updateFinishedTrialError
  | .valueError => .valueError
  | .runtimeError => .runtimeError

def errOfExc : Exc → Option Err
  | .keyError => some .keyError
  | .duplicatedStudyError => some .duplicated
  | .updateFinishedTrialError => some .updateFinished
  | .valueError => some .valueError
  | .runtimeError => some .runtimeError
  | _ => none

/-- `issubclass(c, d)`: walk `excBases` (the fuel bounds the depth of the hierarchy) -/
def isSubclassFuel : Nat → Exc → Exc → Bool
  | 0, c, d => c == d
  | n + 1, c, d => c == d || (GrpcTables.excBases c).any (fun b => isSubclassFuel n b d)

def isSubclass (c d : Exc) : Bool := isSubclassFuel 8 c d

/-- the status code the servicer method answers with when its backend call raises `e`: the first
`except` clause whose class the exception is an instance of; uncaught ⇒ `UNKNOWN` -/
def abortStatus (rpc : Rpc) (e : Err) : Status :=
  match (GrpcTables.servicerCatches rpc).find? (fun p => isSubclass (excOfErr e) p.1) with
  | some p => p.2
  | none => .unknown

/-- what the caller of the proxy gets -/
inductive POut where
  /-- a return value, or one of the five contract exceptions -/
  | ok (o : Out)
  /-- the `grpc.RpcError` itself (re-raised by the client's bare `raise`) -/
  | rpcError (code : Status)
  /-- some other exception class -/
  | raised (c : Exc)
deriving DecidableEq, Repr, Inhabited

/-- the `except grpc.RpcError as e:` clause of the client method for `rpc` -/
def clientError (rpc : Rpc) (code : Status) : POut :=
  match lookup (GrpcTables.clientRaises rpc) code with
  | some c =>
    match errOfExc c with
    | some e => .ok (.err e)
    | none => .raised c
  | none => .rpcError code

/-- a backend exception `e` inside `rpc`, as seen by the caller of the proxy -/
def transport (rpc : Rpc) (e : Err) : POut := clientError rpc (abortStatus rpc e)

/-! ### the servicer -/

/-- after the backend call: an exception aborts, a return value is encoded (`none` = encoding raises,
which is outside every `try` ⇒ `UNKNOWN`) -/
def finish (rpc : Rpc) (r : Spec × Out) (f : Out → Option Reply) : Spec × Resp :=
  match r.2 with
  | .err e => (r.1, .abort (abortStatus rpc e))
  | o =>
    match f o with
    | some rep => (r.1, .ok rep)
    | none => (r.1, .abort .unknown)

def replyEmpty : Out → Option Reply
  | .unit => some .empty
  | _ => none

/-- One method of `OptunaStorageProxyService`.  `ir` is the contract's `implRaised` oracle bit (U1),
a property of the backend, not of the message. -/
def servicer (s : Spec) (ir : Bool) : Req → Spec × Resp
  | .createNewStudy dirs name =>
    finish .createNewStudy (step s (.createStudy name (dirs.map dirFromProto)))
      (fun | .newId n => some (.studyId n) | _ => none)
  | .deleteStudy sid => finish .deleteStudy (step s (.deleteStudy sid)) replyEmpty
  | .setStudyUserAttribute sid k v => finish .setStudyUserAttribute (step s (.setStudyUserAttr sid k v)) replyEmpty
  | .setStudySystemAttribute sid k v => finish .setStudySystemAttribute (step s (.setStudySystemAttr sid k v)) replyEmpty
  | .getStudyIdFromName name =>
    finish .getStudyIdFromName (step s (.getStudyIdFromName name)) (fun | .nat n => some (.studyId n) | _ => none)
  | .getStudyNameFromId sid =>
    finish .getStudyNameFromId (step s (.getStudyNameFromId sid)) (fun | .str n => some (.studyName n) | _ => none)
  | .getStudyDirections sid =>
    finish .getStudyDirections (step s (.getStudyDirections sid))
      (fun | .nats l => some (.directions (l.map dirToProto)) | _ => none)
  | .getStudyUserAttributes sid =>
    finish .getStudyUserAttributes (step s (.getStudyUserAttrs sid)) (fun | .attrs l => some (.attrs (smap l)) | _ => none)
  | .getStudySystemAttributes sid =>
    finish .getStudySystemAttributes (step s (.getStudySystemAttrs sid)) (fun | .attrs l => some (.attrs (smap l)) | _ => none)
  | .getAllStudies =>
    finish .getAllStudies (step s .getAllStudies) (fun | .studies l => some (.studies (l.map toProtoStudy)) | _ => none)
  | .createNewTrial sid pt isNone =>
    if isNone then
      finish .createNewTrial (step s (.createTrial sid none ir)) (fun | .newId n => some (.trialId n) | _ => none)
    else
      match fromProtoTrial pt with
      | .error _ => (s, .abort .unknown)      -- `_from_proto_trial` is outside the `try`
      | .ok f =>
        finish .createNewTrial (step s (.createTrial sid (some f.body) ir)) (fun | .newId n => some (.trialId n) | _ => none)
  | .setTrialParameter tid name internal dist =>
    finish .setTrialParameter (step s (.setTrialParam tid name { internal := internal, dist := dist } ir)) replyEmpty
  | .getTrialIdFromStudyIdTrialNumber sid n =>
    finish .getTrialIdFromStudyIdTrialNumber (step s (.getTrialIdFromNumber sid n)) (fun | .nat n => some (.trialId n) | _ => none)
  | .setTrialStateValues tid st values =>
    match stateFromProto st with
    | none => (s, .abort .unknown)            -- ValueError inside the try, no clause for it
    | some st' =>
      finish .setTrialStateValues
        (step s (.setTrialStateValues tid st' (decodeValues GrpcTables.setStateValuesDecode values)))
        (fun | .bool b => some (.trialUpdated b) | _ => none)
  | .setTrialIntermediateValue tid stp v => finish .setTrialIntermediateValue (step s (.setTrialInter tid stp v)) replyEmpty
  | .setTrialUserAttribute tid k v => finish .setTrialUserAttribute (step s (.setTrialUserAttr tid k v)) replyEmpty
  | .setTrialSystemAttribute tid k v => finish .setTrialSystemAttribute (step s (.setTrialSystemAttr tid k v)) replyEmpty
  | .getTrial tid =>
    finish .getTrial (step s (.getTrial tid))
      (fun | .trial id t => (toProtoTrial (frozenOf (id, t))).map .trial | _ => none)
  | .getTrials sid inc w =>
    finish .getTrials (step s (.getAllTrials sid none))
      (fun | .trials l => (toProtoTrials ((Cache.servicerFilter inc w l).map frozenOf)).map .trials | _ => none)

/-! ### the client -/

/-- after the stub call: a status code goes through the `except grpc.RpcError` clause, a reply is decoded -/
def recv (rpc : Rpc) (r : Spec × Resp) (g : Reply → Option POut) : Spec × POut :=
  match r.2 with
  | .abort c => (r.1, clientError rpc c)
  | .ok rep =>
    match g rep with
    | some o => (r.1, o)
    | none => (r.1, .raised .exception)

def recvEmpty : Reply → Option POut
  | .empty => some (.ok .unit)
  | _ => none

/-- `DEFAULT_STUDY_NAME_PREFIX` -/
def defaultStudyNamePrefix : String := "no-name-"

/-- `study_name or DEFAULT_STUDY_NAME_PREFIX + str(uuid.uuid4())` -/
def clientStudyName (uuid name : String) : String := if name = "" then defaultStudyNamePrefix ++ uuid else name

def implRaisedOf : Op → Bool
  | .createTrial _ _ ir => ir
  | .setTrialParam _ _ _ ir => ir
  | _ => false

/-- `GetTrials` as issued with an empty cache entry, decoded -/
def fetchAll (s : Spec) (sid : Nat) : Spec × Except POut (List (Nat × TrialS)) :=
  let r := servicer s false (.getTrials sid [] (-1))
  match r.2 with
  | .abort c => (r.1, .error (clientError .getTrials c))
  | .ok (.trials l) =>
    match fromProtoTrials l with
    | .ok fs => (r.1, .ok (fs.map trialOfFrozen))
    | .error e => (r.1, .error (.ok (.err e)))
  | .ok _ => (r.1, .error (.raised .exception))

/-- `self.get_trial(trial_id)` through the wire -/
def fetchTrial (s : Spec) (tid : Nat) : Spec × Except POut (Nat × TrialS) :=
  let r := servicer s false (.getTrial tid)
  match r.2 with
  | .abort c => (r.1, .error (clientError .getTrial c))
  | .ok (.trial p) =>
    match fromProtoTrial p with
    | .ok f => (r.1, .ok (trialOfFrozen f))
    | .error e => (r.1, .error (.ok (.err e)))
  | .ok _ => (r.1, .error (.raised .exception))

/-- `BaseStorage.get_best_trial` on what the two reads returned, as the contract states it (its
implementation-shaped model — the `max`/`min` pick, the order of the two errors — is C12's; U3, U4). -/
def bestOut (dirs : List Nat) (l : List (Nat × TrialS)) : Out :=
  match dirs with
  | [d] =>
    match bestSet d l with
    | [] => .err .valueError
    | b => .oneOf b
  | _ => .err .runtimeError

/-- One public method of `GrpcStorageProxy` (`uuid`: the text `uuid.uuid4()` would produce). -/
def proxyStep (s : Spec) (uuid : String) (op : Op) : Spec × POut :=
  match op with
  | .createStudy name dirs =>
    recv .createNewStudy (servicer s false (.createNewStudy (dirs.map dirToProto) (clientStudyName uuid name)))
      (fun | .studyId n => some (.ok (.newId n)) | _ => none)
  | .deleteStudy sid => recv .deleteStudy (servicer s false (.deleteStudy sid)) recvEmpty
  | .setStudyUserAttr sid k v => recv .setStudyUserAttribute (servicer s false (.setStudyUserAttribute sid k v)) recvEmpty
  | .setStudySystemAttr sid k v => recv .setStudySystemAttribute (servicer s false (.setStudySystemAttribute sid k v)) recvEmpty
  | .createTrial sid tmpl ir =>
    match tmpl with
    | none =>
      recv .createNewTrial (servicer s ir (.createNewTrial sid PTrial.empty true))
        (fun | .trialId n => some (.ok (.newId n)) | _ => none)
    | some t =>
      match toProtoTrial { id := -1, number := -1, body := t } with
      | none => (s, .ok (.err .valueError))
      | some pt =>
        recv .createNewTrial (servicer s ir (.createNewTrial sid pt false))
          (fun | .trialId n => some (.ok (.newId n)) | _ => none)
  | .setTrialParam tid name p ir =>
    recv .setTrialParameter (servicer s ir (.setTrialParameter tid name p.internal p.dist)) recvEmpty
  | .setTrialStateValues tid st values =>
    match stateToProto st with
    | none => (s, .ok (.err .valueError))
    | some c =>
      recv .setTrialStateValues (servicer s false (.setTrialStateValues tid c (encodeValues values)))
        (fun | .trialUpdated b => some (.ok (.bool b)) | _ => none)
  | .setTrialInter tid stp v => recv .setTrialIntermediateValue (servicer s false (.setTrialIntermediateValue tid stp v)) recvEmpty
  | .setTrialUserAttr tid k v => recv .setTrialUserAttribute (servicer s false (.setTrialUserAttribute tid k v)) recvEmpty
  | .setTrialSystemAttr tid k v => recv .setTrialSystemAttribute (servicer s false (.setTrialSystemAttribute tid k v)) recvEmpty
  | .getStudyIdFromName name =>
    recv .getStudyIdFromName (servicer s false (.getStudyIdFromName name)) (fun | .studyId n => some (.ok (.nat n)) | _ => none)
  | .getStudyNameFromId sid =>
    recv .getStudyNameFromId (servicer s false (.getStudyNameFromId sid)) (fun | .studyName n => some (.ok (.str n)) | _ => none)
  | .getStudyDirections sid =>
    recv .getStudyDirections (servicer s false (.getStudyDirections sid))
      (fun | .directions l => some (.ok (.nats (l.map dirFromProto))) | _ => none)
  | .getStudyUserAttrs sid =>
    recv .getStudyUserAttributes (servicer s false (.getStudyUserAttributes sid)) (fun | .attrs m => some (.ok (.attrs m)) | _ => none)
  | .getStudySystemAttrs sid =>
    recv .getStudySystemAttributes (servicer s false (.getStudySystemAttributes sid)) (fun | .attrs m => some (.ok (.attrs m)) | _ => none)
  | .getAllStudies =>
    recv .getAllStudies (servicer s false .getAllStudies) (fun | .studies l => some (.ok (.studies (l.map fromProtoStudy))) | _ => none)
  | .getTrialIdFromNumber sid n =>
    recv .getTrialIdFromStudyIdTrialNumber (servicer s false (.getTrialIdFromStudyIdTrialNumber sid n))
      (fun | .trialId n => some (.ok (.nat n)) | _ => none)
  | .getTrial tid =>
    match fetchTrial s tid with
    | (s', .ok p) => (s', .ok (.trial p.1 p.2))
    | (s', .error o) => (s', o)
  | .getTrialNumberFromId tid =>            -- BaseStorage: `self.get_trial(trial_id).number`
    match fetchTrial s tid with
    | (s', .ok p) => (s', .ok (.nat p.2.number))
    | (s', .error o) => (s', o)
  | .getTrialParam tid name =>              -- BaseStorage: via `self.get_trial(trial_id)`
    match fetchTrial s tid with
    | (s', .ok p) => (s', .ok (Cache.trialParamOut p.2 name))
    | (s', .error o) => (s', o)
  | .getAllTrials sid states =>
    match fetchAll s sid with
    | (s', .ok l) => (s', .ok (.trials (l.filter (fun p => stateIn states p.2.state))))
    | (s', .error o) => (s', o)
  | .getNTrials sid states =>               -- BaseStorage: `len(self.get_all_trials(...))`
    match fetchAll s sid with
    | (s', .ok l) => (s', .ok (.nat (l.filter (fun p => stateIn states p.2.state)).length))
    | (s', .error o) => (s', o)
  | .getBestTrial sid =>                    -- BaseStorage: get_all_trials, then get_study_directions
    match fetchAll s sid with
    | (s', .error o) => (s', o)
    | (s', .ok l) =>
      recv .getStudyDirections (servicer s' false (.getStudyDirections sid))
        (fun | .directions ds => some (.ok (bestOut (ds.map dirFromProto) l)) | _ => none)

/-! ### the normal form: what a value looks like after one trip over the wire -/

def normValues : Option (List XVal) → Option (List XVal)
  | some [] => none
  | v => v

def normDir (d : Nat) : Nat := dirFromProto (dirToProto d)

def normTemplate (t : Template) : Template :=
  { t with values := normValues t.values, params := smap t.params, userAttrs := smap t.userAttrs,
           systemAttrs := smap t.systemAttrs, inter := imap t.inter }

def normTrial (t : TrialS) : TrialS :=
  { t with study := 0, values := normValues t.values, params := smap t.params, userAttrs := smap t.userAttrs,
           systemAttrs := smap t.systemAttrs, inter := imap t.inter }

def normStudy (st : StudyS) : StudyS :=
  { st with directions := st.directions.map normDir, userAttrs := smap st.userAttrs,
            systemAttrs := smap st.systemAttrs, paramDist := [] }

def normIdTrial (p : Nat × TrialS) : Nat × TrialS := (p.1, normTrial p.2)

/-- the operation the backend performs for a proxied `op` -/
def normOp (uuid : String) : Op → Op
  | .createStudy name dirs => .createStudy (clientStudyName uuid name) (dirs.map normDir)
  | .createTrial sid (some t) ir => .createTrial sid (some (normTemplate t)) ir
  | .setTrialStateValues tid st values => .setTrialStateValues tid st (normValues values)
  | op => op

/-- the answer the caller of the proxy sees for the backend's answer -/
def normOut : Out → Out
  | .nats l => .nats (l.map normDir)
  | .attrs l => .attrs (smap l)
  | .studies l => .studies (l.map (fun p => (p.1, normStudy p.2)))
  | .trial id t => .trial id (normTrial t)
  | .trials l => .trials (l.map normIdTrial)
  | .oneOf l => .oneOf (l.map normIdTrial)
  | o => o

/-- a whole history through one proxy (`uuids`: the successive `uuid4()` texts) -/
def proxyRun : Spec → List (String × Op) → Spec × List POut
  | s, [] => (s, [])
  | s, (u, op) :: rest =>
    let r := proxyStep s u op
    let q := proxyRun r.1 rest
    (q.1, r.2 :: q.2)

end OptunaVerif.Proto
