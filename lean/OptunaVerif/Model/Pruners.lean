import OptunaVerif.Model.Basic
/-
  Executable model of optuna's pruners (optuna/pruners/_percentile.py, _median.py,
  _successive_halving.py, _hyperband.py, _patient.py, _threshold.py, _nop.py) and of the part of
  `Trial.report` / `Trial.should_prune` (optuna/trial/_trial.py) they rely on.

  Intermediate values are `XVal`s: a finite rational, +inf, -inf or NaN, with the arithmetic and the
  comparisons of IEEE floats *except rounding* (`inf - inf = nan`, `inf * 0 = nan`, every comparison
  with NaN is false).  `numpy.nanpercentile(..., method="linear")` is modelled operation by operation
  (`npPercentile`/`lerp`), including what it does with infinities.

  External inputs are parameters: `crc : Nat → Nat` is `binascii.crc32("{study_name}_{number}")` as a
  function of the trial number (the study name is fixed per study); Hyperband's number of brackets
  (a floating-point `math.log` in the code) is a field of its configuration.

  Core Lean only (the compiled driver links this file).  Everything lives in `OptunaVerif.Pruners`.
-/
namespace OptunaVerif.Pruners
open OptunaVerif

/-- `StudyDirection` of a single-objective study. -/
inductive Dir where
  | minimize | maximize
deriving DecidableEq, Repr, Inhabited

/-! ## float-like comparisons and arithmetic on `XVal` -/

def xisNan : XVal → Bool
  | .nan => true
  | _ => false

/-- Python `a < b` on floats (false when either side is NaN). -/
def xlt : XVal → XVal → Bool
  | .nan, _ => false
  | _, .nan => false
  | .ninf, .ninf => false
  | .ninf, _ => true
  | .fin a, .fin b => a < b
  | .fin _, .pinf => true
  | .fin _, .ninf => false
  | .pinf, _ => false

def xneg : XVal → XVal
  | .nan => .nan
  | .ninf => .pinf
  | .pinf => .ninf
  | .fin a => .fin (-a)

/-- IEEE addition without rounding. -/
def xadd : XVal → XVal → XVal
  | .nan, _ => .nan
  | _, .nan => .nan
  | .fin a, .fin b => .fin (a + b)
  | .pinf, .ninf => .nan
  | .ninf, .pinf => .nan
  | .pinf, _ => .pinf
  | _, .pinf => .pinf
  | .ninf, _ => .ninf
  | _, .ninf => .ninf

def xsub (a b : XVal) : XVal := xadd a (xneg b)

/-- `a * t` for a finite factor `t` (`inf * 0 = nan`). -/
def xscale (a : XVal) (t : Rat) : XVal :=
  match a with
  | .nan => .nan
  | .fin a => .fin (a * t)
  | .pinf => if 0 < t then .pinf else if t < 0 then .ninf else .nan
  | .ninf => if 0 < t then .ninf else if t < 0 then .pinf else .nan

/-- `numpy.nanmin`: the least non-NaN element, NaN when there is none. -/
def nanMin : List XVal → XVal
  | [] => .nan
  | v :: t =>
    let r := nanMin t
    if xisNan v then r else if xisNan r then v else if XVal.le v r then v else r

/-- `numpy.nanmax`. -/
def nanMax : List XVal → XVal
  | [] => .nan
  | v :: t =>
    let r := nanMax t
    if xisNan v then r else if xisNan r then v else if XVal.le r v then v else r

/-! ## sorting (insertion sort: structural, so that examples can be evaluated by the kernel) -/

def insertBy {α : Type} (le : α → α → Bool) (x : α) : List α → List α
  | [] => [x]
  | y :: t => if le x y then x :: y :: t else y :: insertBy le x t

def sortBy {α : Type} (le : α → α → Bool) : List α → List α
  | [] => []
  | x :: t => insertBy le x (sortBy le t)

/-- ascending sort of floats (no NaN among them where the code sorts) -/
def sortX (l : List XVal) : List XVal := sortBy XVal.le l

/-! ## `numpy.nanpercentile(values, q)` with the default method `"linear"` -/

/-- `numpy.lib._function_base_impl._lerp` (both branches, because they differ on infinities). -/
def lerp (a b : XVal) (t : Rat) : XVal :=
  let d := xsub b a
  if (1 : Rat) / 2 ≤ t then xsub b (xscale d (1 - t)) else xadd a (xscale d t)

/-- NaNs removed; empty → NaN; `virtual = (n-1)·q/100`; at or above the last index both neighbours
are the last element and `gamma = virtual + 1` (numpy sets the previous index to `-1`); otherwise
`previous = ⌊virtual⌋`, `next = previous + 1`, `gamma = virtual - previous`. -/
def npPercentile (vals : List XVal) (q : Rat) : XVal :=
  let xs := vals.filter (fun v => !xisNan v)
  match xs.length with
  | 0 => .nan
  | m + 1 =>
    let sorted := sortX xs
    let v : Rat := (m : Rat) * (q / 100)
    if (m : Rat) ≤ v then
      match sorted[m]? with
      | some l => lerp l l (v + 1)
      | none => .nan
    else
      let p := v.floor.toNat
      match sorted[p]?, sorted[p + 1]? with
      | some a, some b => lerp a b (v - (p : Rat))
      | _, _ => .nan

/-! ## trials as the pruners see them -/

/-- A trial: state, `intermediate_values` (insertion order, keys distinct) and the
`completed_rung_<k>` system attributes written by the successive-halving pruner. The trial's number
is its position in the study. -/
structure PTrial where
  state : TState
  inter : List (Int × XVal)
  rungs : List (Nat × XVal)
deriving DecidableEq, Repr, Inhabited

def interGet : List (Int × XVal) → Int → Option XVal
  | [], _ => none
  | (s, v) :: t, k => if s = k then some v else interGet t k

def rungGet : List (Nat × XVal) → Nat → Option XVal
  | [], _ => none
  | (s, v) :: t, k => if s = k then some v else rungGet t k

/-- `FrozenTrial.last_step`: the maximum key, `None` without reports. -/
def lastStep : List (Int × XVal) → Option Int
  | [] => none
  | (s, _) :: t =>
    match lastStep t with
    | none => some s
    | some m => some (if m < s then s else m)

def interValues (t : PTrial) : List XVal := t.inter.map (·.2)
def interSteps (t : PTrial) : List Int := t.inter.map (·.1)

/-! ## `_is_first_in_interval_step` (also regenerated from the source: Generated/PrunersInt.lean) -/

/-- `functools.reduce(lambda acc, s: s if s > acc and s != step else acc, steps, -1)` -/
def secondLastStep (step : Int) (steps : List Int) : Int :=
  steps.foldl (fun acc s => if s > acc ∧ s ≠ step then s else acc) (-1)

def nearestLowerPruningStep (step nWarmup interval : Int) : Int :=
  Int.fdiv (step - nWarmup) interval * interval + nWarmup

def isFirstInIntervalStep (step : Int) (steps : List Int) (nWarmup interval : Int) : Bool :=
  secondLastStep step steps < nearestLowerPruningStep step nWarmup interval

/-! ## PercentilePruner / MedianPruner -/

structure PercentileCfg where
  q : Rat            -- percentile, 0 ≤ q ≤ 100
  nStartup : Nat
  nWarmup : Nat
  interval : Nat     -- ≥ 1
  nMin : Nat         -- ≥ 1
deriving DecidableEq, Repr, Inhabited

def PercentileCfg.Valid (c : PercentileCfg) : Prop :=
  0 ≤ c.q ∧ c.q ≤ 100 ∧ 1 ≤ c.interval ∧ 1 ≤ c.nMin

/-- `_get_best_intermediate_result_over_steps` -/
def bestOverSteps (t : PTrial) (d : Dir) : XVal :=
  match d with
  | .maximize => nanMax (interValues t)
  | .minimize => nanMin (interValues t)

/-- `[t.intermediate_values[step] for t in trials if step in t.intermediate_values]` -/
def valuesAtStep (trials : List PTrial) (step : Int) : List XVal :=
  trials.filterMap (fun t => interGet t.inter step)

/-- `_get_percentile_intermediate_result_over_trials` (its `ValueError` for an empty list is
unreachable from `prune`): under MAXIMIZE the exact mirror of the minimisation case,
`-np.nanpercentile(-values, percentile)` (repair of F41). -/
def percentileOverTrials (completed : List PTrial) (d : Dir) (step : Int) (q : Rat) (nMin : Nat) : XVal :=
  let vals := valuesAtStep completed step
  if vals.length < nMin then .nan
  else
    match d with
    | .maximize => xneg (npPercentile (vals.map xneg) q)
    | .minimize => npPercentile vals q

/-- the formulation BEFORE the repair of F41: `percentile = 100 - percentile` on the raw values under MAXIMIZE
(kept so that a revert of the source is recognised: `C13Bridge.percentile_mirror_fails_with_inf`) -/
def percentileOverTrialsOld (completed : List PTrial) (d : Dir) (step : Int) (q : Rat) (nMin : Nat) : XVal :=
  let vals := valuesAtStep completed step
  if vals.length < nMin then .nan
  else npPercentile vals (match d with | .maximize => 100 - q | .minimize => q)

def completedTrials (trials : List PTrial) : List PTrial :=
  trials.filter (fun t => t.state == .complete)

/-- `PercentilePruner.prune` -/
def percentilePrune (c : PercentileCfg) (d : Dir) (trials : List PTrial) (t : PTrial) : Bool :=
  let completed := completedTrials trials
  let n := completed.length
  if n = 0 then false
  else if n < c.nStartup then false
  else
    match lastStep t.inter with
    | none => false
    | some step =>
      if step < (c.nWarmup : Int) then false
      else if !isFirstInIntervalStep step (interSteps t) c.nWarmup c.interval then false
      else
        let best := bestOverSteps t d
        if xisNan best then true
        else
          let p := percentileOverTrials completed d step c.q c.nMin
          if xisNan p then false
          else
            match d with
            | .maximize => xlt best p
            | .minimize => xlt p best

/-- `PercentilePruner.prune` with the pre-F41 percentile -/
def percentilePruneOld (c : PercentileCfg) (d : Dir) (trials : List PTrial) (t : PTrial) : Bool :=
  let completed := completedTrials trials
  let n := completed.length
  if n = 0 then false
  else if n < c.nStartup then false
  else
    match lastStep t.inter with
    | none => false
    | some step =>
      if step < (c.nWarmup : Int) then false
      else if !isFirstInIntervalStep step (interSteps t) c.nWarmup c.interval then false
      else
        let best := bestOverSteps t d
        if xisNan best then true
        else
          let p := percentileOverTrialsOld completed d step c.q c.nMin
          if xisNan p then false
          else
            match d with
            | .maximize => xlt best p
            | .minimize => xlt p best

/-! ## ThresholdPruner -/

structure ThresholdCfg where
  lower : XVal
  upper : XVal
  nWarmup : Nat
  interval : Nat
deriving DecidableEq, Repr, Inhabited

/-- whether the threshold pruner looks at the latest value at all at this point -/
def thresholdChecked (c : ThresholdCfg) (t : PTrial) : Option XVal :=
  match lastStep t.inter with
  | none => none
  | some step =>
    if step < (c.nWarmup : Int) then none
    else if !isFirstInIntervalStep step (interSteps t) c.nWarmup c.interval then none
    else interGet t.inter step

def thresholdPrune (c : ThresholdCfg) (t : PTrial) : Bool :=
  match thresholdChecked c t with
  | none => false
  | some v => xisNan v || xlt v c.lower || xlt c.upper v

/-! ## PatientPruner -/

def stepLe (a b : Int × XVal) : Bool := decide (a.1 ≤ b.1)

/-- scores ordered by step -/
def scoresByStep (t : PTrial) : List XVal := (sortBy stepLe t.inter).map (·.2)

/-- `maybe_prune` of `PatientPruner.prune` -/
def patientMaybe (patience : Nat) (delta : Rat) (d : Dir) (t : PTrial) : Bool :=
  let n := t.inter.length
  if n ≤ patience + 1 then false
  else
    let scores := scoresByStep t
    let before := scores.take (n - (patience + 1))
    let after := scores.drop (n - (patience + 1))
    match d with
    | .minimize => xlt (xadd (nanMin before) (.fin delta)) (nanMin after)
    | .maximize => xlt (nanMax after) (xsub (nanMax before) (.fin delta))

/-! ## SuccessiveHalvingPruner -/

structure SHCfg where
  minResource : Option Nat     -- `none` = "auto", not estimated yet
  eta : Nat                    -- reduction_factor ≥ 2
  rate : Nat                   -- min_early_stopping_rate
  bootstrap : Nat
deriving DecidableEq, Repr, Inhabited

def SHCfg.Valid (c : SHCfg) : Prop :=
  2 ≤ c.eta ∧ (∀ m, c.minResource = some m → 1 ≤ m)

def hasRung (rungs : List (Nat × XVal)) (k : Nat) : Bool := (rungGet rungs k).isSome

def currentRungFrom (rungs : List (Nat × XVal)) : Nat → Nat → Nat
  | 0, k => k
  | fuel + 1, k => if hasRung rungs k then currentRungFrom rungs fuel (k + 1) else k

/-- `_get_current_rung`: the first `k` without a `completed_rung_k` attribute (the loop cannot run
more often than there are attributes). -/
def currentRung (rungs : List (Nat × XVal)) : Nat := currentRungFrom rungs rungs.length 0

/-- `_estimate_min_resource` -/
def estimateMinResource (trials : List PTrial) : Option Nat :=
  let steps := (completedTrials trials).filterMap (fun t => lastStep t.inter)
  match steps with
  | [] => none
  | s :: rest =>
    let mx := rest.foldl (fun m x => if m < x then x else m) s
    some (max (Int.fdiv mx 100).toNat 1)

def resolveMinResource (c : SHCfg) (trials : List PTrial) : Option Nat :=
  match c.minResource with
  | some m => some m
  | none => estimateMinResource trials

/-- `promotable_idx = len // reduction_factor - 1`, `-1` replaced by `0` -/
def promotableIdx (n eta : Nat) : Nat :=
  let i := n / eta
  if i = 0 then 0 else i - 1

/-- `_is_trial_promotable_to_next_rung` (`none` stands for Python's `IndexError`, shown unreachable) -/
def isPromotable? (value : XVal) (competing : List XVal) (eta : Nat) (d : Dir) : Option Bool :=
  let idx := promotableIdx competing.length eta
  let sorted := sortX competing
  match d with
  | .maximize =>
    if idx + 1 ≤ sorted.length then (sorted[sorted.length - (idx + 1)]?).map (fun c => XVal.le c value) else none
  | .minimize => (sorted[idx]?).map (fun c => XVal.le value c)

/-- `_get_competing_values`: the snapshot of the study's trials (taken before the first write), plus
the value itself. -/
def competingValues (trials : List PTrial) (rung : Nat) (value : XVal) : List XVal :=
  trials.filterMap (fun t => rungGet t.rungs rung) ++ [value]

/-- `rung_promotion_step` -/
def promotionStep (m eta rate rung : Nat) : Nat := m * eta ^ (rate + rung)

/-- The `while True:` of `SuccessiveHalvingPruner.prune`, with fuel.  Result: the decision and `hi`,
meaning that `completed_rung_r := value` was written for every `r` with `start ≤ r < hi`.  `none` =
out of fuel (shown impossible for valid configurations with the fuel `prune` passes). -/
def shLoop (c : SHCfg) (m : Nat) (d : Dir) (trials : List PTrial) (step : Int) (value : XVal) :
    Nat → Nat → Option (Bool × Nat)
  | 0, _ => none
  | fuel + 1, rung =>
    if step < (promotionStep m c.eta c.rate rung : Int) then some (false, rung)
    else if xisNan value then some (true, rung)
    else
      let competing := competingValues trials rung value
      if competing.length ≤ c.bootstrap then some (true, rung + 1)
      else
        match isPromotable? value competing c.eta d with
        | some true => shLoop c m d trials step value fuel (rung + 1)
        | _ => some (true, rung + 1)

/-- `SuccessiveHalvingPruner.prune`: decision, first rung and `hi` (rungs `[first, hi)` get `value`). -/
structure SHResult where
  prune : Bool
  first : Nat
  hi : Nat
  value : XVal
deriving DecidableEq, Repr, Inhabited

def noWrite (b : Bool) : SHResult := { prune := b, first := 0, hi := 0, value := .nan }

def shPrune (c : SHCfg) (d : Dir) (trials : List PTrial) (t : PTrial) : SHResult :=
  match lastStep t.inter with
  | none => noWrite false
  | some step =>
    let r0 := currentRung t.rungs
    match interGet t.inter step with
    | none => noWrite false
    | some value =>
      match resolveMinResource c trials with
      | none => noWrite false
      | some m =>
        match shLoop c m d trials step value (step.toNat + 1) r0 with
        | some (b, hi) => { prune := b, first := r0, hi := hi, value := value }
        | none => noWrite false

/-! ## HyperbandPruner -/

structure HBCfg where
  minResource : Nat
  eta : Nat
  bootstrap : Nat
  nBrackets : Option Nat    -- `none`: `_try_initialization` has not succeeded yet
deriving DecidableEq, Repr, Inhabited

def HBCfg.Valid (c : HBCfg) : Prop := 2 ≤ c.eta ∧ 1 ≤ c.minResource

/-- `_calculate_trial_allocation_budget`: `ceil(n_brackets · η^s / (s+1))`, `s = n_brackets-1-id` -/
def budget (nb eta b : Nat) : Nat :=
  let s := nb - 1 - b
  (nb * eta ^ s + s) / (s + 1)

def budgets (nb eta : Nat) : List Nat := (List.range nb).map (budget nb eta)

/-- the `for bracket_id in range(n_brackets): n -= budget; if n < 0: return bracket_id` walk;
`none` = the `assert False` line -/
def bracketWalk : List Nat → Int → Nat → Option Nat
  | [], _, _ => none
  | b :: bs, n, i =>
    let n' := n - (b : Int)
    if n' < 0 then some i else bracketWalk bs n' (i + 1)

/-- `_get_bracket_id` given `h = crc32("{study_name}_{number}")` -/
def bracketId (nb eta h : Nat) : Option Nat :=
  let bs := budgets nb eta
  bracketWalk bs ((h % bs.sum : Nat) : Int) 0

/-- `_BracketStudy.get_trials`: the trials of the same bracket (trial number = position) -/
def bracketTrials (nb eta : Nat) (crc : Nat → Nat) (b : Nat) (trials : List PTrial) : List PTrial :=
  (trials.zipIdx.filter (fun p => bracketId nb eta (crc p.2) == some b)).map (·.1)

def hbPrune (c : HBCfg) (crc : Nat → Nat) (d : Dir) (trials : List PTrial) (n : Nat) (t : PTrial) : SHResult :=
  match c.nBrackets with
  | none => noWrite false
  | some nb =>
    if nb = 0 then noWrite false
    else
      match bracketId nb c.eta (crc n) with
      | none => noWrite false
      | some b =>
        shPrune { minResource := some c.minResource, eta := c.eta, rate := b, bootstrap := c.bootstrap }
          d (bracketTrials nb c.eta crc b trials) t

/-! ## all pruners -/

inductive Pruner where
  | nop
  | percentile (c : PercentileCfg)
  | threshold (c : ThresholdCfg)
  | sh (c : SHCfg)
  | hyperband (c : HBCfg)
  | patient (wrapped : Pruner) (patience : Nat) (minDelta : Rat)
  | patientNone (patience : Nat) (minDelta : Rat)
deriving Repr, Inhabited

/-- `MedianPruner(...)` is `PercentilePruner(50.0, ...)`. -/
def Pruner.median (nStartup nWarmup interval nMin : Nat) : Pruner :=
  .percentile { q := 50, nStartup := nStartup, nWarmup := nWarmup, interval := interval, nMin := nMin }

structure Study where
  dir : Dir
  trials : List PTrial
deriving Repr, Inhabited

/-- `pruner.prune(study, trial)` for the trial numbered `n`. -/
def prune (crc : Nat → Nat) (s : Study) (n : Nat) (t : PTrial) : Pruner → SHResult
  | .nop => noWrite false
  | .percentile c => noWrite (percentilePrune c s.dir s.trials t)
  | .threshold c => noWrite (thresholdPrune c t)
  | .sh c => shPrune c s.dir s.trials t
  | .hyperband c => hbPrune c crc s.dir s.trials n t
  | .patient w patience delta =>
    if patientMaybe patience delta s.dir t then prune crc s n t w else noWrite false
  | .patientNone patience delta => noWrite (patientMaybe patience delta s.dir t)

/-! ## the study as a state machine: ask / report / should_prune / tell -/

inductive Op where
  | ask
  | report (n : Nat) (step : Int) (v : XVal)
  | shouldPrune (n : Nat) (p : Pruner)
  | tell (n : Nat) (st : TState)
deriving Repr, Inhabited

/-- the `set_trial_system_attr(trial, "completed_rung_r", value)` calls of one `prune` -/
def applyWrites (t : PTrial) (r : SHResult) : PTrial :=
  { t with rungs := t.rungs ++ (List.range' r.first (r.hi - r.first)).map (fun k => (k, r.value)) }

def step (crc : Nat → Nat) (s : Study) : Op → Study × Option Bool
  | .ask => ({ s with trials := s.trials ++ [{ state := .running, inter := [], rungs := [] }] }, none)
  | .report n st v =>
    match s.trials[n]? with
    | none => (s, none)
    | some t =>
      -- `Trial.report`: negative steps are rejected, a second report for a step is ignored, a
      -- finished trial cannot be written
      if t.state != .running || st < 0 || (interGet t.inter st).isSome then (s, none)
      else ({ s with trials := updAt s.trials n (fun t => { t with inter := t.inter ++ [(st, v)] }) }, none)
  | .shouldPrune n p =>
    match s.trials[n]? with
    | none => (s, none)
    | some t =>
      if t.state != .running then (s, none)
      else
        let r := prune crc s n t p
        ({ s with trials := updAt s.trials n (fun t => applyWrites t r) }, some r.prune)
  | .tell n st =>
    match s.trials[n]? with
    | none => (s, none)
    | some t =>
      if t.state != .running || !st.isFinished then (s, none)
      else ({ s with trials := updAt s.trials n (fun t => { t with state := st }) }, none)

def Study.init (d : Dir) : Study := { dir := d, trials := [] }

/-- the study after a finite history of calls -/
def after (crc : Nat → Nat) (s : Study) (ops : List Op) : Study :=
  ops.foldl (fun s op => (step crc s op).1) s

/-! ## the glue between the objective and the pruner: `Trial.report` / `Trial.should_prune` on the trial OBJECT

`optuna/trial/_trial.py`.  The object holds `_cached_frozen_trial` (here a `PTrial`) and sees `len(study.directions)`.
`value` / `stp` are the results of `float(value)` / `int(step)` (`none` = the conversion raises); `storageOk` says whether
`storage.set_trial_intermediate_value` accepts the write (it refuses for a finished trial).  (`Props/C16ReportGen.lean` proves
the methods generated from the source equal to these and connects them to `step` above.) -/

inductive ReportErr where
  | notImplemented | typeError | valueError | storageError
deriving DecidableEq, Repr, Inhabited

structure TrialObj where
  nDirs : Nat
  cached : PTrial
deriving DecidableEq, Repr, Inhabited

structure ReportResult where
  obj : TrialObj
  /-- `set_trial_intermediate_value(trial_id, step, value)` calls that succeeded -/
  writes : List (Int × XVal)
  /-- "The reported value is ignored because this `step` is already reported." -/
  warned : Bool
  err : Option ReportErr
deriving DecidableEq, Repr, Inhabited

/-- `Trial.report(value, step)` -/
def reportTrial (o : TrialObj) (value : Option XVal) (stp : Option Int) (storageOk : Bool) : ReportResult :=
  if 1 < o.nDirs then ⟨o, [], false, some .notImplemented⟩
  else
    match value, stp with
    | none, _ => ⟨o, [], false, some .typeError⟩
    | some _, none => ⟨o, [], false, some .typeError⟩
    | some v, some st =>
      if st < 0 then ⟨o, [], false, some .valueError⟩
      else if (interGet o.cached.inter st).isSome then ⟨o, [], true, none⟩
      else if !storageOk then ⟨o, [], false, some .storageError⟩
      else ⟨{ o with cached := { o.cached with inter := o.cached.inter ++ [(st, v)] } }, [(st, v)], false, none⟩

/-- `Trial.should_prune()`: the pruner is handed a copy of the cached trial (whatever it does to the object it is handed
does not reach the cache); `none` = `NotImplementedError` (multi-objective) -/
def shouldPruneTrial (o : TrialObj) (prunerF : PTrial → Bool × PTrial) : TrialObj × Option Bool :=
  if 1 < o.nDirs then (o, none) else (o, some (prunerF o.cached).1)

/-- `pruners._filter_study(study, trial)`: the trials a sampler sees when it asks for the pruner's view of the study — under
Hyperband the bracket study of the trial's bracket (`bracketIdF n` = `pruner._get_bracket_id(study, trial)`, `bracketView b` =
`pruner._create_bracket_study(study, b).get_trials()`: `bracketId` / `bracketTrials` above once the pruner is initialised),
the study itself otherwise -/
def filterStudyView (isHyperband : Bool) (bracketIdF : Nat → Nat) (bracketView : Nat → List PTrial) (trials : List PTrial)
    (n : Nat) : List PTrial :=
  if isHyperband then bracketView (bracketIdF n) else trials

end OptunaVerif.Pruners
