import OptunaVerif.Model.Storage
import OptunaVerif.Model.Dist
/-
  `Study._pop_waiting_trial_id` (optuna/study/study.py) run by any number of workers against the
  storage contract, every storage call atomic (that is C03) and arbitrarily interleaved with any
  other storage calls (enqueue_trial / add_trial = createTrial with a WAITING template, tell,
  attribute writes, …):

      for trial in storage.get_all_trials(study_id, states=(WAITING,)):     -- beginPop (atomic read)
          try:
              if not storage.set_trial_state_values(trial._trial_id, RUNNING):  -- tryNext  (atomic CAS)
                  continue
          except UpdateFinishedTrialError:
              continue
          return trial._trial_id
      return None
-/
namespace OptunaVerif.Queue
open OptunaVerif OptunaVerif.Storage

inductive WState where
  | idle
  | scanning (cands : List Nat)
  | got (tid : Nat)
  | empty                      -- the pop returned None
  | raised (e : Err)           -- the CAS raised (e.g. the listed trial was finished meanwhile)
deriving DecidableEq, Repr, Inhabited

structure Sys where
  spec : Spec
  workers : List WState
  /-- every successful claim (worker, trial id), oldest first -/
  claims : List (Nat × Nat)
deriving Repr, Inhabited

inductive Act where
  | beginPop (w sid : Nat)
  | tryNext (w : Nat)
  | reset (w : Nat)
  | ext (op : Op)
deriving Repr, Inhabited

/-- ids of the live WAITING trials of a study, in creation (= number) order -/
def waitingIds (s : Spec) (sid : Nat) : List Nat :=
  ((s.trialsOf sid).filter (fun p => p.2.state == .waiting)).map (·.1)

def claimOp (tid : Nat) : Op := .setTrialStateValues tid .running none

def step (sys : Sys) : Act → Sys
  | .beginPop w sid =>
    match sys.workers[w]? with
    | some .idle =>
      -- `get_all_trials` of a deleted study raises: the worker has no candidates then
      { sys with workers := updAt sys.workers w (fun _ =>
          if (sys.spec.study? sid).isSome then .scanning (waitingIds sys.spec sid) else .raised .keyError) }
    | _ => sys
  | .tryNext w =>
    match sys.workers[w]? with
    | some (.scanning []) => { sys with workers := updAt sys.workers w (fun _ => .empty) }
    | some (.scanning (t :: rest)) =>
      let r := Storage.step sys.spec (claimOp t)
      match r.2 with
      | .bool true =>
        { spec := r.1, workers := updAt sys.workers w (fun _ => .got t), claims := sys.claims ++ [(w, t)] }
      | .bool false => { sys with spec := r.1, workers := updAt sys.workers w (fun _ => .scanning rest) }
      -- somebody else claimed *and finished* it meanwhile: skipped like a lost race
      | .err .updateFinished => { sys with spec := r.1, workers := updAt sys.workers w (fun _ => .scanning rest) }
      | .err e => { sys with spec := r.1, workers := updAt sys.workers w (fun _ => .raised e) }
      | _ => { sys with spec := r.1 }
    | _ => sys
  | .reset w => { sys with workers := updAt sys.workers w (fun _ => .idle) }
  | .ext op => { sys with spec := (Storage.step sys.spec op).1 }

def run (sys : Sys) (acts : List Act) : Sys := acts.foldl step sys

/-- an external call that puts an existing trial back into the queue -/
def Act.isRequeue : Act → Bool
  | .ext (.setTrialStateValues _ .waiting _) => true
  | _ => false

/-! ## how a trial gets INTO the queue and how its fixed parameters come out again
(`Study.enqueue_trial`, `Study._should_skip_enqueue`, `Study.add_trial`, the queue part of `Study.ask`,
`Trial.__init__` — optuna/study/study.py, optuna/trial/_trial.py).  Hand models; `Props/C04EnqueueGen.lean` proves the
interpreters of the IR regenerated from the source equal to them. -/

/-- the system attribute an enqueued trial carries its parameters in -/
def fixedKey : String := "fixed_params"

/-- `create_trial(state=WAITING, system_attrs={"fixed_params": params}, user_attrs=user_attrs)`; `payload` is the
stored form of the `params` dict (attribute payloads are opaque texts in the storage contract) -/
def enqueueTemplate (payload : String) (userAttrs : AList String) : Template :=
  { state := .waiting, values := none, params := [], userAttrs := userAttrs, systemAttrs := [(fixedKey, payload)],
    inter := [], hasStart := false, hasComplete := false }

/-- `Study.add_trial(trial)`: `trial._validate()` (abstract: `valid`), the number-of-objectives check (only when the trial
has values; reads the study's directions), then `create_new_trial(study_id, template_trial=trial)` -/
def addTrial (s : Spec) (sid : Nat) (tmpl : Template) (valid implRaised : Bool) : Spec × Out :=
  if !valid then (s, .err .valueError)
  else
    match tmpl.values with
    | some vs =>
      match s.study? sid with
      | none => (s, .err .keyError)
      | some st =>
        if st.directions.length ≠ vs.length then (s, .err .valueError)
        else Storage.step s (.createTrial sid (some tmpl) implRaised)
    | none => Storage.step s (.createTrial sid (some tmpl) implRaised)

/-- Python types of parameter values, as far as `isinstance(v, type(e))` / `isinstance(v, Real)` see them -/
inductive PyTy where
  | noneT | boolT | intT | floatT | strT
deriving DecidableEq, Repr, Inhabited

open OptunaVerif.Dist in
def pyTy : Dist.Tok → PyTy
  | .none => .noneT | .bool _ => .boolT | .int _ => .intT | .str _ => .strT
  | _ => .floatT

/-- `isinstance(v, type(e))`: same class, or `bool` under `int` -/
def isInstOfTypeOf (v e : Dist.Tok) : Bool :=
  pyTy v == pyTy e || (pyTy v == .boolT && pyTy e == .intT)

/-- `isinstance(v, numbers.Real)` -/
def isReal (v : Dist.Tok) : Bool :=
  match pyTy v with
  | .boolT | .intT | .floatT => true
  | _ => false

def isNaNTok : Dist.Tok → Bool
  | .nan => true
  | _ => false

/-- `np.isclose(float(a), float(b), rtol, atol)` = `|a - b| <= atol + rtol * |b|` for finite numbers, equality for
infinities, `False` as soon as one is NaN -/
def iscloseTok (rtol atol : Rat) (a b : Dist.Tok) : Bool :=
  match a, b with
  | .nan, _ => false
  | _, .nan => false
  | .pinf, .pinf => true
  | .ninf, .ninf => true
  | .pinf, _ => false | .ninf, _ => false | _, .pinf => false | _, .ninf => false
  | a, b =>
    match a.num?, b.num? with
    | some x, some y => decide (Rat.abs (x - y) ≤ atol + rtol * Rat.abs y)
    | _, _ => false

/-- one entry of `repeated_params`: `False` when the types do not match, else NaN-or-close for numbers (NOTE: a NaN
NEW value counts as repeated whatever the existing value is), `==` otherwise -/
def repeatedOne (v e : Dist.Tok) : Bool :=
  if !(isInstOfTypeOf v e) then false
  else if isReal v then (isNaNTok v || iscloseTok (1 / 100000) 0 v e)
  else v.pyEq e

/-- what `_should_skip_enqueue` reads of an existing trial: its dict-valued system attributes (decoded) and `trial.params` -/
structure TrialView where
  sys : AList (AList Dist.Tok)
  params : AList Dist.Tok
deriving Repr, Inhabited

def keysEq (a b : AList Dist.Tok) : Bool :=
  a.all (fun p => (b.get? p.1).isSome) && b.all (fun p => (a.get? p.1).isSome)

/-- `Study._should_skip_enqueue(params)` -/
def shouldSkip (views : List TrialView) (params : AList Dist.Tok) : Bool :=
  views.any (fun v =>
    let tp := (v.sys.get? fixedKey).getD v.params
    keysEq tp params && params.all (fun p => match tp.get? p.1 with
      | some e => repeatedOne p.2 e
      | none => false))

/-- `Study.enqueue_trial(params, user_attrs, skip_if_exists)`; `isDict` = `isinstance(params, dict)`, `views` = the
trials `get_trials` returned, `enc` = the stored form of a parameter dict.  `none` = `TypeError`. -/
def enqueue (enc : AList Dist.Tok → String) (s : Spec) (sid : Nat) (isDict : Bool) (params : AList Dist.Tok)
    (userAttrs : AList String) (skipIfExists : Bool) (views : List TrialView) (valid implRaised : Bool) : Option (Spec × Out) :=
  if !isDict then none
  else if skipIfExists && shouldSkip views params then some (s, .unit)
  else some (addTrial s sid (enqueueTemplate (enc params) userAttrs) valid implRaised)

/-- the queue part of `Study.ask`, after the pop: a popped id is used, otherwise a fresh RUNNING trial is created -/
def askQueue (s : Spec) (sid : Nat) (popped : Option Nat) : Spec × Out :=
  match popped with
  | some tid => (s, .newId tid)
  | none => Storage.step s (.createTrial sid none false)

/-- `Trial.__init__`: `self._fixed_params = system_attrs.get("fixed_params", {})` of the trial read from the storage -/
def initFixed (dec : String → Option (AList Dist.Tok)) (t : TrialS) : Option (AList Dist.Tok) :=
  match t.systemAttrs.get? fixedKey with
  | some payload => dec payload
  | none => some []

end OptunaVerif.Queue
