import OptunaVerif.Model.Storage
/-
  `Study._pop_waiting_trial_id` (optuna/study/study.py) run by any number of workers against the
  storage contract, every storage call atomic (that is C03) and arbitrarily interleaved with any
  other storage calls (enqueue_trial / add_trial = createTrial with a WAITING template, tell,
  attribute writes, …):

      for trial in storage.get_all_trials(study_id, states=(WAITING,)):     -- beginPop (atomic read)
          try:
              if not storage.set_trial_state_values(trial._trial_id, RUNNING):  -- tryNext  (atomic CAS)
                  continue
          except UpdateFinishedTrialError:
              continue
          return trial._trial_id
      return None
-/
namespace OptunaVerif.Queue
open OptunaVerif OptunaVerif.Storage

inductive WState where
  | idle
  | scanning (cands : List Nat)
  | got (tid : Nat)
  | empty                      -- the pop returned None
  | raised (e : Err)           -- the CAS raised (e.g. the listed trial was finished meanwhile)
deriving DecidableEq, Repr, Inhabited

structure Sys where
  spec : Spec
  workers : List WState
  /-- every successful claim (worker, trial id), oldest first -/
  claims : List (Nat × Nat)
deriving Repr, Inhabited

inductive Act where
  | beginPop (w sid : Nat)
  | tryNext (w : Nat)
  | reset (w : Nat)
  | ext (op : Op)
deriving Repr, Inhabited

/-- ids of the live WAITING trials of a study, in creation (= number) order -/
def waitingIds (s : Spec) (sid : Nat) : List Nat :=
  ((s.trialsOf sid).filter (fun p => p.2.state == .waiting)).map (·.1)

def claimOp (tid : Nat) : Op := .setTrialStateValues tid .running none

def step (sys : Sys) : Act → Sys
  | .beginPop w sid =>
    match sys.workers[w]? with
    | some .idle =>
      -- `get_all_trials` of a deleted study raises: the worker has no candidates then
      { sys with workers := updAt sys.workers w (fun _ =>
          if (sys.spec.study? sid).isSome then .scanning (waitingIds sys.spec sid) else .raised .keyError) }
    | _ => sys
  | .tryNext w =>
    match sys.workers[w]? with
    | some (.scanning []) => { sys with workers := updAt sys.workers w (fun _ => .empty) }
    | some (.scanning (t :: rest)) =>
      let r := Storage.step sys.spec (claimOp t)
      match r.2 with
      | .bool true =>
        { spec := r.1, workers := updAt sys.workers w (fun _ => .got t), claims := sys.claims ++ [(w, t)] }
      | .bool false => { sys with spec := r.1, workers := updAt sys.workers w (fun _ => .scanning rest) }
      -- somebody else claimed *and finished* it meanwhile: skipped like a lost race
      | .err .updateFinished => { sys with spec := r.1, workers := updAt sys.workers w (fun _ => .scanning rest) }
      | .err e => { sys with spec := r.1, workers := updAt sys.workers w (fun _ => .raised e) }
      | _ => { sys with spec := r.1 }
    | _ => sys
  | .reset w => { sys with workers := updAt sys.workers w (fun _ => .idle) }
  | .ext op => { sys with spec := (Storage.step sys.spec op).1 }

def run (sys : Sys) (acts : List Act) : Sys := acts.foldl step sys

/-- an external call that puts an existing trial back into the queue -/
def Act.isRequeue : Act → Bool
  | .ext (.setTrialStateValues _ .waiting _) => true
  | _ => false

end OptunaVerif.Queue
