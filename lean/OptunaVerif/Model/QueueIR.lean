import OptunaVerif.Model.TellIR
import OptunaVerif.Model.Queue
/-
  C04 — `Study._pop_waiting_trial_id` as GENERATED from the source (a `TellIR.Stmt`, see
  `Model/TellIR.lean` and `verif/translators/ttell.py`) run by any number of workers against the storage
  contract, in the small-step setting of `Model/Queue.lean`: the iterable of the `for` statement is
  evaluated by `beginPop` (one atomic `get_all_trials`), every `tryNext` executes the generated LOOP BODY
  once for the next candidate (one atomic compare-and-set inside), and what follows the loop runs when the
  candidates are used up.  `Props/C04Gen.lean` proves `QueueIR.step generated = Queue.step` for all
  systems and actions and restates `claimed_at_most_once` / `no_skip_step` for it.

  Meaning given here (modelled, not derived): the primitive `casAnswer` is `Storage.step` of
  `set_trial_state_values(id, RUNNING)` (answer True / False / the contract's error), `waitingTrials` is
  `Queue.waitingIds` (KeyError for a deleted study), `return trial._trial_id` hands out the candidate,
  `return None` is "queue empty"; the ghost list `claims` records a candidate whenever its CAS answered True.
-/
namespace OptunaVerif.QueueIR
open OptunaVerif OptunaVerif.Storage OptunaVerif.Queue OptunaVerif.TellIR

inductive QExn where
  | err (e : Err)
  | unrep
deriving DecidableEq, Repr, Inhabited

def errMro : Err → List Cls
  | .keyError => [.keyError, .lookupError, .exception, .baseException]
  | .duplicated => [.optunaError, .exception, .baseException]
  | .updateFinished => [.updateFinishedTrialError, .optunaError, .runtimeError, .exception, .baseException]
  | .valueError => [.valueError, .exception, .baseException]
  | .runtimeError => [.runtimeError, .exception, .baseException]

def QExn.mro : QExn → List Cls
  | .err e => errMro e
  | .unrep => []

structure PopSt where
  spec : Spec
  /-- loop variable `trial` (its id) -/
  cand : Option Nat := none
  /-- a compare-and-set of this iteration answered True -/
  claimed : Bool := false
deriving Repr, Inhabited

/-- the machine of one worker popping from study `sid` -/
def popM (sid : Nat) : Machine PopSt QExn Nat where
  prim p _ s := match p with
    | .casAnswer => match s.cand with
      | none => (s, .error .unrep)
      | some t =>
        let r := Storage.step s.spec (claimOp t)
        match r.2 with
        | .bool b => ({ s with spec := r.1, claimed := s.claimed || b }, .ok b)
        | .err e => ({ s with spec := r.1 }, .error (.err e))
        | _ => ({ s with spec := r.1 }, .error .unrep)
    | _ => (s, .error .unrep)
  act a _ s := match a with
    | .logDebugPopped => (s, none)
    | _ => (s, some .unrep)
  mkExc _ _ := .unrep
  mro := QExn.mro
  items it s := match it with
    | .waitingTrials =>
      if (s.spec.study? sid).isSome then (s, .ok (waitingIds s.spec sid)) else (s, .error (.err .keyError))
    | _ => (s, .error .unrep)
  bind _ t s := { s with cand := some t, claimed := false }
  unrep := .unrep
  assertionError := .unrep

/-- `for x in <iter>: <body>` followed by `<after>` -/
def loopOf : Stmt → Option (Iter × Stmt × Stmt)
  | .seq (.forIn it body) after => some (it, body, after)
  | _ => none

def setWorker (sys : Sys) (w : Nat) (ws : WState) : Sys := { sys with workers := updAt sys.workers w (fun _ => ws) }

/-- one atomic action of the system, the pop loop being the generated function `f` -/
def step (f : Stmt) (sys : Sys) : Queue.Act → Sys
  | .beginPop w sid =>
    match sys.workers[w]? with
    | some .idle =>
      match loopOf f with
      | none => setWorker sys w (.raised .runtimeError)
      | some (it, _, _) =>
        match ((popM sid).items it { spec := sys.spec }).2 with
        | .ok ids => setWorker sys w (.scanning ids)
        | .error (.err e) => setWorker sys w (.raised e)
        | .error .unrep => setWorker sys w (.raised .runtimeError)
    | _ => sys
  | .tryNext w =>
    match sys.workers[w]? with
    | some (.scanning []) =>
      match loopOf f with
      | none => setWorker sys w (.raised .runtimeError)
      | some (_, _, after) =>
        match (exec (popM 0) after none { spec := sys.spec }).2 with
        | .ret .none => setWorker sys w .empty
        | _ => setWorker sys w (.raised .runtimeError)
    | some (.scanning (t :: rest)) =>
      match loopOf f with
      | none => setWorker sys w (.raised .runtimeError)
      | some (it, body, _) =>
        let r := exec (popM 0) body none ((popM 0).bind it t { spec := sys.spec })
        let ws : WState := match r.2 with
          | .ret .trialId => .got t
          | .next => .scanning rest
          | .cont => .scanning rest
          | .brk => .scanning []
          | .raised (.err e) => .raised e
          | _ => .raised .runtimeError
        { spec := r.1.spec, workers := updAt sys.workers w (fun _ => ws),
          claims := if r.1.claimed then sys.claims ++ [(w, t)] else sys.claims }
    | _ => sys
  | .reset w => { sys with workers := updAt sys.workers w (fun _ => .idle) }
  | .ext op => { sys with spec := (Storage.step sys.spec op).1 }

def run (f : Stmt) (sys : Sys) (acts : List Queue.Act) : Sys := acts.foldl (step f) sys

end OptunaVerif.QueueIR
