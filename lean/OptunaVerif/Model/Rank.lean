import OptunaVerif.Model.Hypervolume
/-
  Executable model of `_calculate_nondomination_rank` and `_fast_non_domination_rank`
  (`optuna/study/_multi_objective.py`), over integer lattice rows.  Core Lean only.

    peelLoop      the `while n_unique - indices.size < n_below` loop on the unique-lexsorted array:
                  `on_front = _is_pareto_front(arr, True)`, `ranks[indices[on_front]] = rank`,
                  `arr = arr[~on_front]`, `rank += 1`; afterwards `ranks[indices] = rank`.
                  Returned as the table  unique row ↦ rank  (rows of the unique array are distinct, so
                  `arr[~on_front]` is "the rows not selected").
    rankFn        rank of one row = `ranks[order_inv[i]]` (look the row up in the table); the 1-objective
                  branch `np.unique(loss[:, 0], return_inverse=True)[1]` is the index in the sorted
                  unique array.
    calcRank      `_calculate_nondomination_rank(loss_values, n_below=…)`
    fastRank      `_fast_non_domination_rank(loss_values, penalty=…, n_below=…)`: feasible rows, then
                  infeasible rows by penalty, then rows with NaN penalty.
-/
namespace OptunaVerif.Rank
open OptunaVerif.Hypervolume

/-- `arr[~on_front]` for an array of distinct rows -/
def removeAll (L front : List Pt) : List Pt := L.filter (fun p => !front.contains p)

def peelLoop (d nBelow nUnique : Nat) : Nat → Nat → List Pt → List (Pt × Nat)
  | 0, rank, rem => rem.map (fun p => (p, rank))
  | fuel + 1, rank, rem =>
    if nUnique - rem.length < nBelow then
      let front := frontSorted id d rem
      front.map (fun p => (p, rank)) ++ peelLoop d nBelow nUnique fuel (rank + 1) (removeAll rem front)
    else rem.map (fun p => (p, rank))

def lookupRank (tbl : List (Pt × Nat)) (p : Pt) : Nat :=
  match tbl.find? (fun e => e.1 == p) with
  | some e => e.2
  | none => 0

/-- does `_calculate_nondomination_rank` return all zeros at once? -/
def trivialCase (S : List Pt) (nBelow : Option Int) : Bool :=
  S.isEmpty || (match nBelow with | some n => decide (n ≤ 0) | none => false)

/-- clipped `n_below` -/
def clipNBelow (nBelow : Option Int) (nUnique : Nat) : Nat :=
  match nBelow with
  | some n => if n = 0 then nUnique else min n.toNat nUnique
  | none => nUnique

/-- the rank `_calculate_nondomination_rank(S, n_below)` gives to a row equal to `p` -/
def rankFn (d : Nat) (S : List Pt) (nBelow : Option Int) (p : Pt) : Nat :=
  if trivialCase S nBelow then 0
  else
    let U := uniqueLex S
    if d = 1 then U.idxOf p
    else lookupRank (peelLoop d (clipNBelow nBelow U.length) U.length U.length 0 U) p

def calcRank (d : Nat) (S : List Pt) (nBelow : Option Int) : List Nat :=
  S.map (rankFn d S nBelow)

/-! ## `_fast_non_domination_rank` -/

inductive PClass where
  | feasible | infeasible | unknown
deriving DecidableEq, Repr

/-- `penalty <= 0`, `penalty > 0`, `isnan(penalty)` -/
def classify : Option Int → PClass
  | none => .unknown
  | some v => if v ≤ 0 then .feasible else .infeasible

/-- `np.max(ranks, initial=-1) + 1` -/
def topRank (ranks : List Nat) : Nat := ranks.foldl (fun m x => max m (x + 1)) 0

abbrev Row := Pt × Option Int

def rowsOf (c : PClass) (rows : List Row) : List Row := rows.filter (fun e => classify e.2 == c)

/-- penalties of the infeasible rows as a `(k, 1)` array -/
def penaltyRows (rows : List Row) : List Pt := (rowsOf .infeasible rows).map (fun e => [e.2.getD 0])

/-- constrained ranks as a function of the row; `nb` is `n_below or len(loss_values)` -/
def fastRankFn (d : Nat) (rows : List Row) (nb : Int) (e : Row) : Nat :=
  let feas := (rowsOf .feasible rows).map (·.1)
  let unk := (rowsOf .unknown rows).map (·.1)
  let pens := penaltyRows rows
  let rF := calcRank d feas (some nb)
  let nb1 := nb - feas.length
  let topI := topRank rF
  let rI := (calcRank 1 pens (some nb1)).map (· + topI)
  let nb2 := nb1 - pens.length
  let topN := topRank (rF ++ rI)
  match classify e.2 with
  | .feasible => rankFn d feas (some nb) e.1
  | .infeasible => topI + rankFn 1 pens (some nb1) [e.2.getD 0]
  | .unknown => topN + rankFn d unk (some nb2) e.1

/-- `_fast_non_domination_rank(loss_values, penalty=…, n_below=…)`; `none` = ValueError (lengths). -/
def fastRank (d : Nat) (S : List Pt) (penalty : Option (List (Option Int))) (nBelow : Option Nat) :
    Option (List Nat) :=
  if S.isEmpty then some []
  else
    let nb : Int := match nBelow with
      | none => S.length
      | some n => if n = 0 then S.length else n
    match penalty with
    | none => some (calcRank d S (some nb))
    | some pen =>
      if pen.length ≠ S.length then none
      else
        let rows := S.zip pen
        some (rows.map (fastRankFn d rows nb))

/-! ## naive reference: repeated peeling with the O(n²) dominance test -/

def dominates (q p : Pt) : Bool := allLe q p && q != p

def isNonDom (S : List Pt) (p : Pt) : Bool := !S.any (fun q => dominates q p)

def peelRankNaive : Nat → List Pt → Pt → Nat
  | 0, _, _ => 0
  | f + 1, S, p =>
    if isNonDom S p then 0 else 1 + peelRankNaive f (S.filter (fun q => !isNonDom S q)) p

def naiveRanks (S : List Pt) : List Nat := S.map (peelRankNaive S.length S)

end OptunaVerif.Rank
