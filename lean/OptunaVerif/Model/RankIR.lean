import OptunaVerif.Model.Rank
/-!
# C15 — IR and interpreter for the two rank functions of `optuna/study/_multi_objective.py` — core Lean only

`_calculate_nondomination_rank` and `_fast_non_domination_rank` are translated (verif/translators/thv.py `translate_rank`) to a STATEMENT
list (`Stmt`) over expressions (`RE`) of NAMED numpy primitives:

* scalars: `len(a)` / `a.shape[0]` / `a.size`, `a.shape[1]`, comparisons, `and` / `or` / `not`, `is None`, `a or b`, `min`, `+`, `-`;
* arrays: `np.zeros(n, dtype=int)`, `np.full(n, k)`, `np.arange(n)`, `np.array([], dtype=int)`,
  `np.unique(a, return_inverse=True, axis=0)` (= `uniqueLex` + the position of every row in it),
  `np.unique(a[:, 0], return_inverse=True)[1]`, `~m`, `np.logical_and`, `a[mask]`, `a[idx]`, `np.isnan(p)`, `p <= 0`, `p > 0`,
  `np.count_nonzero(m)`, `np.max(a, initial=k)`, `k + a`, `p[:, np.newaxis]`, `np.all(a != k)`;
* statements: assignment, the scatter writes `x[idx] = v` (index array, scalar value) and `x[mask] = v` (mask, array value), `if c: … return r`,
  `if c: raise ValueError`, `assert c`, the `while c:` loop (body: assignments and scatter writes), `return e`.

`_is_pareto_front(a, assume_unique_lexsorted=True)` is a PARAMETER of the interpreter (`front`; its own translation is C12Gen's
`gen_front_assume_sorted`), and so is the callee `_calculate_nondomination_rank` inside `_fast_non_domination_rank` (`callee`; instantiated with
the interpreter of the generated callee in `Props/C15Gen.lean`).  The `while` loop runs with an explicit bound `fuel` (the theorems use
`n_unique`: every round removes the non-empty front of a non-empty array); when the bound is hit the loop is left as if its test were false.
Where numpy raises for arrays that do not fit (`x[mask] = v` with the wrong number of values, an index outside the array) the write is
ignored / the read gives 0; ill-typed expressions evaluate to `err`.
-/
namespace OptunaVerif.RankIR
open OptunaVerif OptunaVerif.Hypervolume

inductive RV where
  | mat (d : Nat) (m : List Pt)          -- a 2-d array with `d` columns
  | ints (l : List Int)
  | mask (b : List Bool)
  | int (n : Int)
  | bool (b : Bool)
  | pen (p : List (Option Int))          -- a float vector, `none` = NaN
  | none_
  | valueError | assertionError | err
deriving DecidableEq, Repr, Inhabited

inductive Cmp where
  | lt | le | eq | ne | gt | ge
deriving DecidableEq, Repr, Inhabited

def Cmp.eval : Cmp → Int → Int → Bool
  | .lt, a, b => decide (a < b) | .le, a, b => decide (a ≤ b) | .eq, a, b => a == b
  | .ne, a, b => a != b | .gt, a, b => decide (b < a) | .ge, a, b => decide (b ≤ a)

inductive RE where
  | var (n : String) | int (k : Int) | none_
  | len (a : RE) | ncols (a : RE)
  | cmp (op : Cmp) (a b : RE)
  | and (a b : RE) | or (a b : RE) | not (a : RE)
  | isNone (a : RE) | isNotNone (a : RE)
  | orElse (a b : RE)                     -- `a or b`
  | min (a b : RE) | add (a b : RE) | sub (a b : RE)
  | zeros (n : RE) | full (n k : RE) | arange (n : RE) | emptyInts
  | uniqueRows (a : RE) | uniqueInv (a : RE)
  | uniqueInvCol0 (a : RE)
  | front (a : RE)
  | notMask (m : RE) | maskAnd (a b : RE)
  | sel (a m : RE) | take (a i : RE)
  | isnan (p : RE) | penLe0 (p : RE) | penGt0 (p : RE)
  | countTrue (m : RE)
  | maxInit (a init : RE)
  | addScalar (k a : RE)
  | newaxis (p : RE)
  | callCalc (a nb : RE)
  | allNe (a k : RE)
deriving Repr, Inhabited

inductive Simple where
  | assign (x : String) (e : RE)
  | setIdx (x : String) (i v : RE)       -- `x[i] = v`, `i` an index array, `v` a scalar
  | setMask (x : String) (m v : RE)      -- `x[m] = v`, `m` a mask, `v` an array with one value per True
deriving Repr, Inhabited

inductive Stmt where
  | s (st : Simple)
  | ifRet (c : RE) (pre : List Simple) (r : RE)
  | ifRaise (c : RE)
  | assertS (c : RE)
  | whileS (c : RE) (body : List Simple)
  | ret (e : RE)
deriving Repr, Inhabited

abbrev Env := List (String × RV)

def rget (env : Env) (n : String) : RV :=
  match env.find? (fun p => p.1 == n) with
  | some p => p.2
  | none => .err

/-- assignment: an existing variable is overwritten in place, a new one is appended -/
def rset : Env → String → RV → Env
  | [], n, v => [(n, v)]
  | (k, w) :: t, n, v => if k == n then (k, v) :: t else (k, w) :: rset t n v

/-! ## primitives -/

def selMask {α : Type} : List α → List Bool → List α
  | a :: as, true :: ms => a :: selMask as ms
  | _ :: as, false :: ms => selMask as ms
  | _, _ => []

/-- `x[i] = v` for an index array -/
def scatterIdx (l : List Int) (idx : List Int) (v : Int) : List Int :=
  idx.foldl (fun acc j => if 0 ≤ j then acc.set j.toNat v else acc) l

/-- `x[m] = vs` for a mask -/
def scatterMask : List Int → List Bool → List Int → List Int
  | _ :: rs, true :: ms, v :: vs => v :: scatterMask rs ms vs
  | r :: rs, false :: ms, vs => r :: scatterMask rs ms vs
  | rs, _, _ => rs

/-- `np.unique(a, return_inverse=True, axis=0)[1]` -/
def uniqueInvOf (m : List Pt) : List Int := m.map (fun p => ((uniqueLex m).idxOf p : Int))

def col0Row (p : Pt) : Pt := [p.headD 0]

/-- `np.unique(a[:, 0], return_inverse=True)[1]` -/
def uniqueInvCol0Of (m : List Pt) : List Int := uniqueInvOf (m.map col0Row)

def frontMaskOf (front : Nat → List Pt → List Pt) (d : Nat) (m : List Pt) : List Bool :=
  m.map (fun p => (front d m).contains p)

def maxInitOf (l : List Int) (i : Int) : Int := l.foldl max i

def penLe0Of (p : List (Option Int)) : List Bool := p.map (fun v => match v with | some x => decide (x ≤ 0) | none => false)
def penGt0Of (p : List (Option Int)) : List Bool := p.map (fun v => match v with | some x => decide (0 < x) | none => false)
def isnanOf (p : List (Option Int)) : List Bool := p.map (fun v => v.isNone)
def newaxisOf (p : List (Option Int)) : List Pt := p.map (fun v => [v.getD 0])
def countTrueOf (b : List Bool) : Int := ((b.filter id).length : Int)

def RV.lenV : RV → RV
  | .mat _ m => .int m.length | .ints l => .int l.length | .mask b => .int b.length | .pen p => .int p.length | _ => .err

def RV.orElseV : RV → RV → RV
  | .none_, b => b
  | .int n, b => if n = 0 then b else .int n
  | _, _ => .err

def RV.selV : RV → RV → RV
  | .mat d m, .mask b => .mat d (selMask m b)
  | .ints l, .mask b => .ints (selMask l b)
  | .pen p, .mask b => .pen (selMask p b)
  | _, _ => .err

def RV.cmpV (op : Cmp) : RV → RV → RV
  | .int a, .int b => .bool (op.eval a b)
  | _, _ => .err

def zipAnd : List Bool → List Bool → List Bool
  | a :: as, b :: bs => (a && b) :: zipAnd as bs
  | _, _ => []

def RE.eval (front : Nat → List Pt → List Pt) (callee : Nat → List Pt → RV → RV) (env : Env) : RE → RV
  | .var n => rget env n
  | .int k => .int k
  | .none_ => .none_
  | .len a => (a.eval front callee env).lenV
  | .ncols a => match a.eval front callee env with | .mat d _ => .int d | _ => .err
  | .cmp op a b => RV.cmpV op (a.eval front callee env) (b.eval front callee env)
  | .and a b =>            -- Python's `and` / `or` on truth values: the right operand is evaluated only when needed
    match a.eval front callee env with
    | .bool false => .bool false
    | .bool true => (match b.eval front callee env with | .bool y => .bool y | _ => .err)
    | _ => .err
  | .or a b =>
    match a.eval front callee env with
    | .bool true => .bool true
    | .bool false => (match b.eval front callee env with | .bool y => .bool y | _ => .err)
    | _ => .err
  | .not a => match a.eval front callee env with | .bool b => .bool (!b) | _ => .err
  | .isNone a => match a.eval front callee env with | .none_ => .bool true | .err => .err | _ => .bool false
  | .isNotNone a => match a.eval front callee env with | .none_ => .bool false | .err => .err | _ => .bool true
  | .orElse a b => RV.orElseV (a.eval front callee env) (b.eval front callee env)
  | .min a b => match a.eval front callee env, b.eval front callee env with | .int x, .int y => .int (Min.min x y) | _, _ => .err
  | .add a b => match a.eval front callee env, b.eval front callee env with | .int x, .int y => .int (x + y) | _, _ => .err
  | .sub a b => match a.eval front callee env, b.eval front callee env with | .int x, .int y => .int (x - y) | _, _ => .err
  | .zeros n => match n.eval front callee env with | .int k => .ints (List.replicate k.toNat 0) | _ => .err
  | .full n k => match n.eval front callee env, k.eval front callee env with | .int x, .int y => .ints (List.replicate x.toNat y) | _, _ => .err
  | .arange n => match n.eval front callee env with | .int k => .ints ((List.range k.toNat).map Int.ofNat) | _ => .err
  | .emptyInts => .ints []
  | .uniqueRows a => match a.eval front callee env with | .mat d m => .mat d (uniqueLex m) | _ => .err
  | .uniqueInv a => match a.eval front callee env with | .mat _ m => .ints (uniqueInvOf m) | _ => .err
  | .uniqueInvCol0 a => match a.eval front callee env with | .mat _ m => .ints (uniqueInvCol0Of m) | _ => .err
  | .front a => match a.eval front callee env with | .mat d m => .mask (frontMaskOf front d m) | _ => .err
  | .notMask m => match m.eval front callee env with | .mask b => .mask (b.map (fun x => !x)) | _ => .err
  | .maskAnd a b => match a.eval front callee env, b.eval front callee env with | .mask x, .mask y => .mask (zipAnd x y) | _, _ => .err
  | .sel a m => RV.selV (a.eval front callee env) (m.eval front callee env)
  | .take a i => match a.eval front callee env, i.eval front callee env with
    | .ints l, .ints is => .ints (is.map (fun j => l.getD j.toNat 0))
    | _, _ => .err
  | .isnan p => match p.eval front callee env with | .pen q => .mask (isnanOf q) | _ => .err
  | .penLe0 p => match p.eval front callee env with | .pen q => .mask (penLe0Of q) | _ => .err
  | .penGt0 p => match p.eval front callee env with | .pen q => .mask (penGt0Of q) | _ => .err
  | .countTrue m => match m.eval front callee env with | .mask b => .int (countTrueOf b) | _ => .err
  | .maxInit a i => match a.eval front callee env, i.eval front callee env with | .ints l, .int k => .int (maxInitOf l k) | _, _ => .err
  | .addScalar k a => match k.eval front callee env, a.eval front callee env with
    | .int x, .ints l => .ints (l.map (fun v => x + v))
    | _, _ => .err
  | .newaxis p => match p.eval front callee env with | .pen q => .mat 1 (newaxisOf q) | _ => .err
  | .callCalc a nb => match a.eval front callee env with | .mat d m => callee d m (nb.eval front callee env) | _ => .err
  | .allNe a k => match a.eval front callee env, k.eval front callee env with | .ints l, .int x => .bool (l.all (fun v => v != x)) | _, _ => .err

def Simple.exec (front : Nat → List Pt → List Pt) (callee : Nat → List Pt → RV → RV) (env : Env) : Simple → Env
  | .assign x e => rset env x (e.eval front callee env)
  | .setIdx x i v =>
    match rget env x, i.eval front callee env, v.eval front callee env with
    | .ints l, .ints idx, .int k => rset env x (.ints (scatterIdx l idx k))
    | _, _, _ => rset env x .err
  | .setMask x m v =>
    match rget env x, m.eval front callee env, v.eval front callee env with
    | .ints l, .mask b, .ints vs => rset env x (.ints (scatterMask l b vs))
    | _, _, _ => rset env x .err

def execSimples (front : Nat → List Pt → List Pt) (callee : Nat → List Pt → RV → RV) (body : List Simple) (env : Env) : Env :=
  body.foldl (fun e s => s.exec front callee e) env

/-- the `while c: body` loop, at most `fuel` rounds -/
def loopW (front : Nat → List Pt → List Pt) (callee : Nat → List Pt → RV → RV) (c : RE) (body : List Simple) : Nat → Env → Env
  | 0, env => env
  | fuel + 1, env =>
    if c.eval front callee env = .bool true then loopW front callee c body fuel (execSimples front callee body env) else env

/-- a function body: the value it returns (`err` when a path falls off the end) -/
def run (front : Nat → List Pt → List Pt) (callee : Nat → List Pt → RV → RV) (fuel : Nat) : List Stmt → Env → RV
  | [], _ => .err
  | .s st :: rest, env => run front callee fuel rest (st.exec front callee env)
  | .ifRet c pre r :: rest, env =>
    match c.eval front callee env with
    | .bool true => r.eval front callee (execSimples front callee pre env)
    | .bool false => run front callee fuel rest env
    | _ => .err
  | .ifRaise c :: rest, env =>
    match c.eval front callee env with
    | .bool true => .valueError
    | .bool false => run front callee fuel rest env
    | _ => .err
  | .assertS c :: rest, env =>
    match c.eval front callee env with
    | .bool true => run front callee fuel rest env
    | .bool false => .assertionError
    | _ => .err
  | .whileS c body :: rest, env => run front callee fuel rest (loopW front callee c body fuel env)
  | .ret e :: _, env => e.eval front callee env

structure RankProg where
  calcBody : List Stmt        -- `_calculate_nondomination_rank(loss_values, *, n_below=None)`
  fastBody : List Stmt        -- `_fast_non_domination_rank(loss_values, *, penalty=None, n_below=None)`
deriving Repr, Inhabited

def noCalc : Nat → List Pt → RV → RV := fun _ _ _ => .err

/-- `_calculate_nondomination_rank(S, n_below=nb)` as generated -/
def calcGen (P : RankProg) (front : Nat → List Pt → List Pt) (fuel : Nat) (d : Nat) (S : List Pt) (nb : RV) : RV :=
  run front noCalc fuel P.calcBody [("loss_values", .mat d S), ("n_below", nb)]

/-- `_fast_non_domination_rank(S, penalty=pen, n_below=nb)` as generated, the callee being `callee` -/
def fastGen (P : RankProg) (callee : Nat → List Pt → RV → RV) (d : Nat) (S : List Pt) (pen : RV) (nb : RV) : RV :=
  run (fun _ _ => []) callee 0 P.fastBody [("loss_values", .mat d S), ("penalty", pen), ("n_below", nb)]

end OptunaVerif.RankIR
