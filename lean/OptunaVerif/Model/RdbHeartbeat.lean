import OptunaVerif.Model.RdbLogic
import OptunaVerif.Generated.StaleGen
/-!
  The heartbeat side of `RDBStorage` on top of the relational model `Model/RdbLogic.lean`
  (optuna/storages/_rdb/storage.py: `record_heartbeat`, `_get_stale_trial_ids`;
  optuna/storages/_heartbeat.py: `fail_stale_trials`; optuna/storages/_callbacks.py:
  `RetryFailedTrialCallback.__call__`).

  * `HState` = the eleven tables of `Rdb.State` + the `heartbeat` column of `trial_heartbeats`
    (`Rdb.State.beats` carries no payload; the column is kept here by primary key).  Timestamps are
    `Int` microseconds on the *database* clock (`CURRENT_TIMESTAMP` / `now()`), which is the field `now`
    of a configuration: a logical clock that only `tick` moves.
  * The staleness test, the query filter, the grace-period default, the sweep's handling of the answers of
    `set_trial_state_values` and the whole arithmetic of the retry callback are NOT written here: they are
    the definitions of `Generated/StaleGen.lean`, re-emitted from the Python source on every run.
  * As in `Model/Heartbeat.lean`, every *storage call* of `fail_stale_trials` is one atomic step
    (`sweepStep`); `failStaleTrials` is one whole call = the steps of one worker with nobody in between.
  * Attribute payloads are JSON text (`String`); the two payloads the callback looks into
    (`retry_history`: a list of trial numbers, `failed_trial`: a number) go through a `Codec`
    (modelled, not verified: the JSON codec; the driver uses `jsonCodec`).
  * Not modelled: `FrozenTrial._validate` / the direction-count test of `Study.add_trial` (they cannot
    fail for a copy of a stored trial whose parameter values lie in their distributions), time zones,
    the session/transaction boundaries inside one storage call (one call = one transaction = one step).
-/
namespace OptunaVerif.RdbHb
open OptunaVerif OptunaVerif.Storage OptunaVerif.Rdb
open OptunaVerif.Generated

/-! ## the tables with the heartbeat column -/

/-- `trial_heartbeats.heartbeat` by `trial_heartbeat_id` (insertion-ordered) -/
abbrev Stamps := List (Nat × Int)

def stampOf : Stamps → Nat → Option Int
  | [], _ => none
  | (b, ts) :: rest, bid => if b = bid then some ts else stampOf rest bid

def setStamp : Stamps → Nat → Int → Stamps
  | [], bid, ts => [(bid, ts)]
  | (b, t) :: rest, bid, ts => if b = bid then (bid, ts) :: rest else (b, t) :: setStamp rest bid ts

structure HState where
  db : Rdb.State
  stamps : Stamps
deriving DecidableEq, Repr, Inhabited

def hinit : HState := { db := Rdb.init, stamps := [] }

/-- any `BaseStorage` call: the tables change as in `Model/RdbLogic.lean`; no such call writes the
`heartbeat` column (the cascade of `delete_study` removes rows, their stamps become unreachable) -/
def HState.call (s : HState) (op : Op) : HState × Res :=
  ({ s with db := (Rdb.step s.db op).1 }, (Rdb.step s.db op).2)

/-- `record_heartbeat(trial_id)` at database time `now`: `where_trial_id(...).one_or_none()`; no row ⇒
INSERT with the column default `CURRENT_TIMESTAMP`; a row ⇒ `heartbeat.heartbeat = now()`. -/
def recordHeartbeat (s : HState) (now : Int) (tid : Nat) : HState × Res :=
  match oneOrNone (Tbl.atKey s.db.beats tid ()) with
  | .error f => (s, .crash f)
  | .ok none =>
    ({ db := (Rdb.recordHeartbeat s.db tid).1, stamps := setStamp s.stamps s.db.nBeat now }, .out .unit)
  | .ok (some r) =>
    ({ db := (Rdb.recordHeartbeat s.db tid).1, stamps := setStamp s.stamps r.id now }, .out .unit)

/-! ## `_get_stale_trial_ids` -/

/-- `trial.heartbeats` (relationship on `trial_id`, eagerly loaded), reduced to the `heartbeat` column.
The column is NOT NULL: a row without a stamp does not exist (invariant `Stamped`). -/
def heartbeatsOf (s : HState) (tid : Nat) : List Int :=
  (Tbl.ofOwner s.db.beats tid).filterMap (fun b => stampOf s.stamps b.id)

/-- the rows of the query, in table order -/
def staleCandidates (s : HState) (sid : Nat) : List TrialRow :=
  s.db.trials.filter (fun r => StaleGen.queryFilter r.state r.study sid)

/-- the `for trial in running_trials:` loop (an exception ends it at once) -/
def staleLoop (s : HState) (now grace : Int) : List TrialRow → M (List Nat)
  | [] => .ok []
  | r :: rest =>
    match StaleGen.rowVerdict now (heartbeatsOf s r.id) grace with
    | .skip => staleLoop s now grace rest
    | .fresh => staleLoop s now grace rest
    | .stale =>
      match staleLoop s now grace rest with
      | .error f => .error f
      | .ok l => .ok (r.id :: l)
    | .assertionError => .error .assertion
    | .indexError => .error .indexError

/-- `RDBStorage._get_stale_trial_ids(study_id)` read at database time `now` -/
def getStaleTrialIds (s : HState) (now hbInterval : Int) (gracePeriod : Option Int) (sid : Nat) : M (List Nat) :=
  staleLoop s now (StaleGen.effectiveGrace hbInterval gracePeriod) (staleCandidates s sid)

/-! ## `RetryFailedTrialCallback.__call__` -/

/-- the JSON codec of the two payloads the callback reads and writes -/
structure Codec where
  encNat : Nat → String
  encList : List Nat → String
  decNat : String → Option Nat
  decList : String → Option (List Nat)

structure CbCfg where
  /-- `max_retry` (any Python int) -/
  maxRetry : Option Int
  inherit : Bool
deriving DecidableEq, Repr, Inhabited

/-- `d.update(l)` on insertion-ordered dicts -/
def dictUpdate (d l : AList String) : AList String := l.foldl (fun d p => d.set p.1 p.2) d

/-- the literal part of the dict display -/
def initDict (C : Codec) (number : Nat) : AList String :=
  dictUpdate [] (StaleGen.callbackInit.map (fun p =>
    (p.1, match p.2 with
          | .trialNumber => C.encNat number
          | .emptyList => C.encList [])))

/-- `{"failed_trial": trial.number, "retry_history": [], **trial.system_attrs}` -/
def displayDict (C : Codec) (number : Nat) (sys : AList String) : AList String :=
  match StaleGen.spread with
  | .afterInit => dictUpdate (initDict C number) sys
  | .beforeInit => dictUpdate sys (initDict C number)
  | .absent => initDict C number

/-- `system_attrs[appendKey].append(trial.number)`: `none` = KeyError / AttributeError (the key is
missing or the payload is not a list) -/
def appendNumber (C : Codec) (d : AList String) (number : Nat) : Option (AList String × List Nat) :=
  match d.get? StaleGen.appendKey with
  | none => none
  | some tok =>
    match C.decList tok with
    | none => none
    | some l => some (d.set StaleGen.appendKey (C.encList (l ++ [number])), l ++ [number])

inductive CbOut where
  /-- `return` before `add_trial` -/
  | gaveUp
  /-- `study.add_trial(optuna.create_trial(...))` with this template -/
  | enqueue (tmpl : Template)
  /-- an exception inside the callback -/
  | crash
deriving DecidableEq, Repr, Inhabited

/-- the callback up to (and excluding) the storage call of `add_trial`, for the failed trial `t` -/
def retryTemplate (C : Codec) (cb : CbCfg) (t : TrialS) : CbOut :=
  match appendNumber C (displayDict C t.number t.systemAttrs) t.number with
  | none => .crash
  | some (sys', hist) =>
    if StaleGen.givesUp cb.maxRetry hist.length then .gaveUp
    else
      .enqueue {
        state := StaleGen.retryState,
        values := none,
        params := if StaleGen.copiesParams then t.params else [],
        userAttrs := if StaleGen.copiesUserAttrs then t.userAttrs else [],
        systemAttrs :=
          (match StaleGen.sysAttrsSource with
           | .computed => sys'
           | .failedTrial => t.systemAttrs
           | .absent => []),
        inter :=
          (match StaleGen.interMode with
           | .never => []
           | .always => t.inter
           | .ifInherit => if cb.inherit then t.inter else []),
        -- `create_trial`: `datetime_start = None if state == WAITING else now`, `datetime_complete` iff finished
        hasStart := StaleGen.retryState != .waiting,
        hasComplete := StaleGen.retryState.isFinished }

/-! ## the sweep, one storage call at a time -/

structure Params where
  /-- `study._study_id` of the workers' `Study` objects -/
  sid : Nat
  hbInterval : Int
  gracePeriod : Option Int
  /-- `failed_trial_callback is not None` (then it is a `RetryFailedTrialCallback`) -/
  hasCb : Bool
  cb : CbCfg
  codec : Codec

/-- Where a worker is in `fail_stale_trials` (trial *ids*). -/
inductive Phase where
  | idle
  /-- first loop: ids still to be failed, `failed_trial_ids` so far -/
  | failing (todo won : List Nat)
  /-- second loop: ids whose callback is still to run -/
  | calling (todo : List Nat)
  /-- inside the callback of trial `t`, holding the deep copy `snap`, about to `add_trial` -/
  | enqueue (t : Nat) (snap : TrialS) (todo : List Nat)
  | dead
deriving DecidableEq, Repr, Inhabited

inductive Event where
  | read (w : Nat) (ids : List Nat)
  /-- `set_trial_state_values(t, FAIL)` answered `True` -/
  | won (w t : Nat)
  /-- … raised `UpdateFinishedTrialError`, swallowed -/
  | lost (w t : Nat)
  /-- the callback was invoked for `t`; `retry = false`: it returned at the `max_retry` test -/
  | callback (w t : Nat) (retry : Bool)
  /-- `create_new_trial(study_id, template)` answered the new id `n` -/
  | enqueued (w t n : Nat) (tmpl : Template)
  /-- an exception left `fail_stale_trials` -/
  | raised (w : Nat) (what : String)
deriving DecidableEq, Repr, Inhabited

structure Cfg where
  hs : HState
  /-- the database clock (µs) -/
  now : Int
  workers : List Phase
  /-- newest first -/
  events : List Event
deriving DecidableEq, Repr, Inhabited

def failName : Fail → String
  | .api .keyError => "KeyError"
  | .api .duplicated => "DuplicatedStudyError"
  | .api .updateFinished => "UpdateFinishedTrialError"
  | .api .valueError => "ValueError"
  | .api .runtimeError => "RuntimeError"
  | .multipleRows => "MultipleResultsFound"
  | .assertion => "AssertionError"
  | .indexError => "IndexError"

/-- Skip the loops that have nothing left to do (they make no storage call). -/
def Phase.norm (hasCb : Bool) : Phase → Phase
  | .failing [] won => if hasCb && !won.isEmpty then .calling won else .idle
  | .calling [] => .idle
  | p => p

def Cfg.setPhase (c : Cfg) (w : Nat) (p : Phase) : Cfg :=
  { c with workers := updAt c.workers w (fun _ => p) }

def Cfg.setDb (c : Cfg) (db : Rdb.State) : Cfg := { c with hs := { c.hs with db := db } }

def Cfg.log (c : Cfg) (e : Event) : Cfg := { c with events := e :: c.events }

/-- an exception leaves `fail_stale_trials`: the call is over -/
def Cfg.raise (c : Cfg) (w : Nat) (what : String) : Cfg := (c.setPhase w .idle).log (.raised w what)

def resName : Res → String
  | .out (.err e) => failName (.api e)
  | .crash f => failName f
  | .out _ => "unexpected answer"

/-- One storage call of worker `w`'s sweep. -/
def sweepStep (P : Params) (c : Cfg) (w : Nat) : Cfg :=
  match c.workers[w]? with
  | none => c
  | some .dead => c
  | some .idle =>
    match getStaleTrialIds c.hs c.now P.hbInterval P.gracePeriod P.sid with
    | .error f => c.raise w (failName f)
    | .ok ids => (c.setPhase w (Phase.norm P.hasCb (.failing ids []))).log (.read w ids)
  | some (.failing [] won) => c.setPhase w (Phase.norm P.hasCb (.failing [] won))
  | some (.failing (t :: todo) won) =>
    match Rdb.step c.hs.db (.setTrialStateValues t StaleGen.failState none) with
    | (db', .out (.bool true)) =>
      (((c.setDb db').setPhase w (Phase.norm P.hasCb
          (.failing todo (if StaleGen.appendOnTrue then won ++ [t] else won)))).log (.won w t))
    | (db', .out (.bool false)) =>
      ((c.setDb db').setPhase w (Phase.norm P.hasCb
          (.failing todo (if StaleGen.appendOnFalse then won ++ [t] else won))))
    | (_, .out (.err .updateFinished)) =>
      (match StaleGen.onUpdateFinished with
       | none => c.raise w "UpdateFinishedTrialError"
       | some b =>
         (c.setPhase w (Phase.norm P.hasCb (.failing todo (if b then won ++ [t] else won)))).log (.lost w t))
    | (_, r) => c.raise w (resName r)
  | some (.calling []) => c.setPhase w .idle
  | some (.calling (t :: todo)) =>
    -- `copy.deepcopy(storage.get_trial(trial_id))`, then the callback up to `add_trial`
    match getTrial c.hs.db t with
    | .error f => c.raise w (failName f)
    | .ok (_, tr) =>
      match retryTemplate P.codec P.cb tr with
      | .crash => c.raise w "callback"
      | .gaveUp => (c.setPhase w (Phase.norm P.hasCb (.calling todo))).log (.callback w t false)
      | .enqueue _ => (c.setPhase w (.enqueue t tr todo)).log (.callback w t true)
  | some (.enqueue t snap todo) =>
    match retryTemplate P.codec P.cb snap with
    | .enqueue tmpl =>
      (match Rdb.step c.hs.db (.createTrial P.sid (some tmpl) false) with
       | (db', .out (.newId n)) =>
         ((c.setDb db').setPhase w (Phase.norm P.hasCb (.calling todo))).log (.enqueued w t n tmpl)
       | (_, r) => c.raise w (resName r))
    | _ => c.raise w "callback"

/-! ## everybody's storage calls -/

inductive Act where
  /-- worker `w` performs the next storage call of its `fail_stale_trials` -/
  | sweep (w : Nat)
  /-- worker `w` dies here -/
  | die (w : Nat)
  /-- any `BaseStorage` call by anybody -/
  | call (op : Op)
  /-- `record_heartbeat(trial_id)` by anybody -/
  | beat (tid : Nat)
  /-- `d` µs pass on the database clock -/
  | tick (d : Nat)
deriving Repr, Inhabited

def step (P : Params) (c : Cfg) : Act → Cfg
  | .sweep w => sweepStep P c w
  | .die w => c.setPhase w .dead
  | .call op => c.setDb (Rdb.step c.hs.db op).1
  | .beat tid => { c with hs := (recordHeartbeat c.hs c.now tid).1 }
  | .tick d => { c with now := c.now + d }

def init (n : Nat) : Cfg := { hs := hinit, now := 0, workers := List.replicate n .idle, events := [] }

def run (P : Params) (c : Cfg) (as : List Act) : Cfg := as.foldl (step P) c

/-! ## one whole call of `fail_stale_trials` -/

/-- an upper bound of the storage calls a worker in this phase still makes -/
def Phase.size : Phase → Nat
  | .idle => 0
  | .dead => 0
  | .failing todo won => 3 * todo.length + 2 * won.length + 2
  | .calling todo => 2 * todo.length + 1
  | .enqueue _ _ todo => 2 * todo.length + 2

def Cfg.busy (c : Cfg) (w : Nat) : Bool :=
  match c.workers[w]? with
  | some .idle => false
  | some .dead => false
  | none => false
  | some _ => true

/-- worker `w` runs on alone until its call returns (at most `fuel` storage calls) -/
def sweepLoop (P : Params) (w : Nat) : Nat → Cfg → Cfg
  | 0, c => c
  | fuel + 1, c => if c.busy w then sweepLoop P w fuel (sweepStep P c w) else c

/-- `fail_stale_trials(study)` by worker `w` (idle before), nobody else acting in between -/
def failStaleTrials (P : Params) (c : Cfg) (w : Nat) : Cfg :=
  let c1 := sweepStep P c w
  sweepLoop P w (match c1.workers[w]? with | some p => p.size | none => 0) c1

/-! ## the JSON text of the two payloads (what `json.dumps` writes; used by the driver) -/

def encListJson (l : List Nat) : String := "[" ++ ", ".intercalate (l.map toString) ++ "]"

def decListJson (s : String) : Option (List Nat) :=
  let t := s.trimAscii.toString
  if t.startsWith "[" && t.endsWith "]" then
    let inner := ((t.drop 1).dropEnd 1).toString
    if inner.trimAscii.toString.isEmpty then some []
    else (inner.splitOn ",").mapM (fun x => x.trimAscii.toString.toNat?)
  else none

def jsonCodec : Codec :=
  { encNat := toString, encList := encListJson, decNat := fun s => s.trimAscii.toString.toNat?, decList := decListJson }

end OptunaVerif.RdbHb
