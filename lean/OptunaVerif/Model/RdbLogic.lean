import OptunaVerif.Model.Storage
import OptunaVerif.Model.Best
import OptunaVerif.Generated.RdbCodec
/-
  Relational model of `RDBStorage` (optuna/storages/_rdb/storage.py, models.py): the eleven tables as
  lists of rows, one id counter per table, and every storage method as the sequence of queries and
  updates it performs inside its transaction.

  Representation choices (each is named where it matters):
  * a table is the list of its rows in primary-key order; ids come from a counter that only grows
    (AUTOINCREMENT semantics; SQLite's re-use of the newest deleted id is known finding F12 and is not
    modelled), so INSERT appends and `ORDER BY <primary key>` is the table order.  A query without
    ORDER BY returns rows in table order (what SQLite does; SQL leaves it open — where the code depends
    on it, the invariants proved in Lemmas/RdbRefine.lean make the choice irrelevant);
  * a transaction is a function `State → M State`; an exception rolls back (`commit` returns the old
    state); `one_or_none()` on several rows is the failure `multipleRows` (proved unreachable);
  * datetimes are present/absent; attribute payloads and distribution JSON are opaque tokens
    (`String`, `Storage.Dist`); a Python float is an `XVal`;
  * the value codecs are the *generated* definitions of Generated/RdbCodec.lean;
  * `trials.number` is NULL between the INSERT and the UPDATE of `_get_prepared_new_trial`; nothing
    reads it in between, the model writes 0 there;
  * the SQLite branch of `_set_trial_attr_without_commit` (INSERT … ON CONFLICT DO UPDATE) is the one
    modelled; `SELECT … FOR UPDATE` is a plain SELECT (single session).
-/
namespace OptunaVerif.Rdb
open OptunaVerif OptunaVerif.Storage
open OptunaVerif.Generated.RdbCodec (TrialValueType TrialIntermediateValueType)

/-! ## rows and tables -/

/-- A row of a child table: primary key, foreign key (`study_id` / `trial_id`), the column that is
UNIQUE together with the foreign key, the remaining columns. -/
structure KRow (κ ν : Type) where
  id : Nat
  owner : Nat
  key : κ
  val : ν
deriving DecidableEq, Repr, Inhabited

/-- `studies(study_id, study_name)` -/
structure StudyRow where
  id : Nat
  name : String
deriving DecidableEq, Repr, Inhabited

/-- `trials(trial_id, number, study_id, state, datetime_start, datetime_complete)` -/
structure TrialRow where
  id : Nat
  number : Nat
  study : Nat
  state : TState
  hasStart : Bool
  hasComplete : Bool
deriving DecidableEq, Repr, Inhabited

/-- `trial_values(value, value_type)` -/
abbrev SVal := Option XVal × TrialValueType
/-- `trial_intermediate_values(intermediate_value, intermediate_value_type)` -/
abbrev SIVal := Option XVal × TrialIntermediateValueType

structure State where
  studies : List StudyRow
  /-- `study_directions(study_direction_id, study_id, objective, direction)` -/
  dirs : List (KRow Nat Nat)
  /-- `study_user_attributes(…_id, study_id, key, value_json)` -/
  sUser : List (KRow String String)
  sSys : List (KRow String String)
  trials : List TrialRow
  /-- `trial_params(param_id, trial_id, param_name, (param_value, distribution_json))` -/
  params : List (KRow String Param)
  /-- `trial_values(trial_value_id, trial_id, objective, (value, value_type))` -/
  values : List (KRow Nat SVal)
  /-- `trial_intermediate_values(…_id, trial_id, step, (intermediate_value, intermediate_value_type))` -/
  inters : List (KRow Int SIVal)
  tUser : List (KRow String String)
  tSys : List (KRow String String)
  /-- `trial_heartbeats(trial_heartbeat_id, trial_id, heartbeat)` -/
  beats : List (KRow Unit Unit)
  nStudy : Nat
  nDir : Nat
  nSUser : Nat
  nSSys : Nat
  nTrial : Nat
  nParam : Nat
  nValue : Nat
  nInter : Nat
  nTUser : Nat
  nTSys : Nat
  nBeat : Nat
deriving DecidableEq, Repr, Inhabited

def init : State :=
  { studies := [], dirs := [], sUser := [], sSys := [], trials := [], params := [], values := [],
    inters := [], tUser := [], tSys := [], beats := [],
    nStudy := 0, nDir := 0, nSUser := 0, nSSys := 0, nTrial := 0, nParam := 0, nValue := 0,
    nInter := 0, nTUser := 0, nTSys := 0, nBeat := 0 }

/-! ## failures, transactions -/

inductive Fail where
  /-- one of the exception classes of the contract -/
  | api (e : Err)
  /-- `sqlalchemy.exc.MultipleResultsFound` from `one_or_none()` -/
  | multipleRows
  /-- `AssertionError` of a codec -/
  | assertion
  | indexError
deriving DecidableEq, Repr, Inhabited

abbrev M := Except Fail

/-- `Query.one_or_none()` -/
def oneOrNone {α : Type} : List α → M (Option α)
  | [] => .ok none
  | [a] => .ok (some a)
  | _ => .error .multipleRows

/-- what a call answers: a contract answer, or an exception outside the contract's classes -/
inductive Res where
  | out (o : Out)
  | crash (f : Fail)
deriving DecidableEq, Repr, Inhabited

/-- `with _create_scoped_session(...)`: commit, or roll back on an exception. -/
def commit (s : State) (m : M (State × Out)) : State × Res :=
  match m with
  | .ok (s', o) => (s', .out o)
  | .error (.api e) => (s, .out (.err e))
  | .error f => (s, .crash f)

/-! ## generic table operations -/

/-- dict assignment `d[k] = v` on an insertion-ordered dict -/
def kvSet {κ ν : Type} [DecidableEq κ] (l : List (κ × ν)) (k : κ) (v : ν) : List (κ × ν) :=
  match l with
  | [] => [(k, v)]
  | (k', v') :: t => if k' = k then (k, v) :: t else (k', v') :: kvSet t k v

namespace Tbl
variable {κ ν : Type} [DecidableEq κ]

/-- `WHERE fk = o` -/
def ofOwner (t : List (KRow κ ν)) (o : Nat) : List (KRow κ ν) := t.filter (fun r => r.owner == o)

/-- `WHERE fk = o AND key = k` -/
def atKey (t : List (KRow κ ν)) (o : Nat) (k : κ) : List (KRow κ ν) :=
  t.filter (fun r => r.owner == o && decide (r.key = k))

/-- attribute assignment on a fetched ORM object = `UPDATE … SET val WHERE pk = id` -/
def setVal (t : List (KRow κ ν)) (id : Nat) (v : ν) : List (KRow κ ν) :=
  t.map (fun r => if r.id == id then { r with val := v } else r)

/-- ORM upsert: `find_by_…().one_or_none()`, then `session.add(new)` or assignment to the fetched row -/
def upsert (t : List (KRow κ ν)) (next : Nat) (o : Nat) (k : κ) (v : ν) : M (List (KRow κ ν) × Nat) :=
  match oneOrNone (atKey t o k) with
  | .error f => .error f
  | .ok none => .ok (t ++ [{ id := next, owner := o, key := k, val := v }], next + 1)
  | .ok (some r) => .ok (setVal t r.id v, next)

/-- `INSERT … ON CONFLICT (fk, key) DO UPDATE SET val = excluded.val` -/
def upsertConflict (t : List (KRow κ ν)) (next : Nat) (o : Nat) (k : κ) (v : ν) : List (KRow κ ν) × Nat :=
  if (atKey t o k).isEmpty then (t ++ [{ id := next, owner := o, key := k, val := v }], next + 1)
  else (t.map (fun r => if r.owner == o && decide (r.key = k) then { r with val := v } else r), next)

/-- `{row.key: f(row.val) for row in rows}` -/
def toDict {β : Type} (f : ν → β) (rows : List (KRow κ ν)) : List (κ × β) :=
  rows.foldl (fun d r => kvSet d r.key (f r.val)) []

/-- `ON DELETE` by ORM cascade: rows whose owner is one of `dead` go -/
def dropOwners (t : List (KRow κ ν)) (dead : List Nat) : List (KRow κ ν) :=
  t.filter (fun r => !dead.contains r.owner)

end Tbl

/-! ## lookups -/

/-- `StudyModel.find_or_raise_by_id` -/
def findStudy (s : State) (sid : Nat) : M StudyRow :=
  match oneOrNone (s.studies.filter (fun r => r.id == sid)) with
  | .error f => .error f
  | .ok none => .error (.api .keyError)
  | .ok (some r) => .ok r

/-- `TrialModel.find_or_raise_by_id` -/
def findTrial (s : State) (tid : Nat) : M TrialRow :=
  match oneOrNone (s.trials.filter (fun r => r.id == tid)) with
  | .error f => .error f
  | .ok none => .error (.api .keyError)
  | .ok (some r) => .ok r

/-- `find_or_raise_by_id` followed by `check_trial_is_updatable` -/
def updatableTrial (s : State) (tid : Nat) : M TrialRow :=
  match findTrial s tid with
  | .error f => .error f
  | .ok r => if r.state.isFinished then .error (.api .updateFinished) else .ok r

/-- the `study_id` of the trial a child row belongs to (`JOIN trials`) -/
def State.trialStudy? (s : State) (tid : Nat) : Option Nat :=
  (s.trials.find? (fun r => r.id == tid)).map (·.study)

/-! ## the `_without_commit` setters -/

def encV (v : XVal) : SVal := Generated.RdbCodec.TrialValueModel.value_to_stored_repr v
def decV (x : SVal) : Option XVal := Generated.RdbCodec.TrialValueModel.stored_repr_to_value x.1 x.2
def encI (v : XVal) : SIVal :=
  Generated.RdbCodec.TrialIntermediateValueModel.intermediate_value_to_stored_repr v
def decI (x : SIVal) : Option XVal :=
  Generated.RdbCodec.TrialIntermediateValueModel.stored_repr_to_intermediate_value x.1 x.2

/-- `_set_trial_value_without_commit` -/
def setValueNC (s : State) (tid objective : Nat) (v : XVal) : M State :=
  match updatableTrial s tid with
  | .error f => .error f
  | .ok _ =>
    match Tbl.upsert s.values s.nValue tid objective (encV v) with
    | .error f => .error f
    | .ok (t, n) => .ok { s with values := t, nValue := n }

/-- `for objective, v in enumerate(values): _set_trial_value_without_commit(...)` -/
def setValuesNC (s : State) (tid : Nat) : Nat → List XVal → M State
  | _, [] => .ok s
  | i, v :: rest =>
    match setValueNC s tid i v with
    | .error f => .error f
    | .ok s' => setValuesNC s' tid (i + 1) rest

/-- `if values is not None: for objective, v in enumerate(values): …` of `set_trial_state_values` -/
def writeValuesNC (s : State) (tid : Nat) : Option (List XVal) → M State
  | none => .ok s
  | some l => setValuesNC s tid 0 l

/-- `_set_trial_intermediate_value_without_commit` -/
def setInterNC (s : State) (tid : Nat) (step : Int) (v : XVal) : M State :=
  match updatableTrial s tid with
  | .error f => .error f
  | .ok _ =>
    match Tbl.upsert s.inters s.nInter tid step (encI v) with
    | .error f => .error f
    | .ok (t, n) => .ok { s with inters := t, nInter := n }

/-- `_set_trial_attr_without_commit` (SQLite branch), user or system table -/
def setTAttrNC (sys : Bool) (s : State) (tid : Nat) (k v : String) : M State :=
  match updatableTrial s tid with
  | .error f => .error f
  | .ok _ =>
    if sys then
      let (t, n) := Tbl.upsertConflict s.tSys s.nTSys tid k v
      .ok { s with tSys := t, nTSys := n }
    else
      let (t, n) := Tbl.upsertConflict s.tUser s.nTUser tid k v
      .ok { s with tUser := t, nTUser := n }

/-- the query of `_check_compatibility_with_previous_trial_param_distributions`:
`SELECT … FROM trial_params JOIN trials WHERE trials.study_id = … AND param_name = … LIMIT 1` -/
def State.prevDist (s : State) (study : Nat) (name : String) : Option Dist :=
  (s.params.find? (fun p => decide (p.key = name) && s.trialStudy? p.owner == some study)).map
    (fun p => p.val.dist)

/-- `check_distribution_compatibility(previous, new)` when there is a previous record -/
def checkCompat (s : State) (study : Nat) (name : String) (d : Dist) : M Unit :=
  match s.prevDist study name with
  | some d0 => if d0.compat d then .ok () else .error (.api .valueError)
  | none => .ok ()

/-- `_set_trial_param_without_commit` -/
def setParamNC (s : State) (tid : Nat) (name : String) (p : Param) : M State :=
  match updatableTrial s tid with
  | .error f => .error f
  | .ok tr =>
    match oneOrNone (Tbl.atKey s.params tid name) with
    | .error f => .error f
    | .ok (some r) =>
      -- overwrite the parameter that has already been set to this trial
      match checkCompat s tr.study name p.dist with
      | .error f => .error f
      | .ok _ => .ok { s with params := Tbl.setVal s.params r.id p }
    | .ok none =>
      -- `check_and_add`
      match checkCompat s tr.study name p.dist with
      | .error f => .error f
      | .ok _ =>
        .ok { s with params := s.params ++ [{ id := s.nParam, owner := tid, key := name, val := p }],
                     nParam := s.nParam + 1 }

/-- `for k, v in d.items(): setter(session, trial_id, k, v)` -/
def forEachNC {κ ν : Type} (f : State → κ → ν → M State) (s : State) : List (κ × ν) → M State
  | [] => .ok s
  | (k, v) :: rest =>
    match f s k v with
    | .error f => .error f
    | .ok s' => forEachNC f s' rest

/-! ## reading a trial: `_build_frozen_trial_from_trial_model` -/

/-- `values = [0 for _ in trial.values]; for vm in trial.values: values[vm.objective] = decode(vm)` -/
def fillValues : List XVal → List (KRow Nat SVal) → M (List XVal)
  | arr, [] => .ok arr
  | arr, r :: rest =>
    match decV r.val with
    | none => .error .assertion
    | some v => if r.key < arr.length then fillValues (arr.set r.key v) rest else .error .indexError

def buildValues (rows : List (KRow Nat SVal)) : M (Option (List XVal)) :=
  if rows.isEmpty then .ok none
  else
    match fillValues (List.replicate rows.length (XVal.fin 0)) rows with
    | .error f => .error f
    | .ok arr => .ok (some arr)

/-- `{v.step: decode(v) for v in trial.intermediate_values}` -/
def buildInter : List (Int × XVal) → List (KRow Int SIVal) → M (List (Int × XVal))
  | d, [] => .ok d
  | d, r :: rest =>
    match decI r.val with
    | none => .error .assertion
    | some v => buildInter (kvSet d r.key v) rest

def buildTrial (s : State) (r : TrialRow) : M TrialS :=
  match buildValues (Tbl.ofOwner s.values r.id) with
  | .error f => .error f
  | .ok values =>
    match buildInter [] (Tbl.ofOwner s.inters r.id) with
    | .error f => .error f
    | .ok inter =>
      .ok { study := r.study, number := r.number, state := r.state, values := values,
            -- `sorted(trial.params, key=lambda p: p.param_id)` = table order
            params := Tbl.toDict id (Tbl.ofOwner s.params r.id),
            userAttrs := Tbl.toDict id (Tbl.ofOwner s.tUser r.id),
            systemAttrs := Tbl.toDict id (Tbl.ofOwner s.tSys r.id),
            inter := inter, hasStart := r.hasStart, hasComplete := r.hasComplete }

def buildTrials (s : State) : List TrialRow → M (List (Nat × TrialS))
  | [] => .ok []
  | r :: rest =>
    match buildTrial s r with
    | .error f => .error f
    | .ok t =>
      match buildTrials s rest with
      | .error f => .error f
      | .ok l => .ok ((r.id, t) :: l)

/-- `get_trial` -/
def getTrial (s : State) (tid : Nat) : M (Nat × TrialS) :=
  match findTrial s tid with
  | .error f => .error f
  | .ok r =>
    match buildTrial s r with
    | .error f => .error f
    | .ok t => .ok (r.id, t)

/-- `_get_trials(study_id, states, included_trial_ids, trial_id_greater_than)` -/
def getTrials (s : State) (sid : Nat) (states : Option (List TState)) (included : List Nat)
    (greaterThan : Int) : M (List (Nat × TrialS)) :=
  let included := included.filter (fun (i : Nat) => decide ((i : Int) ≤ greaterThan))
  match findStudy s sid with
  | .error f => .error f
  | .ok _ =>
    let q := s.trials.filter (fun r => r.study == sid)
    let q := match states with
      | none => q
      | some l => q.filter (fun r => l.contains r.state)
    let q :=
      if included.length > 0 && greaterThan > -1 then
        q.filter (fun r => included.contains r.id || decide ((r.id : Int) > greaterThan))
      else if greaterThan > -1 then q.filter (fun r => decide ((r.id : Int) > greaterThan))
      else q
    buildTrials s q

/-! ## `_get_prepared_new_trial` -/

/-- `FrozenTrial.value` (`none` inside = Python `None`) -/
def templateValue (values : Option (List XVal)) : M (Option XVal) :=
  match values with
  | none => .ok none
  | some [] => .error .indexError
  | some [v] => .ok (some v)
  | some _ => .error (.api .runtimeError)

/-- the `values` / `value` part of `_get_prepared_new_trial`:
`if values is not None and len(values) > 1: for objective, value in enumerate(values): … elif value is not None: …` -/
def templateValuesNC (s : State) (tid : Nat) : Option (List XVal) → M State
  | some (v0 :: v1 :: rest) => setValuesNC s tid 0 (v0 :: v1 :: rest)
  | vs =>
    match templateValue vs with
    | .error f => .error f
    | .ok none => .ok s
    | .ok (some v) => setValueNC s tid 0 v

def prepareNewTrial (s : State) (sid : Nat) (tmpl : Option Template) : M (State × Nat) :=
  let tid := s.nTrial
  match tmpl with
  | none =>
    let row : TrialRow := { id := tid, number := 0, study := sid, state := .running,
                            hasStart := true, hasComplete := false }
    let s1 := { s with trials := s.trials ++ [row], nTrial := s.nTrial + 1 }
    let n := (s1.trials.filter (fun r => r.study == sid && decide (r.id < tid))).length
    .ok ({ s1 with trials := s1.trials.map (fun r => if r.id == tid then { r with number := n } else r) }, tid)
  | some t =>
    let row : TrialRow := { id := tid, number := 0, study := sid, state := .running,
                            hasStart := t.hasStart, hasComplete := t.hasComplete }
    let s1 := { s with trials := s.trials ++ [row], nTrial := s.nTrial + 1 }
    match templateValuesNC s1 tid t.values with
    | .error f => .error f
    | .ok s2 =>
    match forEachNC (fun s k p => setParamNC s tid k p) s2 t.params with
    | .error f => .error f
    | .ok s3 =>
    match forEachNC (fun s k v => setTAttrNC false s tid k v) s3 t.userAttrs with
    | .error f => .error f
    | .ok s4 =>
    match forEachNC (fun s k v => setTAttrNC true s tid k v) s4 t.systemAttrs with
    | .error f => .error f
    | .ok s5 =>
    match forEachNC (fun s k v => setInterNC s tid k v) s5 t.inter with
    | .error f => .error f
    | .ok s6 =>
      -- `trial.state = template_trial.state`, then `trial.number = trial.count_past_trials(session)`
      let n := (s6.trials.filter (fun r => r.study == sid && decide (r.id < tid))).length
      .ok ({ s6 with trials := s6.trials.map (fun r =>
                if r.id == tid then { r with state := t.state, number := n } else r) }, tid)

/-! ## best trial: `find_{min,max}_value_trial_id` -/

def dirOfCode (c : Nat) : Best.Dir := if c == 2 then .maximize else .minimize

/-- the member-name keyed `case({...}, value=value_type)` table is the one of Generated/Best.lean -/
def toBestVal (x : SVal) : Option Rat × Best.VType :=
  (match x.1 with
    | some (.fin q) => some q
    | _ => none,
   match x.2 with
    | .FINITE => .finite
    | .INF_POS => .infPos
    | .INF_NEG => .infNeg)

/-- `trials JOIN trial_values WHERE study_id = … AND state = COMPLETE AND objective = …` -/
def bestCandidates (s : State) (sid objective : Nat) : List (Nat × SVal) :=
  (s.trials.filter (fun r => r.study == sid && r.state == .complete)).flatMap (fun r =>
    (Tbl.atKey s.values r.id objective).map (fun v => (r.id, v.val)))

def findBestTrialId (s : State) (sid : Nat) (useMax : Bool) : M Nat :=
  match Best.firstBest (fun y cur => Best.sqlBefore useMax (toBestVal y.2) (toBestVal cur.2))
      (bestCandidates s sid Generated.Best.rdbObjectiveIndex) with
  | none => .error (.api .valueError)
  | some x => .ok x.1

/-! ## the public methods -/

def getDirections (s : State) (sid : Nat) : M (List Nat) :=
  match findStudy s sid with
  | .error f => .error f
  | .ok _ => .ok ((Tbl.ofOwner s.dirs sid).map (·.val))

/-- `get_study_id_from_name` -/
def studyIdFromName (s : State) (name : String) : M Nat :=
  match oneOrNone (s.studies.filter (fun r => r.name == name)) with
  | .error f => .error f
  | .ok none => .error (.api .keyError)
  | .ok (some r) => .ok r.id

def studyAttrs (sys : Bool) (s : State) (sid : Nat) : M (AList String) :=
  match findStudy s sid with
  | .error f => .error f
  | .ok _ => .ok (Tbl.toDict id (Tbl.ofOwner (if sys then s.sSys else s.sUser) sid))

def setStudyAttr (sys : Bool) (s : State) (sid : Nat) (k v : String) : M (State × Out) :=
  match findStudy s sid with
  | .error f => .error f
  | .ok _ =>
    if sys then
      match Tbl.upsert s.sSys s.nSSys sid k v with
      | .error f => .error f
      | .ok (t, n) => .ok ({ s with sSys := t, nSSys := n }, .unit)
    else
      match Tbl.upsert s.sUser s.nSUser sid k v with
      | .error f => .error f
      | .ok (t, n) => .ok ({ s with sUser := t, nSUser := n }, .unit)

/-- one `FrozenStudy` of `get_all_studies` (the `paramDist` component of the contract model is not
something a storage returns; it is `[]` here and ignored when answers are compared) -/
def frozenStudy (s : State) (r : StudyRow) : Nat × StudyS :=
  (r.id, { name := r.name, directions := (Tbl.ofOwner s.dirs r.id).map (·.val),
           userAttrs := Tbl.toDict id (Tbl.ofOwner s.sUser r.id),
           systemAttrs := Tbl.toDict id (Tbl.ofOwner s.sSys r.id), paramDist := [] })

def createStudy (s : State) (name : String) (dirs : List Nat) : M (State × Out) :=
  -- UNIQUE(study_name): IntegrityError → DuplicatedStudyError
  if s.studies.any (fun r => r.name == name) then .error (.api .duplicated)
  else
    let sid := s.nStudy
    let s' := { s with
      studies := s.studies ++ [{ id := sid, name := name }], nStudy := s.nStudy + 1,
      dirs := s.dirs ++ dirs.zipIdx.map (fun p => { id := s.nDir + p.2, owner := sid, key := p.2, val := p.1 }),
      nDir := s.nDir + dirs.length }
    match studyIdFromName s' name with
    | .error f => .error f
    | .ok i => .ok (s', .newId i)

def deleteStudy (s : State) (sid : Nat) : M (State × Out) :=
  match findStudy s sid with
  | .error f => .error f
  | .ok _ =>
    let dead := (s.trials.filter (fun r => r.study == sid)).map (·.id)
    .ok ({ s with
      studies := s.studies.filter (fun r => !(r.id == sid)),
      dirs := Tbl.dropOwners s.dirs [sid], sUser := Tbl.dropOwners s.sUser [sid],
      sSys := Tbl.dropOwners s.sSys [sid],
      trials := s.trials.filter (fun r => !(r.study == sid)),
      params := Tbl.dropOwners s.params dead, values := Tbl.dropOwners s.values dead,
      inters := Tbl.dropOwners s.inters dead, tUser := Tbl.dropOwners s.tUser dead,
      tSys := Tbl.dropOwners s.tSys dead, beats := Tbl.dropOwners s.beats dead }, .unit)

def createTrial (s : State) (sid : Nat) (tmpl : Option Template) : M (State × Out) :=
  match findStudy s sid with
  | .error f => .error f
  | .ok _ =>
    match prepareNewTrial s sid tmpl with
    | .error f => .error f
    | .ok (s', tid) => .ok (s', .newId tid)

def setTrialStateValues (s : State) (tid : Nat) (st : TState) (values : Option (List XVal)) :
    M (State × Out) :=
  match updatableTrial s tid with
  | .error f => .error f
  | .ok tr =>
    match writeValuesNC s tid values with
    | .error f => .error f
    | .ok s1 =>
      if st == .running && tr.state != .waiting then .ok (s1, .bool false)
      else
        let expected : List TState := if st == .running then [.waiting] else [.running, .waiting]
        let hit := fun (r : TrialRow) => r.id == tid && expected.contains r.state
        let nUpdated := (s1.trials.filter hit).length
        let s2 := { s1 with trials := s1.trials.map (fun r => if hit r then
            { r with state := st, hasStart := r.hasStart || st == .running,
                     hasComplete := r.hasComplete || st.isFinished } else r) }
        if nUpdated == 0 then
          if st == .running then .ok (s2, .bool false) else .error (.api .updateFinished)
        else .ok (s2, .bool true)

def getBestTrial (s : State) (sid : Nat) : M (State × Out) :=
  match getDirections s sid with
  | .error f => .error f
  | .ok dirs =>
    if dirs.length > 1 then .error (.api .runtimeError)
    else
      match dirs with
      | [] => .error .indexError
      | d :: _ =>
        match findBestTrialId s sid (Best.rdbUseMax (dirOfCode d)) with
        | .error f => .error f
        | .ok tid =>
          match getTrial s tid with
          | .error f => .error f
          | .ok (i, t) => .ok (s, .trial i t)

/-- `record_heartbeat` (not a `BaseStorage` method; kept because its table takes part in the cascade) -/
def recordHeartbeat (s : State) (tid : Nat) : State × Res :=
  commit s (match Tbl.upsert s.beats s.nBeat tid () () with
    | .error f => .error f
    | .ok (t, n) => .ok ({ s with beats := t, nBeat := n }, .unit))

def nc (m : M State) : M (State × Out) :=
  match m with
  | .error f => .error f
  | .ok s' => .ok (s', .unit)

def ro (s : State) (m : M Out) : M (State × Out) :=
  match m with
  | .error f => .error f
  | .ok o => .ok (s, o)

/-- One storage call.  The `implRaised` hints of `Storage.Op` are not looked at. -/
def step (s : State) (op : Op) : State × Res :=
  commit s <|
  match op with
  | .createStudy name dirs => createStudy s name dirs
  | .deleteStudy sid => deleteStudy s sid
  | .setStudyUserAttr sid k v => setStudyAttr false s sid k v
  | .setStudySystemAttr sid k v => setStudyAttr true s sid k v
  | .createTrial sid tmpl _ => createTrial s sid tmpl
  | .setTrialParam tid name p _ => nc (setParamNC s tid name p)
  | .setTrialStateValues tid st values => setTrialStateValues s tid st values
  | .setTrialInter tid stp v => nc (setInterNC s tid stp v)
  | .setTrialUserAttr tid k v => nc (setTAttrNC false s tid k v)
  | .setTrialSystemAttr tid k v => nc (setTAttrNC true s tid k v)
  | .getStudyIdFromName name => ro s ((studyIdFromName s name).map .nat)
  | .getStudyNameFromId sid => ro s ((findStudy s sid).map (fun r => .str r.name))
  | .getStudyDirections sid => ro s ((getDirections s sid).map .nats)
  | .getStudyUserAttrs sid => ro s ((studyAttrs false s sid).map .attrs)
  | .getStudySystemAttrs sid => ro s ((studyAttrs true s sid).map .attrs)
  | .getAllStudies => .ok (s, .studies (s.studies.map (frozenStudy s)))
  | .getTrialIdFromNumber sid number =>
    ro s (match oneOrNone (s.trials.filter (fun r => r.number == number && r.study == sid)) with
      | .error f => .error f
      | .ok none => .error (.api .keyError)
      | .ok (some r) => .ok (.nat r.id))
  | .getTrialNumberFromId tid => ro s ((getTrial s tid).map (fun p => .nat p.2.number))
  | .getTrialParam tid name =>
    ro s (match findTrial s tid with
      | .error f => .error f
      | .ok _ =>
        match oneOrNone (Tbl.atKey s.params tid name) with
        | .error f => .error f
        | .ok none => .error (.api .keyError)
        | .ok (some r) => .ok (.str r.val.internal))
  | .getTrial tid => ro s ((getTrial s tid).map (fun p => .trial p.1 p.2))
  | .getAllTrials sid states => ro s ((getTrials s sid states [] (-1)).map .trials)
  | .getNTrials sid states => ro s ((getTrials s sid states [] (-1)).map (fun l => .nat l.length))
  | .getBestTrial sid => getBestTrial s sid

def run (ops : List Op) : State := ops.foldl (fun s op => (step s op).1) init

def runOut : State → List Op → List Res
  | _, [] => []
  | s, op :: rest => (step s op).2 :: runOut (step s op).1 rest

end OptunaVerif.Rdb
