import OptunaVerif.Model.Pruners
/-
  A small statement language for the GLUE between the objective and the pruner, and its interpreter over the data of
  `Model/Pruners.lean`:
    optuna/trial/_trial.py      `Trial.report`, `Trial.should_prune` (+ `_get_latest_trial` as a pinned fact)
    optuna/trial/_fixed.py      `FixedTrial.report` / `should_prune`
    optuna/trial/_frozen.py     `FrozenTrial.report` / `should_prune`
    optuna/pruners/__init__.py  `_filter_study`
  (the `prune` methods themselves — NopPruner, PatientPruner's delegation, Hyperband's bracket choice — are pinned by
  `Generated/PrunersSkel.lean`; `Props/C16ReportGen.lean` states the delegation facts over that data, nothing is translated twice.)

  `verif/translators/treport.py` regenerates `Generated/ReportMethods.lean` on every run; `Props/C16ReportGen.lean` proves
  `interp generated = hand model` for all inputs and carries the protections of `Props/C16.lean` over to histories of
  `report` / `should_prune` calls.

  Meaning given here (modelled, not derived): each primitive stands for ONE whitelisted source shape (quoted next to its
  constructor).  `float(value)` / `int(step)` are given as their results (`none` = the conversion raises TypeError/ValueError, which
  the `try` turns into TypeError); `storage.set_trial_intermediate_value` either succeeds or raises (finished trial); the cached
  `FrozenTrial` is a `PTrial` whose `intermediate_values` is an insertion-ordered association list (`d[k] = v` appends a new key,
  overwrites an existing one in place); `copy.copy(self._cached_frozen_trial)` is a NEW object with the same attribute values:
  whatever the pruner does to the object it is handed reaches the cache only if it was handed the cached object itself;
  `warnings.warn` is counted; the pruner is a parameter `PTrial → Bool × PTrial` (decision, the handed object afterwards).
-/
namespace OptunaVerif.ReportIR
open OptunaVerif OptunaVerif.Pruners

/-! ## the generic statement language (with `break` / `continue`) -/

inductive Err where
  | valueError | typeError | notImplemented | storageError | assertion
  /-- a local is unbound / the method was untranslatable / a value of the wrong kind is returned -/
  | unrepresentable
deriving DecidableEq, Repr, Inhabited

inductive Flow (V : Type) where
  | next
  | cont                    -- `continue`
  | brk                     -- `break`
  | ret (v : V)
  | raised (e : Err)
deriving Repr

inductive Stmt (C A L R : Type) where
  | skip
  | seq (a b : Stmt C A L R)
  | ite (c : C) (t e : Stmt C A L R)
  | act (a : A)
  | loop (l : L) (body : Stmt C A L R)
  | ret (r : R)
  | raise (e : Err)
  | cont
  | brk
deriving Repr, Inhabited

def block {C A L R : Type} : List (Stmt C A L R) → Stmt C A L R
  | [] => .skip
  | [s] => s
  | s :: rest => .seq s (block rest)

structure Sem (C A L R E V : Type) where
  cond : E → C → Except Err Bool
  act : E → A → Except Err E
  /-- the iterations of a loop, fixed at loop entry: how each one binds the loop variable -/
  iter : E → L → Except Err (List (E → E))
  retv : E → R → Except Err V

/-- `for`: `continue` goes on with the next item, `break` leaves the loop normally -/
def loopAux {E V : Type} (f : E → E × Flow V) : List (E → E) → E → E × Flow V
  | [], env => (env, .next)
  | b :: rest, env =>
    match f (b env) with
    | (env', .next) => loopAux f rest env'
    | (env', .cont) => loopAux f rest env'
    | (env', .brk) => (env', .next)
    | res => res

def andThen {E V : Type} (r : E × Flow V) (k : E → E × Flow V) : E × Flow V :=
  match r with
  | (env', .next) => k env'
  | res => res

/-- THE interpreter -/
def exec {C A L R E V : Type} (sem : Sem C A L R E V) : Stmt C A L R → E → E × Flow V
  | .skip, env => (env, .next)
  | .seq a b, env => andThen (exec sem a env) (fun e => exec sem b e)
  | .ite c t e, env =>
    match sem.cond env c with
    | .error x => (env, .raised x)
    | .ok true => exec sem t env
    | .ok false => exec sem e env
  | .act a, env =>
    match sem.act env a with
    | .error x => (env, .raised x)
    | .ok env' => (env', .next)
  | .loop l body, env =>
    match sem.iter env l with
    | .error x => (env, .raised x)
    | .ok bs => loopAux (fun e => exec sem body e) bs env
  | .ret r, env =>
    match sem.retv env r with
    | .error x => (env, .raised x)
    | .ok v => (env, .ret v)
  | .raise x, env => (env, .raised x)
  | .cont, env => (env, .cont)
  | .brk, env => (env, .brk)

/-! ## the vocabulary -/

inductive RCond where
  | not (c : RCond)
  | and (a b : RCond)
  | or (a b : RCond)
  | multiObjective             -- `len(self.study.directions) > 1`
  | stepLt (k : Int)           -- `step < <k>`
  | stepInCached               -- `step in self._cached_frozen_trial.intermediate_values`
  | valueIsNan                 -- `math.isnan(value)`
  | prunerIsHyperband          -- `isinstance(study.pruner, HyperbandPruner)`
deriving DecidableEq, Repr, Inhabited

inductive TrialSrc where
  | latestCopy                 -- `self._get_latest_trial()`
  | liveCached                 -- `self._cached_frozen_trial`
deriving DecidableEq, Repr, Inhabited

inductive RAct where
  /-- `try: value = float(value)` / `except (TypeError, ValueError): … raise TypeError(message) from None` -/
  | valueToFloat
  /-- `try: step = int(step)` / `except (TypeError, ValueError): … raise TypeError(message) from None` -/
  | stepToInt
  | warnDuplicate              -- `warnings.warn(f"The reported value is ignored because this `step` {step} is already reported.")`
  | storageWrite               -- `self.storage.set_trial_intermediate_value(self._trial_id, step, value)`
  | cacheSet                   -- `self._cached_frozen_trial.intermediate_values[step] = value`
  | setTrial (src : TrialSrc)  -- `trial = <src>`
  | bindHyperband              -- `pruner: HyperbandPruner = study.pruner`
deriving DecidableEq, Repr, Inhabited

inductive RLoop where
  | never
deriving DecidableEq, Repr, Inhabited

inductive RRet where
  | none
  | bool (b : Bool)            -- `return True` / `return False`
  | prunerCall                 -- `return self.study.pruner.prune(self.study, trial)`
  /-- `return pruner._create_bracket_study(study, pruner._get_bracket_id(study, trial))` -/
  | bracketStudy
  | study                      -- `return study`
deriving DecidableEq, Repr, Inhabited

abbrev RStmt := Stmt RCond RAct RLoop RRet

structure RIn where
  nDirs : Nat
  rawValue : Option XVal       -- `float(value)`
  rawStep : Option Int         -- `int(step)`
  storageOk : Bool
  prunerF : PTrial → Bool × PTrial
  latestIsCopy : Bool          -- `_get_latest_trial` builds `copy.copy(self._cached_frozen_trial)`
  isHyperband : Bool
  bracketIdF : Nat → Nat
  bracketView : Nat → List PTrial
  trials : List PTrial
  number : Nat

structure REnv where
  inp : RIn
  cached : PTrial
  writes : List (Int × XVal)
  warned : Bool
  value : Option XVal
  stp : Option Int
  /-- the local `trial` and whether it IS the cached object -/
  trial : Option (PTrial × Bool)

def RIn.init : RIn :=
  { nDirs := 1, rawValue := none, rawStep := none, storageOk := true, prunerF := fun t => (false, t), latestIsCopy := true,
    isHyperband := false, bracketIdF := fun _ => 0, bracketView := fun _ => [], trials := [], number := 0 }

def REnv.ofIn (inp : RIn) (cached : PTrial) : REnv :=
  { inp := inp, cached := cached, writes := [], warned := false, value := none, stp := none, trial := none }

inductive RVal where
  | none | bool (b : Bool) | view (l : List PTrial)

def evalRCond (env : REnv) : RCond → Except Err Bool
  | .not c => match evalRCond env c with
    | .ok b => .ok (!b)
    | .error x => .error x
  | .and a b => match evalRCond env a with
    | .ok true => evalRCond env b
    | .ok false => .ok false
    | .error x => .error x
  | .or a b => match evalRCond env a with
    | .ok true => .ok true
    | .ok false => evalRCond env b
    | .error x => .error x
  | .multiObjective => .ok (decide (1 < env.inp.nDirs))
  | .stepLt k => match env.stp with
    | some s => .ok (decide (s < k))
    | none => .error .unrepresentable
  | .stepInCached => match env.stp with
    | some s => .ok (interGet env.cached.inter s).isSome
    | none => .error .unrepresentable
  | .valueIsNan => match env.value with
    | some v => .ok (xisNan v)
    | none => .error .unrepresentable
  | .prunerIsHyperband => .ok env.inp.isHyperband

/-- `d[k] = v` on an insertion-ordered dict -/
def interSet : List (Int × XVal) → Int → XVal → List (Int × XVal)
  | [], k, v => [(k, v)]
  | (s, w) :: rest, k, v => if s = k then (s, v) :: rest else (s, w) :: interSet rest k v

def doRAct (env : REnv) : RAct → Except Err REnv
  | .valueToFloat => match env.inp.rawValue with
    | some v => .ok { env with value := some v }
    | none => .error .typeError
  | .stepToInt => match env.inp.rawStep with
    | some s => .ok { env with stp := some s }
    | none => .error .typeError
  | .warnDuplicate => .ok { env with warned := true }
  | .storageWrite => match env.value, env.stp with
    | some v, some s => if env.inp.storageOk then .ok { env with writes := env.writes ++ [(s, v)] } else .error .storageError
    | _, _ => .error .unrepresentable
  | .cacheSet => match env.value, env.stp with
    | some v, some s => .ok { env with cached := { env.cached with inter := interSet env.cached.inter s v } }
    | _, _ => .error .unrepresentable
  | .setTrial .latestCopy => .ok { env with trial := some (env.cached, !env.inp.latestIsCopy) }
  | .setTrial .liveCached => .ok { env with trial := some (env.cached, true) }
  | .bindHyperband => if env.inp.isHyperband then .ok env else .error .typeError

def iterR (_ : REnv) : RLoop → Except Err (List (REnv → REnv))
  | .never => .ok []

/-- a `return` that calls the pruner also records what the call did to the object it was handed -/
def retR (env : REnv) : RRet → Except Err RVal
  | .none => .ok .none
  | .bool b => .ok (.bool b)
  | .prunerCall => match env.trial with
    | some (t, _) => .ok (.bool (env.inp.prunerF t).1)
    | none => .error .unrepresentable
  | .bracketStudy => .ok (.view (env.inp.bracketView (env.inp.bracketIdF env.inp.number)))
  | .study => .ok (.view env.inp.trials)

def reportSem : Sem RCond RAct RLoop RRet REnv RVal :=
  { cond := evalRCond, act := doRAct, iter := iterR, retv := retR }

def errOf : Err → ReportErr
  | .valueError => .valueError
  | .typeError => .typeError
  | .notImplemented => .notImplemented
  | .storageError => .storageError
  | _ => .typeError

/-- `Trial.report(value, step)` -/
def interpReport (body : RStmt) (o : TrialObj) (value : Option XVal) (stp : Option Int) (storageOk : Bool) :
    Except Err ReportResult :=
  match exec reportSem body (REnv.ofIn { RIn.init with nDirs := o.nDirs, rawValue := value, rawStep := stp, storageOk := storageOk } o.cached) with
  | (_, .raised .unrepresentable) => .error .unrepresentable
  | (_, .raised .assertion) => .error .assertion
  | (env, .raised e) => .ok ⟨{ o with cached := env.cached }, env.writes, env.warned, some (errOf e)⟩
  | (env, .next) => .ok ⟨{ o with cached := env.cached }, env.writes, env.warned, none⟩
  | (env, .ret .none) => .ok ⟨{ o with cached := env.cached }, env.writes, env.warned, none⟩
  | (_, _) => .error .unrepresentable

/-- `Trial.should_prune()`: the object afterwards (the cache is what the pruner left in it when it was handed the cached
object itself) and the answer (`none` = NotImplementedError) -/
def interpShouldPrune (body : RStmt) (latestIsCopy : Bool) (o : TrialObj) (prunerF : PTrial → Bool × PTrial) :
    Except Err (TrialObj × Option Bool) :=
  match exec reportSem body (REnv.ofIn { RIn.init with nDirs := o.nDirs, prunerF := prunerF, latestIsCopy := latestIsCopy } o.cached) with
  | (_, .raised .notImplemented) => .ok (o, none)
  | (env, .ret (.bool b)) =>
    match env.trial with
    | some (t, true) => .ok ({ o with cached := (prunerF t).2 }, some b)
    | _ => .ok (o, some b)
  | (_, .raised e) => .error e
  | (_, _) => .error .unrepresentable

/-- `FixedTrial` / `FrozenTrial` `.report` (nothing happens) and `.should_prune` (a constant) -/
def interpInertReport (body : RStmt) (o : TrialObj) (value : Option XVal) (stp : Option Int) : Except Err ReportResult :=
  interpReport body o value stp true

def interpConstPrune (body : RStmt) : Except Err Bool :=
  match exec reportSem body (REnv.ofIn RIn.init default) with
  | (_, .ret (.bool b)) => .ok b
  | (_, .raised e) => .error e
  | (_, _) => .error .unrepresentable

/-- `pruners._filter_study(study, trial)` -/
def interpFilterStudy (body : RStmt) (isHyperband : Bool) (bracketIdF : Nat → Nat) (bracketView : Nat → List PTrial)
    (trials : List PTrial) (n : Nat) : Except Err (List PTrial) :=
  match exec reportSem body (REnv.ofIn { RIn.init with isHyperband := isHyperband, bracketIdF := bracketIdF, bracketView := bracketView,
                                                       trials := trials, number := n } default) with
  | (_, .ret (.view l)) => .ok l
  | (_, .raised e) => .error e
  | (_, _) => .error .unrepresentable

/-- the generated glue -/
structure ReportProg where
  report : RStmt
  shouldPrune : RStmt
  /-- `_get_latest_trial`: `latest_trial = copy.copy(self._cached_frozen_trial)` … `return latest_trial` -/
  latestIsCopy : Bool
  fixedReport : RStmt
  fixedShouldPrune : RStmt
  frozenReport : RStmt
  frozenShouldPrune : RStmt
  filterStudy : RStmt

/-! ## histories of calls through the generated glue -/

/-- `Pruners.step` with `Trial.report` / `Trial.should_prune` run by the interpreter of the generated methods on the trial
object (single-objective study; the storage refuses a write to a finished trial) -/
def stepG (P : ReportProg) (crc : Nat → Nat) (s : Study) : Op → Study × Option Bool
  | .report n st v =>
    match s.trials[n]? with
    | none => (s, none)
    | some t =>
      match interpReport P.report ⟨1, t⟩ (some v) (some st) (t.state == .running) with
      | .ok r => ({ s with trials := updAt s.trials n (fun _ => r.obj.cached) }, none)
      | .error _ => (s, none)
  | .shouldPrune n p =>
    match s.trials[n]? with
    | none => (s, none)
    | some t =>
      if t.state != .running then (s, none)
      else
        match interpShouldPrune P.shouldPrune P.latestIsCopy ⟨1, t⟩ (fun tr => ((prune crc s n tr p).prune, tr)) with
        | .ok (_, some b) => ({ s with trials := updAt s.trials n (fun t' => applyWrites t' (prune crc s n t p)) }, some b)
        | _ => (s, none)
  | op => step crc s op

def afterG (P : ReportProg) (crc : Nat → Nat) (s : Study) (ops : List Op) : Study :=
  ops.foldl (fun s op => (stepG P crc s op).1) s

end OptunaVerif.ReportIR
