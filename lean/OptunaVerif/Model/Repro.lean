import OptunaVerif.Model.Storage
/-
  The sequential optimisation loop (`Study.optimize(n_jobs=1)` → `_optimize_sequential` →
  `_run_trial` → `Study.ask` / objective / `_tell_with_warning`; optuna/study/_optimize.py,
  optuna/study/study.py, optuna/study/_tell.py, optuna/trial/_trial.py) over

  * an ABSTRACT sampler/pruner pair (`Algo ρ`): pure functions of the in-process state `ρ` of the
    sampler and pruner objects (RNG state, caches, lazily initialised brackets) and of the
    *id-erased* history (`View`: the study record and its trials in number order, without trial or
    study ids).  Whatever the pair wants to remember in the storage it returns as a list of
    `Write`s, which the loop addresses to the current trial / the study — the model's way of saying
    "every use of `_trial_id` is an argument of a storage call on the current trial" (checked
    syntactically on the source by the T-sites translator);
  * an ABSTRACT storage (`Store`): any state type, any type of trial handles (ids).

  `specStore` instantiates `Store` with the storage contract model (`Storage.step`) started in an
  arbitrary state (any other studies and trials, hence any id offsets); `viewStore` is the
  canonical id-free storage whose handles are trial numbers.  Core Lean only.
-/
namespace OptunaVerif.Repro
open OptunaVerif OptunaVerif.Storage

/-! ### objective programs (define-by-run) -/

/-- A deterministic objective as an interaction tree: what it does next may depend on every value
it was handed so far.  Parameter values travel as exact tokens of the internal representation. -/
inductive Prog where
  | suggest (name : String) (d : Dist) (k : String → Prog)
  | report (step : Int) (v : XVal) (k : Prog)
  | shouldPrune (k : Bool → Prog)
  | setUserAttr (key val : String) (k : Prog)
  /-- `return values` -/
  | ret (values : List XVal)
  /-- `raise TrialPruned` -/
  | prune
  /-- any other exception (caught by `catch`) -/
  | fail
deriving Inhabited

inductive Outcome where
  | complete (vs : List XVal) | pruned | failed
deriving DecidableEq, Repr, Inhabited

/-! ### what samplers and pruners see, and what they may do -/

/-- The id-erased study: its record and its trials in number order (`study` field zeroed). -/
structure View where
  study : StudyS
  trials : List TrialS
deriving DecidableEq, Repr, Inhabited

def eraseT (t : TrialS) : TrialS := { t with study := 0 }

inductive Write where
  /-- `storage.set_trial_system_attr(trial._trial_id, k, v)` on the current trial -/
  | trialSys (k v : String)
  /-- `storage.set_study_system_attr(study._study_id, k, v)` -/
  | studySys (k v : String)
deriving DecidableEq, Repr, Inhabited

/-- The sampler/pruner pair of a study.  `ρ` is everything the two Python objects hold in process
memory (seeded `RandomState`s, `_search_space` cursors, Hyperband's lazily built brackets, the
per-trial relative-sampling memo, `study._thread_local.cached_all_trials`). -/
structure Algo (ρ : Type) where
  /-- `sampler.before_trial` + `infer_relative_search_space` -/
  beforeTrial : ρ → View → TrialS → ρ × List Write
  /-- `sample_relative` (memoised in `ρ`) / `sample_independent`: value for one parameter -/
  sample : ρ → View → TrialS → String → Dist → ρ × List Write × String
  /-- `pruner.prune` -/
  prune : ρ → View → TrialS → ρ × List Write × Bool
  /-- `sampler.after_trial` -/
  afterTrial : ρ → View → TrialS → TState → Option (List XVal) → ρ × List Write
  /-- `sampler.reseed_rng()` (fresh OS entropy: the one thing that is *not* reproducible) -/
  reseed : ρ → ρ

/-! ### abstract storage -/

structure Store where
  σ : Type
  /-- trial handles: the storage's trial ids -/
  H : Type
  /-- `get_all_trials(study_id)` + study record, ids erased (`none`: the study does not exist) -/
  view : σ → Option View
  /-- `get_trial(trial_id)`, study id erased -/
  cur : σ → H → Option TrialS
  /-- `Study.ask`: claim the first WAITING trial, else `create_new_trial` -/
  ask : σ → σ × Option H
  /-- `set_trial_param`; `false` = the storage raised -/
  setParam : σ → H → String → Param → σ × Bool
  setInter : σ → H → Int → XVal → σ
  setUserAttr : σ → H → String → String → σ
  write : σ → H → Write → σ
  /-- `set_trial_state_values(trial_id, state, values)` -/
  finish : σ → H → TState → Option (List XVal) → σ

/-! ### one trial -/

def applyWrites (S : Store) (s : S.σ) (h : S.H) (ws : List Write) : S.σ :=
  ws.foldl (fun s w => S.write s h w) s

/-- Run the objective.  `Trial._suggest`: a name already suggested in this trial returns the stored
value (after the compatibility check); otherwise the sampler is asked and the value is written with
`set_trial_param`.  `Trial.report`: a step already reported is ignored.  `Trial.should_prune`
consults the pruner on the latest trial record. -/
def runProg {ρ : Type} (S : Store) (A : Algo ρ) (h : S.H) : Prog → S.σ → ρ → S.σ × ρ × Outcome
  | .suggest name d k, s, r =>
    match S.cur s h, S.view s with
    | some cur, some vw =>
      match cur.params.get? name with
      | some p => if p.dist.compat d then runProg S A h (k p.internal) s r else (s, r, .failed)
      | none =>
        let a := A.sample r vw cur name d
        let s1 := applyWrites S s h a.2.1
        let w := S.setParam s1 h name ⟨a.2.2, d⟩
        if w.2 then runProg S A h (k a.2.2) w.1 a.1 else (w.1, a.1, .failed)
    | _, _ => (s, r, .failed)
  | .report stp v k, s, r =>
    match S.cur s h with
    | some cur =>
      if (cur.inter.lookup stp).isSome then runProg S A h k s r
      else runProg S A h k (S.setInter s h stp v) r
    | none => (s, r, .failed)
  | .shouldPrune k, s, r =>
    match S.cur s h, S.view s with
    | some cur, some vw =>
      let a := A.prune r vw cur
      runProg S A h (k a.2.2) (applyWrites S s h a.2.1) a.1
    | _, _ => (s, r, .failed)
  | .setUserAttr key val k, s, r => runProg S A h k (S.setUserAttr s h key val) r
  | .ret vs, s, r => (s, r, .complete vs)
  | .prune, s, r => (s, r, .pruned)
  | .fail, s, r => (s, r, .failed)

/-- `_check_values_are_feasible`: no NaN, one value per objective. -/
def feasible (nObj : Nat) (vs : List XVal) : Bool :=
  vs.all (fun v => v != .nan) && vs.length == nObj

/-- `FrozenTrial.last_step` / the value stored there. -/
def lastInter : List (Int × XVal) → Option (Int × XVal)
  | [] => none
  | (s, v) :: rest =>
    match lastInter rest with
    | none => some (s, v)
    | some (s', v') => if s' > s then some (s', v') else some (s, v)

/-- `_tell_with_warning`: state and values that are stored for an outcome. -/
def tellOf (nObj : Nat) (cur : TrialS) : Outcome → TState × Option (List XVal)
  | .complete vs => if feasible nObj vs then (.complete, some vs) else (.fail, none)
  | .pruned =>
    match lastInter cur.inter with
    | some (_, v) => if feasible nObj [v] then (.pruned, some [v]) else (.pruned, none)
    | none => (.pruned, none)
  | .failed => (.fail, none)

/-- `_run_trial`: ask, `Trial.__init__` (before_trial), objective, tell (after_trial, then the
state/values write). -/
def runTrial {ρ : Type} (S : Store) (A : Algo ρ) (obj : Nat → Prog) (s : S.σ) (r : ρ) : S.σ × ρ :=
  match S.ask s with
  | (s1, none) => (s1, r)
  | (s1, some h) =>
    match S.cur s1 h, S.view s1 with
    | some cur, some vw =>
      let b := A.beforeTrial r vw cur
      let s2 := applyWrites S s1 h b.2
      let o := runProg S A h (obj cur.number) s2 b.1
      match S.cur o.1 h, S.view o.1 with
      | some cur3, some vw3 =>
        let tv := tellOf vw3.study.directions.length cur3 o.2.2
        let a := A.afterTrial o.2.1 vw3 cur3 tv.1 tv.2
        (S.finish (applyWrites S o.1 h a.2) h tv.1 tv.2, a.1)
      | _, _ => (o.1, o.2.1)
    | _, _ => (s1, r)

/-- `_optimize_sequential(n_trials = n, reseed_sampler_rng = reseed)`. -/
def optimizeSeq {ρ : Type} (S : Store) (A : Algo ρ) (obj : Nat → Prog) (reseed : Bool) :
    Nat → S.σ → ρ → S.σ × ρ
  | 0, s, r => (s, if reseed then A.reseed r else r)
  | n + 1, s, r =>
    let p := optimizeSeq S A obj reseed n s r
    runTrial S A obj p.1 p.2

/-- Trials only: `n` iterations of `_run_trial`. -/
def runTrials {ρ : Type} (S : Store) (A : Algo ρ) (obj : Nat → Prog) : Nat → S.σ → ρ → S.σ × ρ
  | 0, s, r => (s, r)
  | n + 1, s, r =>
    let p := runTrials S A obj n s r
    runTrial S A obj p.1 p.2

/-- A run split into several `study.optimize(obj, n_trials = nᵢ)` calls on the same study and
sampler objects. -/
def runCalls {ρ : Type} (S : Store) (A : Algo ρ) (obj : Nat → Prog) (reseed : Bool) :
    List Nat → S.σ → ρ → S.σ × ρ
  | [], s, r => (s, r)
  | n :: rest, s, r =>
    let p := optimizeSeq S A obj reseed n s r
    runCalls S A obj reseed rest p.1 p.2

/-! ### the storage contract model as a `Store` -/

def firstWaiting : List (Nat × TrialS) → Option Nat
  | [] => none
  | (i, t) :: rest => if t.state == .waiting then some i else firstWaiting rest

def specView (sid : Nat) (s : Spec) : Option View :=
  (s.study? sid).map (fun st => ⟨st, (s.trialsOf sid).map (fun p => eraseT p.2)⟩)

/-- The contract model, addressed at study `sid`, in whatever state it is (other studies, other
trials, deleted studies: every id offset).  `ir` is the one backend-specific looseness of the
contract (U1: whether a distribution that conflicts with a *template* trial is rejected). -/
def specStore (sid : Nat) (ir : Bool) : Store where
  σ := Spec
  H := Nat
  view := specView sid
  cur := fun s h => (s.trial? h).map eraseT
  ask := fun s =>
    match firstWaiting (s.trialsOf sid) with
    | some tid =>
      match step s (.setTrialStateValues tid .running none) with
      | (s', .bool true) => (s', some tid)
      | (s', _) => (s', none)
    | none =>
      match step s (.createTrial sid none false) with
      | (s', .newId tid) => (s', some tid)
      | (s', _) => (s', none)
  setParam := fun s h name p =>
    match step s (.setTrialParam h name p ir) with
    | (s', .unit) => (s', true)
    | (s', _) => (s', false)
  setInter := fun s h stp v => (step s (.setTrialInter h stp v)).1
  setUserAttr := fun s h k v => (step s (.setTrialUserAttr h k v)).1
  write := fun s h w =>
    match w with
    | .trialSys k v => (step s (.setTrialSystemAttr h k v)).1
    | .studySys k v => (step s (.setStudySystemAttr sid k v)).1
  finish := fun s h st vals => (step s (.setTrialStateValues h st vals)).1

/-! ### the canonical id-free storage: handles are trial numbers -/

def firstWaitingIdx : List TrialS → Nat → Option Nat
  | [], _ => none
  | t :: rest, i => if t.state == .waiting then some i else firstWaitingIdx rest (i + 1)

def View.updTrial (v : View) (n : Nat) (f : TrialS → TrialS) : View :=
  { v with trials := updAt v.trials n f }

def View.writable (v : View) (n : Nat) : Option TrialS :=
  match v.trials[n]? with
  | none => none
  | some t => if t.state.isFinished then none else some t

def View.templateConflict (v : View) (name : String) (d : Dist) : Bool :=
  v.trials.any (fun t => match t.params.get? name with
    | some q => !(q.dist.compat d)
    | none => false)

/-- The record update of `set_trial_state_values` (the same expression as in `Storage.step`). -/
def finishUpd (st : TState) (vals : Option (List XVal)) (t : TrialS) : TrialS :=
  { t with
    state := st,
    values := vals.or t.values,
    hasStart := t.hasStart || st == .running,
    hasComplete := t.hasComplete || st.isFinished }

def viewStore (ir : Bool) : Store where
  σ := View
  H := Nat
  view := fun v => some v
  cur := fun v n => v.trials[n]?
  ask := fun v =>
    match firstWaitingIdx v.trials 0 with
    | some n => (v.updTrial n (finishUpd .running none), some n)
    | none => ({ v with trials := v.trials ++ [mkTrial 0 v.trials.length none] }, some v.trials.length)
  setParam := fun v n name p =>
    match v.writable n with
    | none => (v, false)
    | some _ =>
      if v.study.fixedConflict name p.dist then (v, false)
      else if v.templateConflict name p.dist && ir then (v, false)
      else
        ({ study := { v.study with paramDist := v.study.paramDist.set name p.dist },
           trials := updAt v.trials n (fun t => { t with params := t.params.set name p }) }, true)
  setInter := fun v n stp x =>
    match v.writable n with
    | none => v
    | some _ => v.updTrial n (fun t => { t with inter := setInter t.inter stp x })
  setUserAttr := fun v n k x =>
    match v.writable n with
    | none => v
    | some _ => v.updTrial n (fun t => { t with userAttrs := t.userAttrs.set k x })
  write := fun v n w =>
    match w with
    | .trialSys k x =>
      match v.writable n with
      | none => v
      | some _ => v.updTrial n (fun t => { t with systemAttrs := t.systemAttrs.set k x })
    | .studySys k x => { v with study := { v.study with systemAttrs := v.study.systemAttrs.set k x } }
  finish := fun v n st vals =>
    match v.writable n with
    | none => v
    | some t =>
      if st == .running && t.state != .waiting then v
      else v.updTrial n (finishUpd st vals)

/-! ### copy_study (optuna/study/study.py) -/

def templateOf (t : TrialS) : Template :=
  { state := t.state, values := t.values, params := t.params, userAttrs := t.userAttrs,
    systemAttrs := t.systemAttrs, inter := t.inter, hasStart := t.hasStart,
    hasComplete := t.hasComplete }

/-- `to_study.add_trials(from_study.get_trials())`: a fold of `create_new_trial(template)`. -/
def addTrials (dst : Spec) (sidTo : Nat) (ir : Bool) (ts : List TrialS) : Spec :=
  ts.foldl (fun d t => (step d (.createTrial sidTo (some (templateOf t)) ir)).1) dst

def setStudySys (dst : Spec) (sidTo : Nat) (l : AList String) : Spec :=
  l.foldl (fun d kv => (step d (.setStudySystemAttr sidTo kv.1 kv.2)).1) dst

def setStudyUser (dst : Spec) (sidTo : Nat) (l : AList String) : Spec :=
  l.foldl (fun d kv => (step d (.setStudyUserAttr sidTo kv.1 kv.2)).1) dst

/-- `copy_study(from_study_name, from_storage, to_storage, to_study_name)`: create the study with
the source's directions, copy study system attrs, then user attrs, then every trial.  Returns the
new state and the new study id (`none`: `DuplicatedStudyError` / unknown source). -/
def copyStudy (src : Spec) (sidFrom : Nat) (dst : Spec) (name : String) (ir : Bool) :
    Spec × Option Nat :=
  match src.study? sidFrom with
  | none => (dst, none)
  | some st =>
    match step dst (.createStudy name st.directions) with
    | (d1, .newId sidTo) =>
      let d2 := setStudySys d1 sidTo st.systemAttrs
      let d3 := setStudyUser d2 sidTo st.userAttrs
      (addTrials d3 sidTo ir ((src.trialsOf sidFrom).map (fun p => p.2)), some sidTo)
    | (d1, _) => (d1, none)

end OptunaVerif.Repro
