import OptunaVerif.Model.BruteForce
import OptunaVerif.Model.Grid
/-
  A small statement language for the method bodies of `optuna/samplers/_brute_force.py`
  (`_TreeNode`, `BruteForceSampler`, `_enumerate_candidates`) and `optuna/samplers/_grid.py`
  (`GridSampler`), and ONE interpreter for it (`exec`), instantiated with three vocabularies
  (tree node / brute-force sampler / grid sampler).

  `verif/translators/tbrute.py` reads the Python source with `ast` on every run and emits every
  method as DATA of the types below into `Generated/BruteForceMethods.lean` and
  `Generated/GridMethods.lean`.  `Props/C14Gen.lean` then proves, for all inputs (trees of any size,
  trial lists of any length, every RNG proposal), `interp (generated method) = hand model`
  (`Model/BruteForce.lean`, `Model/Grid.lean`).

  What is *meaning given here* (modelled, not derived from the source): the denotation of each
  primitive condition / action / loop header / return expression.  Each primitive stands for ONE
  whitelisted source shape, quoted next to its constructor; the translator refuses everything else.
  Representation choices:
    * a `_TreeNode` object is the record (`param_name`, `children`, `is_running`); the hand model's `Tree`
      forgets `param_name` of a node whose `children is None` (`TEnv.self`) — the source never reads it there;
    * a dict `children` is its key list in insertion order plus a total function; the dict comprehension
      `{value: _TreeNode() for value in search_space}` is taken over a duplicate-free list
      (`enumerate_nodup`), so its key list is `search_space` itself;
    * a pointer into the mutable tree (`current_node`, `leaf`) is a zipper: the focused node plus the
      frames above it; "the tree" is `zipUp focus frames`;
    * `rng.choice(a, p=w)` is `pick a w proposal` for an arbitrary proposal (as in the hand model);
      `weights /= weights.sum()` keeps the positivity pattern and is recorded as a flag that
      `rng.choice(…, p=weights)` requires;
    * recursion (`child.count_unexpanded(…)`) is open: the environment of a node carries the results for
      its children, the knot is tied structurally in `interpCount`;
    * a callee (`expand`, `add_path`, `_populate_tree`, `_same_search_space`, …) enters the semantics of its
      caller as a function (`BCalls`, `GCalls`), instantiated with the interpreter of the callee's
      GENERATED body.
-/
namespace OptunaVerif.SamplerIR
open OptunaVerif OptunaVerif.BruteForce

/-! ## the generic statement language -/

inductive Err where
  | valueError | assertion | keyError | typeError
  /-- the Python object is in a state the representation cannot express / a local is unbound / the
  method was untranslatable -/
  | unrepresentable
deriving DecidableEq, Repr, Inhabited

inductive Flow (V : Type) where
  | next
  | cont                    -- `continue`
  | ret (v : V)
  | raised (e : Err)
deriving Repr

/-- statements over conditions `C`, primitive actions `A`, loop headers `L`, return expressions `R` -/
inductive Stmt (C A L R : Type) where
  | skip
  | seq (a b : Stmt C A L R)
  | ite (c : C) (t e : Stmt C A L R)
  | assert (c : C)
  | act (a : A)
  | loop (l : L) (body : Stmt C A L R)
  | ret (r : R)
  | raise (e : Err)
  | cont
deriving Repr, Inhabited

/-- a statement list -/
def block {C A L R : Type} : List (Stmt C A L R) → Stmt C A L R
  | [] => .skip
  | [s] => s
  | s :: rest => .seq s (block rest)

/-- the meaning of a vocabulary over environments `E` and returned values `V` -/
structure Sem (C A L R E V : Type) where
  cond : E → C → Except Err Bool
  act : E → A → Except Err E
  /-- the iterations of a loop, fixed at loop entry: how each one binds the loop variables -/
  iter : E → L → Except Err (List (E → E))
  retv : E → R → Except Err V

def loopAux {E V : Type} (f : E → E × Flow V) : List (E → E) → E → E × Flow V
  | [], env => (env, .next)
  | b :: rest, env =>
    match f (b env) with
    | (env', .next) => loopAux f rest env'
    | (env', .cont) => loopAux f rest env'
    | res => res

/-- sequencing: go on only after a normal end -/
def andThen {E V : Type} (r : E × Flow V) (k : E → E × Flow V) : E × Flow V :=
  match r with
  | (env', .next) => k env'
  | res => res

/-- THE interpreter -/
def exec {C A L R E V : Type} (sem : Sem C A L R E V) : Stmt C A L R → E → E × Flow V
  | .skip, env => (env, .next)
  | .seq a b, env => andThen (exec sem a env) (fun e => exec sem b e)
  | .ite c t e, env =>
    match sem.cond env c with
    | .error x => (env, .raised x)
    | .ok true => exec sem t env
    | .ok false => exec sem e env
  | .assert c, env =>
    match sem.cond env c with
    | .error x => (env, .raised x)
    | .ok true => (env, .next)
    | .ok false => (env, .raised .assertion)
  | .act a, env =>
    match sem.act env a with
    | .error x => (env, .raised x)
    | .ok env' => (env', .next)
  | .loop l body, env =>
    match sem.iter env l with
    | .error x => (env, .raised x)
    | .ok bs => loopAux (fun e => exec sem body e) bs env
  | .ret r, env =>
    match sem.retv env r with
    | .error x => (env, .raised x)
    | .ok v => (env, .ret v)
  | .raise x, env => (env, .raised x)
  | .cont, env => (env, .cont)

/-- helpers on `Except` -/
def anyE {α : Type} (f : α → Except Err Bool) : List α → Except Err Bool
  | [] => .ok false
  | a :: rest =>
    match f a with
    | .error x => .error x
    | .ok true => .ok true
    | .ok false => anyE f rest

def mapE {α β : Type} (f : α → Except Err β) : List α → Except Err (List β)
  | [] => .ok []
  | a :: rest =>
    match f a with
    | .error x => .error x
    | .ok b =>
      match mapE f rest with
      | .error x => .error x
      | .ok bs => .ok (b :: bs)

def toOpt {α : Type} : Except Err α → Option α
  | .ok a => some a
  | .error _ => none

/-- an `Option`-valued hand model raises exactly this error -/
def liftErr {α : Type} (e : Err) : Option α → Except Err α
  | some a => .ok a
  | none => .error e

/-- Boolean expressions handed on as arguments / assigned to a local -/
inductive BExp where
  | excl                    -- `exclude_running`
  | avoid                   -- `self._avoid_premature_stop`
  | lit (b : Bool)          -- `True` / `False`
  | not (e : BExp)          -- `not <e>`
deriving DecidableEq, Repr, Inhabited

/-! ## vocabulary 1: `_TreeNode` -/

inductive TCond where
  | not (c : TCond)
  | and (a b : TCond)          -- short-circuit, as in Python
  | or (a b : TCond)
  | childrenIsNone             -- `self.children is None`
  | nameDiffers                -- `self.param_name != param_name`
  | keysDiffer                 -- `self.children.keys() != set(search_space)`
  | exclArg                    -- `exclude_running`
  | selfRunning                -- `self.is_running`
  | curChildrenIsNone          -- `current_node.children is None`
  | valueInCur                 -- `value in current_node.children`
  | anyChild (c : TCond)       -- `any(<c> for i, value in enumerate(self.children.values()))`
  | childRunning               -- `<child>.is_running`  (`<child>`: the variable bound to `self.children.values()[i]`)
  | weightPos                  -- `weights[i] > 0`
deriving DecidableEq, Repr, Inhabited

inductive NameArg where
  | argName                    -- `param_name`
  | none                       -- `None`
deriving DecidableEq, Repr, Inhabited

inductive SpaceArg where
  | argSpace                   -- `search_space`
  | empty                      -- `[]`
deriving DecidableEq, Repr, Inhabited

inductive TAct where
  | setParamName               -- `self.param_name = param_name`
  | setChildrenFresh           -- `self.children = {value: _TreeNode() for value in search_space}`
  | setIsRunning (b : Bool)    -- `self.is_running = True`
  | selfExpand (n : NameArg) (s : SpaceArg)   -- `self.expand(<n>, <s>)`
  | curFromSelf                -- `current_node = self`
  | curExpand                  -- `current_node.expand(param_name, search_space)`   (the loop variables)
  | curDescend                 -- `current_node = current_node.children[value]`
  | setWeights (a : BExp)      -- `weights = np.array([child.count_unexpanded(<a>) for child in self.children.values()], dtype=np.float64)`
  | zeroWeight                 -- `weights[i] = 0.0`
  | normalise                  -- `weights /= weights.sum()`
deriving DecidableEq, Repr, Inhabited

inductive TLoop where
  | pathTriples                -- `for param_name, search_space, value in params_and_search_spaces:`
  | children                   -- `for i, child in enumerate(self.children.values()):`
deriving DecidableEq, Repr, Inhabited

inductive NExpr where
  | lit (n : Nat)
  | ifElse (c : TCond) (a b : NExpr)     -- `<a> if <c> else <b>`
  | sumChildCounts (a : BExp)            -- `sum(child.count_unexpanded(<a>) for child in self.children.values())`
deriving DecidableEq, Repr, Inhabited

inductive TRet where
  | none                       -- `return None` / `return`
  | cur                        -- `return current_node`
  | nat (e : NExpr)            -- `return <e>`
  | choice                     -- `return rng.choice(list(self.children.keys()), p=weights)`
deriving DecidableEq, Repr, Inhabited

abbrev TStmt := Stmt TCond TAct TLoop TRet

/-- a frame of the zipper: the node above the focus, and the key under which the focus hangs -/
structure Frame where
  name : Option String
  keys : List Val
  ch : Val → Tree
  running : Bool
  key : Val

/-- the tree around a focused node -/
def zipUp : Tree → List Frame → Tree
  | t, [] => t
  | t, f :: fs => zipUp (.exp f.name f.keys (fun k => if k = f.key then t else f.ch k) f.running) fs

inductive TVal where
  | none | node | nat (n : Nat) | val (v : Val)

structure TEnv where
  -- the object `self`
  name : Option String
  kids : Option (List Val × (Val → Tree))
  running : Bool
  /-- `self.children[k].count_unexpanded(b)` (open recursion; invalidated when `children` changes) -/
  childCount : Bool → Val → Except Err Nat
  -- arguments
  argName : Option String
  argSpace : List Val
  excl : Bool
  path : List Step
  proposal : Val
  -- locals
  cur : Option Tree
  frames : List Frame
  step : Option Step
  weights : Option (List Nat)
  normalised : Bool
  idx : Option Nat

def noCount : Bool → Val → Except Err Nat := fun _ _ => .error .unrepresentable

def Tree.kidsOf : Tree → Option (List Val × (Val → Tree))
  | .unexp _ => none
  | .exp _ ks ch _ => some (ks, ch)

def Tree.nameOf : Tree → Option String
  | .unexp _ => none
  | .exp n _ _ _ => n

/-- the environment of a method call on node `t` -/
def TEnv.ofTree (t : Tree) (childCount : Bool → Val → Except Err Nat) : TEnv :=
  { name := Tree.nameOf t, kids := Tree.kidsOf t, running := t.isRunning, childCount := childCount,
    argName := none, argSpace := [], excl := false, path := [], proposal := 0,
    cur := none, frames := [], step := none, weights := none, normalised := false, idx := none }

/-- the node `self` as a `Tree` -/
def TEnv.self (env : TEnv) : Tree :=
  match env.kids with
  | none => .unexp env.running
  | some (ks, ch) => .exp env.name ks ch env.running

def TEnv.setSelf (env : TEnv) (t : Tree) : TEnv :=
  { env with name := Tree.nameOf t, kids := Tree.kidsOf t, running := t.isRunning, childCount := noCount }

def evalBExpT (env : TEnv) : BExp → Except Err Bool
  | .excl => .ok env.excl
  | .avoid => .error .unrepresentable
  | .lit b => .ok b
  | .not e => match evalBExpT env e with
    | .ok b => .ok (!b)
    | .error x => .error x

def evalTCond (env : TEnv) : TCond → Except Err Bool
  | .not c => match evalTCond env c with
    | .ok b => .ok (!b)
    | .error x => .error x
  | .and a b => match evalTCond env a with
    | .ok true => evalTCond env b
    | .ok false => .ok false
    | .error x => .error x
  | .or a b => match evalTCond env a with
    | .ok true => .ok true
    | .ok false => evalTCond env b
    | .error x => .error x
  | .childrenIsNone => .ok env.kids.isNone
  | .nameDiffers => .ok (env.name != env.argName)
  | .keysDiffer => match env.kids with
    | none => .error .typeError
    | some (ks, _) => .ok (!sameKeys ks env.argSpace)
  | .exclArg => .ok env.excl
  | .selfRunning => .ok env.running
  | .curChildrenIsNone => match env.cur with
    | none => .error .unrepresentable
    | some (.unexp _) => .ok true
    | some (.exp _ _ _ _) => .ok false
  | .valueInCur => match env.cur, env.step with
    | some (.exp _ ks _ _), some s => .ok (ks.contains s.value)
    | some (.unexp _), some _ => .error .typeError
    | _, _ => .error .unrepresentable
  | .anyChild c => match env.kids with
    | none => .error .typeError
    | some (ks, _) => anyE (fun i => evalTCond { env with idx := some i } c) (List.range ks.length)
  | .childRunning => match env.kids, env.idx with
    | some (ks, ch), some i => match ks[i]? with
      | some k => .ok (ch k).isRunning
      | none => .error .unrepresentable
    | _, _ => .error .unrepresentable
  | .weightPos => match env.weights, env.idx with
    | some ws, some i => match ws[i]? with
      | some w => .ok (decide (0 < w))
      | none => .error .unrepresentable
    | _, _ => .error .unrepresentable

def sumE : List (Except Err Nat) → Except Err Nat
  | [] => .ok 0
  | x :: rest => match x with
    | .error e => .error e
    | .ok n => match sumE rest with
      | .error e => .error e
      | .ok m => .ok (n + m)

def evalNExpr (env : TEnv) : NExpr → Except Err Nat
  | .lit n => .ok n
  | .ifElse c a b => match evalTCond env c with
    | .error x => .error x
    | .ok true => evalNExpr env a
    | .ok false => evalNExpr env b
  | .sumChildCounts a => match env.kids, evalBExpT env a with
    | some (ks, _), .ok e => sumE (ks.map (fun k => env.childCount e k))
    | none, _ => .error .typeError
    | _, .error x => .error x

def evalNameArg (env : TEnv) : NameArg → Option String
  | .argName => env.argName
  | .none => none

def evalSpaceArg (env : TEnv) : SpaceArg → List Val
  | .argSpace => env.argSpace
  | .empty => []

def doTAct (expandF : Tree → Option String → List Val → Except Err Tree) (env : TEnv) : TAct → Except Err TEnv
  | .setParamName => .ok { env with name := env.argName }
  | .setChildrenFresh =>
    .ok { env with kids := some (env.argSpace, fun _ => .unexp false), childCount := noCount }
  | .setIsRunning b => .ok { env with running := b }
  | .selfExpand n s => match expandF env.self (evalNameArg env n) (evalSpaceArg env s) with
    | .error x => .error x
    | .ok t => .ok (env.setSelf t)
  | .curFromSelf => .ok { env with cur := some env.self, frames := [] }
  | .curExpand => match env.cur, env.step with
    | some t, some s => match expandF t (some s.name) s.cands with
      | .error x => .error x
      | .ok t' => .ok { env with cur := some t' }
    | _, _ => .error .unrepresentable
  | .curDescend => match env.cur, env.step with
    | some (.exp n ks ch r), some s =>
      if ks.contains s.value then
        .ok { env with cur := some (ch s.value), frames := ⟨n, ks, ch, r, s.value⟩ :: env.frames }
      else .error .keyError
    | some (.unexp _), some _ => .error .typeError
    | _, _ => .error .unrepresentable
  | .setWeights a => match env.kids, evalBExpT env a with
    | some (ks, _), .ok e => match mapE (fun k => env.childCount e k) ks with
      | .error x => .error x
      | .ok ws => .ok { env with weights := some ws, normalised := false }
    | none, _ => .error .typeError
    | _, .error x => .error x
  | .zeroWeight => match env.weights, env.idx with
    | some ws, some i => .ok { env with weights := some (ws.set i 0) }
    | _, _ => .error .unrepresentable
  | .normalise => match env.weights with
    | some _ => .ok { env with normalised := true }
    | none => .error .unrepresentable

def iterT (env : TEnv) : TLoop → Except Err (List (TEnv → TEnv))
  | .pathTriples => .ok (env.path.map (fun s => fun e => { e with step := some s }))
  | .children => match env.kids with
    | none => .error .typeError
    | some (ks, _) => .ok ((List.range ks.length).map (fun i => fun e => { e with idx := some i }))

def retT (env : TEnv) : TRet → Except Err TVal
  | .none => .ok .none
  | .cur => match env.cur with
    | some _ => .ok .node
    | none => .error .unrepresentable
  | .nat e => match evalNExpr env e with
    | .ok n => .ok (.nat n)
    | .error x => .error x
  | .choice => match env.kids, env.weights with
    | some (ks, _), some ws =>
      if env.normalised then .ok (.val (pick ks ws env.proposal)) else .error .unrepresentable
    | _, _ => .error .unrepresentable

def treeSem (expandF : Tree → Option String → List Val → Except Err Tree) :
    Sem TCond TAct TLoop TRet TEnv TVal :=
  { cond := evalTCond, act := doTAct expandF, iter := iterT, retv := retT }

def noExpand : Tree → Option String → List Val → Except Err Tree := fun _ _ _ => .error .unrepresentable

/-- the result of a method that mutates `self` and returns nothing -/
def finishNode : TEnv × Flow TVal → Except Err Tree
  | (_, .raised e) => .error e
  | (env, .next) => .ok env.self
  | (env, .ret .none) => .ok env.self
  | (_, _) => .error .unrepresentable

/-- `_TreeNode.expand` -/
def interpExpand (body : TStmt) (t : Tree) (name : Option String) (space : List Val) : Except Err Tree :=
  finishNode (exec (treeSem noExpand) body { TEnv.ofTree t noCount with argName := name, argSpace := space })

/-- `_TreeNode.set_running` -/
def interpSetRunning (body : TStmt) (t : Tree) : Except Err Tree :=
  finishNode (exec (treeSem noExpand) body (TEnv.ofTree t noCount))

/-- `_TreeNode.set_leaf` -/
def interpSetLeaf (body expandB : TStmt) (t : Tree) : Except Err Tree :=
  finishNode (exec (treeSem (interpExpand expandB)) body (TEnv.ofTree t noCount))

/-- the result of `add_path`: the focused node, the frames above it, and whether a node (not `None`)
was returned -/
def finishPath : TEnv × Flow TVal → Except Err (Tree × List Frame × Bool)
  | (_, .raised e) => .error e
  | (env, .ret .node) => match env.cur with
    | some t => .ok (t, env.frames, true)
    | none => .error .unrepresentable
  | (env, .ret .none) => match env.cur with
    | some t => .ok (t, env.frames, false)
    | none => .error .unrepresentable
  | (env, .next) => match env.cur with
    | some t => .ok (t, env.frames, false)
    | none => .error .unrepresentable
  | (_, _) => .error .unrepresentable

/-- `_TreeNode.add_path` -/
def interpAddPath (body expandB : TStmt) (t : Tree) (path : List Step) :
    Except Err (Tree × List Frame × Bool) :=
  finishPath (exec (treeSem (interpExpand expandB)) body { TEnv.ofTree t noCount with path := path })

def finishNat : TEnv × Flow TVal → Except Err Nat
  | (_, .raised e) => .error e
  | (_, .ret (.nat n)) => .ok n
  | (_, _) => .error .typeError

/-- `_TreeNode.count_unexpanded` (the recursive call is the recursive call) -/
def interpCount (body : TStmt) : Tree → Bool → Except Err Nat
  | .unexp r, excl =>
    finishNat (exec (treeSem noExpand) body { TEnv.ofTree (.unexp r) noCount with excl := excl })
  | .exp n ks ch r, excl =>
    finishNat (exec (treeSem noExpand) body
      { TEnv.ofTree (.exp n ks ch r) (fun e k => interpCount body (ch k) e) with excl := excl })

/-- the environment of a method of node `t` that may call `count_unexpanded` on its children -/
def TEnv.withCounts (countB : TStmt) (t : Tree) : TEnv :=
  match t with
  | .unexp r => TEnv.ofTree (.unexp r) noCount
  | .exp n ks ch r => TEnv.ofTree (.exp n ks ch r) (fun e k => interpCount countB (ch k) e)

def finishChoice : TEnv × Flow TVal → Except Err (List Nat × Val)
  | (_, .raised e) => .error e
  | (env, .ret (.val v)) => match env.weights with
    | some ws => .ok (ws, v)
    | none => .error .unrepresentable
  | (_, _) => .error .typeError

/-- `_TreeNode.sample_child`: the weight vector handed to the RNG (before normalisation) and the value -/
def interpSampleChild (body countB : TStmt) (excl : Bool) (t : Tree) (proposal : Val) :
    Except Err (List Nat × Val) :=
  finishChoice (exec (treeSem noExpand) body
    { TEnv.withCounts countB t with excl := excl, proposal := proposal })

/-! ## `_enumerate_candidates` (case split; Decimal arithmetic abstract) -/

inductive DecSrc where
  | ofStr                      -- `decimal.Decimal(str(param_distribution.<f>))`
  | ofFloat                    -- `decimal.Decimal(param_distribution.<f>)`
deriving DecidableEq, Repr, Inhabited

inductive DistKind where
  | float | int | cat          -- `isinstance(param_distribution, FloatDistribution | IntDistribution | CategoricalDistribution)`
deriving DecidableEq, Repr, Inhabited

inductive EnumArm where
  /-- `if step is None: raise ValueError`; `low/high/step = <src>`;
  `ret = []; value = low; while value <= high: ret.append(float(value)); value += step; return ret` -/
  | floatLoop (low high step : DecSrc) (stepNoneRaises : Bool)
  /-- `return list(range(d.low, d.high + <stopOffset>, d.step))` -/
  | intRange (stopOffset : Int)
  /-- `return list(range(len(d.choices)))` -/
  | catRange
deriving DecidableEq, Repr, Inhabited

structure EnumIR where
  /-- the `isinstance` chain in source order -/
  arms : List (DistKind × EnumArm)
  /-- the final `else: raise ValueError` -/
  elseRaises : Bool
deriving DecidableEq, Repr, Inhabited

def Dist.kind : Dist → DistKind
  | .int .. => .int
  | .float .. => .float
  | .cat _ => .cat

/-- `range(start, stop, step)` for a positive step (`fuel` only makes the recursion structural) -/
def rangeZ (stop step : Int) : Nat → Int → List Int
  | 0, _ => []
  | fuel + 1, v => if v < stop then v :: rangeZ stop step fuel (v + step) else []

/-- `toFloat` is the rounding of a decimal to the nearest double, as an exact rational (abstract).
The fields of `Dist.float` are `Decimal(str(x))` of the three floats. -/
def evalDec (toFloat : Rat → Rat) : DecSrc → Rat → Rat
  | .ofStr, x => x
  | .ofFloat, x => toFloat x

def interpArm (toFloat : Rat → Rat) : EnumArm → Dist → Except Err (List Val)
  | .floatLoop l h s _, .float low high step =>
    let low' := evalDec toFloat l low
    let high' := evalDec toFloat h high
    let step' := evalDec toFloat s step
    .ok (loopQ high' step' (((high' - low') / step').floor.toNat + 1) low')
  | .intRange off, .int low high step =>
    .ok ((rangeZ (high + off) step ((high - low).toNat + 1) low).map (fun (i : Int) => (i : Rat)))
  | .catRange, .cat n => .ok ((List.range n).map (fun k => ((k : Nat) : Rat)))
  | _, _ => .error .typeError

def interpEnumerate (ir : EnumIR) (toFloat : Rat → Rat) (d : Dist) : Except Err (List Val) :=
  match ir.arms.find? (fun a => a.1 == Dist.kind d) with
  | some a => interpArm toFloat a.2 d
  | none => if ir.elseRaises then .error .valueError else .error .unrepresentable

/-! ## vocabulary 2: `BruteForceSampler` -/

/-- a stored trial as the sampler reads it: `number`, `distributions`/`params` in suggestion order, `state` -/
structure ITrial where
  number : Nat
  steps : List Step
  state : TState
deriving DecidableEq, Repr

def ITrial.toTrial (t : ITrial) : Trial := ⟨t.steps, t.state.isFinished⟩

inductive BCond where
  | not (c : BCond)
  | and (a b : BCond)
  | or (a b : BCond)
  | paramsMatch                -- `all(p in trial.params and _param_value_equal(trial.params[p], v) for p, v in params.items())` (NaN-aware: C14Gen.interp_paramValueEqual)
  | leafIsNone                 -- `leaf is None`
  | trialFinished              -- `trial.state.is_finished()`
  | trialStateIs (s : TState)  -- `trial.state == TrialState.<S>`
  | argStateIs (s : TState)    -- `state == TrialState.<S>`
  | argStateFinished           -- `state.is_finished()`
  | countIsZero (a : BExp)     -- `tree.count_unexpanded(<a>) == 0`
deriving DecidableEq, Repr, Inhabited

inductive TrialsSrc where
  | given                      -- `trials`
  | others                     -- `(t for t in trials if t.number != trial.number)`
  /-- `((t if t.number != trial.number else create_trial(state=state, values=values, params=trial.params,
  distributions=trial.distributions)) for t in trials)` -/
  | withCurrentAsState
deriving DecidableEq, Repr, Inhabited

inductive ParamsSrc where
  | trialParams                -- `trial.params`
  | empty                      -- `{}`
deriving DecidableEq, Repr, Inhabited

inductive BAct where
  | setExcl (e : BExp)                 -- `exclude_running = <e>`
  | getTrials (states : List TState)   -- `trials = study.get_trials(deepcopy=False, states=(…))`
  | newTree                            -- `tree = _TreeNode()`
  | setCandidates                      -- `candidates = _enumerate_candidates(param_distribution)`
  | treeExpand                         -- `tree.expand(param_name, candidates)`
  | populate (ts : TrialsSrc) (ps : ParamsSrc)   -- `self._populate_tree(tree, <ts>, <ps>)`
  | studyStop                          -- `study.stop()`
  /-- `leaf = tree.add_path(((param_name, _enumerate_candidates(param_distribution),
  param_distribution.to_internal_repr(trial.params[param_name])) for param_name, param_distribution in
  trial.distributions.items() if param_name not in params))` -/
  | leafAddPath
  | leafSetLeaf                        -- `leaf.set_leaf()`
  | leafSetRunning                     -- `leaf.set_running()`
deriving DecidableEq, Repr, Inhabited

inductive BLoop where
  | trials                             -- `for trial in trials:`
deriving DecidableEq, Repr, Inhabited

inductive BRet where
  | none
  | choiceCandidates           -- `return param_distribution.to_external_repr(self._rng.rng.choice(candidates))`
  | sampleChild (e : BExp)     -- `return param_distribution.to_external_repr(tree.sample_child(self._rng.rng, <e>))`
deriving DecidableEq, Repr, Inhabited

abbrev BStmt := Stmt BCond BAct BLoop BRet

/-- the callees -/
structure BCalls where
  expand : Tree → Option String → List Val → Except Err Tree
  setLeaf : Tree → Except Err Tree
  setRunning : Tree → Except Err Tree
  addPath : Tree → List Step → Except Err (Tree × List Frame × Bool)
  count : Tree → Bool → Except Err Nat
  sampleChild : Bool → Tree → Val → Except Err (List Nat × Val)
  populate : Tree → List ITrial → List (String × Val) → Except Err Tree

inductive BVal where
  | none | val (v : Val)

structure BEnv where
  -- `self`, `study`, arguments
  avoid : Bool
  study : List ITrial
  number : Nat
  curParams : List (String × Val)
  paramName : String
  cands : List Val
  argState : TState
  proposal : Val
  -- locals
  excl : Option Bool
  trials : Option (List ITrial)
  tree : Option Tree
  candidates : Option (List Val)
  stopped : Bool
  -- the frame of `_populate_tree`
  pParams : List (String × Val)
  trial : Option ITrial
  leaf : Option (Option (Tree × List Frame))

def BEnv.init (avoid : Bool) (study : List ITrial) (number : Nat) : BEnv :=
  { avoid := avoid, study := study, number := number, curParams := [], paramName := "", cands := [],
    argState := .running, proposal := 0, excl := none, trials := none, tree := none, candidates := none,
    stopped := false, pParams := [], trial := none, leaf := none }

def evalBExpB (env : BEnv) : BExp → Except Err Bool
  | .excl => match env.excl with
    | some b => .ok b
    | none => .error .unrepresentable
  | .avoid => .ok env.avoid
  | .lit b => .ok b
  | .not e => match evalBExpB env e with
    | .ok b => .ok (!b)
    | .error x => .error x

def evalBCond (calls : BCalls) (env : BEnv) : BCond → Except Err Bool
  | .not c => match evalBCond calls env c with
    | .ok b => .ok (!b)
    | .error x => .error x
  | .and a b => match evalBCond calls env a with
    | .ok true => evalBCond calls env b
    | .ok false => .ok false
    | .error x => .error x
  | .or a b => match evalBCond calls env a with
    | .ok true => .ok true
    | .ok false => evalBCond calls env b
    | .error x => .error x
  | .paramsMatch => match env.trial with
    | some t => .ok (dictMatch env.pParams t.toTrial)
    | none => .error .unrepresentable
  | .leafIsNone => match env.leaf with
    | some l => .ok l.isNone
    | none => .error .unrepresentable
  | .trialFinished => match env.trial with
    | some t => .ok t.state.isFinished
    | none => .error .unrepresentable
  | .trialStateIs s => match env.trial with
    | some t => .ok (t.state == s)
    | none => .error .unrepresentable
  | .argStateIs s => .ok (env.argState == s)
  | .argStateFinished => .ok env.argState.isFinished
  | .countIsZero a => match env.tree, evalBExpB env a with
    | some t, .ok e => match calls.count t e with
      | .ok n => .ok (n == 0)
      | .error x => .error x
    | none, _ => .error .unrepresentable
    | _, .error x => .error x

def evalTrialsSrc (env : BEnv) : TrialsSrc → Except Err (List ITrial)
  | .given => match env.trials with
    | some ts => .ok ts
    | none => .error .unrepresentable
  | .others => match env.trials with
    | some ts => .ok (ts.filter (fun t => t.number != env.number))
    | none => .error .unrepresentable
  | .withCurrentAsState => match env.trials with
    | some ts => .ok (ts.map (fun t => if t.number != env.number then t else { t with state := env.argState }))
    | none => .error .unrepresentable

def evalParamsSrc (env : BEnv) : ParamsSrc → List (String × Val)
  | .trialParams => env.curParams
  | .empty => []

def doBAct (calls : BCalls) (env : BEnv) : BAct → Except Err BEnv
  | .setExcl e => match evalBExpB env e with
    | .ok b => .ok { env with excl := some b }
    | .error x => .error x
  | .getTrials states => .ok { env with trials := some (env.study.filter (fun t => states.contains t.state)) }
  | .newTree => .ok { env with tree := some (.unexp false) }
  | .setCandidates => .ok { env with candidates := some env.cands }
  | .treeExpand => match env.tree, env.candidates with
    | some t, some cs => match calls.expand t (some env.paramName) cs with
      | .ok t' => .ok { env with tree := some t' }
      | .error x => .error x
    | _, _ => .error .unrepresentable
  | .populate ts ps => match env.tree, evalTrialsSrc env ts with
    | some t, .ok trials => match calls.populate t trials (evalParamsSrc env ps) with
      | .ok t' => .ok { env with tree := some t' }
      | .error x => .error x
    | none, _ => .error .unrepresentable
    | _, .error x => .error x
  | .studyStop => .ok { env with stopped := true }
  | .leafAddPath => match env.tree, env.trial with
    | some t, some tr => match calls.addPath t (restSteps env.pParams tr.toTrial) with
      | .ok (focus, frames, found) =>
        .ok { env with tree := some (zipUp focus frames), leaf := some (if found then some (focus, frames) else none) }
      | .error x => .error x
    | _, _ => .error .unrepresentable
  | .leafSetLeaf => match env.leaf with
    | some (some (focus, frames)) => match calls.setLeaf focus with
      | .ok f' => .ok { env with tree := some (zipUp f' frames), leaf := some (some (f', frames)) }
      | .error x => .error x
    | some none => .error .typeError
    | none => .error .unrepresentable
  | .leafSetRunning => match env.leaf with
    | some (some (focus, frames)) => match calls.setRunning focus with
      | .ok f' => .ok { env with tree := some (zipUp f' frames), leaf := some (some (f', frames)) }
      | .error x => .error x
    | some none => .error .typeError
    | none => .error .unrepresentable

def iterB (env : BEnv) : BLoop → Except Err (List (BEnv → BEnv))
  | .trials => match env.trials with
    | some ts => .ok (ts.map (fun t => fun e => { e with trial := some t }))
    | none => .error .unrepresentable

def retB (calls : BCalls) (env : BEnv) : BRet → Except Err BVal
  | .none => .ok .none
  | .choiceCandidates => match env.candidates with
    | some cs => .ok (.val (pickAny cs env.proposal))
    | none => .error .unrepresentable
  | .sampleChild e => match env.tree, evalBExpB env e with
    | some t, .ok ex => match calls.sampleChild ex t env.proposal with
      | .ok (_, v) => .ok (.val v)
      | .error x => .error x
    | none, _ => .error .unrepresentable
    | _, .error x => .error x

def bfSem (calls : BCalls) : Sem BCond BAct BLoop BRet BEnv BVal :=
  { cond := evalBCond calls, act := doBAct calls, iter := iterB, retv := retB calls }

/-- the generated `_TreeNode` methods -/
structure TreeProg where
  expand : TStmt
  setRunning : TStmt
  setLeaf : TStmt
  addPath : TStmt
  countUnexpanded : TStmt
  sampleChild : TStmt

def noPopulate : Tree → List ITrial → List (String × Val) → Except Err Tree :=
  fun _ _ _ => .error .unrepresentable

def treeCalls (P : TreeProg) (populateF : Tree → List ITrial → List (String × Val) → Except Err Tree) : BCalls :=
  { expand := interpExpand P.expand,
    setLeaf := interpSetLeaf P.setLeaf P.expand,
    setRunning := interpSetRunning P.setRunning,
    addPath := interpAddPath P.addPath P.expand,
    count := interpCount P.countUnexpanded,
    sampleChild := interpSampleChild P.sampleChild P.countUnexpanded,
    populate := populateF }

def finishTree : BEnv × Flow BVal → Except Err Tree
  | (_, .raised e) => .error e
  | (env, .next) => (match env.tree with | some t => .ok t | none => .error .unrepresentable)
  | (env, .ret .none) => (match env.tree with | some t => .ok t | none => .error .unrepresentable)
  | (_, _) => .error .unrepresentable

/-- `BruteForceSampler._populate_tree(tree, trials, params)` -/
def interpPopulate (P : TreeProg) (body : BStmt) (tree : Tree) (trials : List ITrial)
    (params : List (String × Val)) : Except Err Tree :=
  finishTree (exec (bfSem (treeCalls P noPopulate)) body
    { BEnv.init false [] 0 with tree := some tree, trials := some trials, pParams := params })

def finishVal : BEnv × Flow BVal → Except Err Val
  | (_, .raised e) => .error e
  | (_, .ret (.val v)) => .ok v
  | (_, _) => .error .typeError

/-- `BruteForceSampler.sample_independent` (internal representation) -/
def interpSampleIndependent (P : TreeProg) (populateB body : BStmt) (avoid : Bool) (study : List ITrial)
    (number : Nat) (curParams : List (String × Val)) (name : String) (cands : List Val) (proposal : Val) :
    Except Err Val :=
  finishVal (exec (bfSem (treeCalls P (interpPopulate P populateB))) body
    { BEnv.init avoid study number with curParams := curParams, paramName := name, cands := cands,
                                        proposal := proposal })

def finishStop : BEnv × Flow BVal → Except Err Bool
  | (_, .raised e) => .error e
  | (env, .next) => .ok env.stopped
  | (env, .ret .none) => .ok env.stopped
  | (_, _) => .error .unrepresentable

/-- `BruteForceSampler.after_trial`: was `study.stop()` called -/
def interpAfterTrial (P : TreeProg) (populateB body : BStmt) (avoid : Bool) (study : List ITrial)
    (number : Nat) (state : TState) : Except Err Bool :=
  finishStop (exec (bfSem (treeCalls P (interpPopulate P populateB))) body
    { BEnv.init avoid study number with argState := state })

/-! ## vocabulary 3: `GridSampler` -/
open OptunaVerif.Grid

/-- the two arguments of `_grid_value_equal` -/
inductive VArg where
  | v1 | v2
deriving DecidableEq, Repr, Inhabited

inductive VExpr where
  | var (x : String)                   -- a local bound earlier
  | not (e : VExpr)
  | and (a b : VExpr)
  | or (a b : VExpr)
  | eq (a b : VArg)                    -- `<a> == <b>`
  | is (a b : VArg)                    -- `<a> is <b>`
  | isRealNaN (a : VArg)               -- `isinstance(<a>, Real) and np.isnan(float(<a>))`
deriving DecidableEq, Repr, Inhabited

/-- `_grid_value_equal`: `<x> = <e>` bindings, then `return <e>` -/
structure VEqIR where
  lets : List (String × VExpr)
  ret : VExpr
deriving DecidableEq, Repr, Inhabited

def VArg.get (a b : GVal) : VArg → GVal
  | .v1 => a
  | .v2 => b

/-- `a is b`: the same object.  Only NaN objects carry an identity here; for every other value `is`
implies `==`, and two equal values need not be one object (after a storage round trip they are not):
`false`. -/
def sameObj : GVal → GVal → Bool
  | .nan i, .nan j => i == j
  | _, _ => false

def evalVExpr (a b : GVal) (locals : List (String × Bool)) : VExpr → Except Err Bool
  | .var x => match locals.find? (fun l => l.1 == x) with
    | some l => .ok l.2
    | none => .error .unrepresentable
  | .not e => match evalVExpr a b locals e with
    | .ok v => .ok (!v)
    | .error x => .error x
  | .and x y => match evalVExpr a b locals x with
    | .ok true => evalVExpr a b locals y
    | .ok false => .ok false
    | .error e => .error e
  | .or x y => match evalVExpr a b locals x with
    | .ok true => .ok true
    | .ok false => evalVExpr a b locals y
    | .error e => .error e
  | .eq x y => .ok ((x.get a b).pyEq (y.get a b))
  | .is x y => .ok (sameObj (x.get a b) (y.get a b))
  | .isRealNaN x => .ok (x.get a b).isNaN

def evalLets (a b : GVal) : List (String × VExpr) → List (String × Bool) → Except Err (List (String × Bool))
  | [], locals => .ok locals
  | (x, e) :: rest, locals => match evalVExpr a b locals e with
    | .ok v => evalLets a b rest ((x, v) :: locals)
    | .error err => .error err

/-- `GridSampler._grid_value_equal(value1, value2)` -/
def interpValueEqual (ir : VEqIR) (a b : GVal) : Except Err Bool :=
  match evalLets a b ir.lets [] with
  | .ok locals => evalVExpr a b locals ir.ret
  | .error e => .error e

inductive SetSrc where
  | visited                            -- `set(visited_grids)`
  | running                            -- `set(running_grids)`
deriving DecidableEq, Repr, Inhabited

inductive GCond where
  | not (c : GCond)
  | and (a b : GCond)
  | or (a b : GCond)
  -- `_same_search_space`
  | keySetsDiffer              -- `set(search_space.keys()) != set(self._search_space.keys())`
  | lensDiffer                 -- `len(search_space[param_name]) != len(self._search_space[param_name])`
  | valueEqualCall             -- `self._grid_value_equal(param_value, self._search_space[param_name][i])`
  -- `_get_unvisited_grid_ids`
  | tHasGridId                 -- `"grid_id" in t.system_attrs`
  | tSameSpace                 -- `self._same_search_space(t.system_attrs["search_space"])`
  | tFinished                  -- `t.state.is_finished()`
  | tStateIs (s : TS)          -- `t.state == TrialState.RUNNING` / `.WAITING`
  | lenUnvisitedIs (k : Nat)   -- `len(unvisited_grids) == <k>`
  -- `before_trial` / `after_trial`
  | curHasGridId               -- `"grid_id" in trial.system_attrs`
  | curHasFixedParams          -- `"fixed_params" in trial.system_attrs`
  | zeroLeNumber               -- `0 <= trial.number`
  | numberLtNMin               -- `trial.number < self._n_min_trials`
  | lenTargetIs (k : Nat)      -- `len(target_grids) == <k>`
  | gridIdIsTarget0            -- `grid_id == target_grids[0]`
deriving DecidableEq, Repr, Inhabited

inductive TargetSrc where
  | unvisitedCall              -- `self._get_unvisited_grid_ids(study)`
  | allRange                   -- `list(range(len(self._all_grids)))`
deriving DecidableEq, Repr, Inhabited

inductive IdSrc where
  | trialNumber                -- `trial.number`
  | localGridId                -- `grid_id`
deriving DecidableEq, Repr, Inhabited

inductive WriteIR where
  | searchSpace                -- `study._storage.set_trial_system_attr(trial._trial_id, "search_space", self._search_space)`
  | gridId (src : IdSrc)       -- `study._storage.set_trial_system_attr(trial._trial_id, "grid_id", <src>)`
deriving DecidableEq, Repr, Inhabited

inductive GAct where
  | initVisited                -- `visited_grids = []`
  | initRunning                -- `running_grids = []`
  | getAllTrials               -- `trials = study._storage.get_all_trials(study._study_id, deepcopy=False)`
  | appendVisited              -- `visited_grids.append(t.system_attrs["grid_id"])`
  | appendRunning              -- `running_grids.append(t.system_attrs["grid_id"])`
  | setUnvisited (minus : List SetSrc)   -- `unvisited_grids = set(range(self._n_min_trials)) - <s1> - <s2> …`
  | setTarget (src : TargetSrc)          -- `target_grids = <src>`
  | warn                       -- `_logger.warning(<constant>)`
  | chooseGridId               -- `grid_id = int(self._rng.rng.choice(target_grids))`
  | write (w : WriteIR)
  | getCurGridId               -- `grid_id = study._storage.get_trial_system_attrs(trial._trial_id).get("grid_id")`
  | studyStop                  -- `study.stop()`
deriving DecidableEq, Repr, Inhabited

inductive GLoop where
  | theirKeys                  -- `for param_name in search_space.keys():`
  | theirValuesEnum            -- `for i, param_value in enumerate(search_space[param_name]):`
  | trials                     -- `for t in trials:`
deriving DecidableEq, Repr, Inhabited

inductive GRet where
  | none
  | bool (b : Bool)            -- `return True` / `return False`
  | listUnvisited              -- `return list(unvisited_grids)`
deriving DecidableEq, Repr, Inhabited

abbrev GStmt := Stmt GCond GAct GLoop GRet

structure GCalls where
  valueEqual : GVal → GVal → Except Err Bool
  sameSpace : Space → Except Err Bool
  unvisited : Except Err (List Nat)

inductive GRVal where
  | none | bool (b : Bool) | ids (l : List Nat)

/-- what the methods only read -/
structure GIn where
  -- `self`
  mine : Space
  nMin : Nat
  nAll : Nat
  -- the storage, the `trial` argument, the RNG
  study : List RTrial
  cur : RTrial
  number : Nat
  /-- `get_trial_system_attrs(trial._trial_id).get("grid_id")` -/
  curStoredGridId : Option Nat
  proposal : Nat
  /-- the argument of `_same_search_space` -/
  theirs : Space

structure GEnv where
  inp : GIn
  -- `_same_search_space`
  paramName : Option String
  vidx : Option Nat
  paramValue : Option GVal
  -- locals
  visited : Option (List Nat)
  running : Option (List Nat)
  trials : Option (List RTrial)
  t : Option RTrial
  unvisited : Option (List Nat)
  target : Option (List Nat)
  gridId : Option (Option Nat)
  writes : List Write
  usedRng : Bool
  stopped : Bool

def GIn.init (mine : Space) (n : Nat) (study : List RTrial) : GIn :=
  { mine := mine, nMin := n, nAll := n, study := study, cur := ⟨none, none, false, .running⟩, number := 0,
    curStoredGridId := none, proposal := 0, theirs := [] }

def GEnv.ofIn (inp : GIn) : GEnv :=
  { inp := inp, paramName := none, vidx := none, paramValue := none,
    visited := none, running := none, trials := none, t := none, unvisited := none, target := none,
    gridId := none, writes := [], usedRng := false, stopped := false }

/-- `enumerate(l)` from index `i` -/
def enumFrom {α : Type} : Nat → List α → List (Nat × α)
  | _, [] => []
  | i, a :: rest => (i, a) :: enumFrom (i + 1) rest

def evalGCond (calls : GCalls) (env : GEnv) : GCond → Except Err Bool
  | .not c => match evalGCond calls env c with
    | .ok b => .ok (!b)
    | .error x => .error x
  | .and a b => match evalGCond calls env a with
    | .ok true => evalGCond calls env b
    | .ok false => .ok false
    | .error x => .error x
  | .or a b => match evalGCond calls env a with
    | .ok true => .ok true
    | .ok false => evalGCond calls env b
    | .error x => .error x
  | .keySetsDiffer => .ok (!sameKeySets (env.inp.theirs.map (·.1)) (env.inp.mine.map (·.1)))
  | .lensDiffer => match env.paramName with
    | none => .error .unrepresentable
    | some p => match AList.get? env.inp.theirs p, AList.get? env.inp.mine p with
      | some vs, some ws => .ok (vs.length != ws.length)
      | _, _ => .error .keyError
  | .valueEqualCall => match env.paramName, env.vidx, env.paramValue with
    | some p, some i, some v => match AList.get? env.inp.mine p with
      | none => .error .keyError
      | some ws => match ws[i]? with
        | none => .error .keyError          -- IndexError
        | some w => calls.valueEqual v w
    | _, _, _ => .error .unrepresentable
  | .tHasGridId => match env.t with
    | some t => .ok t.gridId.isSome
    | none => .error .unrepresentable
  | .tSameSpace => match env.t with
    | some t => match t.space with
      | some sp => calls.sameSpace sp
      | none => .error .keyError
    | none => .error .unrepresentable
  | .tFinished => match env.t with
    | some t => .ok (t.state == .finished)
    | none => .error .unrepresentable
  | .tStateIs s => match env.t with
    | some t => .ok (t.state == s)
    | none => .error .unrepresentable
  | .lenUnvisitedIs k => match env.unvisited with
    | some u => .ok (u.length == k)
    | none => .error .unrepresentable
  | .curHasGridId => .ok env.inp.cur.gridId.isSome
  | .curHasFixedParams => .ok env.inp.cur.fixed
  | .zeroLeNumber => .ok true
  | .numberLtNMin => .ok (decide (env.inp.number < env.inp.nMin))
  | .lenTargetIs k => match env.target with
    | some u => .ok (u.length == k)
    | none => .error .unrepresentable
  | .gridIdIsTarget0 => match env.gridId, env.target with
    | some g, some (t0 :: _) => .ok (g == some t0)
    | some _, some [] => .error .keyError     -- IndexError
    | _, _ => .error .unrepresentable

def evalSetSrc (env : GEnv) : SetSrc → Except Err (List Nat)
  | .visited => match env.visited with
    | some l => .ok l
    | none => .error .unrepresentable
  | .running => match env.running with
    | some l => .ok l
    | none => .error .unrepresentable

def doGAct (calls : GCalls) (env : GEnv) : GAct → Except Err GEnv
  | .initVisited => .ok { env with visited := some [] }
  | .initRunning => .ok { env with running := some [] }
  | .getAllTrials => .ok { env with trials := some env.inp.study }
  | .appendVisited => match env.visited, env.t with
    | some l, some t => match t.gridId with
      | some g => .ok { env with visited := some (l ++ [g]) }
      | none => .error .keyError
    | _, _ => .error .unrepresentable
  | .appendRunning => match env.running, env.t with
    | some l, some t => match t.gridId with
      | some g => .ok { env with running := some (l ++ [g]) }
      | none => .error .keyError
    | _, _ => .error .unrepresentable
  | .setUnvisited minus => match mapE (evalSetSrc env) minus with
    | .error x => .error x
    | .ok subs =>
      .ok { env with unvisited := some ((List.range env.inp.nMin).filter (fun g => subs.all (fun s => !s.contains g))) }
  | .setTarget .unvisitedCall => match calls.unvisited with
    | .ok l => .ok { env with target := some l }
    | .error x => .error x
  | .setTarget .allRange => .ok { env with target := some (List.range env.inp.nAll) }
  | .warn => .ok env
  | .chooseGridId => match env.target with
    | some l => .ok { env with gridId := some (some (Grid.pick l env.inp.proposal)), usedRng := true }
    | none => .error .unrepresentable
  | .write .searchSpace => .ok { env with writes := env.writes ++ [.searchSpace] }
  | .write (.gridId .trialNumber) => .ok { env with writes := env.writes ++ [.gridId env.inp.number] }
  | .write (.gridId .localGridId) => match env.gridId with
    | some (some g) => .ok { env with writes := env.writes ++ [.gridId g] }
    | _ => .error .unrepresentable
  | .getCurGridId => .ok { env with gridId := some env.inp.curStoredGridId }
  | .studyStop => .ok { env with stopped := true }

def iterG (env : GEnv) : GLoop → Except Err (List (GEnv → GEnv))
  | .theirKeys => .ok (env.inp.theirs.map (fun kv => fun e => { e with paramName := some kv.1 }))
  | .theirValuesEnum => match env.paramName with
    | none => .error .unrepresentable
    | some p => match AList.get? env.inp.theirs p with
      | none => .error .keyError
      | some vs => .ok ((enumFrom 0 vs).map (fun iv => fun e => { e with vidx := some iv.1, paramValue := some iv.2 }))
  | .trials => match env.trials with
    | some ts => .ok (ts.map (fun t => fun e => { e with t := some t }))
    | none => .error .unrepresentable

def retG (env : GEnv) : GRet → Except Err GRVal
  | .none => .ok .none
  | .bool b => .ok (.bool b)
  | .listUnvisited => match env.unvisited with
    | some u => .ok (.ids u)
    | none => .error .unrepresentable

def gridSem (calls : GCalls) : Sem GCond GAct GLoop GRet GEnv GRVal :=
  { cond := evalGCond calls, act := doGAct calls, iter := iterG, retv := retG }

def noCallsG : GCalls :=
  { valueEqual := fun _ _ => .error .unrepresentable, sameSpace := fun _ => .error .unrepresentable,
    unvisited := .error .unrepresentable }

def finishBool : GEnv × Flow GRVal → Except Err Bool
  | (_, .raised e) => .error e
  | (_, .ret (.bool b)) => .ok b
  | (_, _) => .error .typeError

/-- `GridSampler._same_search_space(search_space)` -/
def interpSameSpace (veq : VEqIR) (body : GStmt) (mine theirs : Space) : Except Err Bool :=
  finishBool (exec (gridSem { noCallsG with valueEqual := interpValueEqual veq }) body
    (GEnv.ofIn { GIn.init mine 0 [] with theirs := theirs }))

def finishIds : GEnv × Flow GRVal → Except Err (List Nat)
  | (_, .raised e) => .error e
  | (_, .ret (.ids l)) => .ok l
  | (_, _) => .error .typeError

/-- the generated `GridSampler` methods -/
structure GridProg where
  gridValueEqual : VEqIR
  sameSearchSpace : GStmt
  getUnvisitedGridIds : GStmt
  beforeTrial : GStmt
  afterTrial : GStmt
  /-- `__init__` sets `self._n_min_trials = len(self._all_grids)` -/
  nMinIsLenAllGrids : Bool
  /-- `__init__` shuffles `_all_grids` with `LazyRandomState(seed or 0)`: two sampler objects built with the same
  arguments (`seed=None` included) order the cells identically, so a stored grid id means the same cell to both -/
  shuffleSeedFixed : Bool

/-- `GridSampler._get_unvisited_grid_ids(study)` -/
def interpUnvisited (P : GridProg) (mine : Space) (n : Nat) (study : List RTrial) : Except Err (List Nat) :=
  finishIds (exec (gridSem { noCallsG with sameSpace := fun sp => interpSameSpace P.gridValueEqual P.sameSearchSpace mine sp })
    P.getUnvisitedGridIds (GEnv.ofIn (GIn.init mine n study)))

def finishWrites : GEnv × Flow GRVal → Except Err (List Write × Bool)
  | (_, .raised e) => .error e
  | (env, .next) => .ok (env.writes, env.usedRng)
  | (env, .ret .none) => .ok (env.writes, env.usedRng)
  | (_, _) => .error .unrepresentable

/-- `GridSampler.before_trial`: the attribute writes in order, and whether the RNG was used -/
def interpBeforeTrial (P : GridProg) (mine : Space) (n : Nat) (study : List RTrial) (cur : RTrial)
    (number : Nat) (proposal : Nat) : Except Err (List Write × Bool) :=
  finishWrites (exec (gridSem { noCallsG with unvisited := interpUnvisited P mine n study }) P.beforeTrial
    (GEnv.ofIn { GIn.init mine n study with cur := cur, number := number, proposal := proposal }))

def finishStopG : GEnv × Flow GRVal → Except Err Bool
  | (_, .raised e) => .error e
  | (env, .next) => .ok env.stopped
  | (env, .ret .none) => .ok env.stopped
  | (_, _) => .error .unrepresentable

/-- `GridSampler.after_trial`: was `study.stop()` called -/
def interpGridAfterTrial (P : GridProg) (mine : Space) (n : Nat) (study : List RTrial)
    (curStored : Option Nat) : Except Err Bool :=
  finishStopG (exec (gridSem { noCallsG with unvisited := interpUnvisited P mine n study }) P.afterTrial
    (GEnv.ofIn { GIn.init mine n study with curStoredGridId := curStored }))

/-! ## the optimize loops over an arbitrary implementation of the sampler hooks

`BruteForce.session` / `Grid.session` with the sampler's methods as parameters; instantiated with the
hand model they ARE those functions (`Props/C14Gen.lean`: `sessionW_hand`, `gsessionW_hand`), instantiated
with the interpreter of the generated methods they are what the theorems of C14 are restated for. -/

structure Impl where
  sample : Bool → List Trial → List Step → String → List Val → Val → Option Val
  /-- `others`, then the parameters of the trial being told (it is finished by the call) -/
  after : Bool → List Trial → List Step → Option Bool

def runObjW (S : Impl) (avoid : Bool) (ω : Nat → Val) (others : List Trial) :
    Prog → List Step → Nat → Cut → ObjRes × Nat
  | .leaf o, pre, c, cut =>
    match cut with
    | .atEnd => (.interrupted pre, c)
    | _ => (.done pre o, c)
  | .node name single cands child, pre, c, cut =>
    if cut = .mid pre.length then (.interrupted pre, c)
    else if single then
      let v := cands.headD 0
      runObjW S avoid ω others (child v) (pre ++ [⟨name, cands, v⟩]) c cut
    else
      match S.sample avoid others pre name cands (ω c) with
      | none => (.samplerError pre, c)
      | some v => runObjW S avoid ω others (child v) (pre ++ [⟨name, cands, v⟩]) (c + 1) cut

def runTrialW (S : Impl) (cx : BruteForce.Ctx) (p : Prog) (st : BruteForce.St) : BruteForce.St × Bool :=
  let r := runObjW S cx.avoid cx.ω st.trials p [] st.calls (cx.cuts st.trials.length)
  let trials := st.trials ++ [⟨r.1.steps, true⟩]
  match S.after cx.avoid st.trials r.1.steps with
  | none => ({ trials := trials, stop := st.stop, calls := r.2, crashed := true }, true)
  | some s =>
    ({ trials := trials, stop := st.stop || s, calls := r.2, crashed := st.crashed || r.1.isError },
      r.1.raised)

def optimizeLoopW (S : Impl) (cx : BruteForce.Ctx) (p : Prog) : Nat → BruteForce.St → BruteForce.St
  | 0, st => st
  | k + 1, st =>
    if st.stop then st
    else
      let r := runTrialW S cx p st
      if r.2 then r.1 else optimizeLoopW S cx p k r.1

def optimizeW (S : Impl) (cx : BruteForce.Ctx) (p : Prog) (k : Nat) (st : BruteForce.St) : BruteForce.St :=
  optimizeLoopW S cx p k { st with stop := false }

def sessionW (S : Impl) (cx : BruteForce.Ctx) (p : Prog) (ks : List Nat) (st : BruteForce.St) : BruteForce.St :=
  ks.foldl (fun st k => if st.stop then st else optimizeW S cx p k st) st

def handImpl : Impl :=
  { sample := sampleIndependent, after := fun avoid others steps => afterTrial avoid (others ++ [⟨steps, true⟩]) }

/-- a finished state -/
inductive FState where
  | complete | pruned | fail
deriving DecidableEq, Repr, Inhabited

def FState.toT : FState → TState
  | .complete => .complete | .pruned => .pruned | .fail => .fail

/-- the stored form of the abstract trial list: numbers from `i` on, finished trials in the state `σ`
assigns to their number -/
def embedFrom (σ : Nat → FState) : Nat → List Trial → List ITrial
  | _, [] => []
  | i, t :: rest => ⟨i, t.steps, if t.finished then (σ i).toT else .running⟩ :: embedFrom σ (i + 1) rest

/-- the hooks as the interpreter of GENERATED methods, on the stored form of the study: during
`sample_independent` / `after_trial` the current trial is stored RUNNING under the next number -/
def genImpl (P : TreeProg) (populateB sampleB afterB : BStmt) (σ : Nat → FState) : Impl :=
  { sample := fun avoid others pre name cands proposal =>
      toOpt (interpSampleIndependent P populateB sampleB avoid
        (embedFrom σ 0 others ++ [⟨others.length, pre, .running⟩]) others.length (paramsOf pre) name cands proposal),
    after := fun avoid others steps =>
      toOpt (interpAfterTrial P populateB afterB avoid
        (embedFrom σ 0 others ++ [⟨others.length, steps, .running⟩]) others.length (σ others.length).toT) }

structure GImpl where
  before : Nat → List GTrial → Nat → Nat → Nat × Bool
  after : Nat → List GTrial → Option Nat → Bool

def grunTrialW (S : GImpl) (cx : Grid.Ctx) (n : Nat) (st : Grid.St) : Grid.St × Bool :=
  match firstWaiting st.trials with
  | some i =>
    let cur := (st.trials[i]?).bind (·.gridId)
    let ts1 := setState st.trials i .running
    let ts2 := setState st.trials i .finished
    ({ trials := ts2, stop := st.stop || S.after n ts1 cur, calls := st.calls }, cx.raises i)
  | none =>
    let j := st.trials.length
    let b := S.before n st.trials j (cx.ω st.calls)
    let calls := if b.2 then st.calls + 1 else st.calls
    let ts1 := st.trials ++ [⟨some b.1, .running⟩]
    let ts2 := st.trials ++ [⟨some b.1, .finished⟩]
    ({ trials := ts2, stop := st.stop || S.after n ts1 (some b.1), calls := calls }, cx.raises j)

def goptimizeLoopW (S : GImpl) (cx : Grid.Ctx) (n : Nat) : Nat → Grid.St → Grid.St
  | 0, st => st
  | k + 1, st =>
    if st.stop then st
    else
      let r := grunTrialW S cx n st
      if r.2 then r.1 else goptimizeLoopW S cx n k r.1

def goptimizeW (S : GImpl) (cx : Grid.Ctx) (n : Nat) (k : Nat) (st : Grid.St) : Grid.St :=
  goptimizeLoopW S cx n k { st with stop := false }

def gsessionW (S : GImpl) (cx : Grid.Ctx) (n : Nat) (ks : List Nat) (st : Grid.St) : Grid.St :=
  ks.foldl (fun st k => if st.stop then st else goptimizeW S cx n k st) st

def handGImpl : GImpl := { before := Grid.beforeTrial, after := Grid.afterTrial }

/-- the grid id a write sequence assigns (the last `grid_id` write) -/
def writtenId : List Write → Option Nat
  | [] => none
  | .gridId g :: rest => (match writtenId rest with | some g' => some g' | none => some g)
  | .searchSpace :: rest => writtenId rest

/-- the hooks as the interpreter of the GENERATED methods on the stored form of the study
(`GTrial.store`: a trial the abstract model counts for the grid carries the sampler's own search
space; the fresh trial has no attributes yet) -/
def genGImpl (P : GridProg) (mine : Space) : GImpl :=
  { before := fun n ts number proposal =>
      match interpBeforeTrial P mine n (ts.map (GTrial.store mine)) ⟨none, none, false, .running⟩ number proposal with
      | .ok (ws, used) => ((writtenId ws).getD 0, used)
      | .error _ => (0, false),
    after := fun n ts cur =>
      match interpGridAfterTrial P mine n (ts.map (GTrial.store mine)) cur with
      | .ok b => b
      | .error _ => false }

end OptunaVerif.SamplerIR
