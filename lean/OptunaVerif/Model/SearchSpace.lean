import OptunaVerif.Model.Basic
/-
  Executable model of `optuna/search_space/intersection.py` and `optuna/search_space/group_decomposed.py`
  (C17).  Core Lean only.

  * a distribution is a *token* (`Nat`): the harness numbers the equivalence classes of Python `==` on
    `BaseDistribution` objects; the code only ever compares distributions for equality;
  * a dict `name ↦ distribution` is an association list (`AList Nat`, `Model/Basic.lean`), lookup = first
    match, `set` overwrites by key;
  * the integer expressions and state lists of `_calculate` are the constants of `SearchSpaceCode` below
    (`breakTest`, `nextFirst`, `nextUnfinished`, `nextUnsetTest`, `statesBase` …).  They are tied to the Python
    source twice, on every run, in `Props/C17Gen.lean`: `code_constants_pinned` (they are what
    `verif/translators/search_space.py` reads out of the source into `Generated/SearchSpaceCode.lean`) and
    the `interp_*` equalities (the whole method bodies, `verif/translators/tspace.py`).
-/
namespace OptunaVerif.SearchSpace
open OptunaVerif

/- The expressions of `_calculate` / `__init__` / `_GroupDecomposedSearchSpace.calculate` as the model uses them. -/
namespace SearchSpaceCode
/-- `_calculate`: `states_of_interest = [...]` -/
def statesBase : List TState := [.complete, .waiting, .running]
/-- `_calculate`: `if include_pruned: states_of_interest.append(...)` -/
def statesPrunedExtra : List TState := [.pruned]
/-- `_calculate`: default of the parameter `cached_trial_number` -/
def cachedDefault : Int := -1
/-- `_calculate`: `next_cached_trial_number = <const>` before the loop -/
def nextInit : Int := -1
/-- `_calculate`: the test of `if next_cached_trial_number == -1:` -/
def nextUnsetTest (next : Int) : Bool := decide (next = (-1))
/-- `_calculate`: the value assigned by `next_cached_trial_number = trial.number + 1` -/
def nextFirst (number : Int) : Int := (number + 1)
/-- `_calculate`: the test of `if cached_trial_number > trial.number: break` -/
def breakTest (cached number : Int) : Bool := decide (cached > number)
/-- `_calculate`, unfinished branch: the value assigned by `next_cached_trial_number = trial.number` -/
def nextUnfinished (number : Int) : Int := number
/-- `IntersectionSearchSpace.__init__`: `self._cached_trial_number = <const>` -/
def cursorInit : Int := -1
/-- `_GroupDecomposedSearchSpace.calculate`: states when not `include_pruned` -/
def groupStates : List TState := [.complete]
/-- `_GroupDecomposedSearchSpace.calculate`: states when `include_pruned` -/
def groupStatesPruned : List TState := [.complete, .pruned]
end SearchSpaceCode

/-- `dict[str, BaseDistribution]` with distributions as equality tokens. -/
abbrev Dists := AList Nat

/-- What `_calculate` reads of a `FrozenTrial`. -/
structure Trial where
  number : Nat
  state : TState
  dists : Dists
deriving DecidableEq, Repr, Inhabited

def keys (d : Dists) : List String := d.map Prod.fst

/-- `trial.state in states_of_interest` of `_calculate`. -/
def ofInterest (includePruned : Bool) (st : TState) : Bool :=
  (SearchSpaceCode.statesBase ++ (if includePruned then SearchSpaceCode.statesPrunedExtra else [])).contains st

/-- `{name: distribution for name, distribution in search_space.items()
      if trial.distributions.get(name) == distribution}` -/
def inter (space d : Dists) : Dists :=
  space.filter (fun p => AList.get? d p.1 == some p.2)

/-- the two last statements of the loop body: first finished trial is copied, later ones intersected -/
def absorb : Option Dists → Dists → Option Dists
  | none, d => some d
  | some s, d => some (inter s d)

/-- The loop `for trial in reversed(trials)` of `_calculate`, on the already reversed list; the loop
state is `(search_space, next_cached_trial_number)`; `break` returns at once. -/
def scan (ip : Bool) (cached : Int) : List Trial → Option Dists → Int → Option Dists × Int
  | [], sp, nx => (sp, nx)
  | t :: rest, sp, nx =>
    if !ofInterest ip t.state then scan ip cached rest sp nx
    else
      let nx1 := if SearchSpaceCode.nextUnsetTest nx then SearchSpaceCode.nextFirst t.number else nx
      if SearchSpaceCode.breakTest cached t.number then (sp, nx1)
      else if !t.state.isFinished then scan ip cached rest sp (SearchSpaceCode.nextUnfinished t.number)
      else scan ip cached rest (absorb sp t.dists) nx1

/-- `_calculate(trials, include_pruned, search_space, cached_trial_number)` -/
def calcRaw (trials : List Trial) (ip : Bool) (sp : Option Dists) (cached : Int) : Option Dists × Int :=
  scan ip cached trials.reverse sp SearchSpaceCode.nextInit

/-- insertion into a list sorted by name (before equal names: the sort is stable) -/
def insertByName (p : String × Nat) : Dists → Dists
  | [] => [p]
  | q :: r => if p.1 ≤ q.1 then p :: q :: r else q :: insertByName p r

/-- `dict(sorted(search_space.items(), key=lambda x: x[0]))` -/
def sortByName (l : Dists) : Dists := l.foldr insertByName []

/-- `search_space or {}` then sorted by name: what both public entry points return -/
def output (sp : Option Dists) : Dists := sortByName (sp.getD [])

/-- `intersection_search_space(trials, include_pruned)`: the from-scratch computation -/
def intersectionSearchSpace (trials : List Trial) (ip : Bool) : Dists :=
  output (calcRaw trials ip none SearchSpaceCode.cachedDefault).1

/-- the attributes of an `IntersectionSearchSpace` object -/
structure Calc where
  cursor : Int                 -- `_cached_trial_number`
  space : Option Dists         -- `_search_space`
  studyId : Option Nat         -- `_study_id`
  includePruned : Bool         -- `_include_pruned`
deriving DecidableEq, Repr, Inhabited

def Calc.init (ip : Bool) : Calc :=
  { cursor := SearchSpaceCode.cursorInit, space := none, studyId := none, includePruned := ip }

inductive CalcOut where
  | valueError
  | result (d : Dists)
deriving DecidableEq, Repr, Inhabited

/-- `IntersectionSearchSpace.calculate(study)` given `study._study_id` and `study.get_trials(deepcopy=False)` -/
def Calc.calculate (c : Calc) (sid : Nat) (trials : List Trial) : Calc × CalcOut :=
  if c.studyId.isSome && c.studyId != some sid then (c, .valueError)
  else
    let r := calcRaw trials c.includePruned c.space c.cursor
    ({ c with studyId := some sid, space := r.1, cursor := r.2 }, .result (output r.1))

/-! ## `_SearchSpaceGroup.add_distributions` and `_GroupDecomposedSearchSpace.calculate` -/

/-- the `for search_space in self._search_spaces` loop; second component = `dist_keys` at the end -/
def addAux : List Dists → List String → List Dists × List String
  | [], dk => ([], dk)
  | g :: gs, dk =>
    let r := addAux gs (dk.filter (fun k => !(keys g).contains k))
    (g.filter (fun p => dk.contains p.1) :: g.filter (fun p => !dk.contains p.1) :: r.1, r.2)

/-- `_SearchSpaceGroup.add_distributions(distributions)` -/
def addDistributions (gs : List Dists) (d : Dists) : List Dists :=
  let r := addAux gs (keys d)
  (r.1 ++ [d.filter (fun p => r.2.contains p.1)]).filter (fun g => !g.isEmpty)

structure GCalc where
  groups : List Dists          -- `_search_space._search_spaces`
  studyId : Option Nat
  includePruned : Bool
deriving DecidableEq, Repr, Inhabited

def GCalc.init (ip : Bool) : GCalc := { groups := [], studyId := none, includePruned := ip }

def groupOfInterest (ip : Bool) (st : TState) : Bool :=
  (if ip then SearchSpaceCode.groupStatesPruned else SearchSpaceCode.groupStates).contains st

inductive GOut where
  | valueError
  | groups (g : List Dists)
deriving DecidableEq, Repr, Inhabited

/-- `_GroupDecomposedSearchSpace.calculate(study)`: every call re-adds every trial of interest -/
def GCalc.calculate (c : GCalc) (sid : Nat) (trials : List Trial) : GCalc × GOut :=
  if c.studyId.isSome && c.studyId != some sid then (c, .valueError)
  else
    let gs := (trials.filter (fun t => groupOfInterest c.includePruned t.state)).foldl
      (fun gs t => addDistributions gs t.dists) c.groups
    ({ c with studyId := some sid, groups := gs }, .groups gs)

/-! ## histories: what can happen to the trials of one study between calculator calls

The facts used about the storage are those of `Props/C01.lean` (`numbers_dense`: a new trial gets the
next number; `finished_frozen`: a finished trial is never written again); here they are built into the
step function (writes to a finished or unknown trial are rejected and change nothing). -/

inductive Step where
  /-- `ask()` (RUNNING, no params), `enqueue_trial` (WAITING), `add_trial` (any state, any params):
  a new trial with the next number; the params are written one by one as into a dict -/
  | create (st : TState) (params : List (String × Nat))
  /-- `suggest_*` / `set_trial_param` on trial number `i` (overwrites by name) -/
  | setParam (i : Nat) (name : String) (tok : Nat)
  /-- `tell` / `set_trial_state_values`: any state change of a not yet finished trial -/
  | setState (i : Nat) (st : TState)
  /-- `IntersectionSearchSpace.calculate(study)` on this study -/
  | callI
  /-- the same calculator object handed *another* study (a different id; a step naming our own id is
  not a foreign call and is ignored) together with that study's trials -/
  | callForeign (sid : Nat) (trials : List Trial)
  /-- `_GroupDecomposedSearchSpace.calculate(study)` on this study -/
  | callG
deriving DecidableEq, Repr, Inhabited

inductive Out where
  | ok | rejected | valueError
  | result (d : Dists)
  | groups (g : List Dists)
deriving DecidableEq, Repr, Inhabited

structure Sys where
  trials : List Trial
  isp : Calc
  gsp : GCalc
deriving DecidableEq, Repr, Inhabited

def Sys.init (ipI ipG : Bool) : Sys := { trials := [], isp := Calc.init ipI, gsp := GCalc.init ipG }

def mkDists (params : List (String × Nat)) : Dists :=
  params.foldl (fun acc p => AList.set acc p.1 p.2) []

def ofCalcOut : CalcOut → Out
  | .valueError => .valueError
  | .result d => .result d

def ofGOut : GOut → Out
  | .valueError => .valueError
  | .groups g => .groups g

/-- one step of a history of the study with id `sid` -/
def step (sid : Nat) (s : Sys) : Step → Sys × Out
  | .create st params =>
    ({ s with trials := s.trials ++ [{ number := s.trials.length, state := st, dists := mkDists params }] }, .ok)
  | .setParam i name tok =>
    match s.trials[i]? with
    | some t =>
      if t.state.isFinished then (s, .rejected)
      else ({ s with trials := updAt s.trials i (fun t => { t with dists := AList.set t.dists name tok }) }, .ok)
    | none => (s, .rejected)
  | .setState i st =>
    match s.trials[i]? with
    | some t =>
      if t.state.isFinished then (s, .rejected)
      else ({ s with trials := updAt s.trials i (fun t => { t with state := st }) }, .ok)
    | none => (s, .rejected)
  | .callI =>
    let r := s.isp.calculate sid s.trials
    ({ s with isp := r.1 }, ofCalcOut r.2)
  | .callForeign sid' trials' =>
    if sid' = sid then (s, .rejected)
    else
      let r := s.isp.calculate sid' trials'
      ({ s with isp := r.1 }, ofCalcOut r.2)
  | .callG =>
    let r := s.gsp.calculate sid s.trials
    ({ s with gsp := r.1 }, ofGOut r.2)

/-- the state after a finite history -/
def after (sid : Nat) (s : Sys) (h : List Step) : Sys := h.foldl (fun s st => (step sid s st).1) s

end OptunaVerif.SearchSpace
