import OptunaVerif.Model.Basic
import OptunaVerif.Model.Pruners
/-
  A small IR for the CONTROL SKELETON of a Python function, and its interpreter (C16).

  `verif/translators/pruners_skel.py` regenerates, from the source of every `prune` method of
  optuna/pruners (and their helpers), one `Fn`:

    atoms    the maximal sub-expressions the translator does not look into (names, attributes, calls,
             subscripts), VERBATIM, in order of first use; the IR refers to them by index.  What an atom
             means is given by an environment `Env` (in Props/C16SkelGen.lean: the quantities of
             Model/Pruners.lean); an atom may read the current locals (`np.nanpercentile(..., percentile)`
             after `percentile = 100 - percentile`; `len(competing)` inside the rung loop).
    locals   the names that are re-assigned (assigned more than once, augmented, assigned in a loop, loop
             targets, `self.<attr>` targets); they live in the interpreter's store.
    data     every other assignment / assert, verbatim, in source order ("data statements": the assigned
             name is an atom).
    body     the control flow: `if` / `return` (numbered in source order) / `raise` / assignments to locals /
             effect statements / `while True` / `while c` / `for i in range(e)`.

  Values are dynamically typed like Python's; ints are promoted to floats (`XVal`) in mixed arithmetic
  and comparisons; floats follow IEEE without rounding (NaN compares false).  Core Lean only.
-/
namespace OptunaVerif.Skel
open OptunaVerif

inductive Val where
  | none
  | b (v : Bool)
  | i (v : Int)
  | x (v : XVal)
  | dir (maximize : Bool)
  /-- an object the skeleton never looks into (the value of atom `k`) -/
  | opq (k : Nat)
  | err
deriving DecidableEq, Repr, Inhabited

inductive Exp where
  | atom (k : Nat)
  | lvar (k : Nat)
  | int (n : Int)
  | bool (v : Bool)
  | nan
  | none
  | dirMax
  | dirMin
  | add (a b : Exp) | sub (a b : Exp) | mul (a b : Exp) | pow (a b : Exp) | mod (a b : Exp) | neg (a : Exp)
  | lt (a b : Exp) | le (a b : Exp) | gt (a b : Exp) | ge (a b : Exp) | eq (a b : Exp) | ne (a b : Exp)
  | not (a : Exp) | and (a b : Exp) | or (a b : Exp)
  | isNone (a : Exp) | isNan (a : Exp)
deriving Repr, Inhabited

inductive Prog where
  /-- the `idx`-th `return` statement of the source (a bare `return` / falling off the end returns `none`) -/
  | ret (idx : Nat) (e : Exp)
  /-- `raise ...` / `assert False` -/
  | raise (idx : Nat) (text : String)
  /-- `locals[k] = e` -/
  | set (k : Nat) (e : Exp) (rest : Prog)
  /-- an expression statement (atom `k`), executed for its effect -/
  | effect (k : Nat) (rest : Prog)
  | ite (c : Exp) (th el : Prog)
  /-- `first` then `rest`: `rest` runs when `first` reaches a `skip` leaf (an `if` that does not return on every path) -/
  | seq (first rest : Prog)
  /-- `while True: body`; reaching `skip` in `body` is "end of the loop body" -/
  | whileTrue (body : Prog)
  /-- `while c: body` followed by `after` -/
  | whileC (c : Exp) (body : Prog) (after : Prog)
  /-- `for locals[k] in range(bound): body` followed by `after` -/
  | forRange (k : Nat) (bound : Exp) (body : Prog) (after : Prog)
  /-- end of a block that falls through -/
  | skip
deriving Repr, Inhabited

structure Fn where
  name : String
  atoms : List String
  locals : List String
  /-- initial value of each local (a parameter that is re-assigned starts as its atom) -/
  init : List Exp
  data : List String
  body : Prog
deriving Repr, Inhabited

/-- store: the locals, and the log of executed effect statements (atom index, locals at that moment) -/
structure St where
  locals : List Val
  effects : List (Nat × List Val)
deriving DecidableEq, Repr, Inhabited

abbrev Env := Nat → St → Val

/-! ## float-like operations: those of Model/Pruners.lean -/

open OptunaVerif.Pruners (xisNan xlt xneg xadd xsub)

/-- Python `a <= b` on floats (false when either side is NaN) -/
def xle (a b : XVal) : Bool := XVal.le a b

/-! ## expressions -/

def varith (fi : Int → Int → Int) (fx : XVal → XVal → XVal) : Val → Val → Val
  | .i a, .i b => .i (fi a b)
  | .x a, .x b => .x (fx a b)
  | .i a, .x b => .x (fx (.fin a) b)
  | .x a, .i b => .x (fx a (.fin b))
  | _, _ => .err

def vcmp (fi : Int → Int → Bool) (fx : XVal → XVal → Bool) : Val → Val → Val
  | .i a, .i b => .b (fi a b)
  | .x a, .x b => .b (fx a b)
  | .i a, .x b => .b (fx (.fin a) b)
  | .x a, .i b => .b (fx a (.fin b))
  | _, _ => .err

def veq : Val → Val → Val
  | .i a, .i b => .b (decide (a = b))
  | .dir a, .dir b => .b (decide (a = b))
  | .b a, .b b => .b (decide (a = b))
  | .none, .none => .b true
  | .x a, .x b => .b (!xisNan a && !xisNan b && decide (a = b))
  | _, _ => .err

def vnot : Val → Val
  | .b v => .b (!v)
  | _ => .err

/-- Python truthiness of what the skeletons test -/
def truthy : Val → Option Bool
  | .b v => some v
  | .i v => some (decide (v ≠ 0))
  | .none => some false
  | _ => Option.none

def evalE (env : Env) (st : St) : Exp → Val
  | .atom k => env k st
  | .lvar k => st.locals.getD k .err
  | .int n => .i n
  | .bool v => .b v
  | .nan => .x .nan
  | .none => .none
  | .dirMax => .dir true
  | .dirMin => .dir false
  | .add a b => varith (· + ·) xadd (evalE env st a) (evalE env st b)
  | .sub a b => varith (· - ·) xsub (evalE env st a) (evalE env st b)
  | .mul a b => varith (· * ·) (fun _ _ => .nan) (evalE env st a) (evalE env st b)
  | .pow a b =>
    match evalE env st a, evalE env st b with
    | .i a, .i b => .i (a ^ b.toNat)
    | _, _ => .err
  | .mod a b =>
    match evalE env st a, evalE env st b with
    | .i a, .i b => .i (Int.fmod a b)
    | _, _ => .err
  | .neg a =>
    match evalE env st a with
    | .i a => .i (-a)
    | .x a => .x (xneg a)
    | _ => .err
  | .lt a b => vcmp (fun a b => decide (a < b)) xlt (evalE env st a) (evalE env st b)
  | .le a b => vcmp (fun a b => decide (a ≤ b)) xle (evalE env st a) (evalE env st b)
  | .gt a b => vcmp (fun a b => decide (b < a)) (fun a b => xlt b a) (evalE env st a) (evalE env st b)
  | .ge a b => vcmp (fun a b => decide (b ≤ a)) (fun a b => xle b a) (evalE env st a) (evalE env st b)
  | .eq a b => veq (evalE env st a) (evalE env st b)
  | .ne a b => vnot (veq (evalE env st a) (evalE env st b))
  | .not a =>
    match truthy (evalE env st a) with
    | some v => .b (!v)
    | Option.none => .err
  | .and a b =>
    -- Python `a and b` (short-circuit; the skeletons only use it on booleans)
    match truthy (evalE env st a) with
    | some false => evalE env st a
    | some true => evalE env st b
    | Option.none => .err
  | .or a b =>
    match truthy (evalE env st a) with
    | some true => evalE env st a
    | some false => evalE env st b
    | Option.none => .err
  | .isNone a =>
    match evalE env st a with
    | .none => .b true
    | .err => .err
    | _ => .b false
  | .isNan a =>
    match evalE env st a with
    | .x v => .b (xisNan v)
    | .i _ => .b false
    | _ => .err

/-! ## programs -/

inductive Res where
  | ret (idx : Nat) (v : Val) (st : St)
  | raise (idx : Nat) (st : St)
  /-- reached `skip`: fell off the end of a block / loop body -/
  | fall (st : St)
  /-- a test that is not a boolean, a loop inside a loop, or out of fuel -/
  | stuck
deriving DecidableEq, Repr, Inhabited

def setLocal (st : St) (k : Nat) (v : Val) : St := { st with locals := st.locals.set k v }

/-- straight-line / branching part; `loops` interprets the three loop constructs -/
def execWith (env : Env) (loops : Prog → St → Res) : Prog → St → Res
  | .ret idx e, st => .ret idx (evalE env st e) st
  | .raise idx _, st => .raise idx st
  | .set k e rest, st => execWith env loops rest (setLocal st k (evalE env st e))
  | .effect k rest, st => execWith env loops rest { st with effects := st.effects ++ [(k, st.locals)] }
  | .ite c th el, st =>
    match truthy (evalE env st c) with
    | some true => execWith env loops th st
    | some false => execWith env loops el st
    | Option.none => .stuck
  | .seq a b, st =>
    match execWith env loops a st with
    | .fall st' => execWith env loops b st'
    | r => r
  | .skip, st => .fall st
  | p, st => loops p st

/-- loop bodies contain no loops -/
def execFlat (env : Env) : Prog → St → Res := execWith env (fun _ _ => .stuck)

/-- `while True: body` -/
def iterTrue (env : Env) (body : Prog) : Nat → St → Res
  | 0, _ => .stuck
  | fuel + 1, st =>
    match execFlat env body st with
    | .fall st' => iterTrue env body fuel st'
    | r => r

/-- `while c: body`; `none` = fell out of the loop with this store -/
def iterWhile (env : Env) (c : Exp) (body : Prog) : Nat → St → Res ⊕ St
  | 0, _ => .inl .stuck
  | fuel + 1, st =>
    match truthy (evalE env st c) with
    | some false => .inr st
    | some true =>
      match execFlat env body st with
      | .fall st' => iterWhile env c body fuel st'
      | r => .inl r
    | Option.none => .inl .stuck

/-- `for locals[k] in range(n): body`, from `i` on, `todo` iterations left -/
def iterFor (env : Env) (k : Nat) (body : Prog) : Nat → Nat → St → Res ⊕ St
  | 0, _, st => .inr st
  | todo + 1, i, st =>
    match execFlat env body (setLocal st k (.i i)) with
    | .fall st' => iterFor env k body todo (i + 1) st'
    | r => .inl r

def loopsOf (env : Env) (fuel : Nat) (execAfter : Prog → St → Res) : Prog → St → Res
  | .whileTrue body, st => iterTrue env body fuel st
  | .whileC c body after, st =>
    match iterWhile env c body fuel st with
    | .inl r => r
    | .inr st' => execAfter after st'
  | .forRange k bound body after, st =>
    match evalE env st bound with
    | .i n =>
      match iterFor env k body n.toNat 0 st with
      | .inl r => r
      | .inr st' => execAfter after st'
    | _ => .stuck
  | _, _ => .stuck

/-- whole function bodies: loops at the top level, whose `after` parts are loop-free -/
def exec (env : Env) (fuel : Nat) : Prog → St → Res :=
  execWith env (loopsOf env fuel (execFlat env))

def initSt (env : Env) (f : Fn) : St :=
  { locals := f.init.map (evalE env ⟨[], []⟩), effects := [] }

/-- run a generated skeleton -/
def interp (env : Env) (fuel : Nat) (f : Fn) : Res := exec env fuel f.body (initSt env f)

/-- the returned value, if the run returned -/
def Res.val : Res → Option Val
  | .ret _ v _ => some v
  | _ => Option.none

/-- which `return` statement fired -/
def Res.exit : Res → Option Nat
  | .ret idx _ _ => some idx
  | _ => Option.none

def Res.effects : Res → List (Nat × List Val)
  | .ret _ _ st => st.effects
  | .raise _ st => st.effects
  | .fall st => st.effects
  | .stuck => []

end OptunaVerif.Skel
