import OptunaVerif.Model.SearchSpace
/-
  A small statement language for the method bodies of `optuna/search_space/intersection.py`
  (`_calculate`, `IntersectionSearchSpace.calculate`, `intersection_search_space`) and
  `optuna/search_space/group_decomposed.py` (`_SearchSpaceGroup.add_distributions`,
  `_GroupDecomposedSearchSpace.calculate`), and its interpreter over the data of `Model/SearchSpace.lean`.

  `verif/translators/tspace.py` reads the Python source with `ast` on every run and emits every method as
  DATA of the types below into `Generated/SearchSpaceMethods.lean`.  `Props/C17Gen.lean` then proves, for all
  inputs, `interp (generated method) = hand model` and restates the theorems of `Props/C17.lean` for the
  interpreter.

  What is *meaning given here* (modelled, not derived from the source): the denotation of each primitive
  condition / action / loop header / return expression.  Each primitive stands for ONE whitelisted source
  shape, quoted next to its constructor; the translator refuses everything else.  Representation choices
  (those of `Model/SearchSpace.lean`):
    * a distribution is an equality token, a dict an association list (lookup = first match); a dict built by a
      comprehension over `d.items()` keeps the order of `d`; a dict built by a comprehension over a SET of names
      (`keys & dist_keys`, `keys - dist_keys`, `dist_keys`) is order-free in Python: it is listed in the order of
      the dict the values are taken from (the harness compares such dicts sorted);
    * a set of names is a list of names (membership only);
    * `copy.copy` / `copy.deepcopy` of a dict of immutable tokens is the dict;
    * `study.get_trials(deepcopy=False)` / `study._get_trials(deepcopy=False, use_cache=False)` is the current trial
      list of the study; `study._get_trials(…, use_cache=True)` is SOME list the thread has seen earlier (`stale`,
      arbitrary): nothing in the calculators makes it current;
    * `dist.single()` is an arbitrary predicate on tokens (`single`);
    * a callee (`_calculate`, `add_distributions`) enters the semantics of its caller as a function, instantiated
      with the interpreter of the callee's GENERATED body.
-/
namespace OptunaVerif.SpaceIR
open OptunaVerif OptunaVerif.SearchSpace

/-! ## the generic statement language (with `break` / `continue`) -/

inductive Err where
  | valueError | keyError | typeError
  /-- a local is unbound / the method was untranslatable / a value of the wrong kind is returned -/
  | unrepresentable
deriving DecidableEq, Repr, Inhabited

inductive Flow (V : Type) where
  | next
  | cont                    -- `continue`
  | brk                     -- `break`
  | ret (v : V)
  | raised (e : Err)
deriving Repr

inductive Stmt (C A L R : Type) where
  | skip
  | seq (a b : Stmt C A L R)
  | ite (c : C) (t e : Stmt C A L R)
  | act (a : A)
  | loop (l : L) (body : Stmt C A L R)
  | ret (r : R)
  | raise (e : Err)
  | cont
  | brk
deriving Repr, Inhabited

def block {C A L R : Type} : List (Stmt C A L R) → Stmt C A L R
  | [] => .skip
  | [s] => s
  | s :: rest => .seq s (block rest)

structure Sem (C A L R E V : Type) where
  cond : E → C → Except Err Bool
  act : E → A → Except Err E
  /-- the iterations of a loop, fixed at loop entry: how each one binds the loop variable -/
  iter : E → L → Except Err (List (E → E))
  retv : E → R → Except Err V

/-- `for`: `continue` goes on with the next item, `break` leaves the loop normally -/
def loopAux {E V : Type} (f : E → E × Flow V) : List (E → E) → E → E × Flow V
  | [], env => (env, .next)
  | b :: rest, env =>
    match f (b env) with
    | (env', .next) => loopAux f rest env'
    | (env', .cont) => loopAux f rest env'
    | (env', .brk) => (env', .next)
    | res => res

def andThen {E V : Type} (r : E × Flow V) (k : E → E × Flow V) : E × Flow V :=
  match r with
  | (env', .next) => k env'
  | res => res

/-- THE interpreter -/
def exec {C A L R E V : Type} (sem : Sem C A L R E V) : Stmt C A L R → E → E × Flow V
  | .skip, env => (env, .next)
  | .seq a b, env => andThen (exec sem a env) (fun e => exec sem b e)
  | .ite c t e, env =>
    match sem.cond env c with
    | .error x => (env, .raised x)
    | .ok true => exec sem t env
    | .ok false => exec sem e env
  | .act a, env =>
    match sem.act env a with
    | .error x => (env, .raised x)
    | .ok env' => (env', .next)
  | .loop l body, env =>
    match sem.iter env l with
    | .error x => (env, .raised x)
    | .ok bs => loopAux (fun e => exec sem body e) bs env
  | .ret r, env =>
    match sem.retv env r with
    | .error x => (env, .raised x)
    | .ok v => (env, .ret v)
  | .raise x, env => (env, .raised x)
  | .cont, env => (env, .cont)
  | .brk, env => (env, .brk)

/-! ## the vocabulary -/

/-- integer expressions -/
inductive IExp where
  | lit (i : Int)
  | next                       -- `next_cached_trial_number`
  | cached                     -- `cached_trial_number`
  | number                     -- `trial.number`
  | add (a b : IExp)
  | sub (a b : IExp)
  | mul (a b : IExp)
deriving DecidableEq, Repr, Inhabited

inductive Cmp where
  | lt | le | gt | ge | eq | ne
deriving DecidableEq, Repr, Inhabited

def Cmp.eval : Cmp → Int → Int → Bool
  | .lt, a, b => decide (a < b)
  | .le, a, b => decide (a ≤ b)
  | .gt, a, b => decide (a > b)
  | .ge, a, b => decide (a ≥ b)
  | .eq, a, b => decide (a = b)
  | .ne, a, b => decide (a ≠ b)

inductive SCond where
  | not (c : SCond)
  | and (a b : SCond)          -- short-circuit
  | or (a b : SCond)
  | includePrunedArg           -- `include_pruned`
  | selfIncludePruned          -- `self._include_pruned`
  | stateOfInterest            -- `trial.state in states_of_interest`
  | cmp (op : Cmp) (a b : IExp)
  | stateFinished              -- `trial.state.is_finished()`
  | stateIs (s : TState)       -- `trial.state == TrialState.<S>`
  | spaceIsNone                -- `search_space is None`
  | studyIdIsNone              -- `self._study_id is None`
  | studyIdDiffers             -- `self._study_id != study._study_id`
deriving DecidableEq, Repr, Inhabited

/-- the filter of the intersection comprehension -/
inductive InterKind where
  | getEq                      -- `if trial.distributions.get(name) == distribution`
  | nameIn                     -- `if name in trial.distributions`
deriving DecidableEq, Repr, Inhabited

inductive TrialsSrc where
  | argTrials                  -- `trials`
  | getTrials                  -- `study.get_trials(deepcopy=False)`
  | getTrialsNoCache           -- `study._get_trials(deepcopy=False, use_cache=False)`
  | getTrialsCached            -- `study._get_trials(deepcopy=False, use_cache=True)`
deriving DecidableEq, Repr, Inhabited

inductive BSrc where
  | argIncludePruned           -- `include_pruned`
  | selfIncludePruned          -- `self._include_pruned`
  | lit (b : Bool)
  | default                    -- argument omitted
deriving DecidableEq, Repr, Inhabited

inductive SpSrc where
  | selfSpace                  -- `self._search_space`
  | none                       -- `None`
  | default                    -- argument omitted
deriving DecidableEq, Repr, Inhabited

inductive CSrc where
  | selfCursor                 -- `self._cached_trial_number`
  | lit (i : Int)
  | default                    -- argument omitted
deriving DecidableEq, Repr, Inhabited

/-- where the pair returned by `_calculate` goes -/
inductive CalcTarget where
  | selfFields                 -- `self._search_space, self._cached_trial_number = _calculate(…)`
  | localSpace                 -- `search_space, _ = _calculate(…)`
deriving DecidableEq, Repr, Inhabited

inductive OutSrc where
  | selfSpaceOrEmpty           -- `search_space = self._search_space or {}`
  | localSpaceOrEmpty          -- `search_space = search_space or {}`
deriving DecidableEq, Repr, Inhabited

inductive KeysKind where
  | all                        -- `set(distributions.keys())`
  | nonSingle                  -- `{name for name, dist in distributions.items() if not dist.single()}`
deriving DecidableEq, Repr, Inhabited

inductive NameSel where
  | keysAndDistKeys            -- `for name in keys & dist_keys`
  | keysMinusDistKeys          -- `for name in keys - dist_keys`
  | distKeys                   -- `for name in dist_keys`
deriving DecidableEq, Repr, Inhabited

inductive ValSrc where
  | group                      -- `search_space[name]`   (the loop variable over `self._search_spaces`)
  | distributions              -- `distributions[name]`
deriving DecidableEq, Repr, Inhabited

inductive SAct where
  -- `_calculate`
  | setStates (l : List TState)        -- `states_of_interest = [..]` / `(..)`
  | appendState (s : TState)           -- `states_of_interest.append(TrialState.<S>)`
  | setNext (e : IExp)                 -- `next_cached_trial_number = <e>`
  | spaceCopyDists                     -- `search_space = copy.copy(trial.distributions)`
  /-- `search_space = {name: distribution for name, distribution in search_space.items() <filter>}` -/
  | spaceIntersect (k : InterKind)
  -- the two calculators
  | bindStudyId                        -- `self._study_id = study._study_id`
  | callCalculate (ts : TrialsSrc) (ip : BSrc) (sp : SpSrc) (c : CSrc) (tgt : CalcTarget)
  | setOut (src : OutSrc)
  | sortOut                            -- `search_space = dict(sorted(search_space.items(), key=lambda x: x[0]))`
  | groupAdd                           -- `self._search_space.add_distributions(trial.distributions)`
  -- `add_distributions`
  | setDistKeys (k : KeysKind)         -- `dist_keys = <k>`
  | initNextSpaces                     -- `next_search_spaces = []`
  | setKeys                            -- `keys = set(search_space.keys())`
  | appendRestrict (v : ValSrc) (n : NameSel)   -- `next_search_spaces.append({name: <v>[name] for name in <n>})`
  | distKeysMinusKeys                  -- `dist_keys -= keys`
  /-- `self._search_spaces = list(filter(lambda search_space: len(search_space) > 0, next_search_spaces))` -/
  | storeNonEmpty
deriving DecidableEq, Repr, Inhabited

inductive SLoop where
  | trialsReversed             -- `for trial in reversed(trials):`
  | trialsInOrder              -- `for trial in trials:`
  | groups                     -- `for search_space in self._search_spaces:`
  /-- `for trial in study._get_trials(deepcopy=False, states=states_of_interest, use_cache=<b>):` -/
  | studyTrialsOfStates (cached : Bool)
deriving DecidableEq, Repr, Inhabited

inductive SRet where
  | none
  | spaceAndNext               -- `return search_space, next_cached_trial_number`
  | out                        -- `return search_space`
  | outDeepcopy                -- `return copy.deepcopy(search_space)`
  | groupsDeepcopy             -- `return copy.deepcopy(self._search_space)`
deriving DecidableEq, Repr, Inhabited

abbrev SStmt := Stmt SCond SAct SLoop SRet

/-- the defaults of the parameters of `_calculate` (`include_pruned`, `search_space`, `cached_trial_number`) -/
structure CalcDefaults where
  includePruned : Bool
  spaceIsNone : Bool
  cached : Int
deriving DecidableEq, Repr, Inhabited

/-- what the methods only read -/
structure SIn where
  trials : List Trial          -- the argument `trials` / the current trials of `study`
  stale : List Trial           -- what `_get_trials(use_cache=True)` may answer
  argIp : Bool                 -- `include_pruned`
  argCached : Int              -- `cached_trial_number`
  sid : Nat                    -- `study._study_id`
  distributions : Dists        -- the argument of `add_distributions`
  single : Nat → Bool          -- `dist.single()`
  defaults : CalcDefaults

/-- the attributes of the object (`IntersectionSearchSpace` / `_GroupDecomposedSearchSpace` / `_SearchSpaceGroup`) -/
structure SObj where
  studyId : Option Nat
  includePruned : Bool
  space : Option Dists
  cursor : Int
  groups : List Dists
deriving DecidableEq, Repr, Inhabited

structure SEnv where
  inp : SIn
  obj : SObj
  -- locals
  states : Option (List TState)
  next : Option Int
  /-- `search_space` of `_calculate` (a parameter) / of `intersection_search_space` before `or {}` -/
  space : Option Dists
  out : Option Dists
  trial : Option Trial
  group : Option Dists
  keys : Option (List String)
  distKeys : Option (List String)
  nextSpaces : Option (List Dists)

structure SCalls where
  calcF : List Trial → Bool → Option Dists → Int → Except Err (Option Dists × Int)
  addF : List Dists → Dists → Except Err (List Dists)

def noCalls : SCalls :=
  { calcF := fun _ _ _ _ => .error .unrepresentable, addF := fun _ _ => .error .unrepresentable }

inductive SVal where
  | none
  | pair (sp : Option Dists) (nx : Int)
  | dists (d : Dists)
  | groups (g : List Dists)

def SIn.init (trials : List Trial) (sid : Nat) : SIn :=
  { trials := trials, stale := [], argIp := false, argCached := 0, sid := sid, distributions := [],
    single := fun _ => false, defaults := ⟨false, true, 0⟩ }

def SObj.init : SObj := { studyId := none, includePruned := false, space := none, cursor := 0, groups := [] }

def SEnv.mk' (inp : SIn) (obj : SObj) : SEnv :=
  { inp := inp, obj := obj, states := none, next := none, space := none, out := none, trial := none, group := none,
    keys := none, distKeys := none, nextSpaces := none }

def evalIExp (env : SEnv) : IExp → Except Err Int
  | .lit i => .ok i
  | .next => match env.next with
    | some n => .ok n
    | none => .error .unrepresentable
  | .cached => .ok env.inp.argCached
  | .number => match env.trial with
    | some t => .ok (t.number : Int)
    | none => .error .unrepresentable
  | .add a b => match evalIExp env a, evalIExp env b with
    | .ok x, .ok y => .ok (x + y)
    | .error e, _ => .error e
    | _, .error e => .error e
  | .sub a b => match evalIExp env a, evalIExp env b with
    | .ok x, .ok y => .ok (x - y)
    | .error e, _ => .error e
    | _, .error e => .error e
  | .mul a b => match evalIExp env a, evalIExp env b with
    | .ok x, .ok y => .ok (x * y)
    | .error e, _ => .error e
    | _, .error e => .error e

def evalSCond (env : SEnv) : SCond → Except Err Bool
  | .not c => match evalSCond env c with
    | .ok b => .ok (!b)
    | .error x => .error x
  | .and a b => match evalSCond env a with
    | .ok true => evalSCond env b
    | .ok false => .ok false
    | .error x => .error x
  | .or a b => match evalSCond env a with
    | .ok true => .ok true
    | .ok false => evalSCond env b
    | .error x => .error x
  | .includePrunedArg => .ok env.inp.argIp
  | .selfIncludePruned => .ok env.obj.includePruned
  | .stateOfInterest => match env.trial, env.states with
    | some t, some l => .ok (l.contains t.state)
    | _, _ => .error .unrepresentable
  | .cmp op a b => match evalIExp env a, evalIExp env b with
    | .ok x, .ok y => .ok (op.eval x y)
    | .error e, _ => .error e
    | _, .error e => .error e
  | .stateFinished => match env.trial with
    | some t => .ok t.state.isFinished
    | none => .error .unrepresentable
  | .stateIs s => match env.trial with
    | some t => .ok (t.state == s)
    | none => .error .unrepresentable
  | .spaceIsNone => .ok env.space.isNone
  | .studyIdIsNone => .ok env.obj.studyId.isNone
  | .studyIdDiffers => .ok (env.obj.studyId != some env.inp.sid)

def interBy (k : InterKind) (space d : Dists) : Dists :=
  match k with
  | .getEq => space.filter (fun p => AList.get? d p.1 == some p.2)
  | .nameIn => space.filter (fun p => (AList.get? d p.1).isSome)

def evalTrialsSrc (env : SEnv) : TrialsSrc → List Trial
  | .argTrials => env.inp.trials
  | .getTrials => env.inp.trials
  | .getTrialsNoCache => env.inp.trials
  | .getTrialsCached => env.inp.stale

def evalBSrc (env : SEnv) : BSrc → Bool
  | .argIncludePruned => env.inp.argIp
  | .selfIncludePruned => env.obj.includePruned
  | .lit b => b
  | .default => env.inp.defaults.includePruned

def evalSpSrc (env : SEnv) : SpSrc → Except Err (Option Dists)
  | .selfSpace => .ok env.obj.space
  | .none => .ok Option.none
  | .default => if env.inp.defaults.spaceIsNone then .ok Option.none else .error .unrepresentable

def evalCSrc (env : SEnv) : CSrc → Int
  | .selfCursor => env.obj.cursor
  | .lit i => i
  | .default => env.inp.defaults.cached

def selNames (env : SEnv) : NameSel → Except Err (String → Bool)
  | .keysAndDistKeys => match env.keys, env.distKeys with
    | some ks, some dk => .ok (fun n => ks.contains n && dk.contains n)
    | _, _ => .error .unrepresentable
  | .keysMinusDistKeys => match env.keys, env.distKeys with
    | some ks, some dk => .ok (fun n => ks.contains n && !dk.contains n)
    | _, _ => .error .unrepresentable
  | .distKeys => match env.distKeys with
    | some dk => .ok (fun n => dk.contains n)
    | none => .error .unrepresentable

def doSAct (calls : SCalls) (env : SEnv) : SAct → Except Err SEnv
  | .setStates l => .ok { env with states := some l }
  | .appendState s => match env.states with
    | some l => .ok { env with states := some (l ++ [s]) }
    | none => .error .unrepresentable
  | .setNext e => match evalIExp env e with
    | .ok i => .ok { env with next := some i }
    | .error x => .error x
  | .spaceCopyDists => match env.trial with
    | some t => .ok { env with space := some t.dists }
    | none => .error .unrepresentable
  | .spaceIntersect k => match env.trial, env.space with
    | some t, some s => .ok { env with space := some (interBy k s t.dists) }
    | some _, none => .error .typeError          -- `None.items()`
    | none, _ => .error .unrepresentable
  | .bindStudyId => .ok { env with obj := { env.obj with studyId := some env.inp.sid } }
  | .callCalculate ts ip sp c tgt => match evalSpSrc env sp with
    | .error x => .error x
    | .ok sp' => match calls.calcF (evalTrialsSrc env ts) (evalBSrc env ip) sp' (evalCSrc env c) with
      | .error x => .error x
      | .ok (s, n) => match tgt with
        | .selfFields => .ok { env with obj := { env.obj with space := s, cursor := n } }
        | .localSpace => .ok { env with space := s }
  | .setOut .selfSpaceOrEmpty => .ok { env with out := some (env.obj.space.getD []) }
  | .setOut .localSpaceOrEmpty => .ok { env with out := some (env.space.getD []) }
  | .sortOut => match env.out with
    | some d => .ok { env with out := some (sortByName d) }
    | none => .error .unrepresentable
  | .groupAdd => match env.trial with
    | some t => match calls.addF env.obj.groups t.dists with
      | .ok gs => .ok { env with obj := { env.obj with groups := gs } }
      | .error x => .error x
    | none => .error .unrepresentable
  | .setDistKeys .all => .ok { env with distKeys := some (keys env.inp.distributions) }
  | .setDistKeys .nonSingle =>
    .ok { env with distKeys := some (keys (env.inp.distributions.filter (fun p => !env.inp.single p.2))) }
  | .initNextSpaces => .ok { env with nextSpaces := some [] }
  | .setKeys => match env.group with
    | some g => .ok { env with keys := some (keys g) }
    | none => .error .unrepresentable
  | .appendRestrict v n => match env.nextSpaces, selNames env n with
    | some l, .ok sel =>
      match v with
      | .group => match env.group with
        | some g => .ok { env with nextSpaces := some (l ++ [g.filter (fun p => sel p.1)]) }
        | none => .error .unrepresentable
      | .distributions => .ok { env with nextSpaces := some (l ++ [env.inp.distributions.filter (fun p => sel p.1)]) }
    | none, _ => .error .unrepresentable
    | _, .error x => .error x
  | .distKeysMinusKeys => match env.distKeys, env.keys with
    | some dk, some ks => .ok { env with distKeys := some (dk.filter (fun k => !ks.contains k)) }
    | _, _ => .error .unrepresentable
  | .storeNonEmpty => match env.nextSpaces with
    | some l => .ok { env with obj := { env.obj with groups := l.filter (fun g => !g.isEmpty) } }
    | none => .error .unrepresentable

def iterS (env : SEnv) : SLoop → Except Err (List (SEnv → SEnv))
  | .trialsReversed => .ok (env.inp.trials.reverse.map (fun t => fun e => { e with trial := some t }))
  | .trialsInOrder => .ok (env.inp.trials.map (fun t => fun e => { e with trial := some t }))
  | .groups => .ok (env.obj.groups.map (fun g => fun e => { e with group := some g }))
  | .studyTrialsOfStates cached => match env.states with
    | some l =>
      .ok (((if cached then env.inp.stale else env.inp.trials).filter (fun t => l.contains t.state)).map
        (fun t => fun e => { e with trial := some t }))
    | none => .error .unrepresentable

def retS (env : SEnv) : SRet → Except Err SVal
  | .none => .ok .none
  | .spaceAndNext => match env.next with
    | some n => .ok (.pair env.space n)
    | none => .error .unrepresentable
  | .out => match env.out with
    | some d => .ok (.dists d)
    | none => .error .unrepresentable
  | .outDeepcopy => match env.out with
    | some d => .ok (.dists d)
    | none => .error .unrepresentable
  | .groupsDeepcopy => .ok (.groups env.obj.groups)

def spaceSem (calls : SCalls) : Sem SCond SAct SLoop SRet SEnv SVal :=
  { cond := evalSCond, act := doSAct calls, iter := iterS, retv := retS }

/-! ## the five methods -/

def finishPair : SEnv × Flow SVal → Except Err (Option Dists × Int)
  | (_, .raised e) => .error e
  | (_, .ret (.pair s n)) => .ok (s, n)
  | (_, _) => .error .unrepresentable

/-- `_calculate(trials, include_pruned, search_space, cached_trial_number)` -/
def interpCalculate (body : SStmt) (trials : List Trial) (ip : Bool) (sp : Option Dists) (cached : Int) :
    Except Err (Option Dists × Int) :=
  finishPair (exec (spaceSem noCalls) body
    { SEnv.mk' { SIn.init trials 0 with argIp := ip, argCached := cached } SObj.init with space := sp })

/-- the generated intersection module -/
structure InterProg where
  calculate : SStmt                    -- `_calculate`
  defaults : CalcDefaults
  objCalculate : SStmt                 -- `IntersectionSearchSpace.calculate`
  functional : SStmt                   -- `intersection_search_space`
  /-- `IntersectionSearchSpace.__init__`: `_cached_trial_number`, `_search_space is None`, `_study_id is None` -/
  cursorInit : Int
  initSpaceNone : Bool
  initStudyNone : Bool

def interCalls (P : InterProg) : SCalls := { noCalls with calcF := interpCalculate P.calculate }

def finishDists : SEnv × Flow SVal → Except Err Dists
  | (_, .raised e) => .error e
  | (_, .ret (.dists d)) => .ok d
  | (_, _) => .error .unrepresentable

/-- `intersection_search_space(trials, include_pruned)` -/
def interpFunctional (P : InterProg) (trials : List Trial) (ip : Bool) : Except Err Dists :=
  finishDists (exec (spaceSem (interCalls P)) P.functional
    (SEnv.mk' { SIn.init trials 0 with argIp := ip, defaults := P.defaults } SObj.init))

def objOfCalc (c : Calc) : SObj :=
  { studyId := c.studyId, includePruned := c.includePruned, space := c.space, cursor := c.cursor, groups := [] }

def calcOfObj (o : SObj) : Calc :=
  { cursor := o.cursor, space := o.space, studyId := o.studyId, includePruned := o.includePruned }

/-- `IntersectionSearchSpace.calculate(study)`: the object afterwards (also when it raised) and the answer;
`stale` is what a cached `_get_trials` would answer -/
def interpObjCalculate (P : InterProg) (c : Calc) (sid : Nat) (trials stale : List Trial) : Calc × Except Err Dists :=
  let r := exec (spaceSem (interCalls P)) P.objCalculate
    (SEnv.mk' { SIn.init trials sid with stale := stale, defaults := P.defaults } (objOfCalc c))
  (calcOfObj r.1.obj, finishDists r)

def finishGroupsObj : SEnv × Flow SVal → Except Err (List Dists)
  | (_, .raised e) => .error e
  | (env, .next) => .ok env.obj.groups
  | (env, .ret .none) => .ok env.obj.groups
  | (_, _) => .error .unrepresentable

/-- `_SearchSpaceGroup.add_distributions(distributions)`: `self._search_spaces` afterwards -/
def interpAdd (body : SStmt) (single : Nat → Bool) (gs : List Dists) (d : Dists) : Except Err (List Dists) :=
  finishGroupsObj (exec (spaceSem noCalls) body
    (SEnv.mk' { SIn.init [] 0 with distributions := d, single := single } { SObj.init with groups := gs }))

/-- the generated group module -/
structure GroupProg where
  addDistributions : SStmt
  calculate : SStmt                    -- `_GroupDecomposedSearchSpace.calculate`
  /-- `_SearchSpaceGroup.__init__`: `self._search_spaces = []`; `_GroupDecomposedSearchSpace.__init__`: `_study_id = None` -/
  initGroupsEmpty : Bool
  initStudyNone : Bool

def finishGroups : SEnv × Flow SVal → Except Err (List Dists)
  | (_, .raised e) => .error e
  | (_, .ret (.groups g)) => .ok g
  | (_, _) => .error .unrepresentable

def objOfGCalc (c : GCalc) : SObj :=
  { studyId := c.studyId, includePruned := c.includePruned, space := none, cursor := 0, groups := c.groups }

def gcalcOfObj (o : SObj) : GCalc := { groups := o.groups, studyId := o.studyId, includePruned := o.includePruned }

/-- `_GroupDecomposedSearchSpace.calculate(study)` -/
def interpGroupCalculate (P : GroupProg) (single : Nat → Bool) (c : GCalc) (sid : Nat) (trials stale : List Trial) :
    GCalc × Except Err (List Dists) :=
  let r := exec (spaceSem { noCalls with addF := interpAdd P.addDistributions single }) P.calculate
    (SEnv.mk' { SIn.init trials sid with stale := stale, single := single } (objOfGCalc c))
  (gcalcOfObj r.1.obj, finishGroups r)

/-! ## histories over an arbitrary implementation of the two calculators

`SearchSpace.step` with the calculators as parameters: instantiated with the hand model it IS that function
(`Props/C17Gen.lean`: `stepW_hand`); instantiated with the interpreter of the generated methods it is what the
theorems of C17 are restated for. -/

structure Impl where
  icalc : Calc → Nat → List Trial → Calc × CalcOut
  gcalc : GCalc → Nat → List Trial → GCalc × GOut
  initI : Bool → Calc
  initG : Bool → GCalc

def stepW (S : Impl) (sid : Nat) (s : Sys) : Step → Sys × Out
  | .create st params =>
    ({ s with trials := s.trials ++ [{ number := s.trials.length, state := st, dists := mkDists params }] }, .ok)
  | .setParam i name tok =>
    match s.trials[i]? with
    | some t =>
      if t.state.isFinished then (s, .rejected)
      else ({ s with trials := updAt s.trials i (fun t => { t with dists := AList.set t.dists name tok }) }, .ok)
    | none => (s, .rejected)
  | .setState i st =>
    match s.trials[i]? with
    | some t =>
      if t.state.isFinished then (s, .rejected)
      else ({ s with trials := updAt s.trials i (fun t => { t with state := st }) }, .ok)
    | none => (s, .rejected)
  | .callI =>
    let r := S.icalc s.isp sid s.trials
    ({ s with isp := r.1 }, ofCalcOut r.2)
  | .callForeign sid' trials' =>
    if sid' = sid then (s, .rejected)
    else
      let r := S.icalc s.isp sid' trials'
      ({ s with isp := r.1 }, ofCalcOut r.2)
  | .callG =>
    let r := S.gcalc s.gsp sid s.trials
    ({ s with gsp := r.1 }, ofGOut r.2)

def afterW (S : Impl) (sid : Nat) (s : Sys) (h : List Step) : Sys := h.foldl (fun s st => (stepW S sid s st).1) s

def initW (S : Impl) (ipI ipG : Bool) : Sys := { trials := [], isp := S.initI ipI, gsp := S.initG ipG }

def handImpl : Impl :=
  { icalc := Calc.calculate, gcalc := GCalc.calculate, initI := Calc.init, initG := GCalc.init }

def outOfDists : Except Err Dists → CalcOut
  | .ok d => .result d
  | .error _ => .valueError

def outOfGroups : Except Err (List Dists) → GOut
  | .ok g => .groups g
  | .error _ => .valueError

/-- the calculators as the interpreter of the GENERATED methods (a current trial list is also what a cached read
answers here: the generated code must not depend on it) -/
def genImpl (P : InterProg) (G : GroupProg) (single : Nat → Bool) : Impl :=
  { icalc := fun c sid trials => let r := interpObjCalculate P c sid trials []; (r.1, outOfDists r.2),
    gcalc := fun c sid trials => let r := interpGroupCalculate G single c sid trials []; (r.1, outOfGroups r.2),
    initI := fun ip => { cursor := P.cursorInit, space := none, studyId := none, includePruned := ip },
    initG := fun ip => { groups := [], studyId := none, includePruned := ip } }

end OptunaVerif.SpaceIR
