import OptunaVerif.Model.Basic
/-
  The storage *contract* (`BaseStorage` docstrings, optuna/storages/_base.py) as a total, executable
  step function.  Ids are positions in append-only lists (so an id is never reused); a deleted study
  is `none`; a trial of a deleted study is dead.  This is layer (a) of DESIGN.md: the simplest
  statement of what a client may rely on.  Every backend is compared with it call by call (C01), the
  journal replay and the caches are proved / checked to refine it (C06, C08), and C03/C04/C19/C20
  build on its invariants.
-/
namespace OptunaVerif.Storage
open OptunaVerif

/-- What the storage needs to know of a distribution: its class, its `log` flag and its full JSON
text (`body`).  `check_distribution_compatibility`: same class; numeric ⇒ same `log`; categorical ⇒
equal. -/
structure Dist where
  kind : Nat      -- 0 Float, 1 Int, 2 Categorical
  log : Bool
  body : String
deriving DecidableEq, Repr, Inhabited

def Dist.compat (a b : Dist) : Bool :=
  a.kind == b.kind && (if a.kind == 2 then a.body == b.body else a.log == b.log)

structure Param where
  internal : String     -- the internal float representation, as an exact token
  dist : Dist
deriving DecidableEq, Repr, Inhabited

structure TrialS where
  study : Nat
  number : Nat
  state : TState
  values : Option (List XVal)
  params : AList Param
  userAttrs : AList String
  systemAttrs : AList String
  inter : List (Int × XVal)
  hasStart : Bool
  hasComplete : Bool
deriving DecidableEq, Repr, Inhabited

structure StudyS where
  name : String
  directions : List Nat        -- StudyDirection codes (1 minimize, 2 maximize)
  userAttrs : AList String
  systemAttrs : AList String
  /-- distributions fixed by `set_trial_param` calls (what every backend checks against) -/
  paramDist : AList Dist
deriving DecidableEq, Repr, Inhabited

structure Spec where
  studies : List (Option StudyS)
  trials : List TrialS
deriving DecidableEq, Repr, Inhabited

def init : Spec := { studies := [], trials := [] }

inductive Err where
  | keyError | duplicated | updateFinished | valueError | runtimeError
deriving DecidableEq, Repr, Inhabited

/-- A template trial as passed to `create_new_trial` (every field the contract says is stored). -/
structure Template where
  state : TState
  values : Option (List XVal)
  params : AList Param
  userAttrs : AList String
  systemAttrs : AList String
  inter : List (Int × XVal)
  hasStart : Bool
  hasComplete : Bool
deriving DecidableEq, Repr, Inhabited

inductive Op where
  | createStudy (name : String) (directions : List Nat)
  | deleteStudy (sid : Nat)
  | setStudyUserAttr (sid : Nat) (k v : String)
  | setStudySystemAttr (sid : Nat) (k v : String)
  /-- `implRaised` is consulted only when the template's distributions conflict with the study (U1). -/
  | createTrial (sid : Nat) (tmpl : Option Template) (implRaised : Bool)
  /-- `implRaised` is consulted only in the one case the contract leaves open (U1). -/
  | setTrialParam (tid : Nat) (name : String) (p : Param) (implRaised : Bool)
  | setTrialStateValues (tid : Nat) (st : TState) (values : Option (List XVal))
  | setTrialInter (tid : Nat) (step : Int) (v : XVal)
  | setTrialUserAttr (tid : Nat) (k v : String)
  | setTrialSystemAttr (tid : Nat) (k v : String)
  -- getters
  | getStudyIdFromName (name : String)
  | getStudyNameFromId (sid : Nat)
  | getStudyDirections (sid : Nat)
  | getStudyUserAttrs (sid : Nat)
  | getStudySystemAttrs (sid : Nat)
  | getAllStudies
  | getTrialIdFromNumber (sid : Nat) (number : Nat)
  | getTrialNumberFromId (tid : Nat)
  | getTrialParam (tid : Nat) (name : String)
  | getTrial (tid : Nat)
  | getAllTrials (sid : Nat) (states : Option (List TState))
  | getNTrials (sid : Nat) (states : Option (List TState))
  | getBestTrial (sid : Nat)
deriving Repr, Inhabited

inductive Out where
  | unit
  | err (e : Err)
  | newId (n : Nat)
  | bool (b : Bool)
  | nat (n : Nat)
  | str (s : String)
  | nats (l : List Nat)
  | attrs (l : AList String)
  | studies (l : List (Nat × StudyS))
  | trial (id : Nat) (t : TrialS)
  | trials (l : List (Nat × TrialS))
  /-- any one of these trials is a correct answer (ties are unspecified: U4) -/
  | oneOf (l : List (Nat × TrialS))
deriving DecidableEq, Repr, Inhabited

/-! ### reading -/

def Spec.study? (s : Spec) (sid : Nat) : Option StudyS := (s.studies[sid]?).join

/-- A trial id is live iff it was created and its study has not been deleted. -/
def Spec.trial? (s : Spec) (tid : Nat) : Option TrialS :=
  match s.trials[tid]? with
  | none => none
  | some t => if (s.study? t.study).isSome then some t else none

/-- Trials of a study, in creation (= number) order, with their ids. -/
def trialsFrom (sid : Nat) : List TrialS → Nat → List (Nat × TrialS)
  | [], _ => []
  | t :: r, i => if t.study == sid then (i, t) :: trialsFrom sid r (i + 1) else trialsFrom sid r (i + 1)

def Spec.trialsOf (s : Spec) (sid : Nat) : List (Nat × TrialS) := trialsFrom sid s.trials 0

def Spec.nameTaken (s : Spec) (name : String) : Bool :=
  s.studies.any (fun o => match o with | some st => st.name == name | none => false)

def stateIn (states : Option (List TState)) (st : TState) : Bool :=
  match states with
  | none => true
  | some l => l.contains st

def findIdx {α : Type} (p : α → Bool) : List α → Nat → Option Nat
  | [], _ => none
  | a :: t, i => if p a then some i else findIdx p t (i + 1)

/-! ### single-objective optimum (values may be ±∞; NaN never compares better) -/

/-- `a` is at least as good as `b` in direction `dir` (1 minimize, else maximize). -/
def betterEq (dir : Nat) (a b : XVal) : Bool := if dir == 1 then a.le b else b.le a

def TrialS.value0? (t : TrialS) : Option XVal :=
  match t.values with
  | some (v :: _) => some v
  | _ => none

def completeWithValue (l : List (Nat × TrialS)) : List (Nat × TrialS × XVal) :=
  l.filterMap (fun p => if p.2.state == .complete then (p.2.value0?).map (fun v => (p.1, p.2, v)) else none)

def bestSet (dir : Nat) (l : List (Nat × TrialS)) : List (Nat × TrialS) :=
  let c := completeWithValue l
  (c.filter (fun p => c.all (fun q => betterEq dir p.2.2 q.2.2))).map (fun p => (p.1, p.2.1))

/-! ### the step function -/

def mkTrial (sid number : Nat) : Option Template → TrialS
  | none =>
    { study := sid, number := number, state := .running, values := none, params := [],
      userAttrs := [], systemAttrs := [], inter := [], hasStart := true, hasComplete := false }
  | some t =>
    { study := sid, number := number, state := t.state, values := t.values, params := t.params,
      userAttrs := t.userAttrs, systemAttrs := t.systemAttrs, inter := t.inter,
      hasStart := t.hasStart, hasComplete := t.hasComplete }

def setInter (l : List (Int × XVal)) (step : Int) (v : XVal) : List (Int × XVal) :=
  match l with
  | [] => [(step, v)]
  | (s, w) :: t => if s = step then (step, v) :: t else (s, w) :: setInter t step v

/-- Guard shared by every trial setter: the id must be live, the trial not finished. -/
def Spec.writable (s : Spec) (tid : Nat) : Except Err TrialS :=
  match s.trial? tid with
  | none => .error .keyError
  | some t => if t.state.isFinished then .error .updateFinished else .ok t

def Spec.updTrial (s : Spec) (tid : Nat) (f : TrialS → TrialS) : Spec :=
  { s with trials := updAt s.trials tid f }

def Spec.updStudy (s : Spec) (sid : Nat) (f : StudyS → StudyS) : Spec :=
  { s with studies := updAt s.studies sid (fun o => o.map f) }

/-- Does some *other source than `set_trial_param`* (i.e. a template trial of the study) carry an
incompatible distribution for this name?  The contract is silent on whether that is an error (U1). -/
def Spec.templateConflict (s : Spec) (sid : Nat) (name : String) (d : Dist) : Bool :=
  (s.trialsOf sid).any (fun p => match p.2.params.get? name with
    | some q => !(q.dist.compat d)
    | none => false)

/-- Is `d` incompatible with the distribution that `set_trial_param` calls have fixed for `name`? -/
def StudyS.fixedConflict (st : StudyS) (name : String) (d : Dist) : Bool :=
  match st.paramDist.get? name with
  | some d0 => !(d0.compat d)
  | none => false

/-- Does a template carry, for some name, a distribution incompatible with what the study already
holds for that name (fixed by `set_trial_param` or carried by another trial)?  Whether creating
such a trial is an error is not specified (U1). -/
def Spec.tmplConflict (s : Spec) (sid : Nat) (st : StudyS) : Option Template → Bool
  | none => false
  | some t => t.params.any (fun p =>
      st.fixedConflict p.1 p.2.dist || s.templateConflict sid p.1 p.2.dist)

def step (s : Spec) : Op → Spec × Out
  | .createStudy name dirs =>
    if s.nameTaken name then (s, .err .duplicated)
    else
      ({ s with studies := s.studies ++ [some (StudyS.mk name dirs [] [] [])] },
        .newId s.studies.length)
  | .deleteStudy sid =>
    match s.study? sid with
    | none => (s, .err .keyError)
    | some _ => ({ s with studies := updAt s.studies sid (fun _ => none) }, .unit)
  | .setStudyUserAttr sid k v =>
    match s.study? sid with
    | none => (s, .err .keyError)
    | some _ => (s.updStudy sid (fun st => { st with userAttrs := st.userAttrs.set k v }), .unit)
  | .setStudySystemAttr sid k v =>
    match s.study? sid with
    | none => (s, .err .keyError)
    | some _ => (s.updStudy sid (fun st => { st with systemAttrs := st.systemAttrs.set k v }), .unit)
  | .createTrial sid tmpl implRaised =>
    match s.study? sid with
    | none => (s, .err .keyError)
    | some st =>
      if implRaised && s.tmplConflict sid st tmpl then (s, .err .valueError) else
      ({ s with trials := s.trials ++ [mkTrial sid (s.trialsOf sid).length tmpl] },
        .newId s.trials.length)
  | .setTrialParam tid name p implRaised =>
    match s.writable tid with
    | .error e => (s, .err e)
    | .ok t =>
      match s.study? t.study with
      | none => (s, .err .keyError)
      | some st =>
        if st.fixedConflict name p.dist then (s, .err .valueError)
        else if s.templateConflict t.study name p.dist && implRaised then (s, .err .valueError)
        else
          (((s.updTrial tid (fun t => { t with params := t.params.set name p })).updStudy t.study
              (fun st => { st with paramDist := st.paramDist.set name p.dist })), .unit)
  | .setTrialStateValues tid st values =>
    match s.writable tid with
    | .error e => (s, .err e)
    | .ok t =>
      if st == .running && t.state != .waiting then (s, .bool false)
      else
        (s.updTrial tid (fun t => { t with
            state := st,
            values := values.or t.values,
            hasStart := t.hasStart || st == .running,
            hasComplete := t.hasComplete || st.isFinished }), .bool true)
  | .setTrialInter tid stp v =>
    match s.writable tid with
    | .error e => (s, .err e)
    | .ok _ => (s.updTrial tid (fun t => { t with inter := setInter t.inter stp v }), .unit)
  | .setTrialUserAttr tid k v =>
    match s.writable tid with
    | .error e => (s, .err e)
    | .ok _ => (s.updTrial tid (fun t => { t with userAttrs := t.userAttrs.set k v }), .unit)
  | .setTrialSystemAttr tid k v =>
    match s.writable tid with
    | .error e => (s, .err e)
    | .ok _ => (s.updTrial tid (fun t => { t with systemAttrs := t.systemAttrs.set k v }), .unit)
  | .getStudyIdFromName name =>
    match findIdx (fun o => match o with | some st => st.name == name | none => false) s.studies 0 with
    | some i => (s, .nat i)
    | none => (s, .err .keyError)
  | .getStudyNameFromId sid =>
    match s.study? sid with
    | none => (s, .err .keyError)
    | some st => (s, .str st.name)
  | .getStudyDirections sid =>
    match s.study? sid with
    | none => (s, .err .keyError)
    | some st => (s, .nats st.directions)
  | .getStudyUserAttrs sid =>
    match s.study? sid with
    | none => (s, .err .keyError)
    | some st => (s, .attrs st.userAttrs)
  | .getStudySystemAttrs sid =>
    match s.study? sid with
    | none => (s, .err .keyError)
    | some st => (s, .attrs st.systemAttrs)
  | .getAllStudies =>
    (s, .studies (s.studies.zipIdx.filterMap (fun p => p.1.map (fun st => (p.2, st)))))
  | .getTrialIdFromNumber sid number =>
    match s.study? sid with
    | none => (s, .err .keyError)
    | some _ =>
      match (s.trialsOf sid)[number]? with
      | some p => (s, .nat p.1)
      | none => (s, .err .keyError)
  | .getTrialNumberFromId tid =>
    match s.trial? tid with
    | none => (s, .err .keyError)
    | some t => (s, .nat t.number)
  | .getTrialParam tid name =>
    match s.trial? tid with
    | none => (s, .err .keyError)
    | some t =>
      match t.params.get? name with
      | some p => (s, .str p.internal)
      | none => (s, .err .keyError)
  | .getTrial tid =>
    match s.trial? tid with
    | none => (s, .err .keyError)
    | some t => (s, .trial tid t)
  | .getAllTrials sid states =>
    match s.study? sid with
    | none => (s, .err .keyError)
    | some _ => (s, .trials ((s.trialsOf sid).filter (fun p => stateIn states p.2.state)))
  | .getNTrials sid states =>
    match s.study? sid with
    | none => (s, .err .keyError)
    | some _ => (s, .nat ((s.trialsOf sid).filter (fun p => stateIn states p.2.state)).length)
  | .getBestTrial sid =>
    match s.study? sid with
    | none => (s, .err .keyError)
    | some st =>
      match st.directions with
      | [d] =>
        match bestSet d (s.trialsOf sid) with
        | [] => (s, .err .valueError)
        | l => (s, .oneOf l)
      | _ => (s, .err .runtimeError)

def run (ops : List Op) : Spec := ops.foldl (fun s op => (step s op).1) init

/-- Outputs of a whole history. -/
def runOut : Spec → List Op → List Out
  | _, [] => []
  | s, op :: rest => (step s op).2 :: runOut (step s op).1 rest

end OptunaVerif.Storage
