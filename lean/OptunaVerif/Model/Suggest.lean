import OptunaVerif.Model.Basic
import OptunaVerif.Model.Dist
/-!
# Model of `Trial._suggest` (optuna/trial/_trial.py) and of the projections at the end of each sampler path

Executable, core Lean only.

* `suggest` mirrors `_suggest`: already suggested → fixed params → single-point domain → relative value if the
  relative search space has the name, the distributions are compatible and the value is contained →
  independent sampling; then `to_internal_repr`, the storage write and the trial-local cache update.
  The sampler is a parameter: `relParams`/`relSpace` are whatever `sample_relative` /
  `infer_relative_search_space` returned, `indep` is whatever `sample_independent` would return.
* projections: `tpeDisc`/`tpeInt` (`probability_distributions.py` discretisation, `parzen_estimator._untransform`
  + `to_external_repr`), `gpNum`/`gpInt` (`_gp/search_space.get_unnormalized_param`), categorical index
  computations `catCum` (TPE) / `catFloor` (GP); the transform's projection is `Dist.decode`.
-/
namespace OptunaVerif.Suggest
open OptunaVerif OptunaVerif.Dist

/-! ## the suggest state machine -/

/-- what is fixed when the `Trial` object is created -/
structure Ctx where
  fixed : AList Tok        -- system_attrs["fixed_params"] (enqueue_trial / PartialFixedSampler go through here or through indep)
  relSpace : AList Dist    -- sampler.infer_relative_search_space(...)
  relParams : AList Tok    -- sampler.sample_relative(...), evaluated once
deriving Repr, Inhabited

/-- trial-local cache and the storage row set of this trial -/
structure St where
  params : AList Tok            -- _cached_frozen_trial.params
  dists : AList Dist            -- _cached_frozen_trial.distributions
  stored : AList (Rat × Dist)   -- storage.set_trial_param(trial_id, name, internal, distribution)
deriving Repr, Inhabited

def St.empty : St := ⟨[], [], []⟩

/-- `_get_single_value` -/
def singleValue : Dist → Tok
  | .flt _ low _ _ _ => .flt low
  | .int _ low _ _ _ => .int low
  | .cat cs => cs.headD .none

inductive Branch where
  | reused | fixed | single | relative | independent
deriving DecidableEq, Repr, Inhabited

/-- which source `_suggest` takes the value from for a name that is not yet suggested (errors as in the code).
`sg` is the answer of `distribution.single()`: a separate argument only because the code evaluates `single()` of a
stepped float on the *decimal* view `Decimal(str(x))` of its attributes and everything else on the binary floats, so
the correspondence driver computes `Dist.single` on the decimal view; `pick` below fixes `sg := d.single`. -/
def pickS (sg : Bool) (cx : Ctx) (name : String) (d : Dist) (indep : Tok) : R (Tok × Branch) :=
  match cx.fixed.get? name with
  | some fv =>
    -- `_is_fixed_param`: to_internal_repr may raise; containment only decides about a warning
    match d.toInternal fv with
    | .error e => .error e
    | .ok _ => .ok (fv, .fixed)
  | none =>
    if sg then .ok (singleValue d, .single)
    else
      match cx.relParams.get? name with
      | none => .ok (indep, .independent)
      | some rv =>
        match cx.relSpace.get? name with
        | none => .error .valueError
        | some rd =>
          if !compat rd d then .error .valueError
          else
            match d.toInternal rv with
            | .error e => .error e
            | .ok q => if d.contains q then .ok (rv, .relative) else .ok (indep, .independent)

def pick (cx : Ctx) (name : String) (d : Dist) (indep : Tok) : R (Tok × Branch) := pickS d.single cx name d indep

/-- `Trial._suggest(name, distribution)`; `indep` = the value `sample_independent` would return now -/
def suggestS (sg : Bool) (cx : Ctx) (st : St) (name : String) (d : Dist) (indep : Tok) : R (St × Tok × Branch) :=
  match st.dists.get? name with
  | some dOld =>
    if !compat dOld d then .error .valueError
    else
      match st.params.get? name with
      | some v => .ok (st, v, .reused)
      | none => .error .keyError
  | none =>
    match pickS sg cx name d indep with
    | .error e => .error e
    | .ok (v, br) =>
      match d.toInternal v with
      | .error e => .error e
      | .ok q =>
        .ok ({ params := st.params.set name v, dists := st.dists.set name d, stored := st.stored.set name (q, d) }, v, br)

def suggest (cx : Ctx) (st : St) (name : String) (d : Dist) (indep : Tok) : R (St × Tok × Branch) :=
  suggestS d.single cx st name d indep

/-- what `study.trials[i].params[name]` reads back: `to_external_repr` of the stored internal value -/
def readBack (st : St) (name : String) : Option Tok :=
  match st.stored.get? name with
  | some (q, d) => d.toExternal q
  | none => none

/-- a sequence of suggest calls; failed calls (exceptions) leave the state unchanged -/
def run (cx : Ctx) (st : St) : List (String × Dist × Tok) → St
  | [] => st
  | (n, d, i) :: t =>
    match suggest cx st n d i with
    | .ok (st', _, _) => run cx st' t
    | .error _ => run cx st t

/-! ## projections -/

/-- TPE discretisation: `np.clip(low + np.round((s - low) / step) * step, low, high)` -/
def tpeDisc (low high step s : Rat) : Rat :=
  clip (low + (roundHE ((s - low) / step) : Rat) * step) low high

/-- TPE, continuous (no step, linear scale): `np.clip(samples, low, high)` applied to the raw
`_truncnorm.rvs` sample (repaired defect F33: the clip was missing) -/
def tpeCont (low high s : Rat) : Rat := clip s low high

/-- the same followed by `IntDistribution.to_external_repr` (`int(...)`) -/
def tpeInt (low high step : Int) (res : Rat) : Int :=
  truncI (tpeDisc (low : Rat) (high : Rat) (step : Rat) res)

/-- GP: `float(np.clip(unnormalized, low, high))` -/
def gpNum (low high x : Rat) : Rat := clip x low high

/-- GP, int distribution: `round(float(np.clip(unnormalized, low, high)))` -/
def gpInt (low high : Int) (x : Rat) : Int := roundHE (clip x (low : Rat) (high : Rat))

/-- TPE categorical: `np.sum(cum_probs < q)` -/
def catCum (cum : List Rat) (q : Rat) : Nat := (cum.filter (fun c => decide (c < q))).length

/-- GP categorical: `np.floor(q * n_choices)` -/
def catFloor (n : Nat) (q : Rat) : Int := (q * (n : Rat)).floor

end OptunaVerif.Suggest
