import OptunaVerif.Model.SuggestIR
/-!
# Hand model of the suggest path with everything a call does (warnings, sampler calls, a failing storage write),
# of the public `suggest_*` wrappers, and of `FixedTrial._suggest` / `FrozenTrial._suggest`

Executable, core Lean only.  `Model/Suggest.lean` has the decision logic of `Trial._suggest` (`suggestS`); here the
same logic is written once more together with the effects the interpreter of the generated code (`Model/SuggestIR.lean`)
can observe:

* `suggestFull`  = `suggestS` + the warning log (`_is_fixed_param` warns about an uncontained fixed value) + the number
  of `sample_independent` calls + `storage.set_trial_param` raising (`SEnv.writeFails`): then NOTHING is recorded;
  `Props/C10SuggestGen.lean` proves `suggestFull` projects to `suggestS` (`suggestFull_toR`);
* `suggestFloatH / suggestIntH / suggestCategoricalH` and the deprecated forwards: construction of the distribution
  (`Dist.mkFlt / mkInt / mkCat`: validation + high adjustment), `_suggest`, `int(...)` for `suggest_int`,
  `_check_distribution`'s warning;
* `givenSuggestH`: `FixedTrial._suggest` (`record := true`) / `FrozenTrial._suggest` (`record := false`).
-/
namespace OptunaVerif.SuggestApi
open OptunaVerif OptunaVerif.Dist OptunaVerif.Suggest OptunaVerif.SuggestIR

/-- which source a not-yet-suggested name takes its value from: warnings, sampler calls, value and branch -/
def pickFull (E : SEnv) (name : String) (d : Dist) : List Warn × Nat × Except Exn (Tok × Branch) :=
  match E.cx.fixed.get? name with
  | some fv =>
    match d.toInternal fv with
    | .error e => ([], 0, .error (.err e))
    | .ok q => (if d.contains q then [] else [.fixedOutOfRange], 0, .ok (fv, .fixed))
  | none =>
    if E.single d then
      match d with
      | .cat [] => ([], 0, .error .indexError)
      | _ => ([], 0, .ok (singleValue d, .single))
    else
      match E.cx.relParams.get? name with
      | none => ([], 1, .ok (E.indep name d, .independent))
      | some rv =>
        match E.cx.relSpace.get? name with
        | none => ([], 0, .error (.err .valueError))
        | some rd =>
          if !compat rd d then ([], 0, .error (.err .valueError))
          else
            match d.toInternal rv with
            | .error e => ([], 0, .error (.err e))
            | .ok q =>
              if d.contains q then ([], 0, .ok (rv, .relative)) else ([], 1, .ok (E.indep name d, .independent))

/-- `Trial._suggest(name, distribution)` with all its effects; an exception leaves cache and storage untouched -/
def suggestFull (E : SEnv) (st : St) (name : String) (d : Dist) : SOut :=
  match st.dists.get? name with
  | some dOld =>
    if !compat dOld d then ⟨st, [], 0, .error (.err .valueError)⟩
    else
      match st.params.get? name with
      | some v => ⟨st, [], 0, .ok (v, .reused)⟩
      | none => ⟨st, [], 0, .error (.err .keyError)⟩
  | none =>
    match pickFull E name d with
    | (w, n, .error e) => ⟨st, w, n, .error e⟩
    | (w, n, .ok (v, br)) =>
      match d.toInternal v with
      | .error e => ⟨st, w, n, .error (.err e)⟩
      | .ok q =>
        if E.writeFails then ⟨st, w, n, .error .storage⟩
        else ⟨{ params := st.params.set name v, dists := st.dists.set name d, stored := st.stored.set name (q, d) },
              w, n, .ok (v, br)⟩

/-- the `R`-typed answer of the hand model `Suggest.suggestS`, from everything a call did -/
def toR (o : SOut) : Except Exn (St × Tok × Branch) :=
  match o.res with
  | .ok (v, br) => .ok (o.st, v, br)
  | .error e => .error e

/-- `Trial._check_distribution(name, distribution)`: the warning -/
def checkDistributionH (st : St) (name : String) (d : Dist) : List Warn :=
  if !((st.dists.get? name).getD d).pyEq d then [.inconsistent] else []

/-- Python `int(x)` on a parameter value -/
def intOfTok : Tok → Except Exn Tok
  | .bool b => .ok (.int (if b then 1 else 0))
  | .int i => .ok (.int i)
  | .flt q => .ok (.int (truncI q))
  | .nan => .error (.err .valueError)
  | .pinf => .error .overflow
  | .ninf => .error .overflow
  | .none => .error (.err .typeError)
  | .str _ => .error (.err .valueError)

/-- what a wrapper does with the answer of `_suggest`: convert, then (`check`) `_check_distribution` -/
def afterSuggest (o : SOut) (name : String) (d : Dist) (conv : Tok → Except Exn Tok) (check : Bool) : AOut :=
  match o.res with
  | .error e => ⟨o.st, o.warns, o.sampled, .error e⟩
  | .ok (v, _) =>
    match conv v with
    | .error e => ⟨o.st, o.warns, o.sampled, .error e⟩
    | .ok v' => ⟨o.st, o.warns ++ (if check then checkDistributionH o.st name d else []), o.sampled, .ok v'⟩

/-- `Trial.suggest_float(name, low, high, step=step, log=log)` -/
def suggestFloatH (E : SEnv) (st : St) (name : String) (low high : Rat) (step : Option Rat) (log : Bool) : AOut :=
  match mkFlt .float low high log step with
  | .error e => ⟨st, [], 0, .error (.err e)⟩
  | .ok d => afterSuggest (suggestFull E st name d) name d .ok true

/-- `Trial.suggest_int(name, low, high, step=step, log=log)` -/
def suggestIntH (E : SEnv) (st : St) (name : String) (low high step : Int) (log : Bool) : AOut :=
  match mkInt .int low high log step with
  | .error e => ⟨st, [], 0, .error (.err e)⟩
  | .ok d => afterSuggest (suggestFull E st name d) name d intOfTok true

/-- `Trial.suggest_categorical(name, choices)` -/
def suggestCategoricalH (E : SEnv) (st : St) (name : String) (choices : List Tok) : AOut :=
  match mkCat choices with
  | .error e => ⟨st, [], 0, .error (.err e)⟩
  | .ok d => afterSuggest (suggestFull E st name d) name d .ok false

/-- a `@deprecated_func` forward to `suggest_float` -/
def deprecatedH (o : AOut) : AOut := { o with warns := .deprecated :: o.warns }

def suggestUniformH (E : SEnv) (st : St) (name : String) (low high : Rat) : AOut :=
  deprecatedH (suggestFloatH E st name low high none false)
def suggestLogUniformH (E : SEnv) (st : St) (name : String) (low high : Rat) : AOut :=
  deprecatedH (suggestFloatH E st name low high none true)
def suggestDiscreteUniformH (E : SEnv) (st : St) (name : String) (low high q : Rat) : AOut :=
  deprecatedH (suggestFloatH E st name low high (some q) false)

/-- `FixedTrial._suggest` (`record = true`: the value goes into `_suggested_params`) / `FrozenTrial._suggest`:
the value given at construction (`Ctx.fixed`) or ValueError; an uncontained value only warns; the distribution must
be compatible with the one recorded for the name and replaces it -/
def givenSuggestH (record : Bool) (E : SEnv) (st : St) (name : String) (d : Dist) : AOut :=
  match E.cx.fixed.get? name with
  | none => ⟨st, [], 0, .error (.err .valueError)⟩
  | some v =>
    match d.toInternal v with
    | .error e => ⟨st, [], 0, .error (.err e)⟩
    | .ok q =>
      let w : List Warn := if d.contains q then [] else [.outOfRange]
      let bad : Bool := match st.dists.get? name with
        | some dOld => !compat dOld d
        | none => false
      if bad then ⟨st, w, 0, .error (.err .valueError)⟩
      else ⟨{ st with params := if record then st.params.set name v else st.params, dists := st.dists.set name d },
            w, 0, .ok v⟩

end OptunaVerif.SuggestApi
