import OptunaVerif.Model.Suggest
/-
  A small statement / expression language for the bodies of

      optuna/trial/_trial.py     `Trial._suggest`, `_is_fixed_param`, `_is_relative_param`, `_check_distribution`,
                                 `suggest_float` / `suggest_int` / `suggest_categorical`,
                                 `suggest_uniform` / `suggest_loguniform` / `suggest_discrete_uniform`
      optuna/trial/_fixed.py     `FixedTrial._suggest`
      optuna/trial/_frozen.py    `FrozenTrial._suggest`
      optuna/distributions.py    `_get_single_value`, `check_distribution_compatibility`

  and its interpreter.  `verif/translators/tsuggest.py` reads the Python source with `ast` on every run and emits
  every one of those bodies as DATA of the type `Stmt` below into `Generated/SuggestMethods.lean`.
  `Props/C10SuggestGen.lean` then proves, for all inputs, `interp (generated body) = hand model`
  (`Model/Suggest.lean`, `Model/SuggestApi.lean`), so that the theorems of Props/C10 about `suggest` hold of
  code-derived definitions and a source edit breaks a named proof obligation.

  The CONTROL FLOW (sequencing, `if/elif/else`, `assert`, `raise`, `return`, assignment to a local, expression
  statements, calls of the sibling methods with the callee's own generated body as its denotation) is given meaning
  once, generically (`exec` / `eval`).  The leaves — one constructor per whitelisted source shape, written next to
  it — get their meaning here on the state of the hand model (`St`, `Ctx`); that meaning is *modelled, not derived
  from the source*:

    * the dictionaries: `self._fixed_params` = `Ctx.fixed`, `self.relative_params` = `Ctx.relParams` (the property
      is evaluated once), `self.relative_search_space` = `Ctx.relSpace`, `self._cached_frozen_trial.params /
      .distributions` = `St.params / St.dists`; `trial = self._get_latest_trial()` is a SHALLOW copy, so
      `trial.params / trial.distributions` are the very same dictionaries (pinned: `Program.latestTrialShallow`);
      `FixedTrial/FrozenTrial._params` = `Ctx.fixed`, `._distributions` = `St.dists`, `FixedTrial._suggested_params`
      = `St.params`;
    * the distribution methods `to_internal_repr`, `_contains`, `__eq__`, the constructors (`Model/Dist.lean`, tied
      to `distributions.py` by C11's T-int / K), `single()` as the parameter `SEnv.single` (see `Suggest.pickS`);
    * `sample_independent(study, trial, name, distribution)` = the parameter `SEnv.indep name distribution`, counted;
    * `storage.set_trial_param` = a write into `St.stored`, or — parameter `SEnv.writeFails` — an exception that
      leaves the storage as it was;
    * `warnings.warn(<message>)` = an entry in the warning log, classified by the constant part of the message;
    * a local's *provenance* (`Branch`): which source the value bound to it was read from, decided by the syntax of
      the right-hand side (`tagOf`) — this is how the interpreter reports the hand model's `Branch`.

  `unrep` marks "the Python object is in a state this representation cannot express / a local is unbound / a leaf is
  used on operands it is not whitelisted for"; every `interp*` then answers `none` or the exception `unrep`, which no
  hand model produces, so the equality theorems `interp … = some (hand model …)` fail.
-/
namespace OptunaVerif.SuggestIR
open OptunaVerif OptunaVerif.Dist OptunaVerif.Suggest

/-! ### syntax -/

/-- opaque Python objects a local may hold -/
inductive Obj where
  | storage          -- `self.storage`
  | trialId          -- `self._trial_id`
  | latestTrial      -- `self._get_latest_trial()`
  | cache            -- `self._cached_frozen_trial`
  | study            -- `self.study`
  | filteredStudy    -- `pruners._filter_study(self.study, trial)`
deriving DecidableEq, Repr, Inhabited

/-- dictionaries name -> parameter value -/
inductive TokMap where
  | fixedParams      -- `self._fixed_params`
  | relativeParams   -- `self.relative_params`
  | cacheParams      -- `self._cached_frozen_trial.params`, `trial.params`
  | selfParams       -- `self._params`            (FixedTrial / FrozenTrial)
  | suggestedParams  -- `self._suggested_params`  (FixedTrial)
deriving DecidableEq, Repr, Inhabited

/-- dictionaries name -> distribution -/
inductive DistMap where
  | relativeSpace    -- `self.relative_search_space`
  | cacheDists       -- `self._cached_frozen_trial.distributions`, `trial.distributions`
  | selfDists        -- `self._distributions`     (FixedTrial / FrozenTrial)
deriving DecidableEq, Repr, Inhabited

/-- the sibling functions a body may call -/
inductive Fn where
  | getSingleValue       -- `distributions._get_single_value(d)`
  | checkCompat          -- `distributions.check_distribution_compatibility(a, b)`
  | isFixedParam         -- `self._is_fixed_param(name, distribution)`
  | isRelativeParam      -- `self._is_relative_param(name, distribution)`
  | checkDistribution    -- `self._check_distribution(name, distribution)`
  | suggest              -- `self._suggest(name, distribution)`
  | suggestFloat         -- `self.suggest_float(name, low, high, step=…, log=…)`
deriving DecidableEq, Repr, Inhabited

inductive Warn where
  | fixedOutOfRange      -- "Fixed parameter '{}' with value {} is out of range for distribution {}."
  | inconsistent         -- 'Inconsistent parameter values for distribution with name "{}"! …'  (RuntimeWarning)
  | outOfRange           -- "The value {} of the parameter '{}' is out of the range of the distribution {}."
  | deprecated           -- the `@deprecated_func` decorator's FutureWarning
  | other
deriving DecidableEq, Repr, Inhabited

inductive Expr where
  | var (x : String)                       -- a local / parameter
  | none_ | true_ | false_                 -- `None`, `True`, `False`
  | intLit (i : Int)                       -- an integer literal
  | selfStorage                            -- `self.storage`
  | selfTrialId                            -- `self._trial_id`
  | selfStudy                              -- `self.study`
  | selfCache                              -- `self._cached_frozen_trial`
  | latestTrial                            -- `self._get_latest_trial()`
  | filterStudy (study trial : Expr)       -- `pruners._filter_study(<study>, <trial>)`
  | tokMap (m : TokMap)
  | distMap (m : DistMap)
  | paramsOf (e : Expr)                    -- `<e>.params`
  | distsOf (e : Expr)                     -- `<e>.distributions`
  | isIn (k m : Expr)                      -- `k in m`
  | notIn (k m : Expr)                     -- `k not in m`
  | index (m k : Expr)                     -- `m[k]`
  | getD (m k d : Expr)                    -- `m.get(k, d)`; `m.get(k)` is emitted with `d := none_`
  | not (e : Expr)
  | and (a b : Expr) | or (a b : Expr)     -- short-circuit; the value is the deciding operand, as in Python
  | ne (a b : Expr) | eq (a b : Expr)      -- `a != b`, `a == b`
  | le (a b : Expr) | lt (a b : Expr)      -- `a <= b`, `a < b`  (a chain `a <= b <= c` is emitted as `and (le a b) (le b c)`)
  | isNone (e : Expr)                      -- `e is None`
  | toInternal (d v : Expr)                -- `d.to_internal_repr(v)`
  | contains (d q : Expr)                  -- `d._contains(q)`
  | single (d : Expr)                      -- `d.single()`
  | sampleIndependent (study trial name d : Expr)   -- `self.study.sampler.sample_independent(study, trial, name, d)`
  | intOf (e : Expr)                       -- `int(e)`
  | isNumeric (d : Expr)                   -- `isinstance(d, (FloatDistribution, IntDistribution))`
  | isCat (d : Expr)                       -- `isinstance(d, CategoricalDistribution)`
  | classOf (d : Expr)                     -- `d.__class__`
  | attrLow (d : Expr) | attrHigh (d : Expr) | attrLog (d : Expr)   -- `d.low`, `d.high`, `d.log`
  | choice0 (d : Expr)                     -- `d.choices[0]`
  | mkFloat (low high log step : Expr)     -- `FloatDistribution(low, high, log=log, step=step)`
  | mkInt (low high log step : Expr)       -- `IntDistribution(low=low, high=high, log=log, step=step)`
  | mkCat (choices : Expr)                 -- `CategoricalDistribution(choices=choices)`
  | call1 (f : Fn) (a : Expr)
  | call2 (f : Fn) (a b : Expr)
  | callSuggestFloat (name low high step log : Expr)   -- `self.suggest_float(name, low, high[, step=…][, log=…])`; omitted keywords = the callee's defaults
deriving DecidableEq, Repr, Inhabited

inductive Stmt where
  | skip
  | seq (a b : Stmt)
  | assign (x : String) (e : Expr)
  | ite (c : Expr) (t e : Stmt)
  | assert (c : Expr)
  | ret (e : Expr)
  | raise (x : Err)                                  -- `raise ValueError(<message>)` etc.
  | eval (e : Expr)                                  -- an expression statement: effects / exceptions only
  | setTrialParam (storage tid name q d : Expr)      -- `<storage>.set_trial_param(<tid>, <name>, <q>, <d>)`
  | setItem (m k v : Expr)                           -- `m[k] = v`
  | warn (w : Warn)                                  -- `warnings.warn(<message>[, <category>])`
deriving DecidableEq, Repr, Inhabited

/-- a statement list -/
def block : List Stmt → Stmt
  | [] => .skip
  | [s] => s
  | s :: rest => .seq s (block rest)

/-! ### values, state, outcomes -/

inductive Val where
  | tok (t : Tok)            -- a parameter value / bool / None / number / str (also the internal representation)
  | dist (d : Dist)
  | obj (o : Obj)
  | tmap (m : TokMap)
  | dmap (m : DistMap)
  | list (l : List Tok)      -- `choices`
  | cls (d : Dist)           -- `d.__class__` (compared with `Dist.sameClass`)
deriving DecidableEq, Repr, Inhabited

inductive Exn where
  | err (e : Err)            -- ValueError / TypeError / KeyError
  | overflow                 -- OverflowError (`int(inf)`)
  | indexError
  | assertion
  | storage                  -- `storage.set_trial_param` raised
  | unrep
deriving DecidableEq, Repr, Inhabited

deriving instance DecidableEq for St

instance {ε α : Type} [DecidableEq ε] [DecidableEq α] : DecidableEq (Except ε α)
  | .ok a, .ok b => if h : a = b then isTrue (by rw [h]) else isFalse (by intro h'; cases h'; exact h rfl)
  | .error a, .error b => if h : a = b then isTrue (by rw [h]) else isFalse (by intro h'; cases h'; exact h rfl)
  | .ok _, .error _ => isFalse (by intro h; cases h)
  | .error _, .ok _ => isFalse (by intro h; cases h)

/-- what the interpreter is run against -/
structure SEnv where
  cx : Ctx
  /-- `distribution.single()` (the code evaluates it on the decimal view of a stepped float: `Suggest.pickS`) -/
  single : Dist → Bool
  /-- `sampler.sample_independent(study, trial, name, distribution)` -/
  indep : String → Dist → Tok
  /-- `storage.set_trial_param` raises (and leaves the storage as it was) -/
  writeFails : Bool

structure MSt where
  st : St
  /-- locals with their provenance -/
  locals : AList (Val × Option Branch) := []
  warns : List Warn := []
  /-- number of `sample_independent` calls -/
  sampled : Nat := 0
deriving DecidableEq, Repr, Inhabited

inductive Flow where
  | next
  | ret (v : Val) (tag : Option Branch)
  | raised (e : Exn)
deriving DecidableEq, Repr, Inhabited

abbrev Res (α : Type) := MSt × Except Exn α

abbrev CallD := Fn → List Val → MSt → Res Val

/-- sequencing of evaluations: the state is threaded, an exception stops -/
def bind1 {α β : Type} (r : Res α) (k : α → MSt → Res β) : Res β :=
  match r with
  | (s, .ok a) => k a s
  | (s, .error e) => (s, .error e)

@[simp] theorem bind1_ok {α β : Type} (s : MSt) (a : α) (k : α → MSt → Res β) : bind1 (s, .ok a) k = k a s := rfl
@[simp] theorem bind1_error {α β : Type} (s : MSt) (e : Exn) (k : α → MSt → Res β) :
    bind1 (s, (.error e : Except Exn α)) k = (s, .error e) := rfl

/-! ### meaning of the leaves -/

/-- Python truthiness of a parameter value -/
def Tok.truthy : Tok → Bool
  | .none => false
  | .bool b => b
  | .int i => i != 0
  | .flt q => q != 0
  | .nan => true | .pinf => true | .ninf => true
  | .str s => s != ""

def truthy : Val → Except Exn Bool
  | .tok t => .ok (Tok.truthy t)
  | _ => .error .unrep

def boolV (b : Bool) : Val := .tok (.bool b)

def tmapGet (E : SEnv) (s : MSt) : TokMap → AList Tok
  | .fixedParams => E.cx.fixed
  | .relativeParams => E.cx.relParams
  | .cacheParams => s.st.params
  | .selfParams => E.cx.fixed
  | .suggestedParams => s.st.params

def dmapGet (E : SEnv) (s : MSt) : DistMap → AList Dist
  | .relativeSpace => E.cx.relSpace
  | .cacheDists => s.st.dists
  | .selfDists => s.st.dists

def keyOf : Val → Option String
  | .tok (.str n) => some n
  | _ => none

def memV (E : SEnv) (s : MSt) (k m : Val) : Except Exn Bool :=
  match keyOf k, m with
  | some n, .tmap tm => .ok ((tmapGet E s tm).get? n).isSome
  | some n, .dmap dm => .ok ((dmapGet E s dm).get? n).isSome
  | _, _ => .error .unrep

def indexV (E : SEnv) (s : MSt) (m k : Val) : Except Exn Val :=
  match keyOf k, m with
  | some n, .tmap tm => match (tmapGet E s tm).get? n with
    | some t => .ok (.tok t)
    | none => .error (.err .keyError)
  | some n, .dmap dm => match (dmapGet E s dm).get? n with
    | some d => .ok (.dist d)
    | none => .error (.err .keyError)
  | _, _ => .error .unrep

def getDV (E : SEnv) (s : MSt) (m k dflt : Val) : Except Exn Val :=
  match keyOf k, m with
  | some n, .tmap tm => match (tmapGet E s tm).get? n with
    | some t => .ok (.tok t)
    | none => .ok dflt
  | some n, .dmap dm => match (dmapGet E s dm).get? n with
    | some d => .ok (.dist d)
    | none => .ok dflt
  | _, _ => .error .unrep

def neV : Val → Val → Except Exn Bool
  | .dist a, .dist b => .ok (!a.pyEq b)
  | .tok a, .tok b => .ok (!a.pyEq b)
  | .cls a, .cls b => .ok (!a.sameClass b)
  | _, _ => .error .unrep

def cmpV (strict : Bool) : Val → Val → Except Exn Bool
  | .tok a, .tok b =>
    match a, b with
    | .nan, _ => .ok false
    | _, .nan => .ok false
    | _, _ =>
      match a.num?, b.num? with
      | some x, some y => .ok (if strict then decide (x < y) else decide (x ≤ y))
      | _, _ => .error .unrep
  | _, _ => .error .unrep

def toInternalV : Val → Val → Except Exn Val
  | .dist d, .tok t => match d.toInternal t with
    | .ok q => .ok (.tok (.flt q))
    | .error e => .error (.err e)
  | _, _ => .error .unrep

def containsV : Val → Val → Except Exn Val
  | .dist d, .tok t => match t.num? with
    | some q => .ok (boolV (d.contains q))
    | none => .error .unrep
  | _, _ => .error .unrep

/-- `int(x)` -/
def intOfV : Val → Except Exn Val
  | .tok (.bool b) => .ok (.tok (.int (if b then 1 else 0)))
  | .tok (.int i) => .ok (.tok (.int i))
  | .tok (.flt q) => .ok (.tok (.int (truncI q)))
  | .tok .nan => .error (.err .valueError)
  | .tok .pinf => .error .overflow
  | .tok .ninf => .error .overflow
  | .tok .none => .error (.err .typeError)
  | .tok (.str _) => .error (.err .valueError)   -- (a numeric-looking string is outside the representation)
  | _ => .error .unrep

def attrLowV : Val → Except Exn Val
  | .dist (.flt _ low _ _ _) => .ok (.tok (.flt low))
  | .dist (.int _ low _ _ _) => .ok (.tok (.int low))
  | _ => .error .unrep

def attrHighV : Val → Except Exn Val
  | .dist (.flt _ _ high _ _) => .ok (.tok (.flt high))
  | .dist (.int _ _ high _ _) => .ok (.tok (.int high))
  | _ => .error .unrep

def attrLogV : Val → Except Exn Val
  | .dist (.flt _ _ _ log _) => .ok (boolV log)
  | .dist (.int _ _ _ log _) => .ok (boolV log)
  | _ => .error .unrep

def choice0V : Val → Except Exn Val
  | .dist (.cat (c :: _)) => .ok (.tok c)
  | .dist (.cat []) => .error .indexError
  | _ => .error .unrep

def isNumericV : Val → Except Exn Val
  | .dist (.flt ..) => .ok (boolV true)
  | .dist (.int ..) => .ok (boolV true)
  | .dist (.cat _) => .ok (boolV false)
  | _ => .error .unrep

def isCatV : Val → Except Exn Val
  | .dist (.cat _) => .ok (boolV true)
  | .dist _ => .ok (boolV false)
  | _ => .error .unrep

def optStepV : Val → Option (Option Rat)
  | .tok .none => some none
  | .tok (.flt q) => some (some q)
  | .tok (.int i) => some (some (i : Rat))
  | _ => none

def mkFloatV (low high log step : Val) : Except Exn Val :=
  match low, high, log, optStepV step with
  | .tok l, .tok h, .tok (.bool lg), some st =>
    match l.num?, h.num? with
    | some lq, some hq => match mkFlt .float lq hq lg st with
      | .ok d => .ok (.dist d)
      | .error e => .error (.err e)
    | _, _ => .error .unrep
  | _, _, _, _ => .error .unrep

def mkIntV (low high log step : Val) : Except Exn Val :=
  match low, high, log, step with
  | .tok (.int l), .tok (.int h), .tok (.bool lg), .tok (.int st) =>
    match mkInt .int l h lg st with
    | .ok d => .ok (.dist d)
    | .error e => .error (.err e)
  | _, _, _, _ => .error .unrep

def mkCatV : Val → Except Exn Val
  | .list l => match mkCat l with
    | .ok d => .ok (.dist d)
    | .error e => .error (.err e)
  | _ => .error .unrep

def getLocal (s : MSt) (x : String) : Except Exn Val :=
  match s.locals.get? x with
  | some (v, _) => .ok v
  | none => .error .unrep

def setLocal (s : MSt) (x : String) (v : Val) (tag : Option Branch) : MSt :=
  { s with locals := s.locals.set x (v, tag) }

/-- provenance of the value of an expression: decided by its syntax (a plain local keeps its tag) -/
def tagOf (s : MSt) : Expr → Option Branch
  | .var x => match s.locals.get? x with
    | some (_, t) => t
    | none => none
  | .index (.tokMap .fixedParams) _ => some .fixed
  | .index (.tokMap .relativeParams) _ => some .relative
  | .index (.tokMap .cacheParams) _ => some .reused
  | .index (.paramsOf _) _ => some .reused
  | .call1 .getSingleValue _ => some .single
  | .sampleIndependent .. => some .independent
  | _ => none

def lift {α : Type} (s : MSt) (r : Except Exn α) : Res α := (s, r)

/-! ### the interpreter -/

def eval (E : SEnv) (callD : CallD) : Expr → MSt → Res Val
  | .var x, s => (s, getLocal s x)
  | .none_, s => (s, .ok (.tok .none))
  | .true_, s => (s, .ok (boolV true))
  | .false_, s => (s, .ok (boolV false))
  | .intLit i, s => (s, .ok (.tok (.int i)))
  | .selfStorage, s => (s, .ok (.obj .storage))
  | .selfTrialId, s => (s, .ok (.obj .trialId))
  | .selfStudy, s => (s, .ok (.obj .study))
  | .selfCache, s => (s, .ok (.obj .cache))
  | .latestTrial, s => (s, .ok (.obj .latestTrial))
  | .filterStudy st tr, s =>
    bind1 (eval E callD st s) fun a s1 => bind1 (eval E callD tr s1) fun b s2 =>
      match a, b with
      | .obj .study, .obj .latestTrial => (s2, .ok (.obj .filteredStudy))
      | .obj .study, .obj .cache => (s2, .ok (.obj .filteredStudy))
      | _, _ => (s2, .error .unrep)
  | .tokMap m, s => (s, .ok (.tmap m))
  | .distMap m, s => (s, .ok (.dmap m))
  | .paramsOf e, s =>
    bind1 (eval E callD e s) fun a s1 =>
      match a with
      | .obj .latestTrial => (s1, .ok (.tmap .cacheParams))
      | .obj .cache => (s1, .ok (.tmap .cacheParams))
      | _ => (s1, .error .unrep)
  | .distsOf e, s =>
    bind1 (eval E callD e s) fun a s1 =>
      match a with
      | .obj .latestTrial => (s1, .ok (.dmap .cacheDists))
      | .obj .cache => (s1, .ok (.dmap .cacheDists))
      | _ => (s1, .error .unrep)
  | .isIn k m, s =>
    bind1 (eval E callD k s) fun a s1 => bind1 (eval E callD m s1) fun b s2 => (s2, (memV E s2 a b).map boolV)
  | .notIn k m, s =>
    bind1 (eval E callD k s) fun a s1 => bind1 (eval E callD m s1) fun b s2 =>
      (s2, (memV E s2 a b).map (fun x => boolV (!x)))
  | .index m k, s =>
    bind1 (eval E callD m s) fun a s1 => bind1 (eval E callD k s1) fun b s2 => (s2, indexV E s2 a b)
  | .getD m k d, s =>
    bind1 (eval E callD m s) fun a s1 => bind1 (eval E callD k s1) fun b s2 => bind1 (eval E callD d s2) fun c s3 =>
      (s3, getDV E s3 a b c)
  | .not e, s =>
    bind1 (eval E callD e s) fun a s1 => (s1, (truthy a).map (fun x => boolV (!x)))
  | .and a b, s =>
    bind1 (eval E callD a s) fun x s1 =>
      match truthy x with
      | .error e => (s1, .error e)
      | .ok false => (s1, .ok x)
      | .ok true => eval E callD b s1
  | .or a b, s =>
    bind1 (eval E callD a s) fun x s1 =>
      match truthy x with
      | .error e => (s1, .error e)
      | .ok true => (s1, .ok x)
      | .ok false => eval E callD b s1
  | .ne a b, s =>
    bind1 (eval E callD a s) fun x s1 => bind1 (eval E callD b s1) fun y s2 => (s2, (neV x y).map boolV)
  | .eq a b, s =>
    bind1 (eval E callD a s) fun x s1 => bind1 (eval E callD b s1) fun y s2 => (s2, (neV x y).map (fun r => boolV (!r)))
  | .le a b, s =>
    bind1 (eval E callD a s) fun x s1 => bind1 (eval E callD b s1) fun y s2 => (s2, (cmpV false x y).map boolV)
  | .lt a b, s =>
    bind1 (eval E callD a s) fun x s1 => bind1 (eval E callD b s1) fun y s2 => (s2, (cmpV true x y).map boolV)
  | .isNone e, s =>
    bind1 (eval E callD e s) fun a s1 => (s1, .ok (boolV (decide (a = .tok .none))))
  | .toInternal d v, s =>
    bind1 (eval E callD d s) fun a s1 => bind1 (eval E callD v s1) fun b s2 => (s2, toInternalV a b)
  | .contains d q, s =>
    bind1 (eval E callD d s) fun a s1 => bind1 (eval E callD q s1) fun b s2 => (s2, containsV a b)
  | .single d, s =>
    bind1 (eval E callD d s) fun a s1 =>
      match a with
      | .dist dd => (s1, .ok (boolV (E.single dd)))
      | _ => (s1, .error .unrep)
  | .sampleIndependent st tr n d, s =>
    bind1 (eval E callD st s) fun a s1 => bind1 (eval E callD tr s1) fun b s2 =>
    bind1 (eval E callD n s2) fun c s3 => bind1 (eval E callD d s3) fun dd s4 =>
      match a, b, keyOf c, dd with
      | .obj .filteredStudy, .obj .latestTrial, some name, .dist dist =>
        ({ s4 with sampled := s4.sampled + 1 }, .ok (.tok (E.indep name dist)))
      | _, _, _, _ => (s4, .error .unrep)
  | .intOf e, s => bind1 (eval E callD e s) fun a s1 => (s1, intOfV a)
  | .isNumeric d, s => bind1 (eval E callD d s) fun a s1 => (s1, isNumericV a)
  | .isCat d, s => bind1 (eval E callD d s) fun a s1 => (s1, isCatV a)
  | .classOf d, s =>
    bind1 (eval E callD d s) fun a s1 =>
      match a with
      | .dist dd => (s1, .ok (.cls dd))
      | _ => (s1, .error .unrep)
  | .attrLow d, s => bind1 (eval E callD d s) fun a s1 => (s1, attrLowV a)
  | .attrHigh d, s => bind1 (eval E callD d s) fun a s1 => (s1, attrHighV a)
  | .attrLog d, s => bind1 (eval E callD d s) fun a s1 => (s1, attrLogV a)
  | .choice0 d, s => bind1 (eval E callD d s) fun a s1 => (s1, choice0V a)
  | .mkFloat low high log step, s =>
    bind1 (eval E callD low s) fun a s1 => bind1 (eval E callD high s1) fun b s2 =>
    bind1 (eval E callD log s2) fun c s3 => bind1 (eval E callD step s3) fun d s4 => (s4, mkFloatV a b c d)
  | .mkInt low high log step, s =>
    bind1 (eval E callD low s) fun a s1 => bind1 (eval E callD high s1) fun b s2 =>
    bind1 (eval E callD log s2) fun c s3 => bind1 (eval E callD step s3) fun d s4 => (s4, mkIntV a b c d)
  | .mkCat ch, s => bind1 (eval E callD ch s) fun a s1 => (s1, mkCatV a)
  | .call1 f a, s => bind1 (eval E callD a s) fun x s1 => callD f [x] s1
  | .call2 f a b, s =>
    bind1 (eval E callD a s) fun x s1 => bind1 (eval E callD b s1) fun y s2 => callD f [x, y] s2
  | .callSuggestFloat n low high step log, s =>
    bind1 (eval E callD n s) fun a s1 => bind1 (eval E callD low s1) fun b s2 =>
    bind1 (eval E callD high s2) fun c s3 => bind1 (eval E callD step s3) fun d s4 =>
    bind1 (eval E callD log s4) fun e s5 => callD .suggestFloat [a, b, c, d, e] s5

def evalCond (E : SEnv) (callD : CallD) (c : Expr) (s : MSt) : Res Bool :=
  bind1 (eval E callD c s) fun v s1 => (s1, truthy v)

def exec (E : SEnv) (callD : CallD) : Stmt → MSt → MSt × Flow
  | .skip, s => (s, .next)
  | .seq a b, s =>
    match exec E callD a s with
    | (s', .next) => exec E callD b s'
    | r => r
  | .assign x e, s =>
    match eval E callD e s with
    | (s', .ok v) => (setLocal s' x v (tagOf s e), .next)
    | (s', .error ex) => (s', .raised ex)
  | .ite c t e, s =>
    match evalCond E callD c s with
    | (s', .error ex) => (s', .raised ex)
    | (s', .ok true) => exec E callD t s'
    | (s', .ok false) => exec E callD e s'
  | .assert c, s =>
    match evalCond E callD c s with
    | (s', .error ex) => (s', .raised ex)
    | (s', .ok true) => (s', .next)
    | (s', .ok false) => (s', .raised .assertion)
  | .ret e, s =>
    match eval E callD e s with
    | (s', .ok v) => (s', .ret v (tagOf s e))
    | (s', .error ex) => (s', .raised ex)
  | .raise x, s => (s, .raised (.err x))
  | .eval e, s =>
    match eval E callD e s with
    | (s', .ok _) => (s', .next)
    | (s', .error ex) => (s', .raised ex)
  | .setTrialParam st tid n q d, s =>
    match (bind1 (eval E callD st s) fun a s1 => bind1 (eval E callD tid s1) fun b s2 =>
           bind1 (eval E callD n s2) fun c s3 => bind1 (eval E callD q s3) fun qq s4 =>
           bind1 (eval E callD d s4) fun dd s5 => (s5, .ok (a, b, c, qq, dd)) : Res (Val × Val × Val × Val × Val)) with
    | (s', .error ex) => (s', .raised ex)
    | (s', .ok (a, b, c, qq, dd)) =>
      match a, b, keyOf c, qq, dd with
      | .obj .storage, .obj .trialId, some name, .tok t, .dist dist =>
        match t.num? with
        | some r =>
          if E.writeFails then (s', .raised .storage)
          else ({ s' with st := { s'.st with stored := s'.st.stored.set name (r, dist) } }, .next)
        | none => (s', .raised .unrep)
      | _, _, _, _, _ => (s', .raised .unrep)
  | .setItem m k v, s =>
    match (bind1 (eval E callD m s) fun a s1 => bind1 (eval E callD k s1) fun b s2 =>
           bind1 (eval E callD v s2) fun c s3 => (s3, .ok (a, b, c)) : Res (Val × Val × Val)) with
    | (s', .error ex) => (s', .raised ex)
    | (s', .ok (a, b, c)) =>
      match a, keyOf b, c with
      | .tmap .cacheParams, some name, .tok t =>
        ({ s' with st := { s'.st with params := s'.st.params.set name t } }, .next)
      | .tmap .suggestedParams, some name, .tok t =>
        ({ s' with st := { s'.st with params := s'.st.params.set name t } }, .next)
      | .dmap .cacheDists, some name, .dist d =>
        ({ s' with st := { s'.st with dists := s'.st.dists.set name d } }, .next)
      | .dmap .selfDists, some name, .dist d =>
        ({ s' with st := { s'.st with dists := s'.st.dists.set name d } }, .next)
      | _, _, _ => (s', .raised .unrep)
  | .warn w, s => ({ s with warns := s.warns ++ [w] }, .next)

/-- a call: fresh locals (the parameters), the caller's locals restored afterwards; falling off the end returns `None` -/
def runFn (E : SEnv) (callD : CallD) (body : Stmt) (params : List String) (args : List Val) (s : MSt) : Res Val :=
  if params.length ≠ args.length then (s, .error .unrep)
  else
    match exec E callD body { s with locals := (params.zip args).map (fun p => (p.1, (p.2, none))) } with
    | (s', .next) => ({ s' with locals := s.locals }, .ok (.tok .none))
    | (s', .ret v _) => ({ s' with locals := s.locals }, .ok v)
    | (s', .raised e) => ({ s' with locals := s.locals }, .error e)

/-! ### the generated functions, composed (a callee's denotation = the interpreter of its own generated body) -/

structure Program where
  getSingleValue : Stmt
  checkCompat : Stmt
  isFixedParam : Stmt
  isRelativeParam : Stmt
  checkDistribution : Stmt
  suggest : Stmt
  suggestFloat : Stmt
  suggestInt : Stmt
  suggestCategorical : Stmt
  suggestUniform : Stmt
  suggestLogUniform : Stmt
  suggestDiscreteUniform : Stmt
  fixedSuggest : Stmt
  frozenSuggest : Stmt
deriving Repr, Inhabited

def noCall : CallD := fun _ _ s => (s, .error .unrep)

/-- `distributions._get_single_value`, `check_distribution_compatibility` -/
def Program.call0 (G : Program) (E : SEnv) : CallD
  | .getSingleValue, a, s => runFn E noCall G.getSingleValue ["distribution"] a s
  | .checkCompat, a, s => runFn E noCall G.checkCompat ["dist_old", "dist_new"] a s
  | _, _, s => (s, .error .unrep)

/-- … plus `_is_fixed_param`, `_is_relative_param`, `_check_distribution` -/
def Program.call1 (G : Program) (E : SEnv) : CallD
  | .isFixedParam, a, s => runFn E (G.call0 E) G.isFixedParam ["name", "distribution"] a s
  | .isRelativeParam, a, s => runFn E (G.call0 E) G.isRelativeParam ["name", "distribution"] a s
  | .checkDistribution, a, s => runFn E (G.call0 E) G.checkDistribution ["name", "distribution"] a s
  | f, a, s => G.call0 E f a s

/-- … plus `_suggest` -/
def Program.call2 (G : Program) (E : SEnv) : CallD
  | .suggest, a, s => runFn E (G.call1 E) G.suggest ["name", "distribution"] a s
  | f, a, s => G.call1 E f a s

/-- … plus `suggest_float` -/
def Program.call3 (G : Program) (E : SEnv) : CallD
  | .suggestFloat, a, s => runFn E (G.call2 E) G.suggestFloat ["name", "low", "high", "step", "log"] a s
  | f, a, s => G.call2 E f a s

/-! ### entry points -/

/-- everything a call of `_suggest` did -/
structure SOut where
  st : St
  warns : List Warn
  sampled : Nat
  res : Except Exn (Tok × Branch)
deriving DecidableEq, Repr, Inhabited

/-- everything a call of a public `suggest_*` did -/
structure AOut where
  st : St
  warns : List Warn
  sampled : Nat
  res : Except Exn Tok
deriving DecidableEq, Repr, Inhabited

def argsND (name : String) (d : Dist) : List (String × Val × Option Branch) :=
  [("name", (.tok (.str name), none)), ("distribution", (.dist d, none))]

/-- what a caller can see of a run: cache + storage rows, warning log, sampler calls, how the body ended
(the locals die with the frame) -/
def outcome (r : MSt × Flow) : St × List Warn × Nat × Flow := (r.1.st, r.1.warns, r.1.sampled, r.2)

def Flow.untag : Flow → Flow
  | .ret v _ => .ret v none
  | f => f

/-- … for the public wrappers, whose result carries no provenance -/
def outcomeA (r : MSt × Flow) : St × List Warn × Nat × Flow := (r.1.st, r.1.warns, r.1.sampled, r.2.untag)

def finishS' : St × List Warn × Nat × Flow → Option SOut
  | (st, w, n, .ret (.tok v) (some br)) => some ⟨st, w, n, .ok (v, br)⟩
  | (st, w, n, .raised e) => some ⟨st, w, n, .error e⟩
  | _ => none

def finishA' : St × List Warn × Nat × Flow → Option AOut
  | (st, w, n, .ret (.tok v) _) => some ⟨st, w, n, .ok v⟩
  | (st, w, n, .raised e) => some ⟨st, w, n, .error e⟩
  | _ => none

def finishS (r : MSt × Flow) : Option SOut := finishS' (outcome r)
def finishA (r : MSt × Flow) : Option AOut := finishA' (outcomeA r)

/-- `Trial._suggest(name, distribution)` on the trial state `st` -/
def interpSuggest (G : Program) (E : SEnv) (st : St) (name : String) (d : Dist) : Option SOut :=
  finishS (exec E (G.call1 E) G.suggest { st := st, locals := argsND name d })

/-- a float argument as the wrappers receive it -/
def fltV (q : Rat) : Val := .tok (.flt q)
def optFltV : Option Rat → Val
  | some q => .tok (.flt q)
  | none => .tok .none

def loc (x : String) (v : Val) : String × Val × Option Branch := (x, (v, none))

/-- `Trial.suggest_float(name, low, high, step=step, log=log)` -/
def interpSuggestFloat (G : Program) (E : SEnv) (st : St) (name : String) (low high : Rat) (step : Option Rat) (log : Bool) :
    Option AOut :=
  finishA (exec E (G.call2 E) G.suggestFloat
    { st := st, locals := [loc "name" (.tok (.str name)), loc "low" (fltV low), loc "high" (fltV high),
                           loc "step" (optFltV step), loc "log" (boolV log)] })

/-- `Trial.suggest_int(name, low, high, step=step, log=log)` -/
def interpSuggestInt (G : Program) (E : SEnv) (st : St) (name : String) (low high step : Int) (log : Bool) : Option AOut :=
  finishA (exec E (G.call2 E) G.suggestInt
    { st := st, locals := [loc "name" (.tok (.str name)), loc "low" (.tok (.int low)), loc "high" (.tok (.int high)),
                           loc "step" (.tok (.int step)), loc "log" (boolV log)] })

/-- `Trial.suggest_categorical(name, choices)` -/
def interpSuggestCategorical (G : Program) (E : SEnv) (st : St) (name : String) (choices : List Tok) : Option AOut :=
  finishA (exec E (G.call2 E) G.suggestCategorical
    { st := st, locals := [loc "name" (.tok (.str name)), loc "choices" (.list choices)] })

/-- the deprecated forwards `suggest_uniform / suggest_loguniform (name, low, high)` -/
def interpForward (G : Program) (E : SEnv) (body : Stmt) (st : St) (name : String) (low high : Rat) : Option AOut :=
  finishA (exec E (G.call3 E) body
    { st := st, locals := [loc "name" (.tok (.str name)), loc "low" (fltV low), loc "high" (fltV high)] })

/-- `suggest_discrete_uniform(name, low, high, q)` -/
def interpForwardQ (G : Program) (E : SEnv) (body : Stmt) (st : St) (name : String) (low high q : Rat) : Option AOut :=
  finishA (exec E (G.call3 E) body
    { st := st, locals := [loc "name" (.tok (.str name)), loc "low" (fltV low), loc "high" (fltV high), loc "q" (fltV q)] })

/-- `FixedTrial._suggest` / `FrozenTrial._suggest` (`Ctx.fixed` = the parameters given at construction) -/
def interpGivenSuggest (G : Program) (E : SEnv) (body : Stmt) (st : St) (name : String) (d : Dist) : Option AOut :=
  finishA (exec E (G.call0 E) body { st := st, locals := argsND name d })

end OptunaVerif.SuggestIR
