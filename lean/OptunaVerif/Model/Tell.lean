import OptunaVerif.Model.Basic
/-
  C02 — implementation-shaped model of how one trial reaches its final state:
    optuna/study/_tell.py      `_check_state_and_values`, `_check_values_are_feasible`, `_tell_with_warning`
    optuna/study/_optimize.py  `_run_trial`, `_optimize_sequential`
    optuna/study/study.py      `Study.tell`, `Study.stop` (the stop flag)
  (the `n_jobs > 1` submit/wait book-keeping of `_optimize` is in Model/Pool.lean).

  A Python value is represented by exactly what the code probes of it:
    * is it `None`; is it a `collections.abc.Sequence` (then: its elements by iteration), else it is
      wrapped into a one-element list;
    * per element: does `float(e)` succeed (then: which float — finite rational, ±inf, NaN) or which
      exception class does it raise.
  So `'5'` is `seq [ok 5]`, `b'5'` is `seq [ok 53]`, `10**400` is `scalar (bad overflowError)`,
  a numpy 1-d array is `scalar (bad typeError)` (it is not a Sequence), and an object whose
  `__float__` raises RuntimeError is `scalar (bad (other c))` (infeasible like the others since the
  `except Exception` repair).  The classifier that maps a concrete
  value to this representation lives in verif/props/c02.py and works by calling `float`,
  `isinstance(·, Sequence)` and `iter` on the value (trusted; `float`/iteration are assumed
  deterministic).
-/
namespace OptunaVerif.Tell
open OptunaVerif

/-- Exception class raised by `float(e)`. `other c` = any other Exception subclass (`c` is an opaque
class id chosen by the harness). -/
inductive CastExc where
  | valueError | typeError | overflowError | other (c : Nat)
deriving DecidableEq, Repr, Inhabited

/-- The `except Exception` clause around `float(v)` in `_check_values_are_feasible` (_tell.py:72): every
exception class of `float(v)` makes the value infeasible (the trial is failed), none propagates.  (Before
the repair "a returned value whose float() raises any exception must fail the trial" only ValueError /
TypeError / OverflowError were named and `other` propagated, leaving the trial RUNNING.)  Tied to the
source text by the translator: `TellGen.castCaught`, theorem `C02.gen_castCaught`. -/
def castCaught : CastExc → Bool
  | .valueError | .typeError | .overflowError => true
  | .other _ => true

inductive Elem where
  | ok (x : XVal)
  | bad (e : CastExc)
deriving DecidableEq, Repr, Inhabited

inductive PyVal where
  | none
  | scalar (e : Elem)
  | seq (l : List Elem)
deriving DecidableEq, Repr, Inhabited

/-- `values` of `_tell_with_warning` (lines 124-129): `None`, the Sequence itself, or `[v]`. -/
def PyVal.elems? : PyVal → Option (List Elem)
  | .none => Option.none
  | .scalar e => some [e]
  | .seq l => some l

/-- Exceptions that can leave `tell` / `_run_trial` / `optimize`, as far as the code distinguishes
them.  `user c`: raised by user code (objective, sampler, callback) with opaque class id `c`;
`cast e`: raised by `float(·)` of a returned value and not caught by the feasibility check. -/
inductive Exc where
  | user (c : Nat)
  | kbd                 -- KeyboardInterrupt (a BaseException that is not an Exception)
  | cast (e : CastExc)
  | valueError | typeError | assertionError | unboundLocalError | updateFinished
deriving DecidableEq, Repr, Inhabited

/-- `except Exception` does not catch it. -/
def Exc.isBase : Exc → Bool
  | .kbd => true
  | _ => false

/-- Why `_check_values_are_feasible` rejects (selects the message). -/
inductive Why where
  | cast | nan | count | none
deriving DecidableEq, Repr, Inhabited

inductive Feas where
  | feasible
  | infeasible (w : Why)
  | raises (e : CastExc)
deriving DecidableEq, Repr, Inhabited

/-- The `for v in values` loop of `_check_values_are_feasible`: the first offending element decides
(early `return`; an uncaught exception of `float(v)` propagates). -/
def scan : List Elem → Feas
  | [] => .feasible
  | .ok x :: t => if x = .nan then .infeasible .nan else scan t
  | .bad e :: _ => if castCaught e then .infeasible .cast else .raises e

/-- `_check_values_are_feasible(study, values)` with `len(study.directions) = nObj`. -/
def checkValuesFeasible (nObj : Nat) (vals : List Elem) : Feas :=
  match scan vals with
  | .feasible => if vals.length = nObj then .feasible else .infeasible .count
  | r => r

/-- `[float(value) for value in values]` (only used after the check succeeded). -/
def floats : List Elem → List XVal
  | [] => []
  | .ok x :: t => x :: floats t
  | .bad _ :: t => floats t

/-- `_check_state_and_values(state, values)`: `true` = raises ValueError.  (Hand model; the
translator regenerates the same function from the source as `TellGen.checkStateAndValues` and
Props/C02 proves them equal.) -/
def checkStateAndValues : Option TState → Bool → Bool
  | some .complete, valuesIsNone => valuesIsNone
  | some .pruned, valuesIsNone => !valuesIsNone
  | some .fail, valuesIsNone => !valuesIsNone
  | some .running, _ => true
  | some .waiting, _ => true
  | none, _ => false

/-! ## the trial record -/

/-- What the storage holds of the trial, as far as this property looks: state, values, and the
intermediate values (dict in insertion order; keys distinct). -/
structure Rec where
  state : TState := .running
  values : Option (List XVal) := none
  inter : List (Nat × XVal) := []
deriving DecidableEq, Repr, Inhabited

def interGet? : List (Nat × XVal) → Nat → Option XVal
  | [], _ => none
  | (s, x) :: t, k => if s = k then some x else interGet? t k

/-- A successful `Trial.report(value, step)`: the first report of a step wins (_trial.py). -/
def report (l : List (Nat × XVal)) (p : Nat × XVal) : List (Nat × XVal) :=
  match interGet? l p.1 with
  | some _ => l
  | none => l ++ [p]

/-- `FrozenTrial.last_step`: the maximal reported step. -/
def lastStep : List (Nat × XVal) → Option Nat
  | [] => none
  | (s, _) :: t =>
    match lastStep t with
    | none => some s
    | some m => some (if m ≤ s then s else m)

/-- `frozen_trial.intermediate_values[frozen_trial.last_step]` -/
def lastReport (l : List (Nat × XVal)) : Option XVal :=
  match lastStep l with
  | none => none
  | some s => interGet? l s

/-- The three finished states (so that "another worker finished the trial" is finished by type). -/
inductive FinState where
  | complete | pruned | fail
deriving DecidableEq, Repr, Inhabited

def FinState.toState : FinState → TState
  | .complete => .complete | .pruned => .pruned | .fail => .fail

/-! ## `_tell_with_warning` -/

structure TellArgs where
  v : PyVal := .none
  state : Option TState := none
  skip : Bool := false        -- skip_if_finished
  suppress : Bool := false    -- suppress_warning (True only from _run_trial)
deriving DecidableEq, Repr, Inhabited

/-- What `pruners._filter_study` + `sampler.after_trial` do inside the `try` of lines 176-181. -/
inductive After where
  | ok
  | raises (c : Nat)      -- an Exception of class id c
  | raisesKbd             -- KeyboardInterrupt while post-processing
deriving DecidableEq, Repr, Inhabited

/-- Environment of one `tell`: the sampler's post-processing, and possibly another worker that
finishes the same trial after `tell` has read it and before `tell` writes it (then
`set_trial_state_values` raises UpdateFinishedTrialError). -/
structure Env where
  after : After := .ok
  interfere : Option (FinState × Option (List XVal)) := none
deriving DecidableEq, Repr, Inhabited

/-- State/values decided by lines 131-173, or the exception raised there. -/
inductive Decision where
  | go (state : FinState) (values : Option (List XVal)) (warn : Option Why)
  | raise (e : Exc)
deriving DecidableEq, Repr, Inhabited

def decideState (nObj : Nat) (r : Rec) (state : Option TState) (values : Option (List Elem)) : Decision :=
  match state with
  | some .complete =>
    match values with
    | none => .raise .valueError
    | some vs =>
      match checkValuesFeasible nObj vs with
      | .feasible => .go .complete (some (floats vs)) none
      | .infeasible _ => .raise .valueError
      | .raises e => .raise (.cast e)
  | some .pruned =>
    match lastReport r.inter with
    | none => .go .pruned none none
    | some x =>
      match checkValuesFeasible nObj [.ok x] with
      | .feasible => .go .pruned (some [x]) none
      | _ => .go .pruned none none
  | some .fail => .go .fail none none
  | none =>
    match values with
    | none => .go .fail none (some .none)
    | some vs =>
      match checkValuesFeasible nObj vs with
      | .feasible => .go .complete (some (floats vs)) none
      | .infeasible w => .go .fail none (some w)
      | .raises e => .raise (.cast e)
  | some _ => .raise .valueError

inductive TellOut where
  /-- returned the trial as re-read from the storage; `warnKey`: STUDY_TELL_WARNING attached to the
  returned copy; `warned`: a `warnings.warn` was issued with this reason -/
  | ok (state : TState) (values : Option (List XVal)) (warnKey : Bool) (warned : Option Why)
  /-- `skip_if_finished` short cut: returned a copy of the finished trial -/
  | skipped (state : TState) (values : Option (List XVal))
  | raised (e : Exc)
deriving DecidableEq, Repr, Inhabited

/-- `storage.set_trial_state_values(id, state, values)` on a RUNNING trial: `values=None` leaves the
stored values alone. -/
def Rec.store (r : Rec) (st : FinState) (vals : Option (List XVal)) : Rec :=
  { r with state := st.toState, values := match vals with | some v => some v | none => r.values }

/-- Lines 175-187: `try: after_trial  finally: set_trial_state_values`, then re-read the trial. -/
def postProcess (env : Env) (r : Rec) (st : FinState) (vals : Option (List XVal)) (warn : Option Why)
    (suppress : Bool) : Rec × TellOut :=
  match env.interfere with
  | some (st', vals') =>
    -- the other worker's write landed first; ours raises (and replaces any after_trial error)
    ({ r with state := st'.toState, values := vals' }, .raised .updateFinished)
  | none =>
    let r' := r.store st vals
    match env.after with
    | .raises c => (r', .raised (.user c))
    | .raisesKbd => (r', .raised .kbd)
    | .ok => (r', .ok r'.state r'.values (suppress && warn.isSome) (if suppress then none else warn))

/-- `_tell_with_warning(study, trial, value_or_values, state, skip_if_finished, suppress_warning)` on
the trial whose stored record is `r`.  Returns the record afterwards and what the call did. -/
def tell (nObj : Nat) (env : Env) (r : Rec) (a : TellArgs) : Rec × TellOut :=
  if r.state.isFinished && a.skip then (r, .skipped r.state r.values)
  else if r.state != .running then (r, .raised .valueError)
  else
    let values := a.v.elems?
    if checkStateAndValues a.state values.isNone then (r, .raised .valueError)
    else
      match decideState nObj r a.state values with
      | .raise e => (r, .raised e)
      | .go st vals warn => postProcess env r st vals warn a.suppress

/-- How `Study.tell`'s `trial` argument resolves (`_get_frozen_trial`). -/
inductive Lookup where
  | found          -- a Trial object, or the number of an existing trial
  | unknownNumber  -- an int that is no trial number of the study  -> ValueError
  | badType        -- neither Trial nor int                         -> TypeError
deriving DecidableEq, Repr, Inhabited

/-- `Study.tell(trial, values, state, skip_if_finished)`. -/
def studyTell (nObj : Nat) (env : Env) (lk : Lookup) (r : Rec) (a : TellArgs) : Rec × TellOut :=
  match lk with
  | .unknownNumber => (r, .raised .valueError)
  | .badType => (r, .raised .typeError)
  | .found => tell nObj env r { a with suppress := false }

/-! ## `_run_trial` -/

structure Cfg where
  nObj : Nat
  /-- `isinstance(func_err, catch)` -/
  catches : Exc → Bool

/-- What the objective did with its trial. -/
inductive Outcome where
  | ret (v : PyVal)
  | pruned            -- raised TrialPruned (or a subclass)
  | exc (e : Exc)     -- raised another Exception (`user c`) or KeyboardInterrupt (`kbd`)
deriving DecidableEq, Repr, Inhabited

structure Script where
  /-- the `Trial.report(value, step)` calls that returned normally, in order -/
  reports : List (Nat × XVal) := []
  out : Outcome := .ret .none
  /-- the trial was finished by somebody else (another worker's fail_stale_trials, or the objective
  itself calling `study.tell`) before `_run_trial` tells it -/
  pre : Option (FinState × Option (List XVal)) := none
  env : Env := {}
deriving DecidableEq, Repr, Inhabited

structure RunOut where
  /-- the stored record when `_run_trial` returns or raises -/
  final : Rec
  /-- the exception leaving `_run_trial` -/
  raised : Option Exc
deriving DecidableEq, Repr, Inhabited

/-- The `finally:` block of `_run_trial` (lines 223-245): `true` = `assert False, "Should not reach."`. -/
def finallyAsserts (st : TState) (hasFuncErr warnKey : Bool) : Bool :=
  match st with
  | .complete => false
  | .pruned => false
  | .fail => !(hasFuncErr || warnKey)
  | _ => true

def Script.initRec (s : Script) : Rec :=
  let r0 : Rec := { inter := s.reports.foldl report [] }
  match s.pre with
  | none => r0
  | some (st, v) => { r0 with state := st.toState, values := v }

/-- `func_err is not None` -/
def Script.hasFuncErr (s : Script) : Bool :=
  match s.out with
  | .ret _ => false
  | _ => true

/-- The arguments `_run_trial` passes to `_tell_with_warning` (lines 194-219). -/
def Script.tellArgs (s : Script) : TellArgs :=
  match s.out with
  | .ret v => { v := v, state := none, skip := false, suppress := true }
  | .pruned => { v := .none, state := some .pruned, skip := false, suppress := true }
  | .exc _ => { v := .none, state := some .fail, skip := false, suppress := true }

/-- Lines 212-253 of `_run_trial`, given what `_tell_with_warning` did. -/
def afterTell (cfg : Cfg) (s : Script) (r2 : Rec) : TellOut → RunOut
  | .ok st _ wk _ =>
    if finallyAsserts st s.hasFuncErr wk then ⟨r2, some .assertionError⟩
    else
      match s.out with
      | .exc e => if st = .fail && !cfg.catches e then ⟨r2, some e⟩ else ⟨r2, none⟩
      | _ => ⟨r2, none⟩
  | .skipped _ _ => ⟨r2, none⟩   -- not reachable: skip_if_finished is False here
  | .raised e =>
    -- `except Exception: frozen_trial = storage.get_trial(..); raise`, then the `finally:` block
    if e.isBase then ⟨r2, some .unboundLocalError⟩
    else if finallyAsserts r2.state s.hasFuncErr false then ⟨r2, some .assertionError⟩
    else ⟨r2, some e⟩

/-- `_run_trial(study, func, catch)` after `study.ask()` returned the trial. -/
def runTrial (cfg : Cfg) (s : Script) : RunOut :=
  let t := tell cfg.nObj s.env s.initRec s.tellArgs
  afterTell cfg s t.1 t.2

/-! ## `_optimize_sequential` -/

/-- One invocation of one callback. -/
structure CbAct where
  stop : Bool := false            -- calls study.stop()
  raises : Option Nat := none     -- raises an Exception of class id c (after a possible stop())
deriving DecidableEq, Repr, Inhabited

/-- Everything trial number `i` of the loop will meet. -/
structure TrialPlan where
  /-- `study.ask()` inside `_run_trial` raises (sampler.before_trial / infer_relative_search_space /
  a fixed distribution raise an Exception of class id c): the trial has been created RUNNING;
  `Study.ask` fails it (`except (Exception, KeyboardInterrupt): set_trial_state_values(FAIL); raise`)
  and the exception leaves `_run_trial`, which calls `ask()` outside every `try` -/
  askRaises : Option Nat := none
  script : Script := {}
  sleep : Nat := 0                -- (virtual) seconds the objective takes
  stopInObj : Bool := false       -- the objective calls study.stop()
  cbs : List CbAct := []          -- what each callback does when called for this trial
deriving DecidableEq, Repr, Inhabited

/-- `for callback in callbacks: callback(study, frozen_trial)` for trial `i`, starting at callback
index `j`: the invocation log, whether stop() was called, the exception that ended the loop. -/
def runCallbacks (i : Nat) : Nat → List CbAct → List (Nat × Nat) × Bool × Option Nat
  | _, [] => ([], false, none)
  | j, a :: t =>
    match a.raises with
    | some c => ([(i, j)], a.stop, some c)
    | none =>
      let (l, st, r) := runCallbacks i (j + 1) t
      ((i, j) :: l, a.stop || st, r)

/-- `_run_trial` including its `study.ask()` (line 192, outside every `try`). -/
def runPlan (cfg : Cfg) (p : TrialPlan) : RunOut :=
  match p.askRaises with
  | some c => ⟨{ state := .fail }, some (.user c)⟩
  | none => runTrial cfg p.script

structure SeqOut where
  trials : List RunOut := []           -- one entry per trial that was started, in order
  cbLog : List (Nat × Nat) := []       -- (trial index, callback index) per callback invocation
  raised : Option Exc := none          -- the exception leaving the loop
  stopFlag : Bool := false             -- study._stop_flag at the end
  exhausted : Bool := false            -- the plan list ran out although the loop would go on
deriving DecidableEq, Repr, Inhabited

/-- The three `break` tests at the head of the `while True:` loop. -/
def loopBreaks (nTrials timeout : Option Nat) (i elapsed : Nat) (stop : Bool) : Bool :=
  stop
    || (match nTrials with | some n => decide (n ≤ i) | none => false)
    || (match timeout with | some t => decide (t ≤ elapsed) | none => false)

/-- `_optimize_sequential` from iteration `i` on (`elapsed` virtual seconds after `time_start`,
stop flag `stop`), the remaining trials behaving as `plans`. -/
def optimizeSeq (cfg : Cfg) (nTrials timeout : Option Nat) :
    List TrialPlan → Nat → Nat → Bool → SeqOut
  | [], i, el, stop => { stopFlag := stop, exhausted := !loopBreaks nTrials timeout i el stop }
  | p :: ps, i, el, stop =>
    if loopBreaks nTrials timeout i el stop then { stopFlag := stop }
    else
      let ro := runPlan cfg p
      let stop1 := stop || p.stopInObj
      match ro.raised with
      | some e => { trials := [ro], raised := some e, stopFlag := stop1 }
      | none =>
        match runCallbacks i 0 p.cbs with
        | (log, cbStop, some c) =>
          { trials := [ro], cbLog := log, raised := some (.user c), stopFlag := stop1 || cbStop }
        | (log, cbStop, none) =>
          let rest := optimizeSeq cfg nTrials timeout ps (i + 1) (el + p.sleep) (stop1 || cbStop)
          { rest with trials := ro :: rest.trials, cbLog := log ++ rest.cbLog }

end OptunaVerif.Tell
