import OptunaVerif.Model.Tell
/-
  A small statement language for the bodies of

      optuna/study/_tell.py      `_check_state_and_values`, `_check_values_are_feasible`, `_tell_with_warning`
      optuna/study/_optimize.py  `_run_trial`, `_optimize_sequential`
      optuna/study/study.py      the tail of `Study.ask`, `Study._pop_waiting_trial_id`

  and its interpreter.  `verif/translators/ttell.py` reads the Python source with `ast` on every run
  and emits every one of those bodies as DATA of the type `Stmt` below into
  `Generated/TellMethods.lean`.  `Props/C02Gen.lean` (and `Props/C04Gen.lean` for the pop loop, over
  `Model/QueueIR.lean`) then prove, for all inputs, `interp (generated body) = hand model`
  (`Model/Tell.lean`, `Model/Queue.lean`), so that every theorem of Props/C02 / C04 holds of
  code-derived definitions and a source edit breaks a named proof obligation.

  The CONTROL FLOW is given meaning once, generically (`exec`): sequencing, `if/elif/else`, `assert`,
  `raise` / bare `raise`, `return`, `break` / `continue`, `try/except` (handlers in source order, the
  classes named; an exception raised inside a handler is not offered to the later handlers),
  `try/finally` (the `finally` block runs whatever the body did and its own raise/return/break wins),
  `for … in` over a list evaluated once, `with` (emitted as enter; try body finally exit).

  The PRIMITIVES (`Prim` conditions, `Act` actions, `RaiseExpr`, `RetExpr`, `Iter`) each stand for ONE
  whitelisted source shape, written next to the constructor; their denotation on the state of the hand
  model is *meaning given here* (modelled, not derived from the source) in the `Machine`s below:

    feasM   `_check_values_are_feasible`   values = list of `Elem` (what `float(v)` does per element)
    csvM    `_check_state_and_values`
    tellM   `_tell_with_warning`           the stored record, the locals, the sampler's post-processing
                                           (`Env.after`), another worker's write (`Env.interfere`)
    askM    tail of `Study.ask`            the trial exists RUNNING after pop-or-create; `Trial(...)` /
                                           fixed suggests raise or not (`askRaises`)
    runM    `_run_trial`                   objective outcome (`Script`), `catch`
    seqM    loop body of `_optimize_sequential`   per-trial plan, virtual clock, stop flag, callbacks

  A callee (`_check_state_and_values`, `_check_values_are_feasible`, `_tell_with_warning`, `study.ask`,
  `_run_trial`) is a parameter of the caller's machine: its denotation is the interpreter applied to the
  callee's own generated body (see `Props/C02Gen.lean`, `gen*`).

  `unrep` marks "the Python object is in a state this representation cannot express / a local is
  unbound / a primitive is used outside its whitelisted context"; every `interp*` answers `none` then,
  and since the equality theorems say `interp … = some (hand model …)` they fail.
-/
namespace OptunaVerif.TellIR
open OptunaVerif OptunaVerif.Tell

/-! ### syntax -/

/-- exception classes an `except` clause may name -/
inductive Cls where
  | baseException | exception | keyboardInterrupt | optunaError | trialPruned | updateFinishedTrialError
  | valueError | typeError | overflowError | arithmeticError | keyError | lookupError | runtimeError
  | assertionError | unboundLocalError | nameError
deriving DecidableEq, Repr, Inhabited

/-- primitive conditions; `x is not None` is emitted as `not (xIsNone)`, `!=` as `not (==)` -/
inductive Prim where
  -- locals / parameters of _tell.py
  | stateIs (s : TState)          -- `state == TrialState.S`
  | stateIn (l : List TState)     -- `state in (TrialState.A, TrialState.B, …)`
  | stateIsNone                   -- `state is None`
  | valuesIsNone                  -- `values is None`
  | vovIsNone                     -- `value_or_values is None`
  | vovIsSequence                 -- `isinstance(value_or_values, Sequence)`
  | msgIsNone                     -- `values_conversion_failure_message is None`
  | warnMsgIsNone                 -- `warning_message is None`
  | lastStepIsNone                -- `last_step is None`
  | lastFeasibleIsNone            -- `_check_values_are_feasible(study, [last_intermediate_value]) is None`
  | skipIfFinished                -- `skip_if_finished`
  | suppressWarning               -- `suppress_warning`
  | frozenFinished                -- `frozen_trial.state.is_finished()`
  | frozenStateIs (s : TState)    -- `frozen_trial.state == TrialState.S`
  | floatVIsNan                   -- `math.isnan(float(v))`
  | countMismatch                 -- `len(study.directions) != len(values)`
  -- _optimize.py
  | heartbeatEnabled              -- `is_heartbeat_enabled(study._storage)`
  | funcErrIsNone                 -- `func_err is None`
  | funcErrIsCatch                -- `isinstance(func_err, catch)`
  | warnKeyInFrozen               -- `STUDY_TELL_WARNING_KEY in frozen_trial.system_attrs`
  | stopFlag                      -- `study._stop_flag`
  | nTrialsIsNone                 -- `n_trials is None`
  | trialCountReached             -- `i_trial >= n_trials`
  | timeoutIsNone                 -- `timeout is None`
  | elapsedReached                -- `elapsed_seconds >= timeout`
  | timeStartIsNone               -- `time_start is None`
  | gcAfterTrial                  -- `gc_after_trial`
  | callbacksIsNone               -- `callbacks is None`
  | progressBarIsNone             -- `progress_bar is None`
  | reseedSamplerRng              -- `reseed_sampler_rng`
  -- study.py
  | trialIdIsNone                 -- `trial_id is None`
  | casAnswer                     -- `self._storage.set_trial_state_values(trial._trial_id, state=TrialState.RUNNING)` (its answer)
  -- _get_frozen_trial
  | trialIsTrial                  -- `isinstance(trial, optuna.Trial)`
  | trialIsInt                    -- `isinstance(trial, int)`
deriving DecidableEq, Repr, Inhabited

inductive Cond where
  | tt | ff
  | not (c : Cond)
  | and (a b : Cond)              -- short-circuit, as in Python
  | or (a b : Cond)
  | prim (p : Prim)
deriving DecidableEq, Repr, Inhabited

inductive Act where
  -- _tell_with_warning
  | invalidateCache               -- `study._thread_local.cached_all_trials = None` / `self._thread_local.cached_all_trials = None`
  | getFrozenTrial                -- `frozen_trial = _get_frozen_trial(study, trial)`
  | logInfo                       -- `_logger.info(<f-string>)`
  | valuesNone                    -- `values = None`
  | valuesFromVov                 -- `values = value_or_values`
  | valuesWrapVov                 -- `values = [value_or_values]`
  | callCheckStateAndValues       -- `_check_state_and_values(state, values)`
  | warnMsgNone                   -- `warning_message = None`
  | callFeasibleValues            -- `values_conversion_failure_message = _check_values_are_feasible(study, values)`
  | loadLastStep                  -- `last_step = frozen_trial.last_step`
  | loadLastIntermediate          -- `last_intermediate_value = frozen_trial.intermediate_values[last_step]`
  | valuesLastIntermediate        -- `values = [last_intermediate_value]`
  | msgNoneValue                  -- `values_conversion_failure_message = "The value None could not be cast to float."`
  | setState (s : Option TState)  -- `state = TrialState.S` / `state = None`
  | warn                          -- `warnings.warn(values_conversion_failure_message)`
  | warnMsgFromMsg                -- `warning_message = values_conversion_failure_message`
  | castValues                    -- `values = [float(value) for value in values]`
  | filterStudy                   -- `study = pruners._filter_study(study, frozen_trial)`
  | afterTrial                    -- `study.sampler.after_trial(study, frozen_trial, state, values)`
  | storeStateValues              -- `study._storage.set_trial_state_values(frozen_trial._trial_id, state, values)`
  | rereadFrozenTrial             -- `frozen_trial = copy.deepcopy(study._storage.get_trial(frozen_trial._trial_id))`
  | setWarnKey                    -- `frozen_trial._system_attrs[STUDY_TELL_WARNING_KEY] = warning_message`
  -- _check_values_are_feasible
  | floatV                        -- `float(v)`
  -- _run_trial
  | failStaleTrials               -- `optuna.storages.fail_stale_trials(study)`
  | callAsk                       -- `trial = study.ask()`
  | vovNone                       -- `value_or_values = None`
  | funcErrNone                   -- `func_err = None`
  | excInfoNone                   -- `func_err_fail_exc_info = None`
  | excInfoCapture                -- `func_err_fail_exc_info = sys.exc_info()`
  | heartbeatEnter                -- `with get_heartbeat_thread(trial._trial_id, study._storage):`  __enter__
  | heartbeatExit                 --                                                              __exit__
  | callObjective                 -- `value_or_values = func(trial)`
  | funcErrFromCaught             -- `func_err = e`   (`e` bound by the enclosing `except … as e`)
  | callTell (skip suppress : Bool)  -- `frozen_trial = _tell_with_warning(study=study, trial=trial, value_or_values=value_or_values, state=state[, skip_if_finished=…][, suppress_warning=…])`
  | frozenFromStorage             -- `frozen_trial = study._storage.get_trial(trial._trial_id)`
  | logCompleted                  -- `study._log_completed_trial(frozen_trial)`
  | logFailed                     -- `_log_failed_trial(frozen_trial, …)`
  -- _optimize_sequential
  | enterOptimizeLoop             -- `study._thread_local.in_optimize_loop = True`
  | reseedRng                     -- `study.sampler.reseed_rng()`
  | initTrialCount                -- `i_trial = 0`
  | initTimeStart                 -- `time_start = datetime.datetime.now()`
  | bumpTrialCount                -- `i_trial += 1`
  | readElapsed                   -- `elapsed_seconds = (datetime.datetime.now() - time_start).total_seconds()`
  | callRunTrial                  -- `frozen_trial = _run_trial(study, func, catch)`
  | gcCollect                     -- `gc.collect()`
  | callCallback                  -- `callback(study, frozen_trial)`
  | progressUpdate                -- `progress_bar.update(elapsed_seconds, study)`
  | removeSession                 -- `study._storage.remove_session()`
  -- Study.ask / Study._pop_waiting_trial_id
  | popWaiting                    -- `trial_id = self._pop_waiting_trial_id()`
  | createNewTrial                -- `trial_id = self._storage.create_new_trial(self._study_id)`
  | newTrialObject                -- `trial = optuna.Trial(self, trial_id)`
  | suggestFixed                  -- `trial._suggest(name, param)`
  | failTrial                     -- `self._storage.set_trial_state_values(trial_id, TrialState.FAIL)`
  | logDebugPopped                -- `_logger.debug("Trial {} popped from the trial queue.".format(trial.number))`
  -- _get_frozen_trial, Study.tell
  | trialIdFromTrial              -- `trial_id = trial._trial_id`
  | trialNumberFromArg            -- `trial_number = trial`
  | lookupTrialNumber             -- `trial_id = study._storage.get_trial_id_from_study_id_trial_number(study._study_id, trial_number)`
  | tellFromStudy (suppress : Bool)  -- `_tell_with_warning(study=self, trial=trial, value_or_values=values, state=state, skip_if_finished=skip_if_finished[, suppress_warning=…])` (the value of the `return`)
deriving DecidableEq, Repr, Inhabited

inductive RaiseExpr where
  | valueError                    -- `raise ValueError(<message>)` (also `… from e`, `e` bound by the enclosing handler)
  | typeError                     -- `raise TypeError(<message>)`
  | runtimeError                  -- `raise RuntimeError(<message>)`
  | funcErr                       -- `raise func_err`
deriving DecidableEq, Repr, Inhabited

inductive RetExpr where
  | none                          -- `return` / `return None`
  | msg (w : Why)                 -- `return <message>` of `_check_values_are_feasible` (classified by its text)
  | frozenCopy                    -- `return copy.deepcopy(frozen_trial)`
  | frozenTrial                   -- `return frozen_trial`
  | trial                         -- `return trial`
  | trialId                       -- `return trial._trial_id`
  | storedTrial                   -- `return study._storage.get_trial(trial_id)`
  | callResult                    -- `return <call>`: the value of the call emitted just before (`tellFromStudy`)
deriving DecidableEq, Repr, Inhabited

inductive Iter where
  | values                        -- `for v in values:`
  | callbacks                     -- `for callback in callbacks:`
  | fixedDistributions            -- `for name, param in fixed_distributions.items():`
  | waitingTrials                 -- `for trial in self._storage.get_all_trials(self._study_id, deepcopy=False, states=(TrialState.WAITING,)):`
deriving DecidableEq, Repr, Inhabited

inductive Stmt where
  | skip
  | seq (a b : Stmt)
  | ite (c : Cond) (t e : Stmt)
  | assert (c : Cond)             -- `assert c` ; `assert False, "…"` is `assert ff`
  | eval (c : Cond)               -- an expression statement whose value is dropped (only its effects / exceptions count)
  | raise (x : RaiseExpr)
  | reraise                       -- bare `raise`; also the end of a handler chain (no clause matched)
  | ret (r : RetExpr)
  | brk | cont
  /-- `try: body except …: … else: orelse` with `handlers` a chain `onExc cls₁ h₁ (onExc cls₂ h₂ … reraise)`;
  `orelse` runs when the body fell off its end, outside the reach of the handlers -/
  | tryExcept (body handlers orelse : Stmt)
  | onExc (cls : List Cls) (h rest : Stmt)
  | tryFinally (body fin : Stmt)
  | forIn (it : Iter) (body : Stmt)
  /-- `while True:` — not executable here (no bound); the loop is driven from Lean (`seqLoop`) -/
  | whileTrue (body : Stmt)
  | act (a : Act)
deriving DecidableEq, Repr, Inhabited

/-- a statement list -/
def block : List Stmt → Stmt
  | [] => .skip
  | [s] => s
  | s :: rest => .seq s (block rest)

/-- first statement / the rest of a sequence (used by the proofs to step through a generated body) -/
def Stmt.hd : Stmt → Stmt
  | .seq a _ => a
  | s => s
def Stmt.tl : Stmt → Stmt
  | .seq _ b => b
  | _ => .skip

/-! ### generic control flow -/

inductive Flow (ε : Type) where
  | next
  | brk
  | cont
  | ret (r : RetExpr)
  | raised (e : ε)
deriving DecidableEq, Repr, Inhabited

/-- meaning of the primitives over a state `σ`, exceptions `ε`, loop items `ι` -/
structure Machine (σ ε ι : Type) where
  /-- a primitive condition (it may have an effect — the CAS — and may raise); the `Option ε` is the
  exception being handled (`except … as e`) -/
  prim : Prim → Option ε → σ → σ × Except ε Bool
  act : Act → Option ε → σ → σ × Option ε
  mkExc : RaiseExpr → σ → ε
  /-- classes the exception is an instance of -/
  mro : ε → List Cls
  items : Iter → σ → σ × Except ε (List ι)
  bind : Iter → ι → σ → σ
  unrep : ε
  assertionError : ε

variable {σ ε ι : Type}

def evalCond (M : Machine σ ε ι) : Cond → Option ε → σ → σ × Except ε Bool
  | .tt, _, s => (s, .ok true)
  | .ff, _, s => (s, .ok false)
  | .not c, cur, s =>
    match evalCond M c cur s with
    | (s', .ok b) => (s', .ok (!b))
    | r => r
  | .and a b, cur, s =>
    match evalCond M a cur s with
    | (s', .ok true) => evalCond M b cur s'
    | r => r
  | .or a b, cur, s =>
    match evalCond M a cur s with
    | (s', .ok false) => evalCond M b cur s'
    | r => r
  | .prim p, cur, s => M.prim p cur s

/-- `for x in xs: body` with `xs` already evaluated -/
def forLoop (f : σ → σ × Flow ε) (bind : ι → σ → σ) : List ι → σ → σ × Flow ε
  | [], s => (s, .next)
  | x :: xs, s =>
    match f (bind x s) with
    | (s', .next) => forLoop f bind xs s'
    | (s', .cont) => forLoop f bind xs s'
    | (s', .brk) => (s', .next)
    | r => r

/-- does an `except` clause naming `cls` catch `e` -/
def catches (mro : ε → List Cls) (cls : List Cls) (e : ε) : Bool := cls.any (fun c => (mro e).contains c)

def exec (M : Machine σ ε ι) : Stmt → Option ε → σ → σ × Flow ε
  | .skip, _, s => (s, .next)
  | .seq a b, cur, s =>
    match exec M a cur s with
    | (s', .next) => exec M b cur s'
    | r => r
  | .ite c t e, cur, s =>
    match evalCond M c cur s with
    | (s', .error x) => (s', .raised x)
    | (s', .ok true) => exec M t cur s'
    | (s', .ok false) => exec M e cur s'
  | .assert c, cur, s =>
    match evalCond M c cur s with
    | (s', .error x) => (s', .raised x)
    | (s', .ok true) => (s', .next)
    | (s', .ok false) => (s', .raised M.assertionError)
  | .eval c, cur, s =>
    match evalCond M c cur s with
    | (s', .error x) => (s', .raised x)
    | (s', .ok _) => (s', .next)
  | .raise x, _, s => (s, .raised (M.mkExc x s))
  | .reraise, cur, s =>
    match cur with
    | some e => (s, .raised e)
    | none => (s, .raised M.unrep)
  | .ret r, _, s => (s, .ret r)
  | .brk, _, s => (s, .brk)
  | .cont, _, s => (s, .cont)
  | .tryExcept body handlers orelse, cur, s =>
    match exec M body cur s with
    | (s', .raised e) => exec M handlers (some e) s'
    | (s', .next) => exec M orelse cur s'
    | r => r
  | .onExc cls h rest, cur, s =>
    match cur with
    | none => (s, .raised M.unrep)
    | some e => if catches M.mro cls e then exec M h cur s else exec M rest cur s
  | .tryFinally body fin, cur, s =>
    match exec M body cur s with
    | (s1, fl) =>
      match exec M fin cur s1 with
      | (s2, .next) => (s2, fl)
      | r => r
  | .forIn it body, cur, s =>
    match M.items it s with
    | (s', .error e) => (s', .raised e)
    | (s', .ok xs) => forLoop (exec M body cur) (M.bind it) xs s'
  | .whileTrue _, _, s => (s, .raised M.unrep)
  | .act a, cur, s =>
    match M.act a cur s with
    | (s', none) => (s', .next)
    | (s', some e) => (s', .raised e)

/-! ### exceptions of the C02 machines -/

inductive Exn where
  | pruned                 -- an instance of TrialPruned (or a subclass)
  | exc (e : Exc)
  | unrep
deriving DecidableEq, Repr, Inhabited

def castMro : CastExc → List Cls
  | .valueError => [.valueError, .exception, .baseException]
  | .typeError => [.typeError, .exception, .baseException]
  | .overflowError => [.overflowError, .arithmeticError, .exception, .baseException]
  | .other _ => [.exception, .baseException]

/-- `user c` is an opaque subclass of Exception (not of a class the code names) -/
def excMro : Exc → List Cls
  | .user _ => [.exception, .baseException]
  | .kbd => [.keyboardInterrupt, .baseException]
  | .cast e => castMro e
  | .valueError => [.valueError, .exception, .baseException]
  | .typeError => [.typeError, .exception, .baseException]
  | .assertionError => [.assertionError, .exception, .baseException]
  | .unboundLocalError => [.unboundLocalError, .nameError, .exception, .baseException]
  | .updateFinished => [.updateFinishedTrialError, .optunaError, .runtimeError, .exception, .baseException]

def Exn.mro : Exn → List Cls
  | .pruned => [.trialPruned, .optunaError, .exception, .baseException]
  | .exc e => excMro e
  | .unrep => []

def noItems : Iter → σ → σ × Except Exn (List Unit) := fun _ s => (s, .error .unrep)

/-! ### `_check_values_are_feasible` -/

structure FeasSt where
  nObj : Nat
  values : List Elem
  v : Option Elem := none
deriving Repr, Inhabited

def feasM : Machine FeasSt Exn Elem where
  prim p _ s := match p with
    | .floatVIsNan => match s.v with
      | some (.ok x) => (s, .ok (decide (x = .nan)))
      | some (.bad c) => (s, .error (.exc (.cast c)))
      | none => (s, .error .unrep)
    | .countMismatch => (s, .ok (s.nObj != s.values.length))
    | _ => (s, .error .unrep)
  act a _ s := match a with
    | .floatV => match s.v with
      | some (.ok _) => (s, none)
      | some (.bad c) => (s, some (.exc (.cast c)))
      | none => (s, some .unrep)
    | _ => (s, some .unrep)
  mkExc _ _ := .unrep
  mro := Exn.mro
  items it s := match it with
    | .values => (s, .ok s.values)
    | _ => (s, .error .unrep)
  bind _ e s := { s with v := some e }
  unrep := .unrep
  assertionError := .exc .assertionError

def finishFeas : FeasSt × Flow Exn → Option Feas
  | (_, .ret .none) => some .feasible
  | (_, .ret (.msg w)) => some (.infeasible w)
  | (_, .raised (.exc (.cast c))) => some (.raises c)
  | _ => none

/-- `_check_values_are_feasible(study, values)` with `len(study.directions) = nObj` -/
def interpFeas (body : Stmt) (nObj : Nat) (vals : List Elem) : Option Feas :=
  finishFeas (exec feasM body none { nObj := nObj, values := vals })

/-! ### `_check_state_and_values` -/

structure CsvSt where
  state : Option TState
  valuesIsNone : Bool
deriving Repr, Inhabited

def csvM : Machine CsvSt Exn Unit where
  prim p _ s := match p with
    | .stateIs st => (s, .ok (s.state == some st))
    | .stateIn l => (s, .ok (l.any (fun st => s.state == some st)))
    | .stateIsNone => (s, .ok s.state.isNone)
    | .valuesIsNone => (s, .ok s.valuesIsNone)
    | _ => (s, .error .unrep)
  act _ _ s := (s, some .unrep)
  mkExc x _ := match x with
    | .valueError => .exc .valueError
    | .typeError => .exc .typeError
    | _ => .unrep
  mro := Exn.mro
  items := noItems
  bind _ _ s := s
  unrep := .unrep
  assertionError := .exc .assertionError

/-- `true` = raises ValueError -/
def finishCsv : CsvSt × Flow Exn → Option Bool
  | (_, .next) => some false
  | (_, .ret .none) => some false
  | (_, .raised (.exc .valueError)) => some true
  | _ => none

def interpCsv (body : Stmt) (state : Option TState) (valuesIsNone : Bool) : Option Bool :=
  finishCsv (exec csvM body none { state := state, valuesIsNone := valuesIsNone })

/-! ### `_get_frozen_trial` -/

/-- what the `trial` argument of `Study.tell` is -/
inductive How where
  | trialObject      -- an `optuna.Trial`
  | knownNumber      -- an `int` (a `bool` included) that is the number of a trial of the study
  | unknownNumber    -- an `int` that is not
  | badType          -- anything else
deriving DecidableEq, Repr, Inhabited

def How.lookup : How → Lookup
  | .trialObject => .found
  | .knownNumber => .found
  | .unknownNumber => .unknownNumber
  | .badType => .badType

inductive LExn where
  | keyError | valueError | typeError | unrep
deriving DecidableEq, Repr, Inhabited

def LExn.mro : LExn → List Cls
  | .keyError => [.keyError, .lookupError, .exception, .baseException]
  | .valueError => [.valueError, .exception, .baseException]
  | .typeError => [.typeError, .exception, .baseException]
  | .unrep => []

structure LookSt where
  /-- local `trial_id` is bound (to the id of an existing trial) -/
  haveId : Bool := false
deriving Repr, Inhabited

def lookM (how : How) : Machine LookSt LExn Unit where
  prim p _ s := match p with
    | .trialIsTrial => (s, .ok (decide (how = .trialObject)))
    | .trialIsInt => (s, .ok (decide (how = .knownNumber) || decide (how = .unknownNumber)))
    | _ => (s, .error .unrep)
  act a _ s := match a with
    | .trialIdFromTrial => if how = .trialObject then ({ s with haveId := true }, none) else (s, some .unrep)
    | .trialNumberFromArg => (s, none)
    | .lookupTrialNumber => match how with
      | .knownNumber => ({ s with haveId := true }, none)
      | .unknownNumber => (s, some .keyError)
      | _ => (s, some .unrep)
    | _ => (s, some .unrep)
  mkExc x _ := match x with
    | .valueError => .valueError
    | .typeError => .typeError
    | _ => .unrep
  mro := LExn.mro
  items _ s := (s, .error .unrep)
  bind _ _ s := s
  unrep := .unrep
  assertionError := .unrep

def finishLook : LookSt × Flow LExn → Option Lookup
  | (s, .ret .storedTrial) => if s.haveId then some .found else none
  | (_, .raised .valueError) => some .unknownNumber
  | (_, .raised .typeError) => some .badType
  | _ => none

/-- `_get_frozen_trial(study, trial)`: the trial is found, or ValueError / TypeError -/
def interpLookup (body : Stmt) (how : How) : Option Lookup := finishLook (exec (lookM how) body none {})

/-! ### `Study.tell` -/

structure PubSt where
  result : Option (Option (Rec × TellOut)) := none

def pubM (tellD : TellArgs → Option (Rec × TellOut)) (a : TellArgs) : Machine PubSt Exn Unit where
  prim _ _ s := (s, .error .unrep)
  act x _ s := match x with
    | .tellFromStudy sup => ({ s with result := some (tellD { a with suppress := sup }) }, none)
    | _ => (s, some .unrep)
  mkExc _ _ := .unrep
  mro := Exn.mro
  items := noItems
  bind _ _ s := s
  unrep := .unrep
  assertionError := .unrep

/-- `Study.tell(trial, values, state, skip_if_finished)`, `_tell_with_warning` answering `tellD` -/
def interpStudyTell (body : Stmt) (tellD : TellArgs → Option (Rec × TellOut)) (a : TellArgs) : Option (Rec × TellOut) :=
  match exec (pubM tellD a) body none {} with
  | (s, .ret .callResult) => s.result.join
  | _ => none

/-! ### `_tell_with_warning` -/

structure TellParams where
  nObj : Nat
  env : Env
  lk : Lookup
  args : TellArgs
  /-- denotation of `_check_state_and_values` -/
  csvD : Option TState → Bool → Option Bool
  /-- denotation of `_check_values_are_feasible` -/
  feasD : Nat → List Elem → Option Feas

structure TellSt where
  /-- the stored record of the trial -/
  stored : Rec
  /-- local `frozen_trial` (a snapshot; `none` = unbound) and whether STUDY_TELL_WARNING_KEY was put into it -/
  frozen : Option Rec := none
  warnKey : Bool := false
  /-- local `state` -/
  state : Option TState
  /-- local `values`; after `castValues` every element is `.ok` (the floats) -/
  values : Option (List Elem) := none
  msg : Option Why := none            -- values_conversion_failure_message (`none` = None)
  warnMsg : Option Why := none        -- warning_message
  warned : Option Why := none         -- a `warnings.warn` was issued with this reason
  lastStep : Option Nat := none
  lastInter : Option XVal := none
deriving Repr, Inhabited

/-- first element whose `float()` raises -/
def firstBad : List Elem → Option CastExc
  | [] => none
  | .ok _ :: t => firstBad t
  | .bad c :: _ => some c

def finOf : TState → Option FinState
  | .complete => some .complete
  | .pruned => some .pruned
  | .fail => some .fail
  | _ => none

def tellM (P : TellParams) : Machine TellSt Exn Unit where
  prim p _ s := match p with
    | .stateIs st => (s, .ok (s.state == some st))
    | .stateIn l => (s, .ok (l.any (fun st => s.state == some st)))
    | .stateIsNone => (s, .ok s.state.isNone)
    | .valuesIsNone => (s, .ok s.values.isNone)
    | .vovIsNone => (s, .ok (match P.args.v with | .none => true | _ => false))
    | .vovIsSequence => (s, .ok (match P.args.v with | .seq _ => true | _ => false))
    | .msgIsNone => (s, .ok s.msg.isNone)
    | .warnMsgIsNone => (s, .ok s.warnMsg.isNone)
    | .lastStepIsNone => (s, .ok s.lastStep.isNone)
    | .lastFeasibleIsNone => match s.lastInter with
      | none => (s, .error .unrep)
      | some x => match P.feasD P.nObj [.ok x] with
        | some .feasible => (s, .ok true)
        | some (.infeasible _) => (s, .ok false)
        | some (.raises c) => (s, .error (.exc (.cast c)))
        | none => (s, .error .unrep)
    | .skipIfFinished => (s, .ok P.args.skip)
    | .suppressWarning => (s, .ok P.args.suppress)
    | .frozenFinished => match s.frozen with
      | some f => (s, .ok f.state.isFinished)
      | none => (s, .error .unrep)
    | .frozenStateIs st => match s.frozen with
      | some f => (s, .ok (f.state == st))
      | none => (s, .error .unrep)
    | _ => (s, .error .unrep)
  act a _ s := match a with
    | .invalidateCache => (s, none)
    | .getFrozenTrial => match P.lk with
      | .found => ({ s with frozen := some s.stored }, none)
      | .unknownNumber => (s, some (.exc .valueError))
      | .badType => (s, some (.exc .typeError))
    | .logInfo => (s, none)
    | .valuesNone => ({ s with values := none }, none)
    | .valuesFromVov => match P.args.v with
      | .seq l => ({ s with values := some l }, none)
      | _ => (s, some .unrep)
    | .valuesWrapVov => match P.args.v with
      | .scalar e => ({ s with values := some [e] }, none)
      | _ => (s, some .unrep)
    | .callCheckStateAndValues => match P.csvD s.state s.values.isNone with
      | some true => (s, some (.exc .valueError))
      | some false => (s, none)
      | none => (s, some .unrep)
    | .warnMsgNone => ({ s with warnMsg := none }, none)
    | .callFeasibleValues => match s.values with
      | none => (s, some .unrep)
      | some vs => match P.feasD P.nObj vs with
        | some .feasible => ({ s with msg := none }, none)
        | some (.infeasible w) => ({ s with msg := some w }, none)
        | some (.raises c) => (s, some (.exc (.cast c)))
        | none => (s, some .unrep)
    | .loadLastStep => match s.frozen with
      | some f => ({ s with lastStep := lastStep f.inter }, none)
      | none => (s, some .unrep)
    | .loadLastIntermediate => match s.frozen, s.lastStep with
      | some f, some k => match interGet? f.inter k with
        | some x => ({ s with lastInter := some x }, none)
        | none => (s, some .unrep)
      | _, _ => (s, some .unrep)
    | .valuesLastIntermediate => match s.lastInter with
      | some x => ({ s with values := some [.ok x] }, none)
      | none => (s, some .unrep)
    | .msgNoneValue => ({ s with msg := some .none }, none)
    | .setState st => ({ s with state := st }, none)
    | .warn => match s.msg with
      | some w => ({ s with warned := some w }, none)
      | none => (s, some .unrep)
    | .warnMsgFromMsg => ({ s with warnMsg := s.msg }, none)
    | .castValues => match s.values with
      | none => (s, some .unrep)
      | some vs => match firstBad vs with
        | some c => (s, some (.exc (.cast c)))
        | none => (s, none)
    | .filterStudy => (s, none)
    | .afterTrial => match P.env.after with
      | .ok => (s, none)
      | .raises c => (s, some (.exc (.user c)))
      | .raisesKbd => (s, some (.exc .kbd))
    | .storeStateValues => match s.state.bind finOf with
      | none => (s, some .unrep)
      | some st => match P.env.interfere with
        | some (st', vals') =>
          ({ s with stored := { s.stored with state := st'.toState, values := vals' } }, some (.exc .updateFinished))
        | none => ({ s with stored := s.stored.store st (s.values.map floats) }, none)
    | .rereadFrozenTrial => ({ s with frozen := some s.stored, warnKey := false }, none)
    | .setWarnKey => match s.frozen, s.warnMsg with
      | some _, some _ => ({ s with warnKey := true }, none)
      | _, _ => (s, some .unrep)
    | _ => (s, some .unrep)
  mkExc x _ := match x with
    | .valueError => .exc .valueError
    | .typeError => .exc .typeError
    | _ => .unrep
  mro := Exn.mro
  items := noItems
  bind _ _ s := s
  unrep := .unrep
  assertionError := .exc .assertionError

def finishTell : TellSt × Flow Exn → Option (Rec × TellOut)
  | (s, .ret .frozenTrial) => match s.frozen with
    | some f => some (s.stored, .ok f.state f.values s.warnKey s.warned)
    | none => none
  | (s, .ret .frozenCopy) => match s.frozen with
    | some f => some (s.stored, .skipped f.state f.values)
    | none => none
  | (s, .raised (.exc e)) => some (s.stored, .raised e)
  | _ => none

/-- `_tell_with_warning(study, trial, value_or_values, state, skip_if_finished, suppress_warning)` on the
trial whose stored record is `r` (`lk`: how the `trial` argument resolves) -/
def interpTell (body : Stmt) (P : TellParams) (r : Rec) : Option (Rec × TellOut) :=
  finishTell (exec (tellM P) body none { stored := r, state := P.args.state })

/-! ### tail of `Study.ask` -/

structure AskParams where
  /-- `_pop_waiting_trial_id()` found a queued trial (else a new one is created) -/
  popFound : Bool
  /-- `Trial(...)` (sampler.before_trial, relative search space / sample) or a fixed suggest raises -/
  askRaises : Option Nat

structure AskSt where
  /-- the trial's record once it exists -/
  stored : Option Rec := none
  /-- the local `trial` is bound -/
  trial : Bool := false
deriving Repr, Inhabited

def askM (P : AskParams) : Machine AskSt Exn Unit where
  prim p _ s := match p with
    | .trialIdIsNone => (s, .ok s.stored.isNone)
    | _ => (s, .error .unrep)
  act a _ s := match a with
    | .invalidateCache => (s, none)
    | .popWaiting => if P.popFound then ({ s with stored := some {} }, none) else (s, none)
    | .createNewTrial => match s.stored with
      | none => ({ s with stored := some {} }, none)
      | some _ => (s, some .unrep)
    | .newTrialObject => match s.stored, P.askRaises with
      | none, _ => (s, some .unrep)
      | some _, some c => (s, some (.exc (.user c)))
      | some _, none => ({ s with trial := true }, none)
    | .suggestFixed => (s, none)
    | .failTrial => match s.stored with
      | some r => ({ s with stored := some (r.store .fail none) }, none)
      | none => (s, some .unrep)
    | _ => (s, some .unrep)
  mkExc _ _ := .unrep
  mro := Exn.mro
  items it s := match it with
    | .fixedDistributions => (s, .ok [])      -- a raising fixed suggest is part of `askRaises`
    | _ => (s, .error .unrep)
  bind _ _ s := s
  unrep := .unrep
  assertionError := .exc .assertionError

def finishAsk : AskSt × Flow Exn → Option (Rec × Option Exc)
  | (s, .ret .trial) => match s.stored, s.trial with
    | some r, true => some (r, none)
    | _, _ => none
  | (s, .raised (.exc e)) => match s.stored with
    | some r => some (r, some e)
    | none => none
  | _ => none

/-- the tail of `Study.ask` from `trial_id = self._pop_waiting_trial_id()` on: the record of the trial
handed out (or failed), and the exception leaving `ask` -/
def interpAsk (body : Stmt) (P : AskParams) : Option (Rec × Option Exc) :=
  finishAsk (exec (askM P) body none {})

/-! ### `_run_trial` -/

structure RunParams where
  cfg : Cfg
  /-- `is_heartbeat_enabled(study._storage)` -/
  hb : Bool
  script : Script
  /-- denotation of `study.ask()` for this trial -/
  askD : Option (Rec × Option Exc)
  /-- denotation of `_tell_with_warning` on this trial -/
  tellD : Rec → TellArgs → Option (Rec × TellOut)

structure RunSt where
  stored : Rec := {}
  haveTrial : Bool := false
  state : Option TState := none
  vov : PyVal := .none
  funcErr : Option Exn := none
  /-- local `frozen_trial`, as far as the code inspects it: its state, and
  `STUDY_TELL_WARNING_KEY in frozen_trial.system_attrs`; `none` = unbound -/
  frozen : Option (TState × Bool) := none
deriving Repr, Inhabited

def runM (P : RunParams) : Machine RunSt Exn Unit where
  prim p _ s := match p with
    | .heartbeatEnabled => (s, .ok P.hb)
    | .frozenStateIs st => match s.frozen with
      | some f => (s, .ok (f.1 == st))
      | none => (s, .error (.exc .unboundLocalError))
    | .funcErrIsNone => (s, .ok s.funcErr.isNone)
    | .funcErrIsCatch => match s.funcErr with
      | some (.exc e) => (s, .ok (P.cfg.catches e))
      | _ => (s, .error .unrep)
    | .warnKeyInFrozen => match s.frozen with
      | some f => (s, .ok f.2)
      | none => (s, .error (.exc .unboundLocalError))
    | _ => (s, .error .unrep)
  act a cur s := match a with
    | .failStaleTrials => (s, none)
    | .callAsk => match P.askD with
      | none => (s, some .unrep)
      | some (r, some e) => ({ s with stored := r }, some (.exc e))
      | some (r, none) => ({ s with stored := r, haveTrial := true }, none)
    | .setState st => ({ s with state := st }, none)
    | .vovNone => ({ s with vov := .none }, none)
    | .funcErrNone => ({ s with funcErr := none }, none)
    | .excInfoNone => (s, none)
    | .excInfoCapture => (s, none)
    | .heartbeatEnter => (s, none)
    | .heartbeatExit => (s, none)
    | .callObjective =>
      if s.haveTrial then
        match P.script.out with
        | .ret v => ({ s with stored := P.script.initRec, vov := v }, none)
        | .pruned => ({ s with stored := P.script.initRec }, some .pruned)
        | .exc e => ({ s with stored := P.script.initRec }, some (.exc e))
      else (s, some .unrep)
    | .funcErrFromCaught => match cur with
      | some e => ({ s with funcErr := some e }, none)
      | none => (s, some .unrep)
    | .callTell skip suppress =>
      if s.haveTrial then
        match P.tellD s.stored { v := s.vov, state := s.state, skip := skip, suppress := suppress } with
        | none => (s, some .unrep)
        | some (r2, .ok st _ wk _) => ({ s with stored := r2, frozen := some (st, wk) }, none)
        | some (r2, .skipped st _) => ({ s with stored := r2, frozen := some (st, false) }, none)
        | some (r2, .raised e) => ({ s with stored := r2 }, some (.exc e))
      else (s, some .unrep)
    | .frozenFromStorage => ({ s with frozen := some (s.stored.state, false) }, none)
    | .logCompleted => (s, none)
    | .logInfo => (s, none)
    | .logFailed => (s, none)
    | _ => (s, some .unrep)
  mkExc x s := match x with
    | .funcErr => s.funcErr.getD .unrep
    | _ => .unrep
  mro := Exn.mro
  items := noItems
  bind _ _ s := s
  unrep := .unrep
  assertionError := .exc .assertionError

def finishRun : RunSt × Flow Exn → Option RunOut
  | (s, .ret .frozenTrial) => match s.frozen with
    | some _ => some ⟨s.stored, none⟩
    | none => none
  | (s, .raised (.exc e)) => some ⟨s.stored, some e⟩
  | _ => none

/-- `_run_trial(study, func, catch)` -/
def interpRun (body : Stmt) (P : RunParams) : Option RunOut :=
  finishRun (exec (runM P) body none {})

/-! ### `_optimize_sequential` -/

structure SeqParams where
  nTrials : Option Nat
  timeout : Option Nat
  gc : Bool
  /-- `callbacks is not None` -/
  cbGiven : Bool
  /-- `progress_bar is not None` -/
  pbGiven : Bool
  /-- denotation of `_run_trial` for a trial that meets this plan -/
  runD : TrialPlan → Option RunOut

structure SeqSt where
  /-- what the trial this iteration would start will meet; `none` = the plan list ran out -/
  plan : Option TrialPlan
  /-- index of that trial (for the callback log) -/
  idx : Nat
  iTrial : Nat                     -- local `i_trial`
  clock : Nat                      -- virtual seconds since `time_start`
  stop : Bool                      -- `study._stop_flag`
  elapsed : Nat := 0               -- local `elapsed_seconds`
  started : Option RunOut := none  -- the trial this iteration ran
  frozen : Bool := false           -- local `frozen_trial` bound by this iteration
  cb : Option (Nat × CbAct) := none
  cbLog : List (Nat × Nat) := []
  exhausted : Bool := false
deriving Repr, Inhabited

/-- `enumerate(l, j)` -/
def enumFrom {α : Type} : Nat → List α → List (Nat × α)
  | _, [] => []
  | j, a :: t => (j, a) :: enumFrom (j + 1) t

def seqM (P : SeqParams) : Machine SeqSt Exn (Nat × CbAct) where
  prim p _ s := match p with
    | .stopFlag => (s, .ok s.stop)
    | .nTrialsIsNone => (s, .ok P.nTrials.isNone)
    | .trialCountReached => match P.nTrials with
      | some n => (s, .ok (decide (n ≤ s.iTrial)))
      | none => (s, .error .unrep)
    | .timeoutIsNone => (s, .ok P.timeout.isNone)
    | .elapsedReached => match P.timeout with
      | some t => (s, .ok (decide (t ≤ s.elapsed)))
      | none => (s, .error .unrep)
    | .gcAfterTrial => (s, .ok P.gc)
    | .callbacksIsNone => (s, .ok (!P.cbGiven))
    | .progressBarIsNone => (s, .ok (!P.pbGiven))
    | _ => (s, .error .unrep)
  act a _ s := match a with
    | .bumpTrialCount => ({ s with iTrial := s.iTrial + 1 }, none)
    | .readElapsed => ({ s with elapsed := s.clock }, none)
    | .callRunTrial => match s.plan with
      | none => ({ s with exhausted := true }, some .unrep)
      | some p => match P.runD p with
        | none => (s, some .unrep)
        | some ro =>
          let s1 := { s with started := some ro, stop := s.stop || p.stopInObj, clock := s.clock + p.sleep }
          match ro.raised with
          | some e => (s1, some (.exc e))
          | none => ({ s1 with frozen := true }, none)
    | .gcCollect => (s, none)
    | .callCallback => match s.cb, s.frozen with
      | some (j, a), true =>
        let s1 := { s with cbLog := s.cbLog ++ [(s.idx, j)], stop := s.stop || a.stop }
        match a.raises with
        | some c => (s1, some (.exc (.user c)))
        | none => (s1, none)
      | _, _ => (s, some .unrep)
    | .progressUpdate => (s, none)
    | _ => (s, some .unrep)
  mkExc _ _ := .unrep
  mro := Exn.mro
  items it s := match it with
    | .callbacks => match s.plan, P.cbGiven with
      | some p, true => (s, .ok (enumFrom 0 p.cbs))
      | _, _ => (s, .error .unrep)
    | _ => (s, .error .unrep)
  bind _ x s := { s with cb := some x }
  unrep := .unrep
  assertionError := .exc .assertionError

/-- `while True: body` of `_optimize_sequential`, iteration `i` on (local `i_trial = it`, `el` virtual
seconds after `time_start`, stop flag `stop`), the remaining trials behaving as the plan list: one
`exec` of the generated loop body per iteration -/
def seqLoop (body : Stmt) (P : SeqParams) : List TrialPlan → Nat → Nat → Nat → Bool → Option SeqOut
  | [], i, it, el, stop =>
    match exec (seqM P) body none { plan := none, idx := i, iTrial := it, clock := el, stop := stop } with
    | (s, .brk) => some { stopFlag := s.stop, exhausted := false }
    | (s, .raised .unrep) => if s.exhausted then some { stopFlag := s.stop, exhausted := true } else none
    | _ => none
  | p :: ps, i, it, el, stop =>
    match exec (seqM P) body none { plan := some p, idx := i, iTrial := it, clock := el, stop := stop } with
    | (s, .brk) => some { stopFlag := s.stop }
    | (s, .raised (.exc e)) =>
      some { trials := s.started.toList, cbLog := s.cbLog, raised := some e, stopFlag := s.stop }
    | (s, .next) =>
      match s.started, seqLoop body P ps (i + 1) s.iTrial s.clock s.stop with
      | some ro, some rest => some { rest with trials := ro :: rest.trials, cbLog := s.cbLog ++ rest.cbLog }
      | _, _ => none
    | _ => none

/-- the statements of `_optimize_sequential` around its `while True:` loop, with their meaning for the
model: none of them touches a trial -/
def seqFrame : Stmt → Option (List Stmt × Stmt × List Stmt)
  | .seq (.whileTrue b) rest => some ([], b, [rest])
  | .whileTrue b => some ([], b, [])
  | .seq a rest => match seqFrame rest with
    | some (pre, b, post) => some (a :: pre, b, post)
    | none => none
  | _ => none

/-! ### the generated functions, composed (a callee's denotation = the interpreter of its generated body) -/

structure Program where
  checkStateAndValues : Stmt
  checkValuesAreFeasible : Stmt
  tellWithWarning : Stmt
  runTrial : Stmt
  optimizeSequential : Stmt
  optimizeSequentialLoop : Stmt
  ask : Stmt
  popWaitingTrialId : Stmt
  getFrozenTrial : Stmt
  studyTell : Stmt
deriving Repr, Inhabited

/-- `_tell_with_warning` over the generated `_check_state_and_values` / `_check_values_are_feasible` -/
def Program.tell (G : Program) (nObj : Nat) (env : Env) (lk : Lookup) (r : Rec) (a : TellArgs) :
    Option (Rec × TellOut) :=
  interpTell G.tellWithWarning
    { nObj := nObj, env := env, lk := lk, args := a, csvD := interpCsv G.checkStateAndValues,
      feasD := interpFeas G.checkValuesAreFeasible } r

/-- `Study.tell` over the generated `_get_frozen_trial` and `_tell_with_warning` -/
def Program.publicTell (G : Program) (nObj : Nat) (env : Env) (how : How) (r : Rec) (a : TellArgs) :
    Option (Rec × TellOut) :=
  interpStudyTell G.studyTell
    (fun a' => match interpLookup G.getFrozenTrial how with
      | none => none
      | some lk => G.tell nObj env lk r a') a

/-- `_run_trial` over the generated `Study.ask` tail and `_tell_with_warning` -/
def Program.runPlan (G : Program) (cfg : Cfg) (hb popFound : Bool) (p : TrialPlan) : Option RunOut :=
  interpRun G.runTrial
    { cfg := cfg, hb := hb, script := p.script,
      askD := interpAsk G.ask { popFound := popFound, askRaises := p.askRaises },
      tellD := fun r a => G.tell cfg.nObj p.script.env .found r a }

/-- flags of `_optimize_sequential` the hand model does not have (they must not matter) -/
structure SeqFlags where
  hb : Bool := false          -- heartbeat enabled
  popFound : Bool := false    -- every `ask` finds a queued trial
  gc : Bool := false          -- gc_after_trial
  pbGiven : Bool := false     -- progress_bar is not None
  cbGiven : Bool := true      -- callbacks is not None
deriving DecidableEq, Repr, Inhabited

/-- `callbacks=None`: for the hand model that is "no callbacks" -/
def stripCbs (given : Bool) (p : TrialPlan) : TrialPlan := if given then p else { p with cbs := [] }

/-- the loop of `_optimize_sequential` over the generated `_run_trial` -/
def Program.optimizeSeq (G : Program) (cfg : Cfg) (fl : SeqFlags) (nT to : Option Nat)
    (plans : List TrialPlan) (i it el : Nat) (stop : Bool) : Option SeqOut :=
  seqLoop G.optimizeSequentialLoop
    { nTrials := nT, timeout := to, gc := fl.gc, cbGiven := fl.cbGiven, pbGiven := fl.pbGiven,
      runD := G.runPlan cfg fl.hb fl.popFound } plans i it el stop

end OptunaVerif.TellIR
